import GoPipeline.Model.Val
import GoPipeline.Driver.C05
import GoPipeline.Driver.C15
import GoPipeline.Driver.C11
import GoPipeline.Driver.C12
import GoPipeline.Driver.C17
import GoPipeline.Driver.C18
import GoPipeline.Driver.C16
import GoPipeline.Driver.C04
import GoPipeline.Driver.C10
import GoPipeline.Driver.Sig
import GoPipeline.Driver.C07
import GoPipeline.Driver.Parse
open GoPipeline

/-- Generic stateful line loop. -/
partial def loop {σ : Type} (step : σ → List Char → σ × String) (h out : IO.FS.Stream) (s : σ) : IO Unit := do
  let line ← h.getLine
  if line.isEmpty then return ()
  let cs := line.toList
  let cs := if cs.getLast? == some '\n' then cs.dropLast else cs
  let (s', ans) := step s (unescapeLine cs)
  out.putStrLn ans
  loop step h out s'

def echoStep (_ : Unit) (cs : List Char) : Unit × String :=
  match parseArgs cs with
  | some vs => ((), escapeStr (String.join (vs.map Val.enc)))
  | none => ((), "bad")

def main (args : List String) : IO UInt32 := do
  let inp ← IO.getStdin
  let out ← IO.getStdout
  match args with
  | ["echo"] => loop echoStep inp out ()
  | ["c05"] => loop DriverC05.step inp out {}
  | ["c15"] => loop DriverC15.step inp out ()
  | ["c11"] => loop DriverC11.step inp out none
  | ["c12"] => loop DriverC12.step inp out ()
  | ["c17"] => loop DriverC17.step inp out ()
  | ["c18"] => loop DriverC18.step inp out ()
  | ["c16"] => loop DriverC16.step inp out ()
  | ["c04"] => loop DriverC04.step inp out ()
  | ["c10"] => loop DriverC10.step inp out ()
  | ["sig"] => loop DriverSig.step inp out ()
  | ["c07"] => loop DriverC07.step inp out ()
  | ["parse"] => loop DriverParse.step inp out ()
  | _ => do IO.eprintln "usage: driver <mode>"; return 2
  out.flush
  return 0
