import GoPipeline.Model.Val
