/-
  C04 with collisions — the ordered-map walk of `Model/Interp.lean` IS the abstract in-iteration
  `Replace` walk `OMap.aRangeReplace` that C05 proves the concrete slot/tombstone map refines, and
  what that walk (and the Go-map walk) produces when renamed keys collide.
-/
import GoPipeline.Lemmas.Interp
import GoPipeline.Lemmas.OMap
import GoPipeline.Lemmas.EnvBlock
namespace GoPipeline.Interp
open GoPipeline GoPipeline.Pipe

variable {E : Type}

/-! ## B1 — `interpOMap` is `aRangeReplace` -/

/-- The callback `interpolateOrderedMap` hands to `Range`: new key, interpolated value. -/
def omapCb (tf : String → Except E String) (k : String) (v : Val) : Except E (String × Val) :=
  match tf k with
  | .error e => .error e
  | .ok k' =>
    match interpVal tf v with
    | .error e => .error e
    | .ok v' => .ok (k', v')

/-- Entries of the part not yet visited that no earlier rename has removed. -/
def liveRest {α : Type} (dead : List String) (rest : List (String × α)) : List (String × α) :=
  rest.filter (fun p => !dead.contains p.1)

theorem liveRest_cons_dead {α : Type} {dead : List String} {k : String} (v : α) (rest : List (String × α))
    (h : dead.contains k = true) : liveRest dead ((k, v) :: rest) = liveRest dead rest := by
  unfold liveRest
  rw [List.filter_cons_of_neg (by simpa using h)]

theorem liveRest_cons_live {α : Type} {dead : List String} {k : String} (v : α) (rest : List (String × α))
    (h : dead.contains k = false) : liveRest dead ((k, v) :: rest) = (k, v) :: liveRest dead rest := by
  unfold liveRest
  rw [List.filter_cons_of_pos (by simpa using h)]

theorem adelete_liveRest {α : Type} (dead : List String) (k' : String) (rest : List (String × α)) :
    OMap.adelete (liveRest dead rest) k' = liveRest (k' :: dead) rest := by
  unfold OMap.adelete liveRest
  rw [List.filter_filter]
  apply List.filter_congr
  intro p _
  by_cases h : p.1 = k' <;> simp [h]

theorem interpOMap_is_rangeReplace_gen (tf : String → Except E String) :
    ∀ (rest done : List (String × Val)) (dead : List String),
      interpOMap tf done dead rest = OMap.aRangeReplace (omapCb tf) done (liveRest dead rest) := by
  intro rest
  induction rest with
  | nil => intro done dead; simp [interpOMap, liveRest, OMap.aRangeReplace_nil]
  | cons p rest ih =>
    intro done dead
    obtain ⟨k, v⟩ := p
    rw [interpOMap]
    cases hd : dead.contains k with
    | true =>
      simp only [if_true]
      rw [liveRest_cons_dead v rest hd, ih]
    | false =>
      simp only [Bool.false_eq_true, if_false]
      rw [liveRest_cons_live v rest hd]
      cases hk : tf k with
      | error e =>
        have hf : omapCb tf k v = .error e := by simp [omapCb, hk]
        rw [OMap.aRangeReplace_cons_error hf]
      | ok k' =>
        cases hv : interpVal tf v with
        | error e =>
          have hf : omapCb tf k v = .error e := by simp [omapCb, hk, hv]
          rw [OMap.aRangeReplace_cons_error hf]
        | ok v' =>
          have hf : omapCb tf k v = .ok (k', v') := by simp [omapCb, hk, hv]
          simp only
          by_cases hkk : k' = k
          · subst hkk
            simp only [beq_self_eq_true, if_true]
            rw [OMap.aRangeReplace_cons_same hf, ih]
          · have hb : (k' == k) = false := by simpa using hkk
            simp only [hb, Bool.false_eq_true, if_false]
            rw [OMap.aRangeReplace_cons_ne hf hkk, ih, adelete_liveRest]
            rfl

theorem interpOMap_is_rangeReplace (tf : String → Except E String) (kvs : List (String × Val)) :
    interpOMap tf [] [] kvs = OMap.aRangeReplace (omapCb tf) [] kvs := by
  have h := interpOMap_is_rangeReplace_gen tf kvs [] []
  have hl : liveRest [] kvs = kvs := by simp [liveRest]
  rw [hl] at h
  exact h

/-! ## B3 — the ordered walk with collisions, for a transformer that never fails

  Two passes describe the result.  `visited`: the entries the range reaches — an entry is skipped
  when an earlier *visited* entry was renamed onto its key.  `lastPerKey`: of the visited entries
  mapped to the same new key only the last one is left (a rename drops whatever has that name). -/

section Walk
variable {α : Type}

/-- The entries the range cursor reaches, given the keys `dead` already removed ahead of it. -/
def visitedFrom (g : String → String) (dead : List String) : List (String × α) → List (String × α)
  | [] => []
  | (k, v) :: rest =>
    if dead.contains k then visitedFrom g dead rest
    else (k, v) :: visitedFrom g (if g k == k then dead else g k :: dead) rest

/-- The keys removed ahead of the cursor once it has passed `l`. -/
def deadFrom (g : String → String) (dead : List String) : List (String × α) → List String
  | [] => dead
  | (k, _) :: rest =>
    if dead.contains k then deadFrom g dead rest
    else deadFrom g (if g k == k then dead else g k :: dead) rest

def visited (g : String → String) (kvs : List (String × α)) : List (String × α) := visitedFrom g [] kvs

/-- Keep an entry iff no later entry is mapped to the same new key. -/
def lastPerKey (g : String → String) : List (String × α) → List (String × α)
  | [] => []
  | (k, v) :: rest =>
    if rest.any (fun q => g q.1 == g k) then lastPerKey g rest else (k, v) :: lastPerKey g rest

/-- The input entries whose images make up the result of the ordered walk. -/
def survivors (g : String → String) (kvs : List (String × α)) : List (String × α) :=
  lastPerKey g (visited g kvs)

theorem visitedFrom_sublist (g : String → String) : ∀ (l : List (String × α)) (dead : List String),
    (visitedFrom g dead l).Sublist l
  | [], _ => by simp [visitedFrom]
  | (k, v) :: rest, dead => by
    unfold visitedFrom
    split
    · exact (visitedFrom_sublist g rest dead).cons _
    · exact (visitedFrom_sublist g rest _).cons_cons _

theorem lastPerKey_sublist (g : String → String) : ∀ (l : List (String × α)), (lastPerKey g l).Sublist l
  | [] => by simp [lastPerKey]
  | (k, v) :: rest => by
    unfold lastPerKey
    split
    · exact (lastPerKey_sublist g rest).cons _
    · exact (lastPerKey_sublist g rest).cons_cons _

theorem survivors_sublist (g : String → String) (kvs : List (String × α)) : (survivors g kvs).Sublist kvs :=
  (lastPerKey_sublist g _).trans (visitedFrom_sublist g kvs [])

theorem visitedFrom_append (g : String → String) : ∀ (l₁ l₂ : List (String × α)) (dead : List String),
    visitedFrom g dead (l₁ ++ l₂) = visitedFrom g dead l₁ ++ visitedFrom g (deadFrom g dead l₁) l₂
  | [], _, _ => by simp [visitedFrom, deadFrom]
  | (k, v) :: rest, l₂, dead => by
    simp only [List.cons_append, visitedFrom, deadFrom]
    split
    · exact visitedFrom_append g rest l₂ dead
    · rw [visitedFrom_append g rest l₂ _]; simp

/-- New keys of what `lastPerKey` leaves are pairwise distinct. -/
theorem lastPerKey_keys_nodup (g : String → String) : ∀ (l : List (String × α)),
    ((lastPerKey g l).map (fun p => g p.1)).Nodup
  | [] => by simp [lastPerKey]
  | (k, v) :: rest => by
    unfold lastPerKey
    split
    · exact lastPerKey_keys_nodup g rest
    · rename_i h
      simp only [List.map_cons, List.nodup_cons]
      refine ⟨?_, lastPerKey_keys_nodup g rest⟩
      intro hm
      obtain ⟨q, hq, hqe⟩ := List.mem_map.1 hm
      apply h
      rw [List.any_eq_true]
      exact ⟨q, (lastPerKey_sublist g rest).subset hq, by simpa using hqe⟩

theorem lastPerKey_append (g : String → String) : ∀ (l₁ l₂ : List (String × α)),
    lastPerKey g (l₁ ++ l₂) =
      (lastPerKey g l₁).filter (fun p => !l₂.any (fun q => g q.1 == g p.1)) ++ lastPerKey g l₂
  | [], _ => by simp [lastPerKey]
  | (k, v) :: rest, l₂ => by
    simp only [List.cons_append, lastPerKey, List.any_append]
    cases h1 : rest.any (fun q => g q.1 == g k) with
    | true => simpa using lastPerKey_append g rest l₂
    | false =>
      cases h2 : l₂.any (fun q => g q.1 == g k) with
      | true =>
        simp only [Bool.false_or, if_true, Bool.false_eq_true, if_false]
        rw [List.filter_cons_of_neg (by simp [h2])]
        exact lastPerKey_append g rest l₂
      | false =>
        simp only [Bool.false_or, Bool.false_eq_true, if_false]
        rw [List.filter_cons_of_pos (by simp [h2]), lastPerKey_append g rest l₂]
        simp

end Walk

/-- One visit seen from the result list: drop whatever has the new key, append the new entry. -/
def visitStep (g : String → String) (w : Val → Val) (d : List (String × Val)) (p : String × Val) :
    List (String × Val) := dropKey (g p.1) d ++ [(g p.1, w p.2)]

theorem dropKey_map_img (g : String → String) (w : Val → Val) (k' : String) (l : List (String × Val)) :
    dropKey k' (l.map (fun p => (g p.1, w p.2))) =
      (l.filter (fun p => g p.1 != k')).map (fun p => (g p.1, w p.2)) := by
  unfold dropKey
  rw [List.filter_map]
  rfl

theorem foldl_visitStep (g : String → String) (w : Val → Val) : ∀ (l vis : List (String × Val)),
    l.foldl (visitStep g w) ((lastPerKey g vis).map (fun p => (g p.1, w p.2))) =
      (lastPerKey g (vis ++ l)).map (fun p => (g p.1, w p.2))
  | [], vis => by simp
  | x :: l, vis => by
    have hx : lastPerKey g [x] = [x] := by
      obtain ⟨k, v⟩ := x
      simp [lastPerKey]
    have h1 : visitStep g w ((lastPerKey g vis).map (fun p => (g p.1, w p.2))) x =
        (lastPerKey g (vis ++ [x])).map (fun p => (g p.1, w p.2)) := by
      unfold visitStep
      rw [dropKey_map_img, lastPerKey_append, hx]
      simp only [List.map_append, List.map_cons, List.map_nil, List.any_cons, List.any_nil, Bool.or_false]
      congr 2
      apply List.filter_congr
      intro q _
      rw [bne, BEq.comm]
    rw [List.foldl_cons, h1, foldl_visitStep g w l (vis ++ [x])]
    simp

/-- The walk, as the fold of `visitStep` over the visited entries.  `w` is whatever the walk makes of
    the values (`mapVal g` when the nested mappings are collision-free). -/
theorem interpOMap_walk_gen (g : String → String) (w : Val → Val) :
    ∀ (rest done : List (String × Val)) (dead : List String),
      (∀ p ∈ rest, interpVal (pureTf E g) p.2 = .ok (w p.2)) →
      (rest.map (·.1)).Nodup →
      (∀ k ∈ rest.map (·.1), k ∉ dead → k ∉ done.map (·.1)) →
      interpOMap (pureTf E g) done dead rest = .ok ((visitedFrom g dead rest).foldl (visitStep g w) done) := by
  intro rest
  induction rest with
  | nil => intro done dead _ _ _; simp [interpOMap, visitedFrom]
  | cons p rest ih =>
    intro done dead hv hnd hinv
    obtain ⟨k, v⟩ := p
    have hv' : ∀ p ∈ rest, interpVal (pureTf E g) p.2 = .ok (w p.2) :=
      fun p hp => hv p (List.mem_cons_of_mem _ hp)
    simp only [List.map_cons, List.nodup_cons] at hnd
    rw [interpOMap]
    cases hd : dead.contains k with
    | true =>
      simp only [if_true, visitedFrom, hd]
      exact ih done dead hv' hnd.2 (fun k₂ hk₂ => hinv k₂ (by simp [hk₂]))
    | false =>
      have hkd : k ∉ dead := by simpa using hd
      have hkdone : k ∉ done.map (·.1) := hinv k (by simp) hkd
      have hvk : interpVal (pureTf E g) v = .ok (w v) := hv (k, v) List.mem_cons_self
      simp only [Bool.false_eq_true, if_false, visitedFrom, hd, List.foldl_cons]
      simp only [pureTf] at hvk ⊢
      rw [hvk]
      simp only
      by_cases hgk : g k = k
      · have hb : (g k == k) = true := by simpa using hgk
        simp only [hb, if_true]
        have hstep : visitStep g w done (k, v) = done ++ [(g k, w v)] := by
          unfold visitStep
          simp only
          rw [dropKey_of_not_mem (by rw [hgk]; exact hkdone)]
        rw [hstep]
        apply ih _ dead hv' hnd.2
        intro k₂ hk₂ hk₂d
        have h1 := hinv k₂ (by simp [hk₂]) hk₂d
        have h2 : k₂ ≠ g k := by
          rw [hgk]; intro e; exact hnd.1 (e ▸ hk₂)
        simp only [List.map_append, List.map_cons, List.map_nil, List.mem_append, List.mem_singleton, not_or]
        exact ⟨h1, h2⟩
      · have hb : (g k == k) = false := by simpa using hgk
        simp only [hb, Bool.false_eq_true, if_false]
        apply ih _ (g k :: dead) hv' hnd.2
        intro k₂ hk₂ hk₂d
        simp only [List.mem_cons, not_or] at hk₂d
        have h1 := hinv k₂ (by simp [hk₂]) hk₂d.2
        simp only [List.map_append, List.map_cons, List.map_nil, List.mem_append, List.mem_singleton, not_or]
        refine ⟨fun hm => h1 ?_, hk₂d.1⟩
        obtain ⟨q, hq, hqe⟩ := List.mem_map.1 hm
        exact List.mem_map.2 ⟨q, (List.mem_filter.1 hq).1, hqe⟩

/-- The result of the ordered walk: the images of the surviving entries, in input order. -/
theorem interpOMap_walk (g : String → String) (w : Val → Val) (kvs : List (String × Val))
    (hv : ∀ p ∈ kvs, interpVal (pureTf E g) p.2 = .ok (w p.2)) (hnd : (kvs.map (·.1)).Nodup) :
    interpOMap (pureTf E g) [] [] kvs = .ok ((survivors g kvs).map (fun p => (g p.1, w p.2))) := by
  rw [interpOMap_walk_gen g w kvs [] [] hv hnd (by simp)]
  have := foldl_visitStep g w (visitedFrom g [] kvs) []
  simp only [lastPerKey, List.map_nil, List.nil_append] at this
  rw [this]
  rfl

/-- A transformer that never fails makes the walk succeed (whatever collides). -/
theorem interpOMap_pure_total (g : String → String) (kvs done : List (String × Val)) (dead : List String) :
    ∃ r, interpOMap (pureTf E g) done dead kvs = .ok r := by
  apply ok_of_no_error
  intro e he
  obtain ⟨x, _, hx⟩ := interpOMap_error (pureTf E g) e kvs done dead he
  simp [pureTf] at hx

theorem interpUMap_pure_total (g : String → String) (kvs acc : List (String × Val)) :
    ∃ r, interpUMap (pureTf E g) acc kvs = .ok r := by
  apply ok_of_no_error
  intro e he
  obtain ⟨x, _, hx⟩ := interpUMap_error (pureTf E g) e kvs acc he
  simp [pureTf] at hx

/-- Nested mappings collision-free: the walk turns every value `v` into `mapVal g v`. -/
theorem interpVal_of_noCollideKVs' (g : String → String) : ∀ (kvs : List (String × Val)),
    NoCollideKVs' g kvs → ∀ p ∈ kvs, interpVal (pureTf E g) p.2 = .ok (mapVal g p.2)
  | [], _, p, hp => by simp at hp
  | (k, v) :: rest, h, p, hp => by
    have h' : NoCollideVal' g v ∧ NoCollideKVs' g rest := by simpa [NoCollideKVs'] using h
    rcases List.mem_cons.1 hp with rfl | hp
    · exact interpVal_eq g v h'.1
    · exact interpVal_of_noCollideKVs' g rest h'.2 p hp

section Walk2
variable {α : Type}

/-- The value stored under a new key comes from the last entry mapped to that key. -/
theorem lookup_lastPerKey {β : Type} (g : String → String) (w : α → β) (k' : String) :
    ∀ (l : List (String × α)),
      ((lastPerKey g l).map (fun p => (g p.1, w p.2))).lookup k' =
        (l.reverse.find? (fun p => g p.1 == k')).map (fun p => w p.2)
  | [] => by simp [lastPerKey]
  | (k, v) :: rest => by
    have ih := lookup_lastPerKey g w k' rest
    simp only [List.reverse_cons, List.find?_append, lastPerKey]
    cases hany : rest.any (fun q => g q.1 == g k) with
    | true =>
      simp only [if_true]
      rw [ih]
      by_cases hk : g k = k'
      · subst hk
        obtain ⟨q, hq, hqe⟩ := List.any_eq_true.1 hany
        have : (rest.reverse.find? (fun p => g p.1 == g k)).isSome := by
          rw [List.find?_isSome]
          exact ⟨q, List.mem_reverse.2 hq, hqe⟩
        obtain ⟨r, hr⟩ := Option.isSome_iff_exists.1 this
        simp [hr]
      · have hb : (g k == k') = false := by simpa using hk
        simp [hb]
    | false =>
      simp only [Bool.false_eq_true, if_false, List.map_cons, List.lookup_cons]
      by_cases hk : g k = k'
      · subst hk
        have hnone : rest.reverse.find? (fun p => g p.1 == g k) = none := by
          rw [List.find?_eq_none]
          intro q hq hqe
          have : rest.any (fun q => g q.1 == g k) = true :=
            List.any_eq_true.2 ⟨q, List.mem_reverse.1 hq, hqe⟩
          rw [hany] at this
          cases this
        simp [hnone]
      · have hb : (g k == k') = false := by simpa using hk
        have hb' : (k' == g k) = false := by simpa using fun e : k' = g k => hk e.symm
        simp [hb, hb', ih]

/-- An entry is visited iff its key is still alive when the cursor gets there: no earlier *visited*
    entry was renamed onto it. -/
theorem mem_visitedFrom_iff (g : String → String) (k : String) (v : α) (post : List (String × α)) :
    ∀ (pre : List (String × α)) (dead : List String),
      ((pre ++ (k, v) :: post).map (·.1)).Nodup →
      ((k, v) ∈ visitedFrom g dead (pre ++ (k, v) :: post) ↔
        k ∉ dead ∧ ∀ p ∈ visitedFrom g dead pre, g p.1 = p.1 ∨ g p.1 ≠ k)
  | [], dead, hnd => by
    have hnotin : (k, v) ∉ post := by
      intro hm
      simp only [List.nil_append, List.map_cons, List.nodup_cons] at hnd
      exact hnd.1 (List.mem_map.2 ⟨(k, v), hm, rfl⟩)
    simp only [List.nil_append, visitedFrom]
    cases hd : dead.contains k with
    | true =>
      have hkd : k ∈ dead := by simpa using hd
      simp only [if_true]
      constructor
      · intro hm; exact absurd ((visitedFrom_sublist g post dead).subset hm) hnotin
      · intro h; exact absurd hkd h.1
    | false =>
      have hkd : k ∉ dead := by simpa using hd
      simp [hkd]
  | (k0, v0) :: pre, dead, hnd => by
    have hnd' : ((pre ++ (k, v) :: post).map (·.1)).Nodup := by
      simp only [List.cons_append, List.map_cons, List.nodup_cons] at hnd
      exact hnd.2
    have hne : k ≠ k0 := by
      simp only [List.cons_append, List.map_cons, List.nodup_cons, List.map_append, List.mem_append,
        List.mem_cons, not_or] at hnd
      exact fun e => hnd.1.2.1 e.symm
    simp only [List.cons_append, visitedFrom]
    cases hd : dead.contains k0 with
    | true =>
      simp only [if_true]
      exact mem_visitedFrom_iff g k v post pre dead hnd'
    | false =>
      simp only [Bool.false_eq_true, if_false, List.mem_cons, Prod.mk.injEq, hne, false_and, false_or]
      rw [mem_visitedFrom_iff g k v post pre _ hnd']
      by_cases hg : g k0 = k0
      · have hb : (g k0 == k0) = true := by simpa using hg
        simp only [hb, if_true]
        simp only [forall_eq_or_imp, hg, true_or, true_and]
      · have hb : (g k0 == k0) = false := by simpa using hg
        simp only [hb, Bool.false_eq_true, if_false]
        simp only [List.mem_cons, not_or, forall_eq_or_imp, hg, false_or]
        constructor
        · rintro ⟨⟨h1, h2⟩, h3⟩; exact ⟨h2, fun e => h1 e.symm, h3⟩
        · rintro ⟨h2, h1, h3⟩; exact ⟨⟨fun e => h1 e.symm, h2⟩, h3⟩

/-- `lastPerKey` leaves a list alone iff its new keys are pairwise distinct. -/
theorem lastPerKey_eq_self_iff (g : String → String) : ∀ (l : List (String × α)),
    lastPerKey g l = l ↔ (l.map (fun p => g p.1)).Nodup
  | [] => by simp [lastPerKey]
  | (k, v) :: rest => by
    have ih := lastPerKey_eq_self_iff g rest
    simp only [lastPerKey, List.map_cons, List.nodup_cons]
    cases hany : rest.any (fun q => g q.1 == g k) with
    | true =>
      simp only [if_true]
      constructor
      · intro h
        have := (lastPerKey_sublist g rest).length_le
        rw [h] at this
        simp at this
        omega
      · rintro ⟨h, _⟩
        obtain ⟨q, hq, hqe⟩ := List.any_eq_true.1 hany
        exact absurd (List.mem_map.2 ⟨q, hq, by simpa using hqe⟩) h
    | false =>
      simp only [Bool.false_eq_true, if_false, List.cons.injEq, true_and, ih]
      constructor
      · intro h
        refine ⟨fun hm => ?_, h⟩
        obtain ⟨q, hq, hqe⟩ := List.mem_map.1 hm
        have : rest.any (fun q => g q.1 == g k) = true := List.any_eq_true.2 ⟨q, hq, by simpa using hqe⟩
        rw [hany] at this
        cases this
      · exact fun h => h.2

/-- Every entry is visited iff no key is dead on arrival and no entry is renamed onto the key of a
    later one. -/
theorem visitedFrom_eq_self_iff (g : String → String) : ∀ (l : List (String × α)) (dead : List String),
    visitedFrom g dead l = l ↔
      (∀ p ∈ l, p.1 ∉ dead) ∧ l.Pairwise (fun p q => g p.1 = p.1 ∨ g p.1 ≠ q.1)
  | [], _ => by simp [visitedFrom]
  | (k, v) :: rest, dead => by
    simp only [visitedFrom, List.pairwise_cons, List.mem_cons, forall_eq_or_imp]
    cases hd : dead.contains k with
    | true =>
      have hkd : k ∈ dead := by simpa using hd
      simp only [if_true]
      constructor
      · intro h
        have := (visitedFrom_sublist g rest dead).length_le
        rw [h] at this
        simp at this
        omega
      · rintro ⟨⟨h, _⟩, _⟩; exact absurd hkd h
    | false =>
      have hkd : k ∉ dead := by simpa using hd
      simp only [Bool.false_eq_true, if_false, List.cons.injEq, true_and]
      rw [visitedFrom_eq_self_iff g rest _]
      by_cases hg : g k = k
      · have hb : (g k == k) = true := by simpa using hg
        simp only [hb, if_true]
        simp only [hg, true_or, implies_true, true_and]
        constructor
        · rintro ⟨h1, h2⟩; exact ⟨⟨hkd, h1⟩, h2⟩
        · rintro ⟨⟨_, h1⟩, h2⟩; exact ⟨h1, h2⟩
      · have hb : (g k == k) = false := by simpa using hg
        simp only [hb, Bool.false_eq_true, if_false]
        simp only [List.mem_cons, not_or, hg, false_or]
        constructor
        · rintro ⟨h1, h2⟩
          exact ⟨⟨hkd, fun p hp => (h1 p hp).2⟩, fun p hp e => (h1 p hp).1 e.symm, h2⟩
        · rintro ⟨⟨_, h1⟩, h3, h2⟩
          exact ⟨fun p hp => ⟨fun e => h3 p hp e.symm, h1 p hp⟩, h2⟩

/-- Nothing is lost iff the new keys are pairwise distinct and no entry is renamed onto the key of a
    later entry. -/
theorem survivors_eq_self_iff (g : String → String) (kvs : List (String × α)) :
    survivors g kvs = kvs ↔
      (kvs.map (fun p => g p.1)).Nodup ∧ kvs.Pairwise (fun p q => g p.1 = p.1 ∨ g p.1 ≠ q.1) := by
  unfold survivors visited
  constructor
  · intro h
    have h1 : visitedFrom g [] kvs = kvs := by
      apply (visitedFrom_sublist g kvs []).eq_of_length_le
      have := (lastPerKey_sublist g (visitedFrom g [] kvs)).length_le
      rw [h] at this
      exact this
    rw [h1] at h
    exact ⟨(lastPerKey_eq_self_iff g kvs).1 h, ((visitedFrom_eq_self_iff g kvs []).1 h1).2⟩
  · rintro ⟨h1, h2⟩
    rw [(visitedFrom_eq_self_iff g kvs []).2 ⟨by simp, h2⟩]
    exact (lastPerKey_eq_self_iff g kvs).2 h1

end Walk2

/-! ## B4 — the Go-map walk with collisions: later-wins insertion into a sorted store -/

theorem interpUMap_walk_gen (g : String → String) (w : Val → Val) :
    ∀ (kvs acc : List (String × Val)),
      (∀ p ∈ kvs, interpVal (pureTf E g) p.2 = .ok (w p.2)) →
      interpUMap (pureTf E g) acc kvs = .ok (umapFold acc (kvs.map (fun p => (g p.1, w p.2)))) := by
  intro kvs
  induction kvs with
  | nil => intro acc _; simp [interpUMap]
  | cons p rest ih =>
    intro acc hv
    obtain ⟨k, v⟩ := p
    have hvk : interpVal (pureTf E g) v = .ok (w v) := hv (k, v) List.mem_cons_self
    rw [interpUMap]
    simp only [pureTf] at hvk ⊢
    rw [hvk]
    simp only
    rw [ih _ (fun p hp => hv p (List.mem_cons_of_mem _ hp))]
    simp

section Store
variable {α : Type}

/-- Strictly sorted by key (hence keys pairwise distinct). -/
def SortedKeys (l : List (String × α)) : Prop := l.Pairwise (fun p q => p.1 < q.1)

theorem mem_umapInsert {k : String} {v : α} {q : String × α} : (m : List (String × α)) →
    q ∈ umapInsert k v m → q = (k, v) ∨ q ∈ m
  | [], h => by simp [umapInsert] at h; exact .inl h
  | (k0, v0) :: r, h => by
    unfold umapInsert at h
    split at h
    · rcases List.mem_cons.1 h with h | h
      · exact .inl h
      · exact .inr (List.mem_cons_of_mem _ h)
    · split at h
      · rcases List.mem_cons.1 h with h | h
        · exact .inl h
        · exact .inr h
      · rcases List.mem_cons.1 h with h | h
        · exact .inr (h ▸ List.mem_cons_self)
        · rcases mem_umapInsert r h with h | h
          · exact .inl h
          · exact .inr (List.mem_cons_of_mem _ h)

theorem str_lt_of_not {a b : String} (h1 : a ≠ b) (h2 : ¬ a < b) : b < a := by
  rcases Classical.em (b < a) with h | h
  · exact h
  · exact absurd (String.le_antisymm (String.not_lt.1 h) (String.not_lt.1 h2)) h1

theorem sortedKeys_umapInsert (k : String) (v : α) : (m : List (String × α)) → SortedKeys m →
    SortedKeys (umapInsert k v m)
  | [], _ => by simp [umapInsert, SortedKeys]
  | (k0, v0) :: r, h => by
    unfold SortedKeys at h ⊢
    rw [List.pairwise_cons] at h
    unfold umapInsert
    split
    · rename_i e
      have e : k = k0 := by simpa using e
      subst e
      exact List.pairwise_cons.2 ⟨h.1, h.2⟩
    · rename_i hne
      have hne : k ≠ k0 := by simpa using hne
      split
      · rename_i hlt
        refine List.pairwise_cons.2 ⟨fun q hq => ?_, List.pairwise_cons.2 h⟩
        rcases List.mem_cons.1 hq with rfl | hq
        · exact hlt
        · exact String.lt_trans hlt (h.1 q hq)
      · rename_i hlt
        refine List.pairwise_cons.2 ⟨fun q hq => ?_, sortedKeys_umapInsert k v r h.2⟩
        rcases mem_umapInsert r hq with rfl | hq
        · exact str_lt_of_not hne hlt
        · exact h.1 q hq

theorem sortedKeys_umapFold : (l acc : List (String × α)) → SortedKeys acc → SortedKeys (umapFold acc l)
  | [], _, h => h
  | p :: r, acc, h => by
    rw [umapFold, List.foldl_cons]
    exact sortedKeys_umapFold r _ (sortedKeys_umapInsert _ _ _ h)

theorem nodup_keys_of_sortedKeys {l : List (String × α)} (hs : SortedKeys l) : (l.map (·.1)).Nodup := by
  unfold SortedKeys at hs
  rw [List.Nodup, List.pairwise_map]
  exact hs.imp (fun {a b} h e => by rw [e] at h; exact String.lt_irrefl _ h)

theorem mem_umapFold {q : String × α} : (l acc : List (String × α)) → q ∈ umapFold acc l → q ∈ l ∨ q ∈ acc
  | [], _, h => .inr h
  | p :: r, acc, h => by
    rw [umapFold, List.foldl_cons] at h
    rcases mem_umapFold r _ h with h | h
    · exact .inl (List.mem_cons_of_mem _ h)
    · rcases mem_umapInsert acc h with h | h
      · exact .inl (h ▸ List.mem_cons_self)
      · exact .inr h

theorem lookup_umapInsert (k : String) (v : α) (k₂ : String) : (m : List (String × α)) →
    (umapInsert k v m).lookup k₂ = if k₂ = k then some v else m.lookup k₂
  | [] => by
    by_cases h : k₂ = k
    · simp [umapInsert, h]
    · have h' : (k₂ == k) = false := by simpa using h
      simp [umapInsert, List.lookup_cons, h, h']
  | (k0, v0) :: r => by
    unfold umapInsert
    by_cases e : k = k0
    · subst e
      by_cases h : k₂ = k
      · simp [h]
      · have h' : (k₂ == k) = false := by simpa using h
        simp [List.lookup_cons, h, h']
    · have e' : (k == k0) = false := by simpa using e
      simp only [e', Bool.false_eq_true, if_false]
      split
      · by_cases h : k₂ = k
        · simp [h]
        · have h' : (k₂ == k) = false := by simpa using h
          simp [List.lookup_cons, h, h']
      · by_cases h0 : k₂ = k0
        · subst h0
          have : ¬ k₂ = k := fun x => e x.symm
          simp [this]
        · have h0' : (k₂ == k0) = false := by simpa using h0
          simp [List.lookup_cons, h0', lookup_umapInsert k v k₂ r]

/-- Later wins: a key reads back the last entry stored under it (else what the store had). -/
theorem lookup_umapFold (k' : String) : (l acc : List (String × α)) →
    (umapFold acc l).lookup k' =
      match l.reverse.find? (fun p => p.1 == k') with
      | some p => some p.2
      | none => acc.lookup k'
  | [], _ => by simp [umapFold]
  | (k, v) :: r, acc => by
    rw [umapFold, List.foldl_cons]
    have ih := lookup_umapFold k' r (umapInsert k v acc)
    rw [umapFold] at ih
    rw [ih, List.reverse_cons, List.find?_append]
    cases hr : r.reverse.find? (fun p => p.1 == k') with
    | some p => simp
    | none =>
      simp only [Option.none_or, lookup_umapInsert]
      by_cases h : k' = k
      · subst h; simp
      · have h' : (k == k') = false := by simpa using fun e : k = k' => h e.symm
        simp [h, h']

end Store

/-- The result of the Go-map walk reads back, under each new key, the image of the last input entry
    mapped to it. -/
theorem lookup_umapFold_img (g : String → String) (w : Val → Val) (k' : String) (kvs : List (String × Val)) :
    (umapFold [] (kvs.map (fun p => (g p.1, w p.2)))).lookup k' =
      (kvs.reverse.find? (fun p => g p.1 == k')).map (fun p => w p.2) := by
  rw [lookup_umapFold, ← List.map_reverse, List.find?_map]
  cases h : kvs.reverse.find? (fun p => g p.1 == k') with
  | none =>
    have : List.find? ((fun p : String × Val => p.1 == k') ∘ fun p => (g p.1, w p.2)) kvs.reverse = none := h
    simp [this]
  | some q =>
    have : List.find? ((fun p : String × Val => p.1 == k') ∘ fun p => (g p.1, w p.2)) kvs.reverse = some q := h
    simp [this]

/-! ## Hypothesis-free forms: `walkVal` is whatever the walk makes of a value -/

theorem interpVal_pure_total (g : String → String) (v : Val) : ∃ v', interpVal (pureTf E g) v = .ok v' := by
  apply ok_of_no_error
  intro e he
  obtain ⟨x, _, hx⟩ := interpVal_error (pureTf E g) e v he
  simp [pureTf] at hx

/-- The value the walk produces from `v` (it always produces one: `interpVal_walkVal`). -/
def walkVal (E : Type) (g : String → String) (v : Val) : Val :=
  match interpVal (pureTf E g) v with
  | .ok v' => v'
  | .error _ => v

theorem interpVal_walkVal (g : String → String) (v : Val) :
    interpVal (pureTf E g) v = .ok (walkVal E g v) := by
  obtain ⟨v', hv⟩ := interpVal_pure_total (E := E) g v
  simp [walkVal, hv]

theorem walkVal_eq_mapVal (g : String → String) (v : Val) (h : NoCollideVal' g v) :
    walkVal E g v = mapVal g v := by
  simp [walkVal, interpVal_eq g v h]

theorem mapValKVs_eq_map (g : String → String) (kvs : List (String × Val)) :
    mapValKVs g kvs = kvs.map (fun p => (g p.1, mapVal g p.2)) := by
  induction kvs with
  | nil => simp [mapValKVs]
  | cons p r ih => obtain ⟨k, v⟩ := p; simp [mapValKVs, ih]

/-- Result keys of the ordered walk: the images of the surviving keys (no hypothesis on values). -/
theorem interpOMap_keys (g : String → String) (kvs r : List (String × Val)) (hnd : (kvs.map (·.1)).Nodup)
    (h : interpOMap (pureTf E g) [] [] kvs = .ok r) :
    r.map (·.1) = (survivors g kvs).map (fun p => g p.1) := by
  rw [interpOMap_walk g (walkVal E g) kvs (fun p _ => interpVal_walkVal g p.2) hnd] at h
  injection h with h
  subst h
  simp

theorem interpUMap_sorted (g : String → String) (kvs r : List (String × Val))
    (h : interpUMap (pureTf E g) [] kvs = .ok r) : SortedKeys r := by
  rw [interpUMap_walk_gen g (walkVal E g) kvs [] (fun p _ => interpVal_walkVal g p.2)] at h
  injection h with h
  subst h
  exact sortedKeys_umapFold _ [] List.Pairwise.nil

/-! ## The statements of `Props/C04Coll.lean` -/

/-- B1 composed with C05: the concrete slot/tombstone walk computes the model's ordered walk. -/
theorem rangeReplace_computes_interpOMap (tf : String → Except E String) {c : OMap.CMap Val} (h : OMap.Inv c) :
    (match OMap.rangeReplace (omapCb tf) c with
     | .ok c' => OMap.Inv c' ∧ interpOMap tf [] [] (OMap.abs c) = .ok (OMap.abs c')
     | .error e => interpOMap tf [] [] (OMap.abs c) = .error e) := by
  have hr := OMap.rangeReplace_refines h (omapCb tf)
  rw [interpOMap_is_rangeReplace]
  cases hc : OMap.rangeReplace (omapCb tf) c with
  | error e => rw [hc] at hr; exact hr
  | ok c' => rw [hc] at hr; exact hr

theorem orderedWalk_eq (g : String → String) (kvs : List (String × Val)) (hnd : (kvs.map (·.1)).Nodup)
    (hv : NoCollideKVs' g kvs) :
    interpOMap (pureTf E g) [] [] kvs = .ok ((survivors g kvs).map (fun p => (g p.1, mapVal g p.2))) :=
  interpOMap_walk g (mapVal g) kvs (interpVal_of_noCollideKVs' g kvs hv) hnd

theorem orderedWalk_keys_nodup (g : String → String) (kvs r : List (String × Val))
    (hnd : (kvs.map (·.1)).Nodup) (h : interpOMap (pureTf E g) [] [] kvs = .ok r) : (r.map (·.1)).Nodup := by
  rw [interpOMap_keys g kvs r hnd h]
  exact lastPerKey_keys_nodup g _

theorem orderedWalk_sublist (g : String → String) (kvs r : List (String × Val))
    (hnd : (kvs.map (·.1)).Nodup) (hv : NoCollideKVs' g kvs)
    (h : interpOMap (pureTf E g) [] [] kvs = .ok r) :
    r.Sublist (kvs.map (fun (k, v) => (g k, mapVal g v))) := by
  rw [orderedWalk_eq g kvs hnd hv] at h
  injection h with h
  subst h
  exact (survivors_sublist g kvs).map _

theorem orderedWalk_fresh (g : String → String) (kvs : List (String × Val))
    (hf : keysFresh g (kvs.map (·.1))) (hv : NoCollideKVs' g kvs) :
    interpOMap (pureTf E g) [] [] kvs = .ok (kvs.map (fun (k, v) => (g k, mapVal g v))) := by
  have := interpOMap_eq (E := E) g kvs [] [] hf hv (by simp) (by simp)
  rw [this, mapValKVs_eq_map]
  rfl

theorem orderedWalk_nothing_lost_iff (g : String → String) (kvs : List (String × Val))
    (hnd : (kvs.map (·.1)).Nodup) (hv : NoCollideKVs' g kvs) :
    interpOMap (pureTf E g) [] [] kvs = .ok (kvs.map (fun (k, v) => (g k, mapVal g v))) ↔
      (kvs.map (fun p => g p.1)).Nodup ∧ kvs.Pairwise (fun p q => g p.1 = p.1 ∨ g p.1 ≠ q.1) := by
  rw [orderedWalk_eq g kvs hnd hv, ← survivors_eq_self_iff]
  constructor
  · intro h
    injection h with h
    apply (survivors_sublist g kvs).eq_of_length_le
    have := congrArg List.length h
    simp only [List.length_map] at this
    omega
  · intro h
    rw [h]

theorem orderedWalk_lookup (g : String → String) (kvs r : List (String × Val))
    (hnd : (kvs.map (·.1)).Nodup) (hv : NoCollideKVs' g kvs)
    (h : interpOMap (pureTf E g) [] [] kvs = .ok r) (k' : String) :
    r.lookup k' = ((visited g kvs).reverse.find? (fun p => g p.1 == k')).map (fun p => mapVal g p.2) := by
  rw [orderedWalk_eq g kvs hnd hv] at h
  injection h with h
  subst h
  exact lookup_lastPerKey g (mapVal g) k' _

theorem mem_visited_iff {α : Type} (g : String → String) (pre post : List (String × α)) (k : String) (v : α)
    (hnd : ((pre ++ (k, v) :: post).map (·.1)).Nodup) :
    (k, v) ∈ visited g (pre ++ (k, v) :: post) ↔ ∀ p ∈ visited g pre, g p.1 = p.1 ∨ g p.1 ≠ k := by
  unfold visited
  rw [mem_visitedFrom_iff g k v post pre [] hnd]
  simp

theorem visited_prefix {α : Type} (g : String → String) (pre post : List (String × α)) :
    visited g pre <+: visited g (pre ++ post) := by
  unfold visited
  rw [visitedFrom_append]
  exact List.prefix_append _ _

theorem gomapWalk_eq (g : String → String) (kvs : List (String × Val)) (hv : NoCollideKVs' g kvs) :
    interpUMap (pureTf E g) [] kvs = .ok (umapOf (kvs.map (fun (k, v) => (g k, mapVal g v)))) := by
  rw [interpUMap_walk_gen g (mapVal g) kvs [] (interpVal_of_noCollideKVs' g kvs hv)]
  rfl

theorem gomapWalk_sorted (g : String → String) (kvs r : List (String × Val))
    (h : interpUMap (pureTf E g) [] kvs = .ok r) :
    r.Pairwise (fun p q => p.1 < q.1) ∧ (r.map (·.1)).Nodup :=
  ⟨interpUMap_sorted g kvs r h, nodup_keys_of_sortedKeys (interpUMap_sorted g kvs r h)⟩

theorem gomapWalk_mem (g : String → String) (kvs r : List (String × Val)) (hv : NoCollideKVs' g kvs)
    (h : interpUMap (pureTf E g) [] kvs = .ok r) :
    ∀ q ∈ r, ∃ p ∈ kvs, q = (g p.1, mapVal g p.2) := by
  rw [interpUMap_walk_gen g (mapVal g) kvs [] (interpVal_of_noCollideKVs' g kvs hv)] at h
  injection h with h
  subst h
  intro q hq
  rcases mem_umapFold _ _ hq with hq | hq
  · obtain ⟨p, hp, rfl⟩ := List.mem_map.1 hq
    exact ⟨p, hp, rfl⟩
  · simp at hq

theorem gomapWalk_lookup (g : String → String) (kvs r : List (String × Val)) (hv : NoCollideKVs' g kvs)
    (h : interpUMap (pureTf E g) [] kvs = .ok r) (k' : String) :
    r.lookup k' = (kvs.reverse.find? (fun p => g p.1 == k')).map (fun p => mapVal g p.2) := by
  rw [interpUMap_walk_gen g (mapVal g) kvs [] (interpVal_of_noCollideKVs' g kvs hv)] at h
  injection h with h
  subst h
  exact lookup_umapFold_img g (mapVal g) k' kvs

end GoPipeline.Interp

/-! ## B2 — the env-block walker (`Model/EnvBlock.lean`)

  The callback of `interpolateEnvBlock` reads and writes the caller environment, so it is not a
  `String → V → Except E (String × V)`: which environment an entry is expanded with depends on which
  entries were visited before it.  `aRangeReplaceS` is `OMap.aRangeReplace` with a state threaded
  through the callback (same `done` / `todo` bookkeeping, same `adelete`s); `blockLoop` is that walk,
  and whenever the renaming part of the callback does not depend on the state the block component
  is `OMap.aRangeReplace` itself. -/
namespace GoPipeline.EnvBlock
open GoPipeline.OMap (AMap adelete aRangeReplace)

variable {E S V : Type}

def aRangeReplaceS (f : S → String → V → Except E (String × V × S)) :
    S → AMap V → AMap V → Except E (AMap V × S)
  | s, done, [] => .ok (done, s)
  | s, done, (k, v) :: rest =>
    match f s k v with
    | .error e => .error e
    | .ok (k', v', s') =>
      if k' == k then aRangeReplaceS f s' (done ++ [(k', v')]) rest
      else aRangeReplaceS f s' (adelete done k' ++ [(k', v')]) (adelete rest k')
termination_by _ _ todo => todo.length
decreasing_by
  all_goals simp_wf
  · have := List.length_filter_le (fun (p : String × V) => p.1 != k') rest
    unfold adelete
    omega

theorem aRangeReplaceS_nil (f : S → String → V → Except E (String × V × S)) (s : S) (done : AMap V) :
    aRangeReplaceS f s done [] = .ok (done, s) := by
  rw [aRangeReplaceS]

theorem aRangeReplaceS_cons_error {f : S → String → V → Except E (String × V × S)} {s : S} {k : String}
    {v : V} {e : E} (hf : f s k v = .error e) (done rest : AMap V) :
    aRangeReplaceS f s done ((k, v) :: rest) = .error e := by
  rw [aRangeReplaceS]; simp [hf]

theorem aRangeReplaceS_cons_same {f : S → String → V → Except E (String × V × S)} {s s' : S} {k : String}
    {v v' : V} (hf : f s k v = .ok (k, v', s')) (done rest : AMap V) :
    aRangeReplaceS f s done ((k, v) :: rest) = aRangeReplaceS f s' (done ++ [(k, v')]) rest := by
  rw [aRangeReplaceS]; simp [hf]

theorem aRangeReplaceS_cons_ne {f : S → String → V → Except E (String × V × S)} {s s' : S} {k k' : String}
    {v v' : V} (hf : f s k v = .ok (k', v', s')) (hne : k' ≠ k) (done rest : AMap V) :
    aRangeReplaceS f s done ((k, v) :: rest) =
      aRangeReplaceS f s' (adelete done k' ++ [(k', v')]) (adelete rest k') := by
  rw [aRangeReplaceS]; simp [hf, hne]

/-- The env-block walk is the state-threading abstract walk. -/
theorem blockLoop_is_rangeReplaceS_gen (expand : Expand E) (norm : String → String) (prefer : Bool) :
    ∀ (rest done : List (String × String)) (dead : List String) (env : Env),
      blockLoop expand norm prefer done dead env rest =
        aRangeReplaceS (entryStep expand norm prefer) env done (Interp.liveRest dead rest) := by
  intro rest
  induction rest with
  | nil => intro done dead env; simp [blockLoop, Interp.liveRest, aRangeReplaceS_nil]
  | cons p rest ih =>
    intro done dead env
    obtain ⟨k, v⟩ := p
    rw [blockLoop]
    cases hd : dead.contains k with
    | true =>
      simp only [if_true]
      rw [Interp.liveRest_cons_dead v rest hd, ih]
    | false =>
      simp only [Bool.false_eq_true, if_false]
      rw [Interp.liveRest_cons_live v rest hd]
      cases hs : entryStep expand norm prefer env k v with
      | error e => rw [aRangeReplaceS_cons_error hs]
      | ok r =>
        obtain ⟨k', v', env'⟩ := r
        simp only
        by_cases hkk : k' = k
        · subst hkk
          simp only [beq_self_eq_true, if_true]
          rw [aRangeReplaceS_cons_same hs, ih]
        · have hb : (k' == k) = false := by simpa using hkk
          simp only [hb, Bool.false_eq_true, if_false]
          rw [aRangeReplaceS_cons_ne hs hkk, ih, Interp.adelete_liveRest]
          rfl

theorem blockLoop_is_rangeReplaceS (expand : Expand E) (norm : String → String) (prefer : Bool) (env : Env)
    (b : List (String × String)) :
    blockLoop expand norm prefer [] [] env b = aRangeReplaceS (entryStep expand norm prefer) env [] b := by
  have h := blockLoop_is_rangeReplaceS_gen expand norm prefer b [] [] env
  have hl : Interp.liveRest [] b = b := by simp [Interp.liveRest]
  rw [hl] at h
  exact h

/-- If the renaming part of the callback does not depend on the state, the entries component of the
    state-threading walk is `OMap.aRangeReplace`. -/
theorem aRangeReplaceS_entries (f : S → String → V → Except E (String × V × S))
    (f₀ : String → V → Except E (String × V))
    (hf : ∀ s k v, (f s k v).map (fun r => (r.1, r.2.1)) = f₀ k v) :
    ∀ (n : Nat) (todo : AMap V), todo.length ≤ n → ∀ (s : S) (done : AMap V),
      (aRangeReplaceS f s done todo).map (·.1) = aRangeReplace f₀ done todo := by
  intro n
  induction n with
  | zero =>
    intro todo hlen s done
    have : todo = [] := List.eq_nil_of_length_eq_zero (by omega)
    subst this
    simp [aRangeReplaceS_nil, OMap.aRangeReplace_nil, Except.map]
  | succ n ih =>
    intro todo hlen s done
    cases todo with
    | nil => simp [aRangeReplaceS_nil, OMap.aRangeReplace_nil, Except.map]
    | cons p rest =>
      obtain ⟨k, v⟩ := p
      have hlen' : rest.length ≤ n := by simp at hlen; omega
      have hfk := hf s k v
      cases hs : f s k v with
      | error e =>
        rw [hs] at hfk
        rw [aRangeReplaceS_cons_error hs, OMap.aRangeReplace_cons_error hfk.symm]
        rfl
      | ok r =>
        obtain ⟨k', v', s'⟩ := r
        rw [hs] at hfk
        have hfk' : f₀ k v = .ok (k', v') := hfk.symm
        by_cases hkk : k' = k
        · subst hkk
          rw [aRangeReplaceS_cons_same hs, OMap.aRangeReplace_cons_same hfk']
          exact ih rest hlen' s' _
        · rw [aRangeReplaceS_cons_ne hs hkk, OMap.aRangeReplace_cons_ne hfk' hkk]
          apply ih
          have := List.length_filter_le (fun (p : String × V) => p.1 != k') rest
          unfold adelete
          omega

/-- When the expansion does not consult the environment, the renamed block is `OMap.aRangeReplace`
    of the stateless callback (the write-back still happens, in the other component). -/
theorem blockLoop_entries_of_env_free (expand : Expand E) (norm : String → String) (prefer : Bool)
    (hfree : ∀ get get' s, expand get s = expand get' s) (env : Env) (b : List (String × String)) :
    (blockLoop expand norm prefer [] [] env b).map (·.1) =
      aRangeReplace (fun k v =>
        match expand (fun _ => none) k with
        | .error e => .error e
        | .ok k' =>
          match expand (fun _ => none) v with
          | .error e => .error e
          | .ok v' => .ok (k', v')) [] b := by
  rw [blockLoop_is_rangeReplaceS]
  apply aRangeReplaceS_entries _ _ _ b.length b (Nat.le_refl _)
  intro s k v
  unfold entryStep
  rw [hfree (s.get norm) (fun _ => none) k, hfree (s.get norm) (fun _ => none) v]
  cases expand (fun _ => none) k with
  | error e => rfl
  | ok k' =>
    cases expand (fun _ => none) v with
    | error e => rfl
    | ok v' => rfl

/-- `OMap.aRangeReplace` only consults the callback on the entries it is given. -/
theorem aRangeReplace_congr (f f' : String → V → Except E (String × V)) :
    ∀ (n : Nat) (todo : AMap V), todo.length ≤ n → (∀ p ∈ todo, f p.1 p.2 = f' p.1 p.2) →
      ∀ done : AMap V, aRangeReplace f done todo = aRangeReplace f' done todo := by
  intro n
  induction n with
  | zero =>
    intro todo hlen _ done
    have : todo = [] := List.eq_nil_of_length_eq_zero (by omega)
    subst this
    simp [OMap.aRangeReplace_nil]
  | succ n ih =>
    intro todo hlen hag done
    cases todo with
    | nil => simp [OMap.aRangeReplace_nil]
    | cons p rest =>
      obtain ⟨k, v⟩ := p
      have hlen' : rest.length ≤ n := by simp at hlen; omega
      have hk : f k v = f' k v := hag (k, v) List.mem_cons_self
      have hag' : ∀ p ∈ rest, f p.1 p.2 = f' p.1 p.2 := fun p hp => hag p (List.mem_cons_of_mem _ hp)
      cases hs : f k v with
      | error e =>
        rw [OMap.aRangeReplace_cons_error hs, OMap.aRangeReplace_cons_error (hk ▸ hs)]
      | ok r =>
        obtain ⟨k', v'⟩ := r
        by_cases hkk : k' = k
        · subst hkk
          rw [OMap.aRangeReplace_cons_same hs, OMap.aRangeReplace_cons_same (hk ▸ hs)]
          exact ih rest hlen' hag' _
        · rw [OMap.aRangeReplace_cons_ne hs hkk, OMap.aRangeReplace_cons_ne (hk ▸ hs) hkk]
          apply ih
          · have := List.length_filter_le (fun (p : String × V) => p.1 != k') rest
            unfold adelete
            omega
          · intro p hp
            exact hag' p (List.mem_filter.1 hp).1

/-- Over entries with pairwise distinct keys every key is handed to the callback at most once, so the
    state-threading walk is `OMap.aRangeReplace` of the *pure* callback "`f` in the state `σ k` that
    prevails when `k` is reached" — the form the C05 refinement (`C05_rangeReplace`) applies to. -/
theorem aRangeReplaceS_as_pure (f : S → String → V → Except E (String × V × S)) :
    ∀ (n : Nat) (todo : AMap V), todo.length ≤ n → (todo.map (·.1)).Nodup → ∀ (s : S) (done : AMap V),
      ∃ σ : String → S, (∀ p, todo.head? = some p → σ p.1 = s) ∧
        (aRangeReplaceS f s done todo).map (·.1) =
          aRangeReplace (fun k v => (f (σ k) k v).map (fun r => (r.1, r.2.1))) done todo := by
  intro n
  induction n with
  | zero =>
    intro todo hlen _ s done
    have : todo = [] := List.eq_nil_of_length_eq_zero (by omega)
    subst this
    exact ⟨fun _ => s, by simp, by simp [aRangeReplaceS_nil, OMap.aRangeReplace_nil, Except.map]⟩
  | succ n ih =>
    intro todo hlen hnd s done
    cases todo with
    | nil => exact ⟨fun _ => s, by simp, by simp [aRangeReplaceS_nil, OMap.aRangeReplace_nil, Except.map]⟩
    | cons p rest =>
      obtain ⟨k, v⟩ := p
      have hlen' : rest.length ≤ n := by simp at hlen; omega
      simp only [List.map_cons, List.nodup_cons] at hnd
      cases hs : f s k v with
      | error e =>
        refine ⟨fun _ => s, by simp, ?_⟩
        have hf : (fun k v => (f s k v).map (fun r => (r.1, r.2.1))) k v = .error e := by
          simp only [hs]; rfl
        rw [aRangeReplaceS_cons_error hs, OMap.aRangeReplace_cons_error hf]
        rfl
      | ok r =>
        obtain ⟨k', v', s'⟩ := r
        -- the walk goes on over `rest'` (the rest, minus the entry a rename removes)
        have key : ∀ (rest' : AMap V) (done' : AMap V), rest'.length ≤ n → (rest'.map (·.1)).Nodup →
            (∀ p ∈ rest', p ∈ rest) →
            ∃ σ : String → S, σ k = s ∧
              (aRangeReplaceS f s' done' rest').map (·.1) =
                aRangeReplace (fun k v => (f (σ k) k v).map (fun r => (r.1, r.2.1))) done' rest' := by
          intro rest' done' hl hn hsub
          obtain ⟨σ', _, hσ'⟩ := ih rest' hl hn s' done'
          refine ⟨fun x => if x = k then s else σ' x, by simp, ?_⟩
          rw [hσ']
          apply aRangeReplace_congr _ _ rest'.length rest' (Nat.le_refl _)
          intro p hp
          have hne : p.1 ≠ k := fun e => hnd.1 (e ▸ List.mem_map_of_mem (hsub p hp))
          simp only [hne, if_false]
        by_cases hkk : k' = k
        · subst hkk
          obtain ⟨σ, hσk, hσ⟩ := key rest (done ++ [(k', v')]) hlen' hnd.2 (fun _ h => h)
          refine ⟨σ, by simpa using hσk, ?_⟩
          have hf : (fun k v => (f (σ k) k v).map (fun r => (r.1, r.2.1))) k' v = .ok (k', v') := by
            simp only [hσk, hs]; rfl
          rw [aRangeReplaceS_cons_same hs, OMap.aRangeReplace_cons_same hf, hσ]
        · have hsubl : (adelete rest k').Sublist rest := List.filter_sublist
          obtain ⟨σ, hσk, hσ⟩ := key (adelete rest k') (adelete done k' ++ [(k', v')])
            (Nat.le_trans hsubl.length_le hlen') ((hsubl.map _).nodup hnd.2) (fun _ h => hsubl.subset h)
          refine ⟨σ, by simpa using hσk, ?_⟩
          have hf : (fun k v => (f (σ k) k v).map (fun r => (r.1, r.2.1))) k v = .ok (k', v') := by
            simp only [hσk, hs]; rfl
          rw [aRangeReplaceS_cons_ne hs hkk, OMap.aRangeReplace_cons_ne hf hkk, hσ]

/-- The block component of the env-block walk over a block with distinct names is
    `OMap.aRangeReplace` of a pure callback: each entry expanded (`entryStep`) with the caller
    environment `envAt name` that prevails when the cursor reaches it (the first one with `env`). -/
theorem blockLoop_is_rangeReplace (expand : Expand E) (norm : String → String) (prefer : Bool) (env : Env)
    (b : List (String × String)) (hnd : (b.map (·.1)).Nodup) :
    ∃ envAt : String → Env, (∀ p, b.head? = some p → envAt p.1 = env) ∧
      (blockLoop expand norm prefer [] [] env b).map (·.1) =
        aRangeReplace (fun k v => (entryStep expand norm prefer (envAt k) k v).map (fun r => (r.1, r.2.1)))
          [] b := by
  rw [blockLoop_is_rangeReplaceS]
  exact aRangeReplaceS_as_pure (entryStep expand norm prefer) b.length b (Nat.le_refl _) hnd env []

end GoPipeline.EnvBlock
