/-
  C11 — helper lemmas: `validate` (the mirror of `(*Matrix).validatePermutation`) accepts exactly
  when the matrix specification `accept` does, and the verdict is independent of map iteration order.

  Architecture: the early-exit scans `firstErr` / `allMatch` are characterised order-free
  (`∀ x ∈ l, …`); `adjLoop` is characterised by generalising over the carried `valid`; the code's
  zero-value comparison `e.2 == withGet adj e.1` is identified with the specification's
  `lookup = some` by a pigeonhole argument on the key lists.
-/
import GoPipeline.Model.MatrixValidate
import Batteries.Data.List.Basic  -- `List.Forall₂` (used in `C11_order_independent`)
import Batteries.Data.List.Perm   -- `List.subperm_of_subset`, `List.Subperm.perm_of_length_le`
namespace GoPipeline.MatrixV

/-- Core has no `DecidableEq (Except ε α)`; the concrete `by decide` examples in `Props/C11.lean`
    (`validate … = .ok ()` / `.error …`) need one. -/
instance instDecidableEqExcept {ε α : Type} [DecidableEq ε] [DecidableEq α] :
    DecidableEq (Except ε α)
  | .ok a, .ok b => if h : a = b then isTrue (by rw [h]) else isFalse (fun e => h (by cases e; rfl))
  | .error a, .error b =>
    if h : a = b then isTrue (by rw [h]) else isFalse (fun e => h (by cases e; rfl))
  | .ok _, .error _ => isFalse (fun e => by cases e)
  | .error _, .ok _ => isFalse (fun e => by cases e)

/-! ## The scans, order-free -/

theorem firstErr_ok_iff {α : Type} (l : List α) (bad : α → Bool) (e : Err) :
    firstErr l bad e = .ok () ↔ ∀ x ∈ l, bad x = false := by
  induction l with
  | nil => simp [firstErr]
  | cons x r ih =>
    simp only [firstErr, List.mem_cons, forall_eq_or_imp]
    cases h : bad x <;> simp [ih]

theorem allMatch_iff {α : Type} (l : List α) (good : α → Bool) :
    allMatch l good = true ↔ ∀ x ∈ l, good x = true := by
  induction l with
  | nil => simp [allMatch]
  | cons x r ih =>
    simp only [allMatch, List.mem_cons, forall_eq_or_imp]
    cases h : good x <;> simp [ih]

/-! ## Association lists with pairwise distinct keys -/

theorem forall_keys_iff {V : Type} (l : List (String × V)) (P : String → Prop) :
    (∀ d ∈ keys l, P d) ↔ ∀ e ∈ l, P e.1 := by
  simp [keys]

theorem lookup_eq_none_iff_keys {V : Type} (l : List (String × V)) (k : String) :
    l.lookup k = none ↔ k ∉ keys l := by
  induction l with
  | nil => simp [keys]
  | cons p r ih =>
    obtain ⟨a, b⟩ := p
    by_cases h : k = a
    · subst h; simp [keys]
    · have h' : (k == a) = false := by simpa using h
      simp only [keys] at ih
      simp [keys, List.lookup_cons, h', h, ih]

theorem lookup_eq_some_iff {V : Type} {l : List (String × V)} (h : (keys l).Nodup)
    (k : String) (v : V) : l.lookup k = some v ↔ (k, v) ∈ l := by
  induction l with
  | nil => simp
  | cons p r ih =>
    obtain ⟨a, b⟩ := p
    simp only [keys, List.map_cons, List.nodup_cons] at h
    by_cases hk : k = a
    · subst hk
      have : ∀ v, (k, v) ∉ r := fun v hm => h.1 (List.mem_map_of_mem (f := (·.1)) hm)
      simp only [List.lookup_cons, beq_self_eq_true, Option.some.injEq, List.mem_cons,
        Prod.mk.injEq, true_and, this, or_false]
      exact eq_comm
    · have h' : (k == a) = false := by simpa using hk
      simp [List.lookup_cons, h', hk, ih h.2]

theorem mem_keys_perm {V : Type} {l l' : List (String × V)} (hp : l'.Perm l) (k : String) :
    k ∈ keys l' ↔ k ∈ keys l := (hp.map (fun x : String × V => x.1)).mem_iff

theorem nodup_keys_perm {V : Type} {l l' : List (String × V)} (hp : l'.Perm l) :
    (keys l').Nodup ↔ (keys l).Nodup := (hp.map (fun x : String × V => x.1)).nodup_iff

theorem lookup_perm {V : Type} {l l' : List (String × V)} (hp : l'.Perm l)
    (h : (keys l).Nodup) (k : String) : l'.lookup k = l.lookup k := by
  have h' : (keys l').Nodup := (nodup_keys_perm hp).2 h
  apply Option.ext
  intro v
  rw [lookup_eq_some_iff h', lookup_eq_some_iff h, hp.mem_iff]

/-- Pigeonhole: a duplicate-free list contained in a list that is no longer covers it. -/
theorem subset_of_nodup_of_length_le {l₁ l₂ : List String} (d : l₁.Nodup) (H : l₁ ⊆ l₂)
    (hl : l₂.length ≤ l₁.length) : l₂ ⊆ l₁ :=
  ((List.subperm_of_subset d H).perm_of_length_le hl).symm.subset

theorem mem_keys_of_setupGet {m : Matrix} {d : String} (h : setupGet m d ≠ none) :
    d ∈ keys m.setup := by
  apply Classical.byContradiction
  intro hn
  apply h
  simp [setupGet, (lookup_eq_none_iff_keys m.setup d).2 hn]

/-- A key-distinct entry list of the setup's length, all of whose keys are setup dimensions,
    has exactly the setup's dimensions as keys. -/
theorem keys_cover {V : Type} {m : Matrix} {l : List (String × V)} (d : (keys l).Nodup)
    (hlen : l.length = m.setup.length) (hk : ∀ d ∈ keys l, setupGet m d ≠ none) (x : String) :
    x ∈ keys l ↔ x ∈ keys m.setup := by
  have hsub : keys l ⊆ keys m.setup := fun y hy => mem_keys_of_setupGet (hk y hy)
  refine ⟨fun h => hsub h, fun h => ?_⟩
  exact subset_of_nodup_of_length_le d hsub (by simp [keys, hlen]) h

/-! ## The code's tests against the specification's predicates -/

/-- The code's "permutation equals the adjustment's tuple" test. -/
def matchB (p : List (String × String)) (a : Adj) : Bool :=
  allMatch p (fun e => e.2 == withGet a e.1)

/-- The code's "permutation is a combination of setup values" test. -/
def combB (m : Matrix) (p : List (String × String)) : Bool :=
  allMatch p (fun e => ((setupGet m e.1).getD []).contains e.2)

theorem combB_iff (m : Matrix) (p : List (String × String)) :
    combB m p = true ↔ isCombination m p := by
  unfold combB isCombination
  rw [allMatch_iff]
  apply forall_congr'; intro e
  apply imp_congr_right; intro _
  cases setupGet m e.1 <;> simp

theorem matchB_iff {m : Matrix} {a : Adj} {p : List (String × String)}
    (hp : namesEachDimOnce m p) (dp : (keys p).Nodup)
    (ha : adjWellFormed m a) (da : (keys a.with_).Nodup) :
    matchB p a = true ↔ adjEquals a p := by
  unfold matchB adjEquals
  rw [allMatch_iff]
  apply forall_congr'; intro e
  apply imp_congr_right; intro he
  have h1 : e.1 ∈ keys p := List.mem_map_of_mem (f := (·.1)) he
  have h2 : e.1 ∈ keys a.with_ :=
    (keys_cover da ha.1 ha.2 e.1).2 ((keys_cover dp hp.1 hp.2 e.1).1 h1)
  cases hl : a.with_.lookup e.1 with
  | none => exact absurd h2 ((lookup_eq_none_iff_keys _ _).1 hl)
  | some v =>
    simp only [withGet, hl, Option.getD_some, beq_iff_eq, Option.some.injEq]
    exact eq_comm

theorem adjWellFormed_iff (m : Matrix) (a : Adj) :
    adjWellFormed m a ↔
      a.with_.length = m.setup.length ∧
      firstErr a.with_ (fun e => (setupGet m e.1).isNone) .adjUnknownDim = .ok () := by
  unfold adjWellFormed
  rw [firstErr_ok_iff, forall_keys_iff]
  apply and_congr_right; intro _
  apply forall_congr'; intro e
  apply imp_congr_right; intro _
  cases setupGet m e.1 <;> simp

theorem namesEachDimOnce_iff (m : Matrix) (p : List (String × String)) :
    namesEachDimOnce m p ↔
      p.length = m.setup.length ∧
      firstErr p (fun e => (setupGet m e.1).isNone) .permUnknownDim = .ok () := by
  unfold namesEachDimOnce
  rw [firstErr_ok_iff, forall_keys_iff]
  apply and_congr_right; intro _
  apply forall_congr'; intro e
  apply imp_congr_right; intro _
  cases setupGet m e.1 <;> simp

/-! ## The adjustment loop -/

/-- A `none` (null) adjustment makes the loop fail; otherwise the loop succeeds exactly when every
    entry is a well-formed `some a`, no matching one is skipped, and the carried flag is or-ed with
    "some adjustment matches". -/
theorem adjLoop_ok_iff (m : Matrix) (p : List (String × String)) (adjs : List (Option Adj))
    (valid v : Bool) :
    adjLoop m p adjs valid = .ok v ↔
      (∀ x ∈ adjs, ∃ a, x = some a ∧ adjWellFormed m a) ∧
      (∀ a, some a ∈ adjs → matchB p a = true → shouldSkip a.skip = false) ∧
      v = (valid || adjs.any (fun x => x.any (matchB p))) := by
  induction adjs generalizing valid with
  | nil => simp only [adjLoop]; simp; exact eq_comm
  | cons x rest ih =>
    cases x with
    | none => simp [adjLoop]
    | some adj =>
      simp only [List.mem_cons, forall_eq_or_imp, List.any_cons, Option.any_some,
        Option.some.injEq, exists_eq_left']
      rw [adjWellFormed_iff]
      unfold adjLoop
      by_cases hlen : adj.with_.length = m.setup.length
      · simp only [hlen, bne_self_eq_false, Bool.false_eq_true, ↓reduceIte, true_and]
        cases hfe : firstErr adj.with_ (fun e => (setupGet m e.1).isNone) .adjUnknownDim with
        | error e => simp
        | ok u =>
          simp only [true_and]
          cases hm : matchB p adj with
          | false =>
            have hm' : allMatch p (fun e => e.2 == withGet adj e.1) = false := hm
            simp [hm', ih]
          | true =>
            have hm' : allMatch p (fun e => e.2 == withGet adj e.1) = true := hm
            cases hs : shouldSkip adj.skip with
            | true => simp [hm']
            | false => simp [hm', ih]
      · have : (adj.with_.length != m.setup.length) = true := by simpa using hlen
        simp [this, hlen]

/-! ## `validate` -/

theorem validate_none_iff (p : List (String × String)) : validate none p = .ok () ↔ p = [] := by
  cases p <;> simp [validate]

theorem validate_some_iff (m : Matrix) (p : List (String × String)) :
    validate (some m) p = .ok () ↔
      namesEachDimOnce m p ∧ adjLoop m p m.adjustments (combB m p) = .ok true := by
  rw [namesEachDimOnce_iff]
  unfold validate
  by_cases hlen : p.length = m.setup.length
  · simp only [hlen, bne_self_eq_false, Bool.false_eq_true, ↓reduceIte, true_and]
    cases hfe : firstErr p (fun e => (setupGet m e.1).isNone) .permUnknownDim with
    | error e => simp
    | ok u =>
      simp only [true_and]
      show (match adjLoop m p m.adjustments (combB m p) with
        | .error e => Except.error e
        | .ok valid => if !valid then Except.error Err.noMatch else Except.ok ()) = _ ↔ _
      cases adjLoop m p m.adjustments (combB m p) with
      | error e => simp
      | ok v => cases v <;> simp
  · have : (p.length != m.setup.length) = true := by simpa using hlen
    simp [this, hlen]

theorem validate_iff (m : Option Matrix) (p : List (String × String)) (wf : WF m p) :
    validate m p = .ok () ↔ accept m p := by
  cases m with
  | none => exact validate_none_iff p
  | some m =>
    rw [validate_some_iff, adjLoop_ok_iff]
    show _ ↔ namesEachDimOnce m p ∧
      (∀ x ∈ m.adjustments, ∃ a, x = some a ∧ adjWellFormed m a) ∧
      (isCombination m p ∨ ∃ a, some a ∈ m.adjustments ∧ adjEquals a p) ∧
      (∀ a, some a ∈ m.adjustments → adjEquals a p → shouldSkip a.skip = false)
    apply and_congr_right; intro hN
    apply and_congr_right; intro hW
    have hmatch : ∀ a, some a ∈ m.adjustments → (matchB p a = true ↔ adjEquals a p) := by
      intro a ha
      obtain ⟨a', e, hw⟩ := hW (some a) ha
      cases e
      exact matchB_iff hN wf.pKeys hw (wf.adjKeys m rfl a ha)
    rw [and_comm]
    apply and_congr
    · rw [eq_comm, Bool.or_eq_true, combB_iff, List.any_eq_true]
      apply or_congr Iff.rfl
      constructor
      · rintro ⟨x, hx, h⟩
        cases x with
        | none => simp at h
        | some a => exact ⟨a, hx, (hmatch a hx).1 (by simpa using h)⟩
      · rintro ⟨a, ha, h⟩; exact ⟨some a, ha, by simpa using (hmatch a ha).2 h⟩
    · apply forall_congr'; intro a
      apply forall_congr'; intro ha
      rw [hmatch a ha]

/-! ## Order independence -/

/-- The relation of `C11_order_independent` between corresponding adjustment entries: both null,
    or both present with permuted tuples and the same `skip`. -/
def AdjRel : Option Adj → Option Adj → Prop := fun x' x => match x', x with
  | some a', some a => a'.with_.Perm a.with_ ∧ a'.skip = a.skip
  | none, none => True
  | _, _ => False

theorem forall₂_forall_iff {α β : Type} {R : α → β → Prop} {P' : α → Prop} {P : β → Prop}
    {l' : List α} {l : List β} (h : List.Forall₂ R l' l)
    (hR : ∀ a' a, R a' a → (P' a' ↔ P a)) : (∀ a' ∈ l', P' a') ↔ (∀ a ∈ l, P a) := by
  induction h with
  | nil => simp
  | cons hab _ ih => simp only [List.mem_cons, forall_eq_or_imp, hR _ _ hab, ih]

theorem forall₂_exists_iff {α β : Type} {R : α → β → Prop} {P' : α → Prop} {P : β → Prop}
    {l' : List α} {l : List β} (h : List.Forall₂ R l' l)
    (hR : ∀ a' a, R a' a → (P' a' ↔ P a)) : (∃ a' ∈ l', P' a') ↔ (∃ a ∈ l, P a) := by
  induction h with
  | nil => simp
  | cons hab _ ih => simp only [List.mem_cons, exists_eq_or_imp, hR _ _ hab, ih]

/-- Quantifying over the `some` members of a list of options, as a bounded quantifier. -/
theorem forall_some_mem_iff {α : Type} (l : List (Option α)) (P : α → Prop) :
    (∀ a, some a ∈ l → P a) ↔ ∀ x ∈ l, ∀ a, x = some a → P a :=
  ⟨fun h _ hx a e => h a (e ▸ hx), fun h a ha => h _ ha a rfl⟩

theorem exists_some_mem_iff {α : Type} (l : List (Option α)) (P : α → Prop) :
    (∃ a, some a ∈ l ∧ P a) ↔ ∃ x ∈ l, ∃ a, x = some a ∧ P a :=
  ⟨fun ⟨a, ha, h⟩ => ⟨_, ha, a, rfl, h⟩, fun ⟨_, hx, a, e, h⟩ => ⟨a, e ▸ hx, h⟩⟩

/-- Related entries satisfy related predicates on their `some` payloads (universal form). -/
theorem adjRel_forall_iff {R : Adj → Adj → Prop} {P' P : Adj → Prop} {x' x : Option Adj}
    (h : match x', x with
      | some a', some a => R a' a
      | none, none => True
      | _, _ => False)
    (hR : ∀ a' a, R a' a → (P' a' ↔ P a)) :
    (∀ a, x' = some a → P' a) ↔ (∀ a, x = some a → P a) := by
  cases x' <;> cases x
  · simp
  · exact h.elim
  · exact h.elim
  · simpa using hR _ _ h

/-- Related entries satisfy related predicates on their `some` payloads (existential form). -/
theorem adjRel_exists_iff {R : Adj → Adj → Prop} {P' P : Adj → Prop} {x' x : Option Adj}
    (h : match x', x with
      | some a', some a => R a' a
      | none, none => True
      | _, _ => False)
    (hR : ∀ a' a, R a' a → (P' a' ↔ P a)) :
    (∃ a, x' = some a ∧ P' a) ↔ (∃ a, x = some a ∧ P a) := by
  cases x' <;> cases x
  · simp
  · exact h.elim
  · exact h.elim
  · simpa using hR _ _ h

theorem setupGet_perm {m m' : Matrix} (hs : m'.setup.Perm m.setup) (d : (keys m.setup).Nodup)
    (k : String) : setupGet m' k = setupGet m k := by
  unfold setupGet; rw [lookup_perm hs d]

theorem namesEachDimOnce_perm {m m' : Matrix} {p p' : List (String × String)}
    (hp : p'.Perm p) (hs : m'.setup.Perm m.setup) (d : (keys m.setup).Nodup) :
    namesEachDimOnce m' p' ↔ namesEachDimOnce m p := by
  unfold namesEachDimOnce
  rw [hp.length_eq, hs.length_eq]
  apply and_congr_right; intro _
  apply forall_congr'; intro k
  rw [mem_keys_perm hp, setupGet_perm hs d]

theorem adjWellFormed_perm {m m' : Matrix} {a a' : Adj}
    (ha : a'.with_.Perm a.with_) (hs : m'.setup.Perm m.setup) (d : (keys m.setup).Nodup) :
    adjWellFormed m' a' ↔ adjWellFormed m a := by
  unfold adjWellFormed
  rw [ha.length_eq, hs.length_eq]
  apply and_congr_right; intro _
  apply forall_congr'; intro k
  rw [mem_keys_perm ha, setupGet_perm hs d]

theorem isCombination_perm {m m' : Matrix} {p p' : List (String × String)}
    (hp : p'.Perm p) (hs : m'.setup.Perm m.setup) (d : (keys m.setup).Nodup) :
    isCombination m' p' ↔ isCombination m p := by
  unfold isCombination
  apply forall_congr'; intro e
  rw [hp.mem_iff, setupGet_perm hs d]

theorem adjEquals_perm {a a' : Adj} {p p' : List (String × String)}
    (hp : p'.Perm p) (ha : a'.with_.Perm a.with_) (d : (keys a.with_).Nodup) :
    adjEquals a' p' ↔ adjEquals a p := by
  unfold adjEquals
  apply forall_congr'; intro e
  rw [hp.mem_iff, lookup_perm ha d]

/-- `AdjRel`, strengthened with the key-distinctness of the unprimed adjustment. -/
def AdjRelK : Option Adj → Option Adj → Prop := fun x' x => match x', x with
  | some a', some a => (a'.with_.Perm a.with_ ∧ a'.skip = a.skip) ∧ (keys a.with_).Nodup
  | none, none => True
  | _, _ => False

theorem adjRelK_of_wf {m m' : Matrix} {p : List (String × String)} (wf : WF (some m) p)
    (ha : List.Forall₂ AdjRel m'.adjustments m.adjustments) :
    List.Forall₂ AdjRelK m'.adjustments m.adjustments := by
  have hk := wf.adjKeys m rfl
  generalize m'.adjustments = l' at ha
  generalize m.adjustments = l at ha hk
  induction ha with
  | nil => exact .nil
  | @cons x' x _ _ hab _ ih =>
    refine .cons ?_ (ih fun a h => hk a (List.mem_cons_of_mem _ h))
    cases x' <;> cases x
    · trivial
    · exact hab.elim
    · exact hab.elim
    · exact ⟨hab, hk _ List.mem_cons_self⟩

theorem accept_perm (m m' : Matrix) (p p' : List (String × String))
    (wf : WF (some m) p)
    (hp : p'.Perm p) (hs : m'.setup.Perm m.setup)
    (ha : List.Forall₂ AdjRel m'.adjustments m.adjustments) :
    accept (some m') p' ↔ accept (some m) p := by
  have ds := wf.setupKeys m rfl
  have ha' := adjRelK_of_wf wf ha
  show (namesEachDimOnce m' p' ∧
      (∀ x ∈ m'.adjustments, ∃ a, x = some a ∧ adjWellFormed m' a) ∧
      (isCombination m' p' ∨ ∃ a, some a ∈ m'.adjustments ∧ adjEquals a p') ∧
      (∀ a, some a ∈ m'.adjustments → adjEquals a p' → shouldSkip a.skip = false)) ↔
    (namesEachDimOnce m p ∧
      (∀ x ∈ m.adjustments, ∃ a, x = some a ∧ adjWellFormed m a) ∧
      (isCombination m p ∨ ∃ a, some a ∈ m.adjustments ∧ adjEquals a p) ∧
      (∀ a, some a ∈ m.adjustments → adjEquals a p → shouldSkip a.skip = false))
  rw [namesEachDimOnce_perm hp hs ds, isCombination_perm hp hs ds,
    forall_some_mem_iff m'.adjustments, forall_some_mem_iff m.adjustments,
    exists_some_mem_iff m'.adjustments, exists_some_mem_iff m.adjustments,
    forall₂_forall_iff (P' := fun x => ∃ a, x = some a ∧ adjWellFormed m' a)
      (P := fun x => ∃ a, x = some a ∧ adjWellFormed m a) ha'
      (fun x' x h => adjRel_exists_iff h (fun a' a h => adjWellFormed_perm h.1.1 hs ds)),
    forall₂_exists_iff (P' := fun x => ∃ a, x = some a ∧ adjEquals a p')
      (P := fun x => ∃ a, x = some a ∧ adjEquals a p) ha'
      (fun x' x h => adjRel_exists_iff h (fun a' a h => adjEquals_perm hp h.1.1 h.2)),
    forall₂_forall_iff
      (P' := fun x => ∀ a, x = some a → adjEquals a p' → shouldSkip a.skip = false)
      (P := fun x => ∀ a, x = some a → adjEquals a p → shouldSkip a.skip = false) ha'
      (fun x' x h => adjRel_forall_iff h
        (fun a' a h => by rw [adjEquals_perm hp h.1.1 h.2, h.1.2]))]

theorem wf_perm (m m' : Matrix) (p p' : List (String × String))
    (wf : WF (some m) p)
    (hp : p'.Perm p) (hs : m'.setup.Perm m.setup)
    (ha : List.Forall₂ AdjRel m'.adjustments m.adjustments) :
    WF (some m') p' := by
  refine ⟨(nodup_keys_perm hp).2 wf.pKeys, ?_, ?_⟩
  · intro mm h; cases h; exact (nodup_keys_perm hs).2 (wf.setupKeys m rfl)
  · intro mm h; cases h
    rw [forall_some_mem_iff]
    exact (forall₂_forall_iff (P' := fun x => ∀ a, x = some a → (keys a.with_).Nodup)
      (P := fun x => ∀ a, x = some a → (keys a.with_).Nodup) ha
      (fun x' x h => adjRel_forall_iff h (fun a' a h => nodup_keys_perm h.1))).2
      ((forall_some_mem_iff _ _).1 (wf.adjKeys m rfl))

theorem validate_perm (m m' : Matrix) (p p' : List (String × String))
    (wf : WF (some m) p)
    (hp : p'.Perm p) (hs : m'.setup.Perm m.setup)
    (ha : List.Forall₂ AdjRel m'.adjustments m.adjustments) :
    validate (some m') p' = .ok () ↔ validate (some m) p = .ok () := by
  rw [validate_iff _ _ (wf_perm m m' p p' wf hp hs ha), validate_iff _ _ wf]
  exact accept_perm m m' p p' wf hp hs ha

/-! ## Interpolation -/

theorem interp_only_if_accepted {S E : Type} (interp : List (String × String) → S → S × Option E)
    (m : Option Matrix) (p : List (String × String)) (s : S) (wf : WF m p)
    (h : (interpolateMatrixPermutation interp m p s).1 ≠ s) : accept m p ∧ p ≠ [] := by
  unfold interpolateMatrixPermutation at h
  cases hv : validate m p with
  | error e => simp [hv] at h
  | ok u =>
    refine ⟨(validate_iff m p wf).1 hv, ?_⟩
    intro hp
    subst hp
    simp [hv] at h

end GoPipeline.MatrixV
