/-
  C09 on structurally well-formed step trees: the fixpoint (marshal, re-read, re-parse gives the same tree up
  to the normal form) does not need the tree to be in the image of the parser.

  `Lemmas/Roundtrip.lean` / `Lemmas/RoundtripY.lean` prove the fixpoint for steps that `parseStep` produced.
  `Lemmas/StepOK.lean` replaced "in the image of the parser" by the structural predicate `StepOK` for the SIGNED
  round trip (C02).  Here the same is done for C09, on both legs.

  `StepOK` alone is NOT enough for the fixpoint (it was enough for C02 because there only the re-parse of the
  command steps matters and signing refuses unknown steps).  Each of the following trees is `StepOK` and
  `StableStep`, and the marshalled form does not re-parse to a tree with the same normal form (Part G proves
  every one of them):

    (1) `.wait "" none`  (`&WaitStep{}` built through the API)            -> written `"wait"`, re-parsed as
        `.wait "wait" none`: the scalar is part of the normal form;
    (2) `.wait "wait" (some [("a", null)])`  (scalar AND contents)        -> written `"wait"`, the contents
        are dropped;
    (3) `.wait "" (some [("wait", null), ("a", null)])`  (an unsorted list as the representation of a Go
        map)                                                             -> re-parsed with sorted contents;
    (3') `.trigger (some [("trigger", umap [])])`  (a Go map inside the contents) -> comes back as an ordered
        mapping;
    (4) `.unknown null`, `.unknown "wait"`                               -> a hard error, a wait step;
    (5) `.group "" none (some [.unknown "foo"]) none`                    -> the nested warning is refused by
        `(*GroupStep).UnmarshalOrdered`, the whole group falls back to an unknown step.

  Hence two more hypotheses, both established by the parser and the first kept by env interpolation:

  * `FormOK s` (structural, Part A): the tree is in the form the marshaller writes it.
      wait sc c / input sc c : scalar form (`sc ≠ ""`) holds no contents; mapping form (`sc = ""`) holds
                               contents that are a sorted Go map of decoded values (`ContentsOK`), non-empty for
                               a wait step;
      trigger c              : `ContentsOK c`;
      group _ _ (some l) _   : `FormsOK l` and no unknown step anywhere inside (`NoUnknownList l`);
      command / unknown      : nothing.
  * unknown steps at the TOP level must hold a value that the parser classifies as unknown:
      `∀ v, s = .unknown v → ∃ w, parseStep f v = .ok (.unknown v, w)`
    (for an unknown step this is exactly the fixpoint statement, so it is the weakest possible hypothesis; it
    is vacuous on trees without a top-level unknown step).

  Warnings: the re-parse raises no warning exactly when the tree holds no unknown step
  (`w' = [] ↔ NoUnknown s`): a top-level unknown step gives its own warning again, everything else none.

  * Part A: predicates.  Part B: the group level with the remainder's normal form (`group_reparse_norm`), kind
    selection after the re-read, the wait / input / trigger kinds for both legs at once (`wait_reparse`, ...).
  * Part C: the JSON leg (`fix_all`, `step_roundtrip_ok`, `steps_roundtrip_ok`).
  * Part D: the YAML leg (`fixY_all`, `step_roundtripY_ok`, `steps_roundtripY_ok`), `legs_agree_ok`.
  * Part E: the parser's image is `FormOK`, its warnings are its unknown steps (`parseStep_formOK`).
  * Part F: env interpolation keeps `FormOK` / `NoUnknown`; the composed corollaries
    (`interp_then_fixpoint`, `interp_then_fixpointY`, and the warning-free versions).
  * Part G: the counterexamples above, and the one for the composed statement without a hypothesis on unknown
    steps (`"${X}"` interpolated to `"wait"`).
-/
import GoPipeline.Lemmas.StepOK
import GoPipeline.Lemmas.RoundtripY
import GoPipeline.Lemmas.StepOKInterp
set_option linter.unusedSimpArgs false
set_option linter.unusedVariables false
namespace GoPipeline.Roundtrip
open GoPipeline GoPipeline.Pipe GoPipeline.Parse GoPipeline.Marshal GoPipeline.Unm GoPipeline.MarshalY
  GoPipeline.SignedRT

local notation "grpD" => Gen.struct_GroupStep

/-! ## Part A: the predicates -/

mutual
  /-- No unknown step at any depth. -/
  def NoUnknown : Step → Prop
    | .group _ _ ss _ => (match ss with | none => True | some l => NoUnknownList l)
    | .unknown _ => False
    | _ => True
  def NoUnknownList : List Step → Prop
    | [] => True
    | s :: r => NoUnknown s ∧ NoUnknownList r
end

/-- The contents of a wait / input / trigger step as a Go map of decoded values: strictly sorted by key (the
    list representation of a Go map), no Go map inside the values. -/
def ContentsOK (c : UMap Val) : Prop := SortedK (c.getD []) ∧ ∀ p ∈ c.getD [], NoUMap p.2

mutual
  /-- The tree is in the form the marshaller writes it (see the header). -/
  def FormOK : Step → Prop
    | .command _ => True
    | .wait sc c => if sc = "" then ContentsOK c ∧ c.getD [] ≠ [] else c.getD [] = []
    | .input sc c => if sc = "" then ContentsOK c else c.getD [] = []
    | .trigger c => ContentsOK c
    | .group _ _ ss _ => (match ss with | none => True | some l => FormsOK l ∧ NoUnknownList l)
    | .unknown _ => True
  def FormsOK : List Step → Prop
    | [] => True
    | s :: r => FormOK s ∧ FormsOK r
end

theorem noUnknown_group_some (k : String) (g : Option String) (l : List Step) (r : UMap Val) :
    NoUnknown (.group k g (some l) r) = NoUnknownList l := by
  simp [NoUnknown]

theorem formOK_group_some (k : String) (g : Option String) (l : List Step) (r : UMap Val) :
    FormOK (.group k g (some l) r) = (FormsOK l ∧ NoUnknownList l) := by
  simp [FormOK]

theorem noUnknown_unknown (v : Val) : ¬ NoUnknown (.unknown v) := by
  simp [NoUnknown]

/-- Outside unknown steps, `FormOK` already says that there is no unknown step inside. -/
theorem noUnknown_of_formOK {s : Step} (hform : FormOK s) (hne : ∀ v, s ≠ .unknown v) : NoUnknown s := by
  cases s with
  | group k g ss r =>
    cases ss with
    | none => simp [NoUnknown]
    | some l => rw [formOK_group_some] at hform; rw [noUnknown_group_some]; exact hform.2
  | unknown v => exact absurd rfl (hne v)
  | _ => simp [NoUnknown]

theorem not_mem_unknown_of_noUnknownList : (l : List Step) → NoUnknownList l → ∀ v, Step.unknown v ∉ l
  | [], _, v, h => by cases h
  | s :: r, hl, v, h => by
    rw [NoUnknownList] at hl
    rcases List.mem_cons.1 h with h | h
    · rw [← h] at hl; exact noUnknown_unknown v hl.1
    · exact not_mem_unknown_of_noUnknownList r hl.2 v h

/-! ## Part B: the levels below the induction -/

/-- Re-parsing a marshalled group step whose nested steps `js` re-parse to `ss'`: `group_reparse` of
    `Lemmas/SignedRoundtrip.lean` plus the normal form of the re-parsed remainder. -/
theorem group_reparse_norm (f : Nat) (k : String) (grp : Option String) (rem : UMap Val)
    (hR : RemOK grpD rem)
    (hkey : k = "" → (rem.getD []).lookup "id" = none ∧ (rem.getD []).lookup "identifier" = none)
    (js : List Val) (ss' : List Step) (hps : parseSteps f (rereadJList js) = .ok (ss', [])) :
    ∃ U, rereadJ (inlineFriendly (grpOutline k grp js) rem) = .omap U ∧
      parseGroup f U = .ok (.group k grp (some ss') (remMap (remainder U grpD))) ∧
      normList (remMap (remainder U grpD)) = normList rem ∧
      (U.lookup "group").isSome = true ∧
      ∀ k', k' ∉ grpOutlineKeys → U.lookup k' = (rem.getD []).lookup k' := by
  have hnd : ((grpOutline k grp js).map (·.1)).Nodup := List.Nodup.sublist (grpOutline_keys k grp js) (by decide)
  obtain ⟨U, hU, hsU, hl⟩ := reread_inline (grpOutline k grp js) rem hnd hR.sorted hR.noUMap
  obtain ⟨ok, og, os⟩ := grpOutline_lookups k grp js
  have hUg : U.lookup "group" = some (match grp with | none => Val.null | some s => .str s) := by
    rw [hl, og]
    cases grp <;> rfl
  have hUs : U.lookup "steps" = some (.seq (rereadJList js)) := by
    rw [hl, os]; rfl
  have hkeyF : optField (taken U grpD) "Key" "" strOf = .ok k := by
    unfold optField
    rw [fieldOf_grp_key, hl "key", hl "id", hl "identifier", ok,
      lookup_none_of_not_mem (fun h => absurd ((grpOutline_keys k grp js).subset h) (by decide)),
      lookup_none_of_not_mem (fun h => absurd ((grpOutline_keys k grp js).subset h) (by decide))]
    by_cases hk : k = ""
    · have := hkey hk
      simp [hk, this.1, this.2, hR.prim' (k := "key") (by decide)]
    · simp [hk, rereadJ, strOf_str]
  have hrem : normList (remMap (remainder U grpD)) = normList rem := by
    apply rem_roundtrip_gen grpD (grpOutline k grp js) rereadJ rem ?_ hR U hsU hl
    · intro k' hk' hn
      rcases outlineKeys_grp_alias hk' hn with ⟨hk2, hnone⟩ | hnone
      · rw [hl "key", ok] at hnone
        have hk0 : k = "" := by
          by_cases h0 : k = ""
          · exact h0
          · simp [h0] at hnone
        rcases hk2 with rfl | rfl
        · exact (hkey hk0).1
        · exact (hkey hk0).2
      · rw [hUg] at hnone; cases hnone
    · intro k' hk'
      have : ∀ k ∈ grpOutlineKeys, k ∈ normalKeys grpD := by decide
      exact this _ ((grpOutline_keys k grp js).subset hk')
  refine ⟨U, hU, ?_, hrem, by rw [hUg]; rfl, fun k' hk' => ?_⟩
  · rw [parseGroup.eq_1]
    simp only [hkeyF, fieldOf_group_steps, hUs, hps, fieldOf_grp_group U _ hUg]
    cases grp <;> simp [strOf_str, Except.map]
  · rw [hl, lookup_none_of_not_mem (fun h => hk' ((grpOutline_keys k grp js).subset h))]

/-- The re-read command step still selects the command kind. -/
theorem selOf_command_reparsed {U : Entries} {c : CommandStep}
    (hsel : selOf (("command", .null) :: c.rem.getD []) = .ok (.known .command))
    (hUc : U.lookup "command" = some (.str c.command))
    (hUo : ∀ k, k ∉ cmdOutlineKeys → U.lookup k = (c.rem.getD []).lookup k) :
    selOf U = .ok (.known .command) := by
  apply selOf_command_of _ (by rw [hUc]; rfl) hsel
  rw [hUo "type" (by decide), lookup_cons_ne _ _ (by decide)]

/-- The re-read group step still selects the group kind. -/
theorem selOf_group_reparsed {U : Entries} {r : UMap Val}
    (hsel : selOf (("group", .null) :: r.getD []) = .ok (.known .group))
    (hUg : (U.lookup "group").isSome = true)
    (hUo : ∀ k', k' ∉ grpOutlineKeys → U.lookup k' = (r.getD []).lookup k') :
    selOf U = .ok (.known .group) := by
  rw [← hsel]
  apply selOf_eq_of
  · rw [hUo "type" (by decide), lookup_cons_ne _ _ (by decide)]
  · intro _ k' hk'
    by_cases hg : k' = "group"
    · subst hg
      rw [hUg]; rfl
    · rw [hUo k' (by
        simp only [StepKind.kindKeys, List.mem_cons, List.not_mem_nil, or_false] at hk'
        rcases hk' with rfl | rfl | rfl | rfl | rfl | rfl | rfl | rfl | rfl | rfl <;> first | decide | exact absurd rfl hg),
        lookup_cons_ne _ _ hg]

/-- A well-formed mapping-form contents step: the contents come back as the same list. -/
theorem contents_back {kvs : List (String × Val)} (hc : ContentsOK (some kvs)) :
    rereadJKVs kvs = kvs ∧ Parse.umapOf kvs = kvs :=
  ⟨rereadJKVs_of_forall hc.2, umapOf_sorted hc.1⟩

/-- Wait steps, both legs at once (the two marshallers write the same value). -/
theorem wait_reparse (f : Nat) (sc : String) (c : UMap Val) (hok : StepOK (.wait sc c))
    (hform : FormOK (.wait sc c)) :
    ∃ j s', mStep (.wait sc c) = .ok j ∧ yStep (.wait sc c) = .ok j ∧
      parseStep (f + 1) (rereadJ j) = .ok (s', []) ∧ normStep s' = normStep (.wait sc c) := by
  rw [StepOK] at hok
  rw [FormOK] at hform
  by_cases hsc : sc = ""
  · subst hsc
    rw [if_pos rfl] at hok hform
    obtain ⟨hco, hne⟩ := hform
    rcases hok with hnil | hsel
    · exact absurd hnil hne
    · obtain ⟨kvs, rfl, hlen⟩ := lenUMap_ne_of_selOf hsel
      simp only [Option.getD_some] at hsel
      obtain ⟨hb1, hb2⟩ := contents_back hco
      refine ⟨.umap kvs, .wait "" (some kvs), by rw [mStep_wait]; simp [hlen, umapV],
        by rw [yStep_wait]; simp [hlen, umapV], ?_, rfl⟩
      rw [rereadJ, hb1, parseStep.eq_3, hsel]
      simp only [hb2]
  · rw [if_neg hsc] at hok hform
    have hne : (sc != "") = true := by simpa using hsc
    refine ⟨.str sc, .wait sc none, by rw [mStep_wait, if_pos hne], by rw [yStep_wait, if_pos hne], ?_, ?_⟩
    · rw [rereadJ_str, parseStep.eq_2, hok]
    · rw [normStep, normStep, normList_of_getD_nil hform]
      rfl

theorem input_reparse (f : Nat) (sc : String) (c : UMap Val) (hok : StepOK (.input sc c))
    (hform : FormOK (.input sc c)) :
    ∃ j s', mStep (.input sc c) = .ok j ∧ yStep (.input sc c) = .ok j ∧
      parseStep (f + 1) (rereadJ j) = .ok (s', []) ∧ normStep s' = normStep (.input sc c) := by
  rw [StepOK] at hok
  rw [FormOK] at hform
  by_cases hsc : sc = ""
  · subst hsc
    rw [if_pos rfl] at hok hform
    obtain ⟨kvs, rfl, hlen⟩ := lenUMap_ne_of_selOf hok
    simp only [Option.getD_some] at hok
    obtain ⟨hb1, hb2⟩ := contents_back hform
    refine ⟨.umap kvs, .input "" (some kvs), by rw [mStep_input]; simp [hlen, umapV],
      by rw [yStep_input]; simp [hlen, umapV], ?_, rfl⟩
    rw [rereadJ, hb1, parseStep.eq_3, hok]
    simp only [hb2]
  · rw [if_neg hsc] at hok hform
    have hne : (sc != "") = true := by simpa using hsc
    refine ⟨.str sc, .input sc none, by rw [mStep_input, if_pos hne], by rw [yStep_input, if_pos hne], ?_, ?_⟩
    · rw [rereadJ_str, parseStep.eq_2, hok]
    · rw [normStep, normStep, normList_of_getD_nil hform]
      rfl

theorem trigger_reparse (f : Nat) (c : UMap Val) (hok : StepOK (.trigger c)) (hform : FormOK (.trigger c)) :
    ∃ j s', mStep (.trigger c) = .ok j ∧ yStep (.trigger c) = .ok j ∧
      parseStep (f + 1) (rereadJ j) = .ok (s', []) ∧ normStep s' = normStep (.trigger c) := by
  rw [StepOK] at hok
  rw [FormOK] at hform
  obtain ⟨kvs, rfl, hlen⟩ := lenUMap_ne_of_selOf hok
  simp only [Option.getD_some] at hok
  obtain ⟨hb1, hb2⟩ := contents_back hform
  refine ⟨.umap kvs, .trigger (some kvs), by rw [mStep_trigger]; rfl, by rw [yStep_trigger]; rfl, ?_, rfl⟩
  rw [rereadJ, hb1, parseStep.eq_3, hok]
  simp only [hb2]

/-! ## Part C: the JSON leg -/

/-- The statement of the fixpoint at one fuel level, for trees without unknown steps; the re-parse raises no
    warning (needed one level up: a group step refuses nested warnings). -/
def FixRT (f : Nat) : Prop :=
  ∀ (s : Step), StepOK s → FormOK s → StableStep s → stepDepth s ≤ f → NoUnknown s →
    ∃ j s', mStep s = .ok j ∧ parseStep f (rereadJ j) = .ok (s', []) ∧ normStep s' = normStep s

theorem fix_list_of (f : Nat) (ih : FixRT f) : (l : List Step) → StepsOK l → FormsOK l → StableSteps l →
    stepsDepth l ≤ f → NoUnknownList l →
    ∃ js ss', mSteps l = .ok js ∧ parseSteps f (rereadJList js) = .ok (ss', []) ∧ normSteps ss' = normSteps l
  | [], _, _, _, _, _ => ⟨[], [], rfl, by rw [rereadJList, parseSteps.eq_1], rfl⟩
  | s :: r, hok, hform, hs, hdep, hnu => by
    rw [StepsOK] at hok
    rw [FormsOK] at hform
    rw [StableSteps] at hs
    rw [NoUnknownList] at hnu
    rw [stepsDepth] at hdep
    obtain ⟨hd1, hd2⟩ := Nat.max_le.1 hdep
    obtain ⟨j, s1, hj, hp, hn⟩ := ih s hok.1 hform.1 hs.1 hd1 hnu.1
    obtain ⟨js, ss1, hjs, hps, hns⟩ := fix_list_of f ih r hok.2 hform.2 hs.2 hd2 hnu.2
    refine ⟨j :: js, s1 :: ss1, ?_, ?_, ?_⟩
    · rw [mSteps_cons, hj, hjs]
    · rw [rereadJList, parseSteps.eq_2, hp, hps]
      rfl
    · rw [normSteps, normSteps, hn, hns]

theorem fix_all : ∀ f, FixRT f
  | 0 => by
    intro s _ _ _ hd
    exact absurd (stepDepth_pos s) (by omega)
  | f + 1 => by
    have ih := fix_all f
    intro s hok hform hs hdep hnu
    cases s with
    | command c =>
      rw [StepOK] at hok
      rw [StableStep] at hs
      obtain ⟨U, c', hU, hp, hnc, hUc, hUo⟩ := command_roundtrip_ok c hok.1 hs
      refine ⟨mCommand c, .command c', mStep_command c, ?_, ?_⟩
      · rw [hU, parseStep.eq_3, selOf_command_reparsed hok.2 hUc hUo]
        simp only [hp]
      · rw [normStep, normStep, hnc]
    | group key grp ss r =>
      cases ss with
      | none => exact absurd hok (stepOK_group_none key grp r)
      | some l =>
        rw [stepOK_group_some] at hok
        obtain ⟨hR, hselg, hl⟩ := hok
        rw [formOK_group_some] at hform
        rw [stepDepth_group_some] at hdep
        simp only [StableStep] at hs
        obtain ⟨hss, _, _, hkey⟩ := hs
        obtain ⟨js, ss', hjs, hps, hns⟩ := fix_list_of f ih l hl hform.1 hss (by omega) hform.2
        obtain ⟨U, hU, hpg, hrem, hUg, hUo⟩ := group_reparse_norm f key grp r hR hkey js ss' hps
        refine ⟨_, .group key grp (some ss') (remMap (remainder U grpD)), mStep_group_eq key grp l r js hjs, ?_, ?_⟩
        · rw [hU, parseStep.eq_3, selOf_group_reparsed hselg hUg hUo]
          simp only [hpg]
        · simp only [normStep, hns, hrem]
    | wait sc c =>
      obtain ⟨j, s', h1, _, h3, h4⟩ := wait_reparse f sc c hok hform
      exact ⟨j, s', h1, h3, h4⟩
    | input sc c =>
      obtain ⟨j, s', h1, _, h3, h4⟩ := input_reparse f sc c hok hform
      exact ⟨j, s', h1, h3, h4⟩
    | trigger c =>
      obtain ⟨j, s', h1, _, h3, h4⟩ := trigger_reparse f c hok hform
      exact ⟨j, s', h1, h3, h4⟩
    | unknown v => exact absurd hnu (noUnknown_unknown v)

/-! ## Part D: the YAML leg (same induction, `yStep` / `StableStepY`) -/

def FixRTY (f : Nat) : Prop :=
  ∀ (s : Step), StepOK s → FormOK s → StableStepY s → stepDepth s ≤ f → NoUnknown s →
    ∃ j s', yStep s = .ok j ∧ parseStep f (rereadJ j) = .ok (s', []) ∧ normStep s' = normStep s

theorem fixY_list_of (f : Nat) (ih : FixRTY f) : (l : List Step) → StepsOK l → FormsOK l → StableStepsY l →
    stepsDepth l ≤ f → NoUnknownList l →
    ∃ js ss', ySteps l = .ok js ∧ parseSteps f (rereadJList js) = .ok (ss', []) ∧ normSteps ss' = normSteps l
  | [], _, _, _, _, _ => ⟨[], [], rfl, by rw [rereadJList, parseSteps.eq_1], rfl⟩
  | s :: r, hok, hform, hs, hdep, hnu => by
    rw [StepsOK] at hok
    rw [FormsOK] at hform
    rw [StableStepsY] at hs
    rw [NoUnknownList] at hnu
    rw [stepsDepth] at hdep
    obtain ⟨hd1, hd2⟩ := Nat.max_le.1 hdep
    obtain ⟨j, s1, hj, hp, hn⟩ := ih s hok.1 hform.1 hs.1 hd1 hnu.1
    obtain ⟨js, ss1, hjs, hps, hns⟩ := fixY_list_of f ih r hok.2 hform.2 hs.2 hd2 hnu.2
    refine ⟨j :: js, s1 :: ss1, ?_, ?_, ?_⟩
    · rw [ySteps_cons, hj, hjs]
    · rw [rereadJList, parseSteps.eq_2, hp, hps]
      rfl
    · rw [normSteps, normSteps, hn, hns]

theorem fixY_all : ∀ f, FixRTY f
  | 0 => by
    intro s _ _ _ hd
    exact absurd (stepDepth_pos s) (by omega)
  | f + 1 => by
    have ih := fixY_all f
    intro s hok hform hs hdep hnu
    cases s with
    | command c =>
      rw [StepOK] at hok
      rw [StableStepY] at hs
      obtain ⟨j, U, c', hj, hU, hp, hnc, hUc, hUo⟩ := command_roundtripY c hok.1 hs
      refine ⟨j, .command c', by rw [yStep_command]; exact hj, ?_, ?_⟩
      · rw [hU, parseStep.eq_3, selOf_command_reparsed hok.2 hUc hUo]
        simp only [hp]
      · rw [normStep, normStep, hnc]
    | group key grp ss r =>
      cases ss with
      | none => exact absurd hok (stepOK_group_none key grp r)
      | some l =>
        rw [stepOK_group_some] at hok
        obtain ⟨hR, hselg, hl⟩ := hok
        rw [formOK_group_some] at hform
        rw [stepDepth_group_some] at hdep
        simp only [StableStepY] at hs
        obtain ⟨hss, _, _, hkey⟩ := hs
        obtain ⟨js, ss', hjs, hps, hns⟩ := fixY_list_of f ih l hl hform.1 hss (by omega) hform.2
        obtain ⟨U, hU, hpg, hrem, hUg, hUo⟩ := group_reparse_norm f key grp r hR hkey js ss' hps
        refine ⟨_, .group key grp (some ss') (remMap (remainder U grpD)), yStep_group_eq key grp l r js hR hjs, ?_, ?_⟩
        · rw [hU, parseStep.eq_3, selOf_group_reparsed hselg hUg hUo]
          simp only [hpg]
        · simp only [normStep, hns, hrem]
    | wait sc c =>
      obtain ⟨j, s', _, h2, h3, h4⟩ := wait_reparse f sc c hok hform
      exact ⟨j, s', h2, h3, h4⟩
    | input sc c =>
      obtain ⟨j, s', _, h2, h3, h4⟩ := input_reparse f sc c hok hform
      exact ⟨j, s', h2, h3, h4⟩
    | trigger c =>
      obtain ⟨j, s', _, h2, h3, h4⟩ := trigger_reparse f c hok hform
      exact ⟨j, s', h2, h3, h4⟩
    | unknown v => exact absurd hnu (noUnknown_unknown v)

/-! ## Part E: the parser's image is in marshalled form, its warnings are its unknown steps -/

/-- The statement of `parseStep_formOK` at one fuel level. -/
def ParsedForm (f : Nat) : Prop :=
  ∀ (x : Val) (s : Step) (w : List Warn), NoUMap x → parseStep f x = .ok (s, w) →
    FormOK s ∧ (w = [] ↔ NoUnknown s) ∧ ∀ v, s = .unknown v → v = x

theorem parsedForm_list_of (f : Nat) (ih : ParsedForm f) : (xs : List Val) → (ss : List Step) →
    (ws : List Warn) → NoUMapList xs → parseSteps f xs = .ok (ss, ws) →
    FormsOK ss ∧ (ws = [] ↔ NoUnknownList ss)
  | [], ss, ws, _, h => by
    rw [parseSteps.eq_1] at h
    simp only [Except.ok.injEq, Prod.mk.injEq] at h
    obtain ⟨rfl, rfl⟩ := h
    simp [FormsOK, NoUnknownList]
  | v :: r, ss, ws, hx, h => by
    obtain ⟨s, w, ss', ws', hs1, hss, rfl, rfl⟩ := parseSteps_cons_ok h
    rw [NoUMapList] at hx
    obtain ⟨h1, h2, _⟩ := ih v s w hx.1 hs1
    obtain ⟨h3, h4⟩ := parsedForm_list_of f ih r ss' ws' hx.2 hss
    rw [FormsOK, NoUnknownList, List.append_eq_nil_iff, h2, h4]
    exact ⟨⟨h1, h3⟩, Iff.rfl⟩

theorem parsedForm_unknown (x : Val) (w0 : Warn) :
    FormOK (.unknown x) ∧ ([w0] = [] ↔ NoUnknown (.unknown x)) ∧ ∀ v, Step.unknown x = .unknown v → v = x :=
  ⟨by simp [FormOK], by simp [NoUnknown], fun v hv => by cases hv; rfl⟩

theorem contentsOK_umapOf {m : Entries} (hm : NoUMapKVs m) : ContentsOK (some (Parse.umapOf m)) := by
  refine ⟨sortedK_umapOf m, ?_⟩
  intro p hp
  exact (noUMapKVs_iff m).1 hm p (mem_umapOf hp)

theorem parsedForm_all : ∀ f, ParsedForm f
  | 0 => by
    intro x s w _ h
    rw [parseStep.eq_1] at h; cases h
  | f + 1 => by
    have ih := parsedForm_all f
    intro x s w hx h
    cases x with
    | str t =>
      rw [parseStep.eq_2] at h
      split at h
      · rename_i hsel
        simp only [Except.ok.injEq, Prod.mk.injEq] at h; obtain ⟨rfl, rfl⟩ := h
        have hne : t ≠ "" := selectScalar_ne_empty (by rw [hsel]; simp)
        exact ⟨by simp [FormOK, hne], by simp [NoUnknown], fun v hv => by cases hv⟩
      · rename_i hsel
        simp only [Except.ok.injEq, Prod.mk.injEq] at h; obtain ⟨rfl, rfl⟩ := h
        have hne : t ≠ "" := selectScalar_ne_empty (by rw [hsel]; simp)
        exact ⟨by simp [FormOK, hne], by simp [NoUnknown], fun v hv => by cases hv⟩
      · simp only [Except.ok.injEq, Prod.mk.injEq] at h; obtain ⟨rfl, rfl⟩ := h
        exact parsedForm_unknown _ _
    | omap m =>
      have hm : NoUMapKVs m := by simpa [NoUMap] using hx
      have hco := contentsOK_umapOf hm
      rw [parseStep.eq_3] at h
      split at h
      · cases h
      · rename_i sel hsel
        split at h
        · cases h
        · simp only [Except.ok.injEq, Prod.mk.injEq] at h; obtain ⟨rfl, rfl⟩ := h
          exact parsedForm_unknown _ _
        · simp only [Except.ok.injEq, Prod.mk.injEq] at h; obtain ⟨rfl, rfl⟩ := h
          exact parsedForm_unknown _ _
        · split at h
          · rename_i c hc
            simp only [Except.ok.injEq, Prod.mk.injEq] at h; obtain ⟨rfl, rfl⟩ := h
            exact ⟨by simp [FormOK], by simp [NoUnknown], fun v hv => by cases hv⟩
          · simp only [Except.ok.injEq, Prod.mk.injEq] at h; obtain ⟨rfl, rfl⟩ := h
            exact parsedForm_unknown _ _
        · simp only [Except.ok.injEq, Prod.mk.injEq] at h; obtain ⟨rfl, rfl⟩ := h
          refine ⟨?_, by simp [NoUnknown], fun v hv => by cases hv⟩
          rw [FormOK, if_pos rfl]
          exact ⟨hco, umapOf_ne_nil (selOf_ne_nil hsel)⟩
        · simp only [Except.ok.injEq, Prod.mk.injEq] at h; obtain ⟨rfl, rfl⟩ := h
          refine ⟨?_, by simp [NoUnknown], fun v hv => by cases hv⟩
          rw [FormOK, if_pos rfl]
          exact hco
        · simp only [Except.ok.injEq, Prod.mk.injEq] at h; obtain ⟨rfl, rfl⟩ := h
          refine ⟨?_, by simp [NoUnknown], fun v hv => by cases hv⟩
          rw [FormOK]
          exact hco
        · split at h
          · rename_i g hg
            simp only [Except.ok.injEq, Prod.mk.injEq] at h; obtain ⟨rfl, rfl⟩ := h
            obtain ⟨key, grp, ss, rfl, hsteps⟩ := parseGroup_ok hg
            have hsub : FormsOK ss ∧ NoUnknownList ss := by
              rcases hsteps with ⟨_, rfl⟩ | ⟨xs, hl, hps⟩
              · simp [FormsOK, NoUnknownList]
              · have h1 : NoUMap (.seq xs) := noUMap_of_lookup hm hl
                obtain ⟨a, b⟩ := parsedForm_list_of f ih xs ss [] (by simpa [NoUMap] using h1) hps
                exact ⟨a, b.1 rfl⟩
            rw [formOK_group_some, noUnknown_group_some]
            exact ⟨hsub, ⟨fun _ => hsub.2, fun _ => rfl⟩, fun v hv => by cases hv⟩
          · simp only [Except.ok.injEq, Prod.mk.injEq] at h; obtain ⟨rfl, rfl⟩ := h
            exact parsedForm_unknown _ _
        · simp only [Except.ok.injEq, Prod.mk.injEq] at h; obtain ⟨rfl, rfl⟩ := h
          exact parsedForm_unknown _ _
    | null | bool _ | int _ | float _ | time _ | seq _ | umap _ =>
      rw [parseStep.eq_4 _ _ (by intro s h; cases h) (by intro m h; cases h)] at h; cases h

/-- Every step the parser produces is in marshalled form; it raised no warning exactly when the step holds no
    unknown step; an unknown step holds the parsed value itself. -/
theorem parseStep_formOK (f : Nat) (x : Val) (s : Step) (w : List Warn) (hx : NoUMap x)
    (h : parseStep f x = .ok (s, w)) :
    FormOK s ∧ (w = [] ↔ NoUnknown s) ∧ ∀ v, s = .unknown v → v = x :=
  parsedForm_all f x s w hx h

theorem parseSteps_formsOK (f : Nat) (xs : List Val) (ss : List Step) (ws : List Warn) (hx : NoUMapList xs)
    (h : parseSteps f xs = .ok (ss, ws)) : FormsOK ss ∧ (ws = [] ↔ NoUnknownList ss) :=
  parsedForm_list_of f (parsedForm_all f) xs ss ws hx h

/-- The hypothesis on top-level unknown steps holds in the parser's image (with the fuel that parsed it). -/
theorem parseStep_unknown_reparses (f : Nat) (x : Val) (s : Step) (w : List Warn) (hx : NoUMap x)
    (h : parseStep f x = .ok (s, w)) : ∀ v, s = .unknown v → ∃ w', parseStep f v = .ok (.unknown v, w') := by
  intro v hv
  have := (parseStep_formOK f x s w hx h).2.2 v hv
  subst this
  subst hv
  exact ⟨w, h⟩

/-! ## The fixpoint theorems -/

/-- (a) The JSON leg, for EVERY structurally well-formed step tree in marshalled form: no parser hypothesis
    on the tree.  A top-level unknown step must hold a value that the parser classifies as unknown (`hu`,
    vacuous otherwise); the re-parse raises no warning exactly when there is no unknown step. -/
theorem step_roundtrip_ok (s : Step) (hok : StepOK s) (hform : FormOK s) (hs : StableStep s) (f : Nat)
    (hf : stepDepth s ≤ f) (hu : ∀ v, s = .unknown v → ∃ w, parseStep f v = .ok (.unknown v, w)) :
    ∃ j s' w', mStep s = .ok j ∧ parseStep f (rereadJ j) = .ok (s', w') ∧ normStep s' = normStep s ∧
      (w' = [] ↔ NoUnknown s) := by
  by_cases hunk : ∃ v, s = .unknown v
  · obtain ⟨v, rfl⟩ := hunk
    obtain ⟨w, hw⟩ := hu v rfl
    have hv : NoUMap v := by simpa [StepOK] using hok
    exact ⟨v, .unknown v, w, mStep_unknown v, by rw [reread_noUMap v hv]; exact hw, rfl,
      (parseStep_formOK f v _ w hv hw).2.1⟩
  · have hnu : NoUnknown s := noUnknown_of_formOK hform (fun v hv => hunk ⟨v, hv⟩)
    obtain ⟨j, s', h1, h2, h3⟩ := fix_all f s hok hform hs hf hnu
    exact ⟨j, s', [], h1, h2, h3, ⟨fun _ => hnu, fun _ => rfl⟩⟩

/-- (a) without unknown steps: the statement in the form of the task (no warning). -/
theorem step_roundtrip_ok_known (s : Step) (hok : StepOK s) (hform : FormOK s) (hs : StableStep s) (f : Nat)
    (hf : stepDepth s ≤ f) (hnu : NoUnknown s) :
    ∃ j s', mStep s = .ok j ∧ parseStep f (rereadJ j) = .ok (s', []) ∧ normStep s' = normStep s :=
  fix_all f s hok hform hs hf hnu

theorem steps_roundtrip_ok : (l : List Step) → StepsOK l → FormsOK l → StableSteps l → (f : Nat) →
    stepsDepth l ≤ f → (∀ v, Step.unknown v ∈ l → ∃ w, parseStep f v = .ok (.unknown v, w)) →
    ∃ js ss' ws', mSteps l = .ok js ∧ parseSteps f (rereadJList js) = .ok (ss', ws') ∧
      normSteps ss' = normSteps l ∧ (ws' = [] ↔ NoUnknownList l)
  | [], _, _, _, f, _, _ =>
    ⟨[], [], [], rfl, by rw [rereadJList, parseSteps.eq_1], rfl, by simp [NoUnknownList]⟩
  | s :: r, hok, hform, hs, f, hdep, hu => by
    rw [StepsOK] at hok
    rw [FormsOK] at hform
    rw [StableSteps] at hs
    rw [stepsDepth] at hdep
    obtain ⟨hd1, hd2⟩ := Nat.max_le.1 hdep
    obtain ⟨j, s1, w1, hj, hp, hn, hw⟩ := step_roundtrip_ok s hok.1 hform.1 hs.1 f hd1
      (fun v hv => hu v (by rw [hv]; exact List.mem_cons_self))
    obtain ⟨js, ss1, ws1, hjs, hps, hns, hws⟩ := steps_roundtrip_ok r hok.2 hform.2 hs.2 f hd2
      (fun v hv => hu v (List.mem_cons_of_mem _ hv))
    refine ⟨j :: js, s1 :: ss1, w1 ++ ws1, ?_, ?_, ?_, ?_⟩
    · rw [mSteps_cons, hj, hjs]
    · rw [rereadJList, parseSteps.eq_2, hp, hps]
    · rw [normSteps, normSteps, hn, hns]
    · rw [NoUnknownList, List.append_eq_nil_iff, hw, hws]

theorem steps_roundtrip_ok_known (l : List Step) (hok : StepsOK l) (hform : FormsOK l) (hs : StableSteps l)
    (f : Nat) (hf : stepsDepth l ≤ f) (hnu : NoUnknownList l) :
    ∃ js ss', mSteps l = .ok js ∧ parseSteps f (rereadJList js) = .ok (ss', []) ∧ normSteps ss' = normSteps l :=
  fix_list_of f (fix_all f) l hok hform hs hf hnu

/-- (b) The YAML leg. -/
theorem step_roundtripY_ok (s : Step) (hok : StepOK s) (hform : FormOK s) (hs : StableStepY s) (f : Nat)
    (hf : stepDepth s ≤ f) (hu : ∀ v, s = .unknown v → ∃ w, parseStep f v = .ok (.unknown v, w)) :
    ∃ j s' w', yStep s = .ok j ∧ parseStep f (rereadJ j) = .ok (s', w') ∧ normStep s' = normStep s ∧
      (w' = [] ↔ NoUnknown s) := by
  by_cases hunk : ∃ v, s = .unknown v
  · obtain ⟨v, rfl⟩ := hunk
    obtain ⟨w, hw⟩ := hu v rfl
    have hv : NoUMap v := by simpa [StepOK] using hok
    exact ⟨v, .unknown v, w, yStep_unknown v, by rw [reread_noUMap v hv]; exact hw, rfl,
      (parseStep_formOK f v _ w hv hw).2.1⟩
  · have hnu : NoUnknown s := noUnknown_of_formOK hform (fun v hv => hunk ⟨v, hv⟩)
    obtain ⟨j, s', h1, h2, h3⟩ := fixY_all f s hok hform hs hf hnu
    exact ⟨j, s', [], h1, h2, h3, ⟨fun _ => hnu, fun _ => rfl⟩⟩

theorem step_roundtripY_ok_known (s : Step) (hok : StepOK s) (hform : FormOK s) (hs : StableStepY s) (f : Nat)
    (hf : stepDepth s ≤ f) (hnu : NoUnknown s) :
    ∃ j s', yStep s = .ok j ∧ parseStep f (rereadJ j) = .ok (s', []) ∧ normStep s' = normStep s :=
  fixY_all f s hok hform hs hf hnu

theorem steps_roundtripY_ok : (l : List Step) → StepsOK l → FormsOK l → StableStepsY l → (f : Nat) →
    stepsDepth l ≤ f → (∀ v, Step.unknown v ∈ l → ∃ w, parseStep f v = .ok (.unknown v, w)) →
    ∃ js ss' ws', ySteps l = .ok js ∧ parseSteps f (rereadJList js) = .ok (ss', ws') ∧
      normSteps ss' = normSteps l ∧ (ws' = [] ↔ NoUnknownList l)
  | [], _, _, _, f, _, _ =>
    ⟨[], [], [], rfl, by rw [rereadJList, parseSteps.eq_1], rfl, by simp [NoUnknownList]⟩
  | s :: r, hok, hform, hs, f, hdep, hu => by
    rw [StepsOK] at hok
    rw [FormsOK] at hform
    rw [StableStepsY] at hs
    rw [stepsDepth] at hdep
    obtain ⟨hd1, hd2⟩ := Nat.max_le.1 hdep
    obtain ⟨j, s1, w1, hj, hp, hn, hw⟩ := step_roundtripY_ok s hok.1 hform.1 hs.1 f hd1
      (fun v hv => hu v (by rw [hv]; exact List.mem_cons_self))
    obtain ⟨js, ss1, ws1, hjs, hps, hns, hws⟩ := steps_roundtripY_ok r hok.2 hform.2 hs.2 f hd2
      (fun v hv => hu v (List.mem_cons_of_mem _ hv))
    refine ⟨j :: js, s1 :: ss1, w1 ++ ws1, ?_, ?_, ?_, ?_⟩
    · rw [ySteps_cons, hj, hjs]
    · rw [rereadJList, parseSteps.eq_2, hp, hps]
    · rw [normSteps, normSteps, hn, hns]
    · rw [NoUnknownList, List.append_eq_nil_iff, hw, hws]

theorem steps_roundtripY_ok_known (l : List Step) (hok : StepsOK l) (hform : FormsOK l) (hs : StableStepsY l)
    (f : Nat) (hf : stepsDepth l ≤ f) (hnu : NoUnknownList l) :
    ∃ js ss', ySteps l = .ok js ∧ parseSteps f (rereadJList js) = .ok (ss', []) ∧ normSteps ss' = normSteps l :=
  fixY_list_of f (fixY_all f) l hok hform hs hf hnu

/-- (c) The two legs agree: under the hypotheses of both (the JSON side conditions imply the YAML ones), the
    two re-parsed trees have the same normal form, and the two re-parses raise the same warnings. -/
theorem legs_agree_ok (s : Step) (hok : StepOK s) (hform : FormOK s) (hs : StableStep s) (f : Nat)
    (hf : stepDepth s ≤ f) (hu : ∀ v, s = .unknown v → ∃ w, parseStep f v = .ok (.unknown v, w)) :
    ∃ jJ jY sJ sY wJ wY, mStep s = .ok jJ ∧ yStep s = .ok jY ∧
      parseStep f (rereadJ jJ) = .ok (sJ, wJ) ∧ parseStep f (rereadJ jY) = .ok (sY, wY) ∧
      normStep sJ = normStep sY ∧ wJ = wY := by
  by_cases hunk : ∃ v, s = .unknown v
  · obtain ⟨v, rfl⟩ := hunk
    obtain ⟨w, hw⟩ := hu v rfl
    have hv : NoUMap v := by simpa [StepOK] using hok
    have hp : parseStep f (rereadJ v) = .ok (.unknown v, w) := by rw [reread_noUMap v hv]; exact hw
    exact ⟨v, v, .unknown v, .unknown v, w, w, mStep_unknown v, yStep_unknown v, hp, hp, rfl, rfl⟩
  · have hnu : NoUnknown s := noUnknown_of_formOK hform (fun v hv => hunk ⟨v, hv⟩)
    obtain ⟨jJ, sJ, h1, h2, h3⟩ := fix_all f s hok hform hs hf hnu
    obtain ⟨jY, sY, g1, g2, g3⟩ := fixY_all f s hok hform (stableStepY_of s hs) hf hnu
    exact ⟨jJ, jY, sJ, sY, [], [], h1, g1, h2, g2, h3.trans g3.symm, rfl⟩

theorem legs_agree_list_ok (l : List Step) (hok : StepsOK l) (hform : FormsOK l) (hs : StableSteps l) (f : Nat)
    (hf : stepsDepth l ≤ f) (hu : ∀ v, Step.unknown v ∈ l → ∃ w, parseStep f v = .ok (.unknown v, w)) :
    ∃ jsJ jsY ssJ ssY wsJ wsY, mSteps l = .ok jsJ ∧ ySteps l = .ok jsY ∧
      parseSteps f (rereadJList jsJ) = .ok (ssJ, wsJ) ∧ parseSteps f (rereadJList jsY) = .ok (ssY, wsY) ∧
      normSteps ssJ = normSteps ssY := by
  obtain ⟨jsJ, ssJ, wsJ, h1, h2, h3, _⟩ := steps_roundtrip_ok l hok hform hs f hf hu
  obtain ⟨jsY, ssY, wsY, g1, g2, g3, _⟩ := steps_roundtripY_ok l hok hform (stableStepsY_of l hs) f hf hu
  exact ⟨jsJ, jsY, ssJ, ssY, wsJ, wsY, h1, g1, h2, g2, h3.trans g3.symm⟩

/-! ## Part F: env interpolation keeps the form; the composed corollaries -/

section InterpForm
open GoPipeline.Interp
variable {E : Type}

theorem contentsOK_interp (tf : String → Except E String) (c c₁ : UMap Val) (hc : ContentsOK c)
    (h : interpUMapV tf c = .ok c₁) : ContentsOK c₁ := by
  obtain ⟨h1, h2, _⟩ := interpUMapV_inv tf c c₁ hc.2 h
  exact ⟨h1, h2⟩

mutual
  /-- Interpolation (any kind, any transformer) never creates an unknown step. -/
  theorem interpStep_noUnknown (kind : TfKind) (tf : String → Except E String) : (s s₁ : Step) →
      interpStep kind tf s = .ok s₁ → NoUnknown s → NoUnknown s₁
    | .command c, s₁, h, _ => by
      rw [interpStep_command] at h
      obtain ⟨c₁, _, rfl⟩ := map_eq_ok h
      simp [NoUnknown]
    | .wait sc c, s₁, h, _ => by
      rw [interpStep_wait] at h
      obtain ⟨c₁, _, rfl⟩ := map_eq_ok h
      simp [NoUnknown]
    | .input sc c, s₁, h, _ => by
      rw [interpStep_input] at h
      obtain ⟨c₁, _, rfl⟩ := map_eq_ok h
      simp [NoUnknown]
    | .trigger c, s₁, h, _ => by
      rw [interpStep_trigger] at h
      obtain ⟨c₁, _, rfl⟩ := map_eq_ok h
      simp [NoUnknown]
    | .group k g none r, s₁, h, _ => by
      rw [interpStep_group_none] at h
      repeat' split at h
      all_goals first | (cases h; simp [NoUnknown]) | cases h
    | .group k g (some l) r, s₁, h, hnu => by
      rw [noUnknown_group_some] at hnu
      rw [interpStep_group_some] at h
      cases hk : tf k with
      | error e => simp [hk] at h
      | ok k' =>
        simp only [hk] at h
        cases hg : optM tf g with
        | error e => simp [hg] at h
        | ok g' =>
          simp only [hg] at h
          cases hl' : interpSteps kind tf l with
          | error e => simp [hl'] at h
          | ok l₁ =>
            simp only [hl'] at h
            cases hr : interpUMapV tf r with
            | error e => simp [hr] at h
            | ok r' =>
              simp only [hr, Except.ok.injEq] at h
              subst h
              rw [noUnknown_group_some]
              exact interpSteps_noUnknown kind tf l l₁ hl' hnu
    | .unknown v, s₁, _, hnu => absurd hnu (noUnknown_unknown v)

  theorem interpSteps_noUnknown (kind : TfKind) (tf : String → Except E String) : (l l₁ : List Step) →
      interpSteps kind tf l = .ok l₁ → NoUnknownList l → NoUnknownList l₁
    | [], l₁, h, _ => by
      rw [interpSteps_nil] at h
      injection h with h
      subst h
      simp [NoUnknownList]
    | s :: r, l₁, h, hnu => by
      rw [NoUnknownList] at hnu
      rw [interpSteps_cons] at h
      cases hs : interpStep kind tf s with
      | error e => simp [hs] at h
      | ok s₁ =>
        simp only [hs] at h
        cases hr : interpSteps kind tf r with
        | error e => simp [hr] at h
        | ok r₁ =>
          simp only [hr, Except.ok.injEq] at h
          subst h
          rw [NoUnknownList]
          exact ⟨interpStep_noUnknown kind tf s s₁ hs hnu.1, interpSteps_noUnknown kind tf r r₁ hr hnu.2⟩
end

mutual
  theorem interpStep_formOK_aux (tf : String → Except E String) : (s s₁ : Step) → StepOK s → FormOK s →
      interpStep .env tf s = .ok s₁ → TreeFixed tf s → FormOK s₁
    | .command c, s₁, _, _, h, _ => by
      rw [interpStep_command] at h
      obtain ⟨c₁, _, rfl⟩ := map_eq_ok h
      simp [FormOK]
    | .wait sc c, s₁, hok, hform, h, hfix => by
      rw [interpStep_wait] at h
      obtain ⟨c₁, hc, rfl⟩ := map_eq_ok h
      rw [TreeFixed] at hfix
      rw [StepOK] at hok
      rw [FormOK] at hform ⊢
      by_cases hsc : sc = ""
      · rw [if_pos hsc] at hok hform ⊢
        obtain ⟨hco, hne⟩ := hform
        rcases hok with hnil | hsel
        · exact absurd hnil hne
        · exact ⟨contentsOK_interp tf c c₁ hco hc,
            selOf_ne_nil (selOf_interp tf c c₁ (nodup_keys_of_sortedK hco.1) hfix.1 hfix.2 hc hsel)⟩
      · rw [if_neg hsc] at hform ⊢
        exact interpUMapV_nil tf c c₁ hc hform
    | .input sc c, s₁, hok, hform, h, hfix => by
      rw [interpStep_input] at h
      obtain ⟨c₁, hc, rfl⟩ := map_eq_ok h
      rw [FormOK] at hform ⊢
      by_cases hsc : sc = ""
      · rw [if_pos hsc] at hform ⊢
        exact contentsOK_interp tf c c₁ hform hc
      · rw [if_neg hsc] at hform ⊢
        exact interpUMapV_nil tf c c₁ hc hform
    | .trigger c, s₁, hok, hform, h, hfix => by
      rw [interpStep_trigger] at h
      obtain ⟨c₁, hc, rfl⟩ := map_eq_ok h
      rw [FormOK] at hform ⊢
      exact contentsOK_interp tf c c₁ hform hc
    | .group k g none r, s₁, hok, _, _, _ => absurd hok (stepOK_group_none k g r)
    | .group k g (some l) r, s₁, hok, hform, h, hfix => by
      rw [stepOK_group_some] at hok
      rw [formOK_group_some] at hform
      rw [treeFixed_group_some] at hfix
      rw [interpStep_group_some] at h
      cases hk : tf k with
      | error e => simp [hk] at h
      | ok k' =>
        simp only [hk] at h
        cases hg : optM tf g with
        | error e => simp [hg] at h
        | ok g' =>
          simp only [hg] at h
          cases hl' : interpSteps .env tf l with
          | error e => simp [hl'] at h
          | ok l₁ =>
            simp only [hl'] at h
            cases hr : interpUMapV tf r with
            | error e => simp [hr] at h
            | ok r' =>
              simp only [hr, Except.ok.injEq] at h
              subst h
              rw [formOK_group_some]
              exact ⟨interpSteps_formsOK_aux tf l l₁ hok.2.2 hform.1 hl' hfix.2.2,
                interpSteps_noUnknown .env tf l l₁ hl' hform.2⟩
    | .unknown v, s₁, _, _, h, _ => by
      rw [interpStep_unknown] at h
      obtain ⟨v₁, _, rfl⟩ := map_eq_ok h
      simp [FormOK]

  theorem interpSteps_formsOK_aux (tf : String → Except E String) : (l l₁ : List Step) → StepsOK l →
      FormsOK l → interpSteps .env tf l = .ok l₁ → TreesFixed tf l → FormsOK l₁
    | [], l₁, _, _, h, _ => by
      rw [interpSteps_nil] at h
      injection h with h
      subst h
      simp [FormsOK]
    | s :: r, l₁, hok, hform, h, hfix => by
      rw [StepsOK] at hok
      rw [FormsOK] at hform
      rw [TreesFixed] at hfix
      rw [interpSteps_cons] at h
      cases hs : interpStep .env tf s with
      | error e => simp [hs] at h
      | ok s₁ =>
        simp only [hs] at h
        cases hr : interpSteps .env tf r with
        | error e => simp [hr] at h
        | ok r₁ =>
          simp only [hr, Except.ok.injEq] at h
          subst h
          rw [FormsOK]
          exact ⟨interpStep_formOK_aux tf s s₁ hok.1 hform.1 hs hfix.1,
            interpSteps_formsOK_aux tf r r₁ hok.2 hform.2 hr hfix.2⟩
end

/-- Env interpolation with a `TreeFixed` transformer keeps a well-formed tree in marshalled form. -/
theorem interpStep_formOK (tf : String → Except E String) (s s₁ : Step) (hok : StepOK s) (hform : FormOK s)
    (h : interpStep .env tf s = .ok s₁) (hfix : TreeFixed tf s) : FormOK s₁ :=
  interpStep_formOK_aux tf s s₁ hok hform h hfix

theorem interpSteps_formsOK (tf : String → Except E String) (l l₁ : List Step) (hok : StepsOK l)
    (hform : FormsOK l) (h : interpSteps .env tf l = .ok l₁) (hfix : TreesFixed tf l) : FormsOK l₁ :=
  interpSteps_formsOK_aux tf l l₁ hok hform h hfix

end InterpForm

/-- Parsed, then interpolated with a `TreesFixed` transformer: well-formed, in marshalled form, covered by the
    parser fuel. -/
theorem parse_then_interp_form {E : Type} (f : Nat) (xs : List Val) (l l₁ : List Step) (ws : List Warn)
    (hx : NoUMapList xs) (hd : KeysNodupList xs) (h : parseSteps f xs = .ok (l, ws))
    (tf : String → Except E String) (hi : Interp.interpSteps .env tf l = .ok l₁) (hfix : TreesFixed tf l) :
    StepsOK l₁ ∧ FormsOK l₁ ∧ stepsDepth l₁ ≤ f ∧ (ws = [] → NoUnknownList l₁) := by
  obtain ⟨hok₁, hdep₁⟩ := parse_then_interp_list f xs l l₁ ws hx hd h tf hi hfix
  obtain ⟨hok, _⟩ := parseSteps_stepsOK f xs l ws hx hd h
  obtain ⟨hform, hws⟩ := parseSteps_formsOK f xs l ws hx h
  exact ⟨hok₁, interpSteps_formsOK tf l l₁ hok hform hi hfix, hdep₁,
    fun hw => interpSteps_noUnknown .env tf l l₁ hi (hws.1 hw)⟩

/-- (d) The interpolated pipeline's normal form is a fixpoint too (JSON leg).  `hu`: a top-level unknown step of
    the INTERPOLATED list must still hold a value that the parser classifies as unknown (interpolation
    rewrites the value of an unknown step freely; without `hu` the statement is false,
    `interp_unknown_counterexample`). -/
theorem interp_then_fixpoint {E : Type} (f : Nat) (xs : List Val) (l l₁ : List Step) (ws : List Warn)
    (hx : NoUMapList xs) (hd : KeysNodupList xs) (h : parseSteps f xs = .ok (l, ws))
    (tf : String → Except E String) (hi : Interp.interpSteps .env tf l = .ok l₁) (hfix : TreesFixed tf l)
    (hs : StableSteps l₁)
    (hu : ∀ v, Step.unknown v ∈ l₁ → ∃ w, parseStep f v = .ok (.unknown v, w)) :
    ∃ js ss' ws', mSteps l₁ = .ok js ∧ parseSteps f (rereadJList js) = .ok (ss', ws') ∧
      normSteps ss' = normSteps l₁ ∧ (ws' = [] ↔ NoUnknownList l₁) := by
  obtain ⟨hok₁, hform₁, hdep₁, _⟩ := parse_then_interp_form f xs l l₁ ws hx hd h tf hi hfix
  exact steps_roundtrip_ok l₁ hok₁ hform₁ hs f hdep₁ hu

/-- (d) for a document that parsed without warnings: no hypothesis on unknown steps (there are none), and the
    re-parse raises no warning either. -/
theorem interp_then_fixpoint_clean {E : Type} (f : Nat) (xs : List Val) (l l₁ : List Step)
    (hx : NoUMapList xs) (hd : KeysNodupList xs) (h : parseSteps f xs = .ok (l, []))
    (tf : String → Except E String) (hi : Interp.interpSteps .env tf l = .ok l₁) (hfix : TreesFixed tf l)
    (hs : StableSteps l₁) :
    ∃ js ss', mSteps l₁ = .ok js ∧ parseSteps f (rereadJList js) = .ok (ss', []) ∧
      normSteps ss' = normSteps l₁ := by
  obtain ⟨hok₁, hform₁, hdep₁, hnu⟩ := parse_then_interp_form f xs l l₁ [] hx hd h tf hi hfix
  exact steps_roundtrip_ok_known l₁ hok₁ hform₁ hs f hdep₁ (hnu rfl)

/-- (d), YAML leg. -/
theorem interp_then_fixpointY {E : Type} (f : Nat) (xs : List Val) (l l₁ : List Step) (ws : List Warn)
    (hx : NoUMapList xs) (hd : KeysNodupList xs) (h : parseSteps f xs = .ok (l, ws))
    (tf : String → Except E String) (hi : Interp.interpSteps .env tf l = .ok l₁) (hfix : TreesFixed tf l)
    (hs : StableStepsY l₁)
    (hu : ∀ v, Step.unknown v ∈ l₁ → ∃ w, parseStep f v = .ok (.unknown v, w)) :
    ∃ js ss' ws', ySteps l₁ = .ok js ∧ parseSteps f (rereadJList js) = .ok (ss', ws') ∧
      normSteps ss' = normSteps l₁ ∧ (ws' = [] ↔ NoUnknownList l₁) := by
  obtain ⟨hok₁, hform₁, hdep₁, _⟩ := parse_then_interp_form f xs l l₁ ws hx hd h tf hi hfix
  exact steps_roundtripY_ok l₁ hok₁ hform₁ hs f hdep₁ hu

theorem interp_then_fixpointY_clean {E : Type} (f : Nat) (xs : List Val) (l l₁ : List Step)
    (hx : NoUMapList xs) (hd : KeysNodupList xs) (h : parseSteps f xs = .ok (l, []))
    (tf : String → Except E String) (hi : Interp.interpSteps .env tf l = .ok l₁) (hfix : TreesFixed tf l)
    (hs : StableStepsY l₁) :
    ∃ js ss', ySteps l₁ = .ok js ∧ parseSteps f (rereadJList js) = .ok (ss', []) ∧
      normSteps ss' = normSteps l₁ := by
  obtain ⟨hok₁, hform₁, hdep₁, hnu⟩ := parse_then_interp_form f xs l l₁ [] hx hd h tf hi hfix
  exact steps_roundtripY_ok_known l₁ hok₁ hform₁ hs f hdep₁ (hnu rfl)

/-! ## Part G: `StepOK` alone is not enough (the counterexamples of the header) -/

theorem selectScalar_wait : StepKind.selectScalar Gen.scalarTable "wait" = .known .wait := by decide

theorem parse_scalar_wait (f : Nat) : parseStep (f + 1) (rereadJ (.str "wait")) = .ok (.wait "wait" none, []) := by
  rw [rereadJ_str, parseStep.eq_2, selectScalar_wait]

/-- (1) The empty wait step built through the API is written `"wait"` and comes back with that scalar. -/
theorem wait_empty_counterexample :
    let s : Step := .wait "" none
    StepOK s ∧ StableStep s ∧ ¬ FormOK s ∧ mStep s = .ok (.str "wait") ∧ yStep s = .ok (.str "wait") ∧
      (∀ f, parseStep (f + 1) (rereadJ (.str "wait")) = .ok (.wait "wait" none, [])) ∧
      normStep (.wait "wait" none) ≠ normStep s := by
  intro s
  refine ⟨stepOK_wait_empty, by simp [s, StableStep, StableUMap, JStableKVs], by simp [s, FormOK], by rfl, by rfl,
    parse_scalar_wait, by simp [s, normStep]⟩

/-- (2) A wait step holding a scalar AND contents is written as the scalar: the contents are lost. -/
theorem wait_scalar_contents_counterexample :
    let s : Step := .wait "wait" (some [("a", .null)])
    StepOK s ∧ StableStep s ∧ ¬ FormOK s ∧ mStep s = .ok (.str "wait") ∧ yStep s = .ok (.str "wait") ∧
      (∀ f, parseStep (f + 1) (rereadJ (.str "wait")) = .ok (.wait "wait" none, [])) ∧
      normStep (.wait "wait" none) ≠ normStep s := by
  intro s
  refine ⟨?_, by simp [s, StableStep, StableUMap, JStableKVs, JStable], by simp [s, FormOK], by rfl, by rfl,
    parse_scalar_wait, by simp [s, normStep, normList]⟩
  simp only [s, StepOK]
  rw [if_neg (by decide)]
  exact selectScalar_wait

/-- (3) An unsorted list as the representation of the contents Go map: the re-parse sorts it. -/
theorem wait_unsorted_counterexample :
    let s : Step := .wait "" (some [("wait", .null), ("a", .null)])
    let j : Val := .umap [("wait", .null), ("a", .null)]
    let s' : Step := .wait "" (some [("a", .null), ("wait", .null)])
    StepOK s ∧ StableStep s ∧ ¬ FormOK s ∧ mStep s = .ok j ∧ yStep s = .ok j ∧
      (∀ f, parseStep (f + 1) (rereadJ j) = .ok (s', [])) ∧ normStep s' ≠ normStep s := by
  intro s j s'
  have hsel : selOf [("wait", Val.null), ("a", .null)] = .ok (.known .wait) := by rfl
  refine ⟨?_, by simp [s, StableStep, StableUMap, JStableKVs, JStable], ?_, by rfl, by rfl, fun f => ?_,
    by simp [s, s', normStep, normList]⟩
  · simp only [s, StepOK, if_pos, Option.getD_some]
    exact .inr hsel
  · simp only [s, FormOK, if_pos, ContentsOK, Option.getD_some, SortedK]
    intro h
    have := h.1.1
    simp at this
  · have hr : rereadJ j = .omap [("wait", .null), ("a", .null)] := by simp [j, rereadJ, rereadJKVs]
    rw [hr, parseStep.eq_3, hsel]
    rfl

/-- (3') A Go map inside the contents (built through the API): it comes back as an ordered mapping. -/
theorem trigger_gomap_counterexample :
    let s : Step := .trigger (some [("trigger", .umap [])])
    let j : Val := .umap [("trigger", .umap [])]
    let s' : Step := .trigger (some [("trigger", .omap [])])
    StepOK s ∧ StableStep s ∧ ¬ FormOK s ∧ mStep s = .ok j ∧ yStep s = .ok j ∧
      (∀ f, parseStep (f + 1) (rereadJ j) = .ok (s', [])) ∧ normStep s' ≠ normStep s := by
  intro s j s'
  have hsel : selOf [("trigger", Val.umap [])] = .ok (.known .trigger) := by rfl
  have hsel' : selOf [("trigger", Val.omap [])] = .ok (.known .trigger) := by rfl
  refine ⟨?_, by simp [s, StableStep, StableUMap, JStableKVs, JStable], ?_, by rfl, by rfl, fun f => ?_,
    by simp [s, s', normStep, normList]⟩
  · simp only [s, StepOK, Option.getD_some]
    exact hsel
  · simp [s, FormOK, ContentsOK, NoUMap]
  · have hr : rereadJ j = .omap [("trigger", .omap [])] := by simp [j, rereadJ, rereadJKVs]
    rw [hr, parseStep.eq_3, hsel']
    rfl

/-- (4) An unknown step built through the API may hold anything: `null` is refused by the re-parse, `"wait"`
    comes back as a wait step. -/
theorem unknown_counterexample :
    (StepOK (.unknown .null) ∧ StableStep (.unknown .null) ∧ mStep (.unknown .null) = .ok .null ∧
      ∀ f, parseStep (f + 1) (rereadJ .null) = .error .badStepEntry) ∧
    (StepOK (.unknown (.str "wait")) ∧ StableStep (.unknown (.str "wait")) ∧
      mStep (.unknown (.str "wait")) = .ok (.str "wait") ∧
      (∀ f, parseStep (f + 1) (rereadJ (.str "wait")) = .ok (.wait "wait" none, [])) ∧
      normStep (.wait "wait" none) ≠ normStep (.unknown (.str "wait"))) := by
  refine ⟨⟨by simp [StepOK, NoUMap], by simp [StableStep, JStable], rfl, fun f => ?_⟩,
    ⟨by simp [StepOK, NoUMap], by simp [StableStep, JStable], rfl, parse_scalar_wait, by simp [normStep]⟩⟩
  have : rereadJ .null = .null := by simp [rereadJ]
  rw [this, parseStep.eq_4 _ _ (by intro s h; cases h) (by intro m h; cases h)]

/-- (5) An unknown step inside a group: `(*GroupStep).UnmarshalOrdered` refuses the nested warning, the whole
    group falls back to an unknown step (on both legs: they write the same value). -/
theorem group_unknown_counterexample :
    let s : Step := .group "" none (some [.unknown (.str "foo")]) none
    let j : Val := .umap [("group", .null), ("steps", .seq [.str "foo"])]
    let m : Entries := [("group", .null), ("steps", .seq [.str "foo"])]
    StepOK s ∧ StableStep s ∧ FormsOK [.unknown (.str "foo")] ∧ ¬ FormOK s ∧ mStep s = .ok j ∧ yStep s = .ok j ∧
      (∀ f, parseStep (f + 2) (rereadJ j) = .ok (.unknown (.omap m), [.fellBack])) ∧
      normStep (.unknown (.omap m)) ≠ normStep s := by
  intro s j m
  have hsel : selOf m = .ok (.known .group) := by rfl
  have hms : mSteps [.unknown (.str "foo")] = .ok [.str "foo"] := by
    rw [mSteps_cons, mStep_unknown, mSteps_nil]
  have hys : ySteps [.unknown (.str "foo")] = .ok [.str "foo"] := by
    rw [ySteps_cons, yStep_unknown]; rfl
  refine ⟨?_, ?_, by simp [FormsOK, FormOK], ?_, ?_, ?_, fun f => ?_, by simp [s, normStep]⟩
  · simp only [s]
    rw [stepOK_group_some]
    exact ⟨remOK_none _, by rfl, by simp [StepsOK, StepOK, NoUMap]⟩
  · simp [s, StableStep, StableSteps, StableUMap, JStable, JStableKVs]
  · simp only [s]
    rw [formOK_group_some]
    simp [NoUnknownList, NoUnknown]
  · simp only [s]
    rw [mStep_group_eq "" none _ none _ hms]
    rfl
  · simp only [s]
    rw [yStep_group_eq "" none _ none _ (remOK_none _) hys]
    rfl
  · have hr : rereadJ j = .omap m := by simp [j, m, rereadJ, rereadJKVs, rereadJList]
    have hp : parseSteps (f + 1) [.str "foo"] = .ok ([.unknown (.str "foo")], [.unknownType]) := by
      rw [parseSteps.eq_2, parseStep.eq_2]
      have : StepKind.selectScalar Gen.scalarTable "foo" = .unknownType := by decide
      rw [this]
      simp only
      rw [parseSteps.eq_1]
      rfl
    have hg : parseGroup (f + 1) m = .error .wrapped := by
      rw [parseGroup.eq_1, fieldOf_group_steps]
      have hlk : List.lookup "steps" m = some (.seq [.str "foo"]) := by rfl
      rw [hlk]
      simp only
      rw [hp]
      rfl
    rw [hr, parseStep.eq_3, hsel]
    simp only
    rw [hg]

/-- (d) without a hypothesis on unknown steps is false: the unknown scalar step `"${X}"` is interpolated to
    `"wait"` (every transformer is `TreeFixed` for an unknown step), which re-parses as a wait step. -/
theorem interp_unknown_counterexample :
    let tf : String → Except Unit String := fun s => .ok (if s = "${X}" then "wait" else s)
    let xs : List Val := [.str "${X}"]
    let l : List Step := [.unknown (.str "${X}")]
    let l₁ : List Step := [.unknown (.str "wait")]
    NoUMapList xs ∧ KeysNodupList xs ∧ parseSteps 1 xs = .ok (l, [.unknownType]) ∧
      Interp.interpSteps .env tf l = .ok l₁ ∧ TreesFixed tf l ∧ StableSteps l₁ ∧
      mSteps l₁ = .ok [.str "wait"] ∧ ySteps l₁ = .ok [.str "wait"] ∧
      parseSteps 1 (rereadJList [.str "wait"]) = .ok ([.wait "wait" none], []) ∧
      normSteps [.wait "wait" none] ≠ normSteps l₁ := by
  intro tf xs l l₁
  refine ⟨by simp [xs, NoUMapList, NoUMap], by simp [xs, KeysNodupList, KeysNodup], ?_, by rfl,
    by simp [l, TreesFixed, TreeFixed], by simp [l₁, StableSteps, StableStep, JStable], ?_, ?_, ?_,
    by simp [l₁, normSteps, normStep]⟩
  · simp only [xs]
    rw [parseSteps.eq_2, parseStep.eq_2]
    have : StepKind.selectScalar Gen.scalarTable "${X}" = .unknownType := by decide
    rw [this]
    simp only
    rw [parseSteps.eq_1]
    rfl
  · simp only [l₁]
    rw [mSteps_cons, mStep_unknown, mSteps_nil]
  · simp only [l₁]
    rw [ySteps_cons, yStep_unknown]; rfl
  · rw [rereadJList, rereadJList, parseSteps.eq_2, parse_scalar_wait 0]
    simp only
    rw [parseSteps.eq_1]
    rfl

end GoPipeline.Roundtrip
