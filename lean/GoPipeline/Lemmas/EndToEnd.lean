/-
  Composition lemmas: what `ordered.DecodeYAML` returns (graph model of C07, Model/Yaml.lean) satisfies the
  hypotheses `NoUMap` / `KeysNodup` of the parse-side theorems (C09, C02), so those theorems can be
  restated with the node graph as the only input. Statements are in `Props/EndToEnd.lean`.

  `ScalarStore s` is the one assumption about yaml.v3 used here: `n.Decode(&v)` on a scalar node yields
  a scalar (null / bool / int / float / string / time), never a container.
-/
import GoPipeline.Lemmas.Yaml
import GoPipeline.Lemmas.RoundtripY
import GoPipeline.Lemmas.SignedRoundtrip
namespace GoPipeline.EndToEnd
open GoPipeline GoPipeline.Pipe GoPipeline.Parse GoPipeline.Marshal GoPipeline.Roundtrip

/-! ## The assumption on scalar decoding -/

/-- Not a container. -/
def isScalar : Val → Bool
  | .seq _ => false
  | .omap _ => false
  | .umap _ => false
  | _ => true

/-- Every value the parser decoded for a node is a scalar. -/
def ScalarStore (s : Yaml.Store) : Prop := ∀ n ∈ s, ∀ v, n.decoded = some v → isScalar v = true

/-- Boolean form of `ScalarStore`. -/
def scalarStoreB (s : Yaml.Store) : Bool :=
  s.all fun n => match n.decoded with
    | some v => isScalar v
    | none => true

theorem scalarStore_iff (s : Yaml.Store) : ScalarStore s ↔ scalarStoreB s = true := by
  unfold ScalarStore scalarStoreB
  rw [List.all_eq_true]
  constructor
  · intro h n hn
    cases hd : n.decoded with
    | none => rfl
    | some v => exact h n hn v hd
  · intro h n hn v hv
    have := h n hn
    rw [hv] at this
    exact this

instance (s : Yaml.Store) : Decidable (ScalarStore s) := decidable_of_iff _ (scalarStore_iff s).symm

theorem scalar_shape {v : Val} (h : isScalar v = true) : NoUMap v ∧ KeysNodup v := by
  cases v <;> simp [isScalar] at h <;> simp [NoUMap, KeysNodup]

/-! ## `eraseDups` leaves no duplicates -/

theorem nodup_eraseDups : ∀ (n : Nat) (l : List String), l.length ≤ n → l.eraseDups.Nodup := by
  intro n
  induction n with
  | zero =>
    intro l hl
    have : l = [] := List.eq_nil_of_length_eq_zero (by omega)
    subst this
    simp
  | succ n ih =>
    intro l hl
    cases l with
    | nil => simp
    | cons a as =>
      rw [List.eraseDups_cons, List.nodup_cons]
      refine ⟨?_, ih _ ?_⟩
      · rw [List.mem_eraseDups, List.mem_filter]
        simp
      · have := List.length_filter_le (fun b => !b == a) as
        simp only [List.length_cons] at hl
        omega

/-! ## `OMap.aset` keeps the per-value predicates -/

theorem mem_aset {acc : List (String × Val)} {k : String} {x : Val} {p : String × Val}
    (hp : p ∈ OMap.aset acc k x) : p ∈ acc ∨ p = (k, x) := by
  unfold OMap.aset at hp
  split at hp
  · rw [List.mem_map] at hp
    obtain ⟨q, hq, rfl⟩ := hp
    split
    · exact Or.inr rfl
    · exact Or.inl hq
  · rw [List.mem_append, List.mem_singleton] at hp
    exact hp

theorem aset_shape {acc : List (String × Val)} {k : String} {x : Val}
    (hacc : NoUMapKVs acc ∧ KeysNodupKVs acc) (hx : NoUMap x ∧ KeysNodup x) :
    NoUMapKVs (OMap.aset acc k x) ∧ KeysNodupKVs (OMap.aset acc k x) := by
  rw [noUMapKVs_iff, keysNodupKVs_iff] at hacc ⊢
  refine ⟨fun p hp => ?_, fun p hp => ?_⟩
  · rcases mem_aset hp with h | rfl
    · exact hacc.1 p h
    · exact hx.1
  · rcases mem_aset hp with h | rfl
    · exact hacc.2 p h
    · exact hx.2

/-! ## Shape of decoded values -/

theorem decode_shape_aux (s : Yaml.Store) (hs : ScalarStore s) : ∀ f,
    (∀ seen o v, Yaml.decode s f seen o = .ok v → NoUMap v ∧ KeysNodup v) ∧
    (∀ seen l vs, Yaml.decodeList s f seen l = .ok vs → NoUMapList vs ∧ KeysNodupList vs) ∧
    (∀ seen ps acc0 acc, NoUMapKVs acc0 ∧ KeysNodupKVs acc0 → Yaml.decodePairs s f seen ps acc0 = .ok acc →
      NoUMapKVs acc ∧ KeysNodupKVs acc) := by
  intro f
  induction f with
  | zero =>
    refine ⟨?_, ?_, ?_⟩
    · intro seen o v h; simp [Yaml.decode] at h
    · intro seen l vs h; simp [Yaml.decodeList] at h
    · intro seen ps acc0 acc _ h; simp [Yaml.decodePairs] at h
  | succ f ih =>
    obtain ⟨ih1, ih2, ih3⟩ := ih
    refine ⟨?_, ?_, ?_⟩
    · intro seen o v h
      cases o with
      | none =>
        simp only [Yaml.decode, Except.ok.injEq] at h
        subst h
        simp [NoUMap, KeysNodup]
      | some i =>
        simp only [Yaml.decode] at h
        split at h
        · simp at h
        · cases hn : s[i]? with
          | none => rw [hn] at h; simp at h
          | some n =>
            rw [hn] at h
            simp only [] at h
            have hmem : n ∈ s := List.mem_of_getElem? hn
            cases hk : n.kind <;> rw [hk] at h <;> simp only [] at h
            case scalar =>
              cases hd : n.decoded with
              | none => rw [hd] at h; simp at h
              | some x =>
                rw [hd] at h
                simp only [Except.ok.injEq] at h
                subst h
                exact scalar_shape (hs n hmem x hd)
            case sequence =>
              cases hl : Yaml.decodeList s f (i :: seen) n.content with
              | error e => rw [hl] at h; simp [Except.map] at h
              | ok vs =>
                rw [hl] at h
                simp only [Except.map, Except.ok.injEq] at h
                subst h
                simpa [NoUMap, KeysNodup] using ih2 _ _ _ hl
            case mapping =>
              cases hr : Yaml.rangeMap s (Yaml.bound s) i with
              | error e => rw [hr] at h; simp at h
              | ok ps =>
                rw [hr] at h
                simp only [] at h
                cases hp : Yaml.decodePairs s f (i :: seen) ps [] with
                | error e => rw [hp] at h; simp [Except.map] at h
                | ok acc =>
                  rw [hp] at h
                  simp only [Except.map, Except.ok.injEq] at h
                  subst h
                  have hsh := ih3 _ _ _ _ (by simp [NoUMapKVs, KeysNodupKVs]) hp
                  have hkeys := Yaml.decoded_key_order s f _ ps acc hp
                  have hnd : (acc.map (·.1)).Nodup := by
                    rw [hkeys]; exact nodup_eraseDups _ _ (Nat.le_refl _)
                  simp only [NoUMap, KeysNodup]
                  exact ⟨hsh.1, hnd, hsh.2⟩
            case «alias» => exact ih1 _ _ _ h
            case document =>
              split at h
              · simp only [Except.ok.injEq] at h
                subst h
                simp [NoUMap, KeysNodup]
              · exact ih1 _ _ _ h
              · simp at h
            case other => simp at h
    · intro seen l vs h
      rcases l with _ | ⟨c, rest⟩
      · simp only [Yaml.decodeList, Except.ok.injEq] at h
        subst h
        simp [NoUMapList, KeysNodupList]
      · simp only [Yaml.decodeList] at h
        cases hr : Yaml.decode s f seen (some c) with
        | error e => rw [hr] at h; simp at h
        | ok v =>
          rw [hr] at h
          simp only [] at h
          cases hl : Yaml.decodeList s f seen rest with
          | error e => rw [hl] at h; simp [Except.map] at h
          | ok vs' =>
            rw [hl] at h
            simp only [Except.map, Except.ok.injEq] at h
            subst h
            have h1 := ih1 _ _ _ hr
            have h2 := ih2 _ _ _ hl
            simp only [NoUMapList, KeysNodupList]
            exact ⟨⟨h1.1, h2.1⟩, h1.2, h2.2⟩
    · intro seen ps acc0 acc hacc h
      rcases ps with _ | ⟨⟨k, v⟩, rest⟩
      · simp only [Yaml.decodePairs, Except.ok.injEq] at h
        subst h
        exact hacc
      · simp only [Yaml.decodePairs] at h
        cases hr : Yaml.decode s f seen (some v) with
        | error e => rw [hr] at h; simp at h
        | ok x =>
          rw [hr] at h
          simp only [] at h
          exact ih3 _ _ _ _ (aset_shape hacc (ih1 _ _ _ hr)) h

/-- What `DecodeYAML` returns is a tree of scalars, sequences and ordered mappings with distinct keys. -/
theorem decoded_tree_shape (s : Yaml.Store) (root : Nat) (v : Val) (hs : ScalarStore s)
    (h : Yaml.decodeYAML s root = .ok v) : NoUMap v ∧ KeysNodup v :=
  (decode_shape_aux s hs (Yaml.bound s)).1 [] (some root) v h

/-! ## Composition with the parse-side theorems -/

theorem document_json_fixpoint (s : Yaml.Store) (root : Nat) (v : Val) (p : Pipeline) (ws : List Warn)
    (hs : ScalarStore s) (hdec : Yaml.decodeYAML s root = .ok v) (hp : parsePipeline v = .ok (p, ws))
    (hst : StablePipeline p) :
    ∃ j p' ws', mPipeline p = .ok j ∧ parsePipeline (rereadJ j) = .ok (p', ws') ∧ normPipeline p' = normPipeline p :=
  have hsh := decoded_tree_shape s root v hs hdec
  json_fixpoint v p ws hsh.1 hsh.2 hp hst

theorem document_yaml_fixpoint (s : Yaml.Store) (root : Nat) (v : Val) (p : Pipeline) (ws : List Warn)
    (hs : ScalarStore s) (hdec : Yaml.decodeYAML s root = .ok v) (hp : parsePipeline v = .ok (p, ws))
    (hst : StablePipelineY p) :
    ∃ j p' ws', MarshalY.yPipeline p = .ok j ∧ parsePipeline (rereadJ j) = .ok (p', ws') ∧ normPipeline p' = normPipeline p :=
  have hsh := decoded_tree_shape s root v hs hdec
  yaml_fixpoint v p ws hsh.1 hsh.2 hp hst

theorem document_signed_roundtrip (S : Signing.SigScheme) (render : S.Sig → String)
    (parseSig : String → Option S.Sig) (hrender : ∀ x, parseSig (render x) = some x)
    (s : Yaml.Store) (root : Nat) (v : Val) (p : Pipeline) (ws : List Warn)
    (hs : ScalarStore s) (hdec : Yaml.decodeYAML s root = .ok v) (hp : parsePipeline v = .ok (p, ws))
    (hst : StablePipeline p)
    (k : S.Key) (alg repo : String) (env₁ : List (String × String))
    (henv : SignedRT.EnvExtends (p.env.getD []) env₁)
    (signed : List Step) (hsign : Signing.signSteps S render k alg repo (p.env.getD []) (p.steps.getD []) = .ok signed) :
    ∃ j p' ws', mPipeline { p with steps := some signed } = .ok j ∧ parsePipeline (rereadJ j) = .ok (p', ws') ∧
      SignedRT.VerifiesAllList S parseSig (S.pubOf k) repo env₁ (p'.steps.getD []) :=
  have hsh := decoded_tree_shape s root v hs hdec
  SignedRT.signed_pipeline_roundtrip S render parseSig hrender v p ws hsh.1 hsh.2 hp hst k alg repo env₁ henv signed hsign

theorem document_usable (v : Val) (p : Pipeline) (ws : List Warn) (hp : parsePipeline v = .ok (p, ws)) :
    p.steps.isSome = true ∧ ∃ j, mPipeline p = .ok j := by
  obtain ⟨l, hl⟩ := steps_non_nil v p ws hp
  exact ⟨by rw [hl]; rfl, marshal_succeeds v p ws hp⟩

end GoPipeline.EndToEnd
