/-
  C13, YAML leg — `yaml.Marshal` gets a value tree for EVERY pipeline in the image of the parser.

  `Lemmas/RoundtripY.lean` proves the YAML fixpoint under `StablePipelineY`; the `.ok` half of that
  induction needs none of the `Stable*` conditions. The two ways `yPipeline` can fail are
    * `inlineConflict`: an inline key of a struct equal to a declared field key — never on a parser image,
      the remainder of `Unm.remainder` holds no key of a normal field (`RemOK`, `remOK_remMap`);
    * `emptyInputStep`: an input step with neither scalar nor contents — the parser builds `.input s none`
      only from a scalar that the scalar table recognises (so `s ≠ ""`) and `.input "" (some (umapOf m))`
      only from a mapping that `selOf` recognised (so `m ≠ []`).
  A group step of a parser image always has `steps := some _` (`parseGroup_ok`).
-/
import GoPipeline.Lemmas.RoundtripY
set_option linter.unusedSimpArgs false
set_option linter.unusedVariables false
namespace GoPipeline.EndToEnd
open GoPipeline GoPipeline.Pipe GoPipeline.Parse GoPipeline.Marshal GoPipeline.Unm GoPipeline.MarshalY
open GoPipeline.Roundtrip

/-! ## Components -/

/-- A command step in the image of the parser: the matrix and the cache encode (`matrix_roundtripY`,
    `cache_roundtripY` need no stability condition), then the struct level by `yStruct_ok`. -/
theorem yCommand_total (c : CommandStep) (hok : CommandOK c) : ∃ j, yCommand c = .ok j := by
  refine ⟨inlineFriendly (cmdOutlineY c) c.rem, ?_⟩
  rw [yCommand_eq c
    (fun m hm => let ⟨v, _, h, _⟩ := matrix_roundtripY m (hok.matrix m hm); ⟨v, h⟩)
    (fun k hk => let ⟨v, _, h, _⟩ := cache_roundtripY k (hok.cache k hk); ⟨v, h⟩)]
  exact yStruct_ok Gen.struct_CommandStep _ c.rem hok.rem
    (fun k hk => cmdOutlineKeys_normal k ((cmdOutlineY_keys c).subset hk))

/-! ## Steps (induction on the parse fuel) -/

/-- The statement at one fuel level. -/
def StepYTotal (f : Nat) : Prop :=
  ∀ (x : Val) (s : Step) (w : List Warn), NoUMap x → parseStep f x = .ok (s, w) → ∃ j, yStep s = .ok j

theorem ySteps_total_of (f : Nat) (ih : StepYTotal f) : (xs : List Val) → (ss : List Step) → (ws : List Warn) →
    NoUMapList xs → parseSteps f xs = .ok (ss, ws) → ∃ js, ySteps ss = .ok js
  | [], ss, ws, _, h => by
    rw [parseSteps.eq_1] at h
    simp only [Except.ok.injEq, Prod.mk.injEq] at h
    obtain ⟨rfl, rfl⟩ := h
    exact ⟨[], rfl⟩
  | v :: r, ss, ws, hx, h => by
    obtain ⟨s, w, ss', ws', hs1, hss, rfl, rfl⟩ := parseSteps_cons_ok h
    rw [NoUMapList] at hx
    obtain ⟨j, hj⟩ := ih v s w hx.1 hs1
    obtain ⟨js, hjs⟩ := ySteps_total_of f ih r ss' ws' hx.2 hss
    exact ⟨j :: js, by rw [ySteps_cons, hj, hjs]⟩

/-- A group step in the image of the parser always carries a (non-nil) step list; its remainder holds no
    declared key. -/
theorem yGroup_total (f : Nat) (ih : StepYTotal f) (m : Entries) (hm : NoUMapKVs m) (g : Step)
    (hg : parseGroup f m = .ok g) : ∃ j, yStep g = .ok j := by
  obtain ⟨k, grp, ss, rfl, hsteps⟩ := parseGroup_ok hg
  have hR : RemOK Gen.struct_GroupStep (remMap (remainder m Gen.struct_GroupStep)) :=
    remOK_remMap m Gen.struct_GroupStep hm
  have hsub : ∃ js, ySteps ss = .ok js := by
    rcases hsteps with ⟨_, rfl⟩ | ⟨xs, hl, hps⟩
    · exact ⟨[], rfl⟩
    · have h1 : NoUMap (.seq xs) := noUMap_of_lookup hm hl
      exact ySteps_total_of f ih xs ss [] (by simpa [NoUMap] using h1) hps
  obtain ⟨js, hjs⟩ := hsub
  exact ⟨_, yStep_group_eq k grp ss _ js hR hjs⟩

theorem yStep_total_all : ∀ f, StepYTotal f
  | 0 => by
    intro x s w _ h
    rw [parseStep.eq_1] at h; cases h
  | f + 1 => by
    have ih := yStep_total_all f
    intro x s w hx h
    cases x with
    | str t =>
      rw [parseStep.eq_2] at h
      split at h
      · simp only [Except.ok.injEq, Prod.mk.injEq] at h; obtain ⟨rfl, rfl⟩ := h
        exact ⟨_, yStep_wait _ _⟩
      · rename_i hsel
        simp only [Except.ok.injEq, Prod.mk.injEq] at h; obtain ⟨rfl, rfl⟩ := h
        -- the scalar table does not recognise the empty string
        have hne : (t != "") = true := by
          simpa using selectScalar_ne_empty (by rw [hsel]; simp)
        exact ⟨_, by rw [yStep_input, if_pos hne]⟩
      · simp only [Except.ok.injEq, Prod.mk.injEq] at h; obtain ⟨rfl, rfl⟩ := h
        exact ⟨_, yStep_unknown _⟩
    | omap m =>
      have hm : NoUMapKVs m := by simpa [NoUMap] using hx
      rw [parseStep.eq_3] at h
      split at h
      · cases h
      · rename_i sel hsel
        split at h
        · cases h
        · simp only [Except.ok.injEq, Prod.mk.injEq] at h; obtain ⟨rfl, rfl⟩ := h
          exact ⟨_, yStep_unknown _⟩
        · simp only [Except.ok.injEq, Prod.mk.injEq] at h; obtain ⟨rfl, rfl⟩ := h
          exact ⟨_, yStep_unknown _⟩
        · split at h
          · rename_i c hc
            simp only [Except.ok.injEq, Prod.mk.injEq] at h; obtain ⟨rfl, rfl⟩ := h
            obtain ⟨j, hj⟩ := yCommand_total c (parseCommand_inv hm hc)
            exact ⟨j, by rw [yStep_command]; exact hj⟩
          · simp only [Except.ok.injEq, Prod.mk.injEq] at h; obtain ⟨rfl, rfl⟩ := h
            exact ⟨_, yStep_unknown _⟩
        · simp only [Except.ok.injEq, Prod.mk.injEq] at h; obtain ⟨rfl, rfl⟩ := h
          exact ⟨_, yStep_wait _ _⟩
        · simp only [Except.ok.injEq, Prod.mk.injEq] at h; obtain ⟨rfl, rfl⟩ := h
          -- a mapping recognised as an input step is not empty
          refine ⟨umapV (some (Parse.umapOf m)), ?_⟩
          rw [yStep_input, lenUMap_umapOf_ne (selOf_ne_nil hsel)]; rfl
        · simp only [Except.ok.injEq, Prod.mk.injEq] at h; obtain ⟨rfl, rfl⟩ := h
          exact ⟨_, yStep_trigger _⟩
        · split at h
          · rename_i g hg
            simp only [Except.ok.injEq, Prod.mk.injEq] at h; obtain ⟨rfl, rfl⟩ := h
            exact yGroup_total f ih m hm g hg
          · simp only [Except.ok.injEq, Prod.mk.injEq] at h; obtain ⟨rfl, rfl⟩ := h
            exact ⟨_, yStep_unknown _⟩
        · simp only [Except.ok.injEq, Prod.mk.injEq] at h; obtain ⟨rfl, rfl⟩ := h
          exact ⟨_, yStep_unknown _⟩
    | null | bool _ | int _ | float _ | time _ | seq _ | umap _ =>
      rw [parseStep.eq_4 _ _ (by intro s h; cases h) (by intro m h; cases h)] at h; cases h

/-- Every step the parser returns encodes. -/
theorem yStep_total (f : Nat) (x : Val) (s : Step) (w : List Warn) (hx : NoUMap x)
    (h : parseStep f x = .ok (s, w)) : ∃ j, yStep s = .ok j :=
  yStep_total_all f x s w hx h

/-! ## The pipeline -/

/-- For every pipeline in the image of the parser the value tree handed to `yaml.Marshal` exists. -/
theorem yaml_marshal_total (v : Val) (p : Pipeline) (ws : List Warn) (hv : NoUMap v) (hd : KeysNodup v)
    (hp : parsePipeline v = .ok (p, ws)) : ∃ j, MarshalY.yPipeline p = .ok j := by
  obtain ⟨xs, l, ws1, hl, hx1, _, hps, hR⟩ := parsePipeline_inv hv hd hp
  obtain ⟨js, hjs⟩ := ySteps_total_of stepFuel (yStep_total_all stepFuel) xs l ws1 hx1 hps
  have hsubK : ∀ k ∈ (pipeOutline js (normList p.env)).map (·.1), k ∈ normalKeys Gen.struct_Pipeline := by
    intro k hk
    have : ∀ k ∈ ["steps", "env"], k ∈ normalKeys Gen.struct_Pipeline := by decide
    exact this k ((pipeOutline_keys js (normList p.env)).subset hk)
  refine ⟨inlineFriendly (pipeOutline js (normList p.env)) p.rem, ?_⟩
  rw [yPipeline_eq p l js hl hjs]
  exact yStruct_ok Gen.struct_Pipeline _ p.rem hR hsubK

end GoPipeline.EndToEnd
