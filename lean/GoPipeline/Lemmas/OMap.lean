/-
  C05 — helper lemmas for the ordered-map refinement proof.

  Architecture: everything is key-directed.  `posOf k n items` is the lookup of `k` in
  `liveIdxFrom n items`; `modFirstLive k f items` applies `f` to the first live slot with key `k`.
  The bridge lemma `modAt_eq_modFirstLive` turns the position-directed writes of the Go code into
  key-directed ones; after that only `pairsOf`, `keysOf`, `posOf` are reasoned about.
-/
import GoPipeline.Model.OMap
import Batteries.Data.List.Basic  -- only for the standard `List.Forall₂` used in `C05_equal_iff`
namespace GoPipeline.OMap
variable {V : Type}

/-! ## Association lists -/

theorem lookup_eq_none_iff_keys {β : Type} (l : List (String × β)) (k : String) :
    l.lookup k = none ↔ k ∉ l.map (·.1) := by
  induction l with
  | nil => simp
  | cons p r ih =>
    obtain ⟨a, b⟩ := p
    by_cases h : k = a
    · subst h; simp
    · have h' : (k == a) = false := by simpa using h
      simp [List.lookup_cons, h', h, ih]

theorem lookup_isSome_iff_keys {β : Type} (l : List (String × β)) (k : String) :
    (l.lookup k).isSome = true ↔ k ∈ l.map (·.1) := by
  have := lookup_eq_none_iff_keys l k
  cases h : l.lookup k with
  | none => simp [h] at this ⊢; simpa using this
  | some v => simp [h] at this ⊢; simpa using this

theorem lookup_idxDel (ix : Index) (k x : String) :
    (idxDel ix k).lookup x = if x = k then none else ix.lookup x := by
  induction ix with
  | nil => simp [idxDel]
  | cons p r ih =>
    obtain ⟨a, b⟩ := p
    simp only [idxDel] at ih ⊢
    by_cases ha : a = k
    · subst ha
      simp only [List.filter_cons, bne_self_eq_false, Bool.false_eq_true, ↓reduceIte, ih,
        List.lookup_cons]
      by_cases hx : x = a
      · simp [hx]
      · have : (x == a) = false := by simpa using hx
        simp [hx, this]
    · have hne : (a != k) = true := by simpa using ha
      simp only [List.filter_cons, hne, ↓reduceIte, List.lookup_cons, ih]
      by_cases hx : x = a
      · subst hx; simp [ha]
      · have : (x == a) = false := by simpa using hx
        simp [this]

theorem lookup_idxSet (ix : Index) (k x : String) (i : Nat) :
    (idxSet ix k i).lookup x = if x = k then some i else ix.lookup x := by
  simp only [idxSet, List.lookup_cons, lookup_idxDel]
  by_cases hx : x = k
  · simp [hx]
  · have : (x == k) = false := by simpa using hx
    simp [hx, this]

theorem keys_idxDel (ix : Index) (k : String) :
    (idxDel ix k).map (·.1) = (ix.map (·.1)).filter (· != k) := by
  induction ix with
  | nil => simp [idxDel]
  | cons p r ih =>
    simp only [idxDel] at ih ⊢
    simp only [List.filter_cons, List.map_cons]
    split <;> simp [ih]

theorem nodup_idxDel {ix : Index} (h : (ix.map (·.1)).Nodup) (k : String) :
    ((idxDel ix k).map (·.1)).Nodup := by
  rw [keys_idxDel]
  exact h.sublist List.filter_sublist

theorem nodup_idxSet {ix : Index} (h : (ix.map (·.1)).Nodup) (k : String) (i : Nat) :
    ((idxSet ix k i).map (·.1)).Nodup := by
  simp only [idxSet, List.map_cons, List.nodup_cons]
  refine ⟨?_, nodup_idxDel h k⟩
  rw [keys_idxDel]
  simp

/-- Two association lists with pairwise-distinct keys and the same `lookup` have the same length. -/
theorem length_eq_of_lookup_eq {β γ : Type} (l : List (String × β)) (l' : List (String × γ))
    (h : (l.map (·.1)).Nodup) (h' : (l'.map (·.1)).Nodup)
    (hl : ∀ k, (l.lookup k).isSome = (l'.lookup k).isSome) : l.length = l'.length := by
  have hp : (l.map (·.1)).Perm (l'.map (·.1)) := by
    rw [List.perm_ext_iff_of_nodup h h']
    intro a
    rw [← lookup_isSome_iff_keys, ← lookup_isSome_iff_keys, hl]
  simpa using hp.length_eq

/-! ## `modAt` -/

theorem length_modAt {α : Type} (f : α → α) (i : Nat) (l : List α) :
    (modAt f i l).length = l.length := by
  induction l generalizing i with
  | nil => simp [modAt]
  | cons a r ih => cases i <;> simp [modAt, ih]

theorem modAt_length_append {α : Type} (f : α → α) (l : List α) (a : α) :
    modAt f l.length (l ++ [a]) = l ++ [f a] := by
  induction l with
  | nil => simp [modAt]
  | cons b r ih => simp [modAt, ih]

/-! ## Live slots, pairs, keys: `cons` / `append` equations -/

def keysOf (items : List (Slot V)) : List String := (live items).map (·.key)

@[simp] theorem live_nil : live ([] : List (Slot V)) = [] := rfl
@[simp] theorem pairsOf_nil : pairsOf ([] : List (Slot V)) = [] := rfl
@[simp] theorem keysOf_nil : keysOf ([] : List (Slot V)) = [] := rfl

theorem live_cons (s : Slot V) (r : List (Slot V)) :
    live (s :: r) = if s.deleted then live r else s :: live r := by
  simp only [live, List.filter_cons]
  cases s.deleted <;> simp

theorem pairsOf_cons (s : Slot V) (r : List (Slot V)) :
    pairsOf (s :: r) = if s.deleted then pairsOf r else (s.key, s.val) :: pairsOf r := by
  simp only [pairsOf, live_cons]
  split <;> simp

theorem keysOf_cons (s : Slot V) (r : List (Slot V)) :
    keysOf (s :: r) = if s.deleted then keysOf r else s.key :: keysOf r := by
  simp only [keysOf, live_cons]
  split <;> simp

theorem live_append (a b : List (Slot V)) : live (a ++ b) = live a ++ live b := by
  simp [live]

theorem pairsOf_append (a b : List (Slot V)) : pairsOf (a ++ b) = pairsOf a ++ pairsOf b := by
  simp [pairsOf, live_append]

theorem keysOf_append (a b : List (Slot V)) : keysOf (a ++ b) = keysOf a ++ keysOf b := by
  simp [keysOf, live_append]

theorem akeys_pairsOf (items : List (Slot V)) : (pairsOf items).map (·.1) = keysOf items := by
  simp [pairsOf, keysOf]

theorem length_pairsOf (items : List (Slot V)) : (pairsOf items).length = (keysOf items).length := by
  simp [pairsOf, keysOf]

theorem keys_liveIdxFrom (n : Nat) (items : List (Slot V)) :
    (liveIdxFrom n items).map (·.1) = keysOf items := by
  induction items generalizing n with
  | nil => simp [liveIdxFrom]
  | cons s r ih =>
    simp only [liveIdxFrom, keysOf_cons]
    split <;> simp [ih]

theorem lookup_pairsOf_eq_none {items : List (Slot V)} {k : String} (h : k ∉ keysOf items) :
    (pairsOf items).lookup k = none := by
  rw [lookup_eq_none_iff_keys, akeys_pairsOf]; exact h

theorem lookup_pairsOf_isSome (items : List (Slot V)) (k : String) :
    ((pairsOf items).lookup k).isSome = true ↔ k ∈ keysOf items := by
  rw [lookup_isSome_iff_keys, akeys_pairsOf]

/-! ## `posOf`: key-directed view of the index -/

/-- Position (offset by `n`) of the first live slot with key `k`. -/
def posOf (k : String) : Nat → List (Slot V) → Option Nat
  | _, [] => none
  | n, s :: r => if !s.deleted && s.key == k then some n else posOf k (n + 1) r

/-- Apply `f` to the first live slot with key `k`. -/
def modFirstLive (k : String) (f : Slot V → Slot V) : List (Slot V) → List (Slot V)
  | [] => []
  | s :: r => if !s.deleted && s.key == k then f s :: r else s :: modFirstLive k f r

theorem lookup_liveIdxFrom (n : Nat) (items : List (Slot V)) (k : String) :
    (liveIdxFrom n items).lookup k = posOf k n items := by
  induction items generalizing n with
  | nil => simp [liveIdxFrom, posOf]
  | cons s r ih =>
    simp only [liveIdxFrom, posOf]
    by_cases hd : s.deleted = true
    · simp [hd, ih]
    · have hd' : s.deleted = false := by simpa using hd
      by_cases hk : s.key = k
      · subst hk; simp [hd']
      · have h1 : (k == s.key) = false := by simpa using (fun h => hk h.symm)
        simp [hd', List.lookup_cons, h1, hk, ih]

theorem posOf_eq_none_iff (k : String) (n : Nat) (items : List (Slot V)) :
    posOf k n items = none ↔ k ∉ keysOf items := by
  rw [← lookup_liveIdxFrom, lookup_eq_none_iff_keys, keys_liveIdxFrom]

theorem posOf_isSome_iff (k : String) (n : Nat) (items : List (Slot V)) :
    (posOf k n items).isSome = true ↔ k ∈ keysOf items := by
  rw [← lookup_liveIdxFrom, lookup_isSome_iff_keys, keys_liveIdxFrom]

theorem mem_keysOf_of_posOf {k : String} {n i : Nat} {items : List (Slot V)}
    (h : posOf k n items = some i) : k ∈ keysOf items := by
  rw [← posOf_isSome_iff k n, h]; rfl

theorem posOf_append (k : String) (n : Nat) (a b : List (Slot V)) :
    posOf k n (a ++ b) = (posOf k n a).or (posOf k (n + a.length) b) := by
  induction a generalizing n with
  | nil => simp [posOf]
  | cons s r ih =>
    simp only [List.cons_append, posOf, ih, List.length_cons]
    split
    · simp
    · congr 2; omega

theorem posOf_bound {k : String} {n i : Nat} {items : List (Slot V)}
    (h : posOf k n items = some i) : n ≤ i ∧ i < n + items.length := by
  induction items generalizing n with
  | nil => simp [posOf] at h
  | cons s r ih =>
    simp only [posOf] at h
    split at h
    · simp at h; simp; omega
    · have := ih h; simp; omega

/-- Bridge: the position-directed write equals the key-directed one. -/
theorem modAt_eq_modFirstLive {k : String} {n i : Nat} {items : List (Slot V)}
    (f : Slot V → Slot V) (h : posOf k n items = some i) :
    modAt f (i - n) items = modFirstLive k f items := by
  induction items generalizing n with
  | nil => simp [posOf] at h
  | cons s r ih =>
    simp only [posOf] at h
    simp only [modFirstLive]
    split at h
    · rename_i hc
      simp at h; subst h
      simp [hc, modAt]
    · rename_i hc
      have hb := posOf_bound h
      have : i - n = (i - (n + 1)) + 1 := by omega
      rw [this]
      simp only [modAt, hc, Bool.false_eq_true, ↓reduceIte, ih h]

theorem modAt_eq_modFirstLive0 {k : String} {i : Nat} {items : List (Slot V)}
    (f : Slot V → Slot V) (h : posOf k 0 items = some i) :
    modAt f i items = modFirstLive k f items := by
  simpa using modAt_eq_modFirstLive f h

theorem getElem?_of_posOf {k : String} {n i : Nat} {items : List (Slot V)}
    (h : posOf k n items = some i) :
    (items[i - n]?).map (·.val) = (pairsOf items).lookup k := by
  induction items generalizing n with
  | nil => simp [posOf] at h
  | cons s r ih =>
    simp only [posOf] at h
    by_cases hd : s.deleted = true
    · simp only [hd, Bool.not_true, Bool.false_and, Bool.false_eq_true, ↓reduceIte] at h
      have hb := posOf_bound h
      have : i - n = (i - (n + 1)) + 1 := by omega
      rw [this, pairsOf_cons]
      simp [hd, ih h]
    · have hd' : s.deleted = false := by simpa using hd
      by_cases hk : s.key = k
      · subst hk
        simp [hd'] at h; subst h
        simp [pairsOf_cons, hd']
      · have h1 : (k == s.key) = false := by simpa using (fun h => hk h.symm)
        simp only [hd', hk, Bool.not_false, Bool.true_and, beq_iff_eq, ↓reduceIte] at h
        have hb := posOf_bound h
        have : i - n = (i - (n + 1)) + 1 := by omega
        rw [this, pairsOf_cons]
        simp [hd', List.lookup_cons, h1, ih h]

/-! ## `modFirstLive`: general facts -/

theorem length_modFirstLive (k : String) (f : Slot V → Slot V) (items : List (Slot V)) :
    (modFirstLive k f items).length = items.length := by
  induction items with
  | nil => simp [modFirstLive]
  | cons s r ih => simp only [modFirstLive]; split <;> simp [ih]

theorem modFirstLive_of_not_mem {k : String} (f : Slot V → Slot V) {items : List (Slot V)}
    (h : k ∉ keysOf items) : modFirstLive k f items = items := by
  induction items with
  | nil => simp [modFirstLive]
  | cons s r ih =>
    simp only [modFirstLive]
    rw [keysOf_cons] at h
    by_cases hd : s.deleted = true
    · simp only [hd, ↓reduceIte] at h
      simp [hd, ih h]
    · have hd' : s.deleted = false := by simpa using hd
      simp only [hd', Bool.false_eq_true, ↓reduceIte, List.mem_cons, not_or] at h
      have hk : ¬ s.key = k := fun e => h.1 e.symm
      simp [hd', hk, ih h.2]

theorem modFirstLive_congr {k : String} {f g : Slot V → Slot V}
    (h : ∀ s, s.deleted = false → s.key = k → f s = g s) (items : List (Slot V)) :
    modFirstLive k f items = modFirstLive k g items := by
  induction items with
  | nil => simp [modFirstLive]
  | cons s r ih =>
    simp only [modFirstLive, ih]
    split
    · rename_i hc
      simp at hc
      rw [h s hc.1 hc.2]
    · rfl

theorem modFirstLive_append_of_mem {k : String} (f : Slot V → Slot V) {a : List (Slot V)}
    (b : List (Slot V)) (h : k ∈ keysOf a) :
    modFirstLive k f (a ++ b) = modFirstLive k f a ++ b := by
  induction a with
  | nil => simp at h
  | cons s r ih =>
    simp only [List.cons_append, modFirstLive]
    split
    · simp
    · rename_i hc
      rw [keysOf_cons] at h
      have : k ∈ keysOf r := by
        by_cases hd : s.deleted = true
        · simpa [hd] using h
        · have hd' : s.deleted = false := by simpa using hd
          simp only [hd', Bool.false_eq_true, ↓reduceIte, List.mem_cons] at h
          rcases h with h | h
          · simp [hd', h] at hc
          · exact h
      simp [ih this]

theorem modFirstLive_append_of_not_mem {k : String} (f : Slot V → Slot V) {a : List (Slot V)}
    (b : List (Slot V)) (h : k ∉ keysOf a) :
    modFirstLive k f (a ++ b) = a ++ modFirstLive k f b := by
  induction a with
  | nil => simp
  | cons s r ih =>
    simp only [List.cons_append, modFirstLive]
    rw [keysOf_cons] at h
    by_cases hd : s.deleted = true
    · simp only [hd, ↓reduceIte] at h
      simp [hd, ih h]
    · have hd' : s.deleted = false := by simpa using hd
      simp only [hd', Bool.false_eq_true, ↓reduceIte, List.mem_cons, not_or] at h
      have hk : ¬ s.key = k := fun e => h.1 e.symm
      simp [hd', hk, ih h.2]

/-! ## Tombstoning the first live `k` -/

abbrev tomb : Slot V → Slot V := fun s => { s with deleted := true }

theorem pairsOf_tomb {items : List (Slot V)} (h : (keysOf items).Nodup) (k : String) :
    pairsOf (modFirstLive k tomb items) = adelete (pairsOf items) k := by
  induction items with
  | nil => simp [modFirstLive, adelete]
  | cons s r ih =>
    simp only [modFirstLive]
    rw [keysOf_cons] at h
    by_cases hd : s.deleted = true
    · simp only [hd, ↓reduceIte] at h
      simp [hd, pairsOf_cons, ih h]
    · have hd' : s.deleted = false := by simpa using hd
      simp only [hd', Bool.false_eq_true, ↓reduceIte, List.nodup_cons] at h
      by_cases hk : s.key = k
      · subst hk
        have : adelete (pairsOf r) s.key = pairsOf r := by
          unfold adelete
          rw [List.filter_eq_self]
          intro p hp
          have : p.1 ∈ keysOf r := by
            rw [← akeys_pairsOf]; exact List.mem_map_of_mem hp
          simp only [bne_iff_ne, ne_eq]
          intro e; rw [e] at this; exact h.1 this
        simp [hd', pairsOf_cons, adelete]
        simpa [adelete] using this.symm
      · have hne : (s.key != k) = true := by simpa using hk
        simp [hd', hk, pairsOf_cons, ih h.2, adelete, hne]

theorem keysOf_tomb {items : List (Slot V)} (h : (keysOf items).Nodup) (k : String) :
    keysOf (modFirstLive k tomb items) = (keysOf items).filter (· != k) := by
  rw [← akeys_pairsOf, pairsOf_tomb h, ← akeys_pairsOf]
  unfold adelete
  generalize pairsOf items = l
  induction l with
  | nil => simp
  | cons p r ih => simp only [List.filter_cons, List.map_cons]; split <;> simp [ih]

theorem nodup_keysOf_tomb {items : List (Slot V)} (h : (keysOf items).Nodup) (k : String) :
    (keysOf (modFirstLive k tomb items)).Nodup := by
  rw [keysOf_tomb h]; exact h.sublist List.filter_sublist

theorem mem_keysOf_tomb {items : List (Slot V)} (h : (keysOf items).Nodup) (k x : String) :
    x ∈ keysOf (modFirstLive k tomb items) ↔ x ∈ keysOf items ∧ x ≠ k := by
  rw [keysOf_tomb h]; simp

theorem posOf_tomb {items : List (Slot V)} (h : (keysOf items).Nodup) (k x : String) (n : Nat) :
    posOf x n (modFirstLive k tomb items) = if x = k then none else posOf x n items := by
  induction items generalizing n with
  | nil => simp [modFirstLive, posOf]
  | cons s r ih =>
    simp only [modFirstLive]
    rw [keysOf_cons] at h
    by_cases hd : s.deleted = true
    · simp only [hd, ↓reduceIte] at h
      simp [hd, posOf, ih h]
    · have hd' : s.deleted = false := by simpa using hd
      simp only [hd', Bool.false_eq_true, ↓reduceIte, List.nodup_cons] at h
      by_cases hk : s.key = k
      · subst hk
        simp only [hd', Bool.not_false, beq_self_eq_true, Bool.and_self, ↓reduceIte, posOf,
          Bool.not_true, Bool.false_and, Bool.false_eq_true, Bool.true_and, beq_iff_eq]
        by_cases hx : x = s.key
        · subst hx; simp [(posOf_eq_none_iff _ _ _).2 h.1]
        · have : ¬ s.key = x := fun e => hx e.symm
          simp [hx, this]
      · simp only [hd', hk, Bool.not_false, Bool.true_and, beq_iff_eq, ↓reduceIte, posOf, ih h.2]
        by_cases hx : x = k
        · subst hx; simp [hk]
        · simp [hx]

/-! ## Renaming the first live `k` to `(k', v)` -/

abbrev ren (k' : String) (v : V) : Slot V → Slot V := fun _ => { key := k', val := v }

theorem pairsOf_ren {items : List (Slot V)} (h : (keysOf items).Nodup) (k k' : String) (v : V) :
    pairsOf (modFirstLive k (ren k' v) items) =
      (pairsOf items).map (fun p => if p.1 == k then (k', v) else p) := by
  induction items with
  | nil => simp [modFirstLive]
  | cons s r ih =>
    simp only [modFirstLive]
    rw [keysOf_cons] at h
    by_cases hd : s.deleted = true
    · simp only [hd, ↓reduceIte] at h
      simp [hd, pairsOf_cons, ih h]
    · have hd' : s.deleted = false := by simpa using hd
      simp only [hd', Bool.false_eq_true, ↓reduceIte, List.nodup_cons] at h
      by_cases hk : s.key = k
      · subst hk
        have : (pairsOf r).map (fun p => if p.1 == s.key then (k', v) else p) = pairsOf r := by
          conv => rhs; rw [← List.map_id (pairsOf r)]
          apply List.map_congr_left
          intro p hp
          have : p.1 ∈ keysOf r := by
            rw [← akeys_pairsOf]; exact List.mem_map_of_mem hp
          have hne : ¬ p.1 = s.key := by intro e; rw [e] at this; exact h.1 this
          simp [hne]
        simp [hd', pairsOf_cons]
        simpa using this.symm
      · simp [hd', hk, pairsOf_cons, ih h.2]

theorem mem_keysOf_ren {items : List (Slot V)} {k k' x : String} {v : V}
    (hx : x ∈ keysOf (modFirstLive k (ren k' v) items)) : x = k' ∨ x ∈ keysOf items := by
  induction items with
  | nil => simp [modFirstLive] at hx
  | cons s r ih =>
    simp only [modFirstLive] at hx
    by_cases hd : s.deleted = true
    · simp only [hd, Bool.not_true, Bool.false_and, Bool.false_eq_true, ↓reduceIte,
        keysOf_cons] at hx ⊢
      exact ih hx
    · have hd' : s.deleted = false := by simpa using hd
      by_cases hk : s.key = k
      · simp only [hd', hk, Bool.not_false, beq_self_eq_true, Bool.and_self, ↓reduceIte,
          keysOf_cons, Bool.false_eq_true, List.mem_cons] at hx ⊢
        rcases hx with hx | hx
        · exact Or.inl hx
        · exact Or.inr (Or.inr hx)
      · simp only [hd', hk, Bool.not_false, Bool.true_and, beq_iff_eq, ↓reduceIte, keysOf_cons,
          Bool.false_eq_true, List.mem_cons] at hx ⊢
        rcases hx with hx | hx
        · exact Or.inr (Or.inl hx)
        · rcases ih hx with h | h
          · exact Or.inl h
          · exact Or.inr (Or.inr h)

theorem nodup_keysOf_ren {items : List (Slot V)} (h : (keysOf items).Nodup) {k k' : String}
    (v : V) (hk' : k' = k ∨ k' ∉ keysOf items) :
    (keysOf (modFirstLive k (ren k' v) items)).Nodup := by
  induction items with
  | nil => simp [modFirstLive]
  | cons s r ih =>
    simp only [modFirstLive]
    rw [keysOf_cons] at h hk'
    by_cases hd : s.deleted = true
    · simp only [hd, ↓reduceIte] at h hk'
      simp only [hd, Bool.not_true, Bool.false_and, Bool.false_eq_true, ↓reduceIte, keysOf_cons]
      exact ih h hk'
    · have hd' : s.deleted = false := by simpa using hd
      simp only [hd', Bool.false_eq_true, ↓reduceIte, List.nodup_cons, List.mem_cons,
        not_or] at h hk'
      by_cases hk : s.key = k
      · simp only [hd', hk, Bool.not_false, beq_self_eq_true, Bool.and_self, ↓reduceIte,
          keysOf_cons, Bool.false_eq_true, List.nodup_cons]
        refine ⟨?_, h.2⟩
        rcases hk' with e | e
        · rw [e, ← hk]; exact h.1
        · exact e.2
      · simp only [hd', hk, Bool.not_false, Bool.true_and, beq_iff_eq, ↓reduceIte, keysOf_cons,
          Bool.false_eq_true, List.nodup_cons]
        have hk'' : k' = k ∨ k' ∉ keysOf r := hk'.imp id (·.2)
        refine ⟨?_, ih h.2 hk''⟩
        intro hm
        rcases mem_keysOf_ren hm with e | e
        · rcases hk' with e' | e'
          · exact hk (e.trans e')
          · exact e'.1 e.symm
        · exact h.1 e

theorem posOf_ren {items : List (Slot V)} (h : (keysOf items).Nodup) {k k' : String}
    (v : V) (hk' : k' = k ∨ k' ∉ keysOf items) (x : String) (n : Nat) :
    posOf x n (modFirstLive k (ren k' v) items) =
      if x = k' then posOf k n items else if x = k then none else posOf x n items := by
  induction items generalizing n with
  | nil => simp [modFirstLive, posOf]
  | cons s r ih =>
    simp only [modFirstLive]
    rw [keysOf_cons] at h hk'
    by_cases hd : s.deleted = true
    · simp only [hd, ↓reduceIte] at h hk'
      simp [hd, posOf, ih h hk']
    · have hd' : s.deleted = false := by simpa using hd
      simp only [hd', Bool.false_eq_true, ↓reduceIte, List.nodup_cons, List.mem_cons,
        not_or] at h hk'
      by_cases hk : s.key = k
      · subst hk
        simp only [hd', Bool.not_false, beq_self_eq_true, Bool.and_self, ↓reduceIte, posOf,
          Bool.true_and, beq_iff_eq]
        by_cases hx : x = k'
        · subst hx; simp
        · have : ¬ k' = x := fun e => hx e.symm
          simp only [this, ↓reduceIte, hx]
          by_cases hx2 : x = s.key
          · subst hx2; simp [(posOf_eq_none_iff _ _ _).2 h.1]
          · have : ¬ s.key = x := fun e => hx2 e.symm
            simp [hx2, this]
      · have hk'' : k' = k ∨ k' ∉ keysOf r := hk'.imp id (·.2)
        simp only [hd', hk, Bool.not_false, Bool.true_and, beq_iff_eq, ↓reduceIte, posOf,
          ih h.2 hk'']
        have hsk' : ¬ s.key = k' := by
          rcases hk' with e | e
          · rw [e]; exact hk
          · exact fun e' => e.1 e'.symm
        by_cases hx : x = k'
        · subst hx; simp [hsk']
        · by_cases hx2 : x = k
          · subst hx2; simp [hx, hk]
          · simp [hx, hx2]

/-! ## Working with `Inv` -/

theorem Inv.mk' {items : List (Slot V)} {ix : Index} (h1 : (ix.map (·.1)).Nodup)
    (h2 : ∀ k, ix.lookup k = posOf k 0 items) (h3 : (keysOf items).Nodup) :
    Inv ({ items := items, index := some ix } : CMap V) := by
  refine ⟨by simp, ?_, ?_, h3⟩
  · intro ix' e; simp at e; subst e; exact h1
  · intro ix' e k; simp at e; subst e; rw [lookup_liveIdxFrom]; exact h2 k

theorem Inv.keys {c : CMap V} (h : Inv c) : (keysOf c.items).Nodup := h.keysNodup

theorem Inv.lookup {c : CMap V} (h : Inv c) {ix : Index} (e : c.index = some ix) (k : String) :
    ix.lookup k = posOf k 0 c.items := by
  rw [h.idxLookup ix e k, lookup_liveIdxFrom]

theorem Inv.ensureNodup {c : CMap V} (h : Inv c) : ((ensureIndex c).map (·.1)).Nodup := by
  unfold ensureIndex
  cases e : c.index with
  | none => simp
  | some ix => exact h.idxNodup ix e

theorem Inv.ensureLookup {c : CMap V} (h : Inv c) (k : String) :
    (ensureIndex c).lookup k = posOf k 0 c.items := by
  unfold ensureIndex
  cases e : c.index with
  | none => simp [h.nilIndex e, posOf]
  | some ix => exact h.lookup e k

theorem inv_new : Inv (newMap : CMap V) :=
  Inv.mk' (by simp) (by simp [posOf]) (by simp)

theorem inv_zero : Inv (zeroMap : CMap V) := by
  refine ⟨by simp [zeroMap], ?_, ?_, by simp [zeroMap]⟩
  · intro ix e; simp [zeroMap] at e
  · intro ix e; simp [zeroMap] at e

theorem abs_keys_nodup {c : CMap V} (h : Inv c) : (akeys (abs c)).Nodup := by
  unfold akeys abs
  rw [akeys_pairsOf]; exact h.keys

/-- Appending a fresh live slot and indexing it. -/
theorem inv_append {items : List (Slot V)} {ix : Index} {k : String} (v : V) {n : Nat}
    (h1 : (ix.map (·.1)).Nodup)
    (h2 : ∀ x, x ≠ k → ix.lookup x = posOf x 0 items)
    (h3 : (keysOf items).Nodup) (hk : k ∉ keysOf items) (hn : n = items.length) :
    Inv ({ items := items ++ [{ key := k, val := v }], index := some (idxSet ix k n) } : CMap V) := by
  refine Inv.mk' (nodup_idxSet h1 k n) ?_ ?_
  · intro x
    rw [lookup_idxSet, posOf_append]
    by_cases hx : x = k
    · subst hx
      simp [(posOf_eq_none_iff x 0 items).2 hk, posOf, hn]
    · have : ¬ k = x := fun e => hx e.symm
      simp [hx, h2 x hx, posOf, this]
  · rw [keysOf_append, List.nodup_append]
    refine ⟨h3, by simp [keysOf_cons], ?_⟩
    intro a ha b hb
    simp [keysOf_cons] at hb
    subst hb
    intro e; subst e; exact hk ha

/-! ## Observers -/

theorem len_eq {c : CMap V} (h : Inv c) : len c = (abs c).length := by
  unfold len abs
  cases e : c.index with
  | none => simp [h.nilIndex e]
  | some ix =>
    simp only
    rw [length_pairsOf, ← keys_liveIdxFrom 0, List.length_map]
    apply length_eq_of_lookup_eq _ _ (h.idxNodup ix e)
    · rw [keys_liveIdxFrom]; exact h.keys
    · intro k; rw [h.idxLookup ix e k]

theorem isZero_eq {c : CMap V} (h : Inv c) : isZero c = (abs c).isEmpty := by
  unfold isZero
  rw [len_eq h]
  cases abs c <;> simp

theorem get_eq {c : CMap V} (h : Inv c) (k : String) : get c k = (abs c).lookup k := by
  unfold get abs
  cases e : c.index with
  | none => simp [h.nilIndex e]
  | some ix =>
    simp only [idxGet, h.lookup e k]
    cases hp : posOf k 0 c.items with
    | none =>
      simp only
      rw [lookup_pairsOf_eq_none]
      exact (posOf_eq_none_iff k 0 _).1 hp
    | some i =>
      simp only
      exact getElem?_of_posOf hp

theorem contains_eq {c : CMap V} (h : Inv c) (k : String) :
    contains c k = ((abs c).lookup k).isSome := by
  unfold contains abs
  cases e : c.index with
  | none => simp [h.nilIndex e]
  | some ix =>
    simp only [idxGet, h.lookup e k]
    rw [Bool.eq_iff_iff, posOf_isSome_iff, lookup_pairsOf_isSome]

theorem range_eq {c : CMap V} (h : Inv c) : range c = abs c := by
  unfold range
  rw [isZero_eq h]
  cases e : abs c <;> simp [← e, abs]

/-! ## `Set` -/

theorem set_eq_of_some {c : CMap V} (h : Inv c) {k : String} {i : Nat}
    (hp : posOf k 0 c.items = some i) (v : V) :
    set c k v = { items := modFirstLive k (ren k v) c.items, index := some (ensureIndex c) } := by
  unfold set
  simp only [idxGet, h.ensureLookup, hp]
  rw [modAt_eq_modFirstLive0 _ hp]
  congr 1
  apply modFirstLive_congr
  intro s hd hk
  cases s; simp_all

theorem set_eq_of_none {c : CMap V} (h : Inv c) {k : String}
    (hp : posOf k 0 c.items = none) (v : V) :
    set c k v = { items := c.items ++ [{ key := k, val := v }],
                  index := some (idxSet (ensureIndex c) k c.items.length) } := by
  unfold set
  simp only [idxGet, h.ensureLookup, hp]

theorem inv_set {c : CMap V} (h : Inv c) (k : String) (v : V) : Inv (set c k v) := by
  cases hp : posOf k 0 c.items with
  | none =>
    rw [set_eq_of_none h hp]
    exact inv_append v h.ensureNodup (fun x _ => h.ensureLookup x) h.keys
      ((posOf_eq_none_iff k 0 _).1 hp) rfl
  | some i =>
    rw [set_eq_of_some h hp]
    refine Inv.mk' h.ensureNodup ?_ (nodup_keysOf_ren h.keys v (Or.inl rfl))
    intro x
    rw [h.ensureLookup, posOf_ren h.keys v (Or.inl rfl)]
    by_cases hx : x = k <;> simp [hx]

theorem abs_set {c : CMap V} (h : Inv c) (k : String) (v : V) :
    abs (set c k v) = aset (abs c) k v := by
  unfold aset abs
  cases hp : posOf k 0 c.items with
  | none =>
    have hk := (posOf_eq_none_iff k 0 _).1 hp
    rw [set_eq_of_none h hp, lookup_pairsOf_eq_none hk]
    simp [pairsOf_append, pairsOf_cons]
  | some i =>
    have hk : ((pairsOf c.items).lookup k).isSome = true :=
      (lookup_pairsOf_isSome _ _).2 (mem_keysOf_of_posOf hp)
    rw [set_eq_of_some h hp, hk]
    simp only [↓reduceIte]
    exact pairsOf_ren h.keys k k v

/-! ## `compact` -/

theorem compactLoop_spec (ix : Index) (rest pairs : List (Slot V))
    (hix : (ix.map (·.1)).Nodup)
    (hnd : (keysOf (pairs ++ rest)).Nodup)
    (hl : ∀ k, k ∉ keysOf rest → ix.lookup k = posOf k 0 pairs) :
    ((compactLoop ix rest pairs).1.map (·.1)).Nodup ∧
    (∀ k, (compactLoop ix rest pairs).1.lookup k = posOf k 0 (compactLoop ix rest pairs).2) ∧
    pairsOf (compactLoop ix rest pairs).2 = pairsOf (pairs ++ rest) := by
  induction rest generalizing ix pairs with
  | nil =>
    simp only [compactLoop, List.append_nil]
    exact ⟨hix, fun k => hl k (by simp), trivial⟩
  | cons p r ih =>
    simp only [compactLoop]
    by_cases hd : p.deleted = true
    · simp only [hd, ↓reduceIte]
      have hnd' : (keysOf (pairs ++ r)).Nodup := by
        simpa [keysOf_append, keysOf_cons, hd] using hnd
      have hl' : ∀ k, k ∉ keysOf r → ix.lookup k = posOf k 0 pairs := by
        intro k hk; apply hl; simpa [keysOf_cons, hd] using hk
      obtain ⟨a, b, c⟩ := ih ix pairs hix hnd' hl'
      refine ⟨a, b, ?_⟩
      rw [c]; simp [pairsOf_append, pairsOf_cons, hd]
    · have hd' : p.deleted = false := by simpa using hd
      simp only [hd', Bool.false_eq_true, ↓reduceIte]
      have hnd0 : (keysOf pairs ++ p.key :: keysOf r).Nodup := by
        simpa [keysOf_append, keysOf_cons, hd'] using hnd
      have hnd' : (keysOf ((pairs ++ [{ key := p.key, val := p.val }]) ++ r)).Nodup := by
        simpa [keysOf_append, keysOf_cons] using hnd0
      have hpk : p.key ∉ keysOf pairs := by
        intro hm
        rw [List.nodup_append] at hnd0
        exact hnd0.2.2 _ hm _ (List.mem_cons_self) rfl
      have hl' : ∀ k, k ∉ keysOf r →
          (idxSet ix p.key pairs.length).lookup k =
            posOf k 0 (pairs ++ [{ key := p.key, val := p.val }]) := by
        intro k hk
        rw [lookup_idxSet, posOf_append]
        by_cases hx : k = p.key
        · subst hx
          simp [(posOf_eq_none_iff _ 0 pairs).2 hpk, posOf]
        · have hx' : ¬ p.key = k := fun e => hx e.symm
          have : k ∉ keysOf (p :: r) := by simpa [keysOf_cons, hd', hx] using hk
          simp [hx, hl k this, posOf, hx']
      obtain ⟨a, b, c⟩ := ih _ _ (nodup_idxSet hix _ _) hnd' hl'
      refine ⟨a, b, ?_⟩
      rw [c]; simp [pairsOf_append, pairsOf_cons, hd']

theorem compact_some (items : List (Slot V)) (ix : Index) :
    compact ({ items := items, index := some ix } : CMap V) =
      { items := (compactLoop ix items []).2, index := some (compactLoop ix items []).1 } := rfl

theorem inv_abs_compact {c : CMap V} (h : Inv c) : Inv (compact c) ∧ abs (compact c) = abs c := by
  obtain ⟨items, index⟩ := c
  cases index with
  | none => exact ⟨h, rfl⟩
  | some ix =>
    rw [compact_some]
    obtain ⟨a, b, c⟩ := compactLoop_spec ix items [] (h.idxNodup ix rfl)
      (by simpa using h.keys) (by
        intro k hk
        rw [h.lookup rfl k]
        simp [posOf, (posOf_eq_none_iff k 0 items).2 hk])
    simp only [List.nil_append] at c
    refine ⟨Inv.mk' a b ?_, c⟩
    rw [← akeys_pairsOf, c, akeys_pairsOf]; exact h.keys

theorem inv_compact {c : CMap V} (h : Inv c) : Inv (compact c) := (inv_abs_compact h).1
theorem abs_compact {c : CMap V} (h : Inv c) : abs (compact c) = abs c := (inv_abs_compact h).2

/-! ## `Delete` -/

theorem adelete_of_not_mem {items : List (Slot V)} {k : String} (hk : k ∉ keysOf items) :
    adelete (pairsOf items) k = pairsOf items := by
  unfold adelete
  rw [List.filter_eq_self]
  intro p hp
  have : p.1 ∈ keysOf items := by
    rw [← akeys_pairsOf]; exact List.mem_map_of_mem hp
  simp only [bne_iff_ne, ne_eq]
  intro e; rw [e] at this; exact hk this

theorem inv_abs_delete {c : CMap V} (h : Inv c) (k : String) :
    Inv (delete c k) ∧ abs (delete c k) = adelete (abs c) k := by
  obtain ⟨items, index⟩ := c
  cases index with
  | none =>
    have : items = [] := h.nilIndex rfl
    subst this
    exact ⟨h, rfl⟩
  | some ix =>
    have hl := h.lookup rfl k
    simp only at hl
    simp only [delete, idxGet, hl]
    cases hp : posOf k 0 items with
    | none =>
      simp only
      refine ⟨h, ?_⟩
      simp only [abs]
      rw [adelete_of_not_mem ((posOf_eq_none_iff k 0 _).1 hp)]
    | some i =>
      simp only
      rw [modAt_eq_modFirstLive0 _ hp]
      have hc' : Inv ({ items := modFirstLive k tomb items, index := some (idxDel ix k) } : CMap V) := by
        refine Inv.mk' (nodup_idxDel (h.idxNodup ix rfl) k) ?_ (nodup_keysOf_tomb h.keys k)
        intro x
        rw [lookup_idxDel, posOf_tomb h.keys, h.lookup rfl x]
      have ha : abs ({ items := modFirstLive k tomb items, index := some (idxDel ix k) } : CMap V) =
          adelete (pairsOf items) k := pairsOf_tomb h.keys k
      split
      · exact ⟨inv_compact hc', by rw [abs_compact hc', ha]; rfl⟩
      · exact ⟨hc', ha⟩

theorem inv_delete {c : CMap V} (h : Inv c) (k : String) : Inv (delete c k) := (inv_abs_delete h k).1
theorem abs_delete {c : CMap V} (h : Inv c) (k : String) :
    abs (delete c k) = adelete (abs c) k := (inv_abs_delete h k).2

/-! ## `Replace`: the four shapes of the result -/

theorem replace_same_some {c : CMap V} (h : Inv c) {k : String} {i : Nat}
    (hp : posOf k 0 c.items = some i) (v : V) :
    replace c k k v = { items := modFirstLive k (ren k v) c.items,
                        index := some (idxSet (ensureIndex c) k i) } := by
  unfold replace
  simp only [idxGet, h.ensureLookup, hp, bne_self_eq_false, Bool.false_eq_true, ↓reduceIte]
  rw [modAt_eq_modFirstLive0 _ hp]

theorem replace_same_none {c : CMap V} (h : Inv c) {k : String}
    (hp : posOf k 0 c.items = none) (v : V) :
    replace c k k v = { items := c.items ++ [{ key := k, val := v }],
                        index := some (idxSet (ensureIndex c) k c.items.length) } := by
  unfold replace
  simp only [idxGet, h.ensureLookup, hp, bne_self_eq_false, Bool.false_eq_true, ↓reduceIte]
  rw [modAt_length_append]

theorem replace_ne_some {c : CMap V} (h : Inv c) {old new : String} (hne : old ≠ new) {i : Nat}
    (hp : posOf old 0 c.items = some i) (v : V) :
    replace c old new v =
      { items := modFirstLive old (ren new v) (modFirstLive new tomb c.items),
        index := some (idxSet (idxDel (ensureIndex c) old) new i) } := by
  have hne' : (old != new) = true := by simpa using hne
  have h2 : modFirstLive old (ren new v) (modFirstLive new tomb c.items) =
      modAt (ren new v) i (modFirstLive new tomb c.items) := by
    rw [modAt_eq_modFirstLive0]
    rw [posOf_tomb h.keys, if_neg hne, hp]
  unfold replace
  simp only [idxGet, h.ensureLookup, hp, hne', ↓reduceIte]
  cases hq : posOf new 0 c.items with
  | none =>
    simp only
    rw [h2, modFirstLive_of_not_mem _ ((posOf_eq_none_iff new 0 _).1 hq)]
  | some j =>
    simp only
    rw [h2, modAt_eq_modFirstLive0 _ hq]

theorem replace_ne_none {c : CMap V} (h : Inv c) {old new : String} (hne : old ≠ new)
    (hp : posOf old 0 c.items = none) (v : V) :
    replace c old new v =
      { items := modFirstLive new tomb c.items ++ [{ key := new, val := v }],
        index := some (idxSet (idxDel (ensureIndex c) old) new c.items.length) } := by
  have hne' : (old != new) = true := by simpa using hne
  unfold replace
  simp only [idxGet, h.ensureLookup, hp, hne', ↓reduceIte]
  cases hq : posOf new 0 c.items with
  | none =>
    simp only
    rw [modFirstLive_of_not_mem _ ((posOf_eq_none_iff new 0 _).1 hq), modAt_length_append]
  | some j =>
    simp only
    have hq' : posOf new 0 (c.items ++ [({ key := new, val := v } : Slot V)]) = some j := by
      rw [posOf_append, hq]; rfl
    rw [modAt_eq_modFirstLive0 _ hq', modFirstLive_append_of_mem _ _ (mem_keysOf_of_posOf hq)]
    conv => lhs; rw [← length_modFirstLive new tomb c.items]
    rw [modAt_length_append, length_modFirstLive]

theorem inv_replace {c : CMap V} (h : Inv c) (o n : String) (v : V) : Inv (replace c o n v) := by
  by_cases hne : o = n
  · subst hne
    cases hp : posOf o 0 c.items with
    | none =>
      rw [replace_same_none h hp]
      exact inv_append v h.ensureNodup (fun x _ => h.ensureLookup x) h.keys
        ((posOf_eq_none_iff o 0 _).1 hp) rfl
    | some i =>
      rw [replace_same_some h hp]
      refine Inv.mk' (nodup_idxSet h.ensureNodup _ _) ?_ (nodup_keysOf_ren h.keys v (Or.inl rfl))
      intro x
      rw [lookup_idxSet, h.ensureLookup, posOf_ren h.keys v (Or.inl rfl)]
      by_cases hx : x = o <;> simp [hx, hp]
  · have hT := nodup_keysOf_tomb h.keys n
    have hnT : n ∉ keysOf (modFirstLive n tomb c.items) := by
      rw [mem_keysOf_tomb h.keys]; simp
    cases hp : posOf o 0 c.items with
    | none =>
      rw [replace_ne_none h hne hp]
      refine inv_append v (nodup_idxDel h.ensureNodup o) ?_ hT hnT (length_modFirstLive _ _ _).symm
      intro x hx
      rw [lookup_idxDel, h.ensureLookup, posOf_tomb h.keys, if_neg hx]
      by_cases hxo : x = o
      · subst hxo; simp [hp]
      · simp [hxo]
    | some i =>
      rw [replace_ne_some h hne hp]
      refine Inv.mk' (nodup_idxSet (nodup_idxDel h.ensureNodup o) _ _) ?_
        (nodup_keysOf_ren hT v (Or.inr hnT))
      intro x
      rw [lookup_idxSet, lookup_idxDel, h.ensureLookup, posOf_ren hT v (Or.inr hnT),
        posOf_tomb h.keys, posOf_tomb h.keys, if_neg hne, hp]
      by_cases hx : x = n
      · simp [hx]
      · simp [hx]

theorem areplace_same (l : AMap V) (k : String) (v : V) : areplace l k k v = aset l k v := by
  unfold areplace aset
  have : l.filter (fun p => p.1 != k || p.1 == k) = l := by
    rw [List.filter_eq_self]
    intro p _
    cases hpk : p.1 == k <;> simp [bne, hpk]
  simp only [this]

theorem areplace_ne (l : AMap V) {old new : String} (hne : old ≠ new) (v : V) :
    areplace l old new v =
      if ((adelete l new).lookup old).isSome then
        (adelete l new).map (fun p => if p.1 == old then (new, v) else p)
      else adelete l new ++ [(new, v)] := by
  unfold areplace adelete
  have : l.filter (fun p => p.1 != new || p.1 == old) = l.filter (fun p => p.1 != new) := by
    apply List.filter_congr
    intro p _
    by_cases hpo : p.1 = old
    · have : ¬ p.1 = new := by rw [hpo]; exact hne
      simp [hpo, hne]
    · simp [hpo]
  simp only [this]

theorem abs_replace {c : CMap V} (h : Inv c) (o n : String) (v : V) :
    abs (replace c o n v) = areplace (abs c) o n v := by
  by_cases hne : o = n
  · subst hne
    rw [areplace_same, ← abs_set h]
    cases hp : posOf o 0 c.items with
    | none => rw [replace_same_none h hp, set_eq_of_none h hp]
    | some i => rw [replace_same_some h hp, set_eq_of_some h hp]; rfl
  · have hT := nodup_keysOf_tomb h.keys n
    rw [areplace_ne _ hne]
    unfold abs
    rw [← pairsOf_tomb h.keys]
    cases hp : posOf o 0 c.items with
    | none =>
      have ho : o ∉ keysOf (modFirstLive n tomb c.items) := by
        rw [mem_keysOf_tomb h.keys]
        intro hm; exact (posOf_eq_none_iff o 0 _).1 hp hm.1
      rw [replace_ne_none h hne hp, lookup_pairsOf_eq_none ho]
      simp [pairsOf_append, pairsOf_cons]
    | some i =>
      have ho : o ∈ keysOf (modFirstLive n tomb c.items) := by
        rw [mem_keysOf_tomb h.keys]
        exact ⟨mem_keysOf_of_posOf hp, hne⟩
      rw [replace_ne_some h hne hp, (lookup_pairsOf_isSome _ _).2 ho]
      simp only [↓reduceIte]
      exact pairsOf_ren hT o n v

/-! ## Histories -/

theorem step_refines {c : CMap V} (h : Inv c) (op : Op V) :
    Inv (step c op) ∧ abs (step c op) = astep (abs c) op := by
  cases op with
  | set k v => exact ⟨inv_set h k v, abs_set h k v⟩
  | replace o n v => exact ⟨inv_replace h o n v, abs_replace h o n v⟩
  | delete k => exact ⟨inv_delete h k, abs_delete h k⟩

theorem run_refines (c : CMap V) (h : Inv c) (ops : List (Op V)) :
    Inv (run c ops) ∧ abs (run c ops) = arun (abs c) ops := by
  induction ops generalizing c with
  | nil => exact ⟨h, rfl⟩
  | cons op r ih =>
    have hs := step_refines h op
    simp only [run, arun, List.foldl_cons]
    rw [← hs.2]
    exact ih _ hs.1

/-! ## `Equal` -/

/-- Pairwise comparison that stops (with `true`) as soon as either side runs out. -/
def aequalPrefix (veq : V → V → Bool) : AMap V → AMap V → Bool
  | (k, v) :: r, (k', v') :: r' => k == k' && veq v v' && aequalPrefix veq r r'
  | _, _ => true

theorem aequalPrefix_nil_right (veq : V → V → Bool) (l : AMap V) :
    aequalPrefix veq l [] = true := by
  cases l <;> simp [aequalPrefix]

theorem skipDel_eq_nil {l : List (Slot V)} (h : skipDel l = []) : pairsOf l = [] := by
  induction l with
  | nil => rfl
  | cons s r ih =>
    simp only [skipDel] at h
    split at h
    · rename_i hd; simp [pairsOf_cons, hd, ih h]
    · simp at h

theorem skipDel_eq_cons {l r' : List (Slot V)} {a : Slot V} (h : skipDel l = a :: r') :
    pairsOf l = (a.key, a.val) :: pairsOf r' := by
  induction l with
  | nil => simp [skipDel] at h
  | cons s r ih =>
    simp only [skipDel] at h
    split at h
    · rename_i hd; simp [pairsOf_cons, hd, ih h]
    · rename_i hd
      simp at h
      obtain ⟨rfl, rfl⟩ := h
      simp [pairsOf_cons, hd]

theorem equalLoop_eq (veq : V → V → Bool) (as bs : List (Slot V)) :
    equalLoop veq as bs = aequalPrefix veq (pairsOf as) (pairsOf bs) := by
  fun_induction equalLoop veq as bs with
  | case1 as bs a as' b bs' ha hb hk =>
    rw [skipDel_eq_cons ha, skipDel_eq_cons hb]
    have : (a.key == b.key) = false := by simpa using hk
    simp [aequalPrefix, this]
  | case2 as bs a as' b bs' ha hb hk hv =>
    rw [skipDel_eq_cons ha, skipDel_eq_cons hb]
    have : veq a.val b.val = false := by simpa using hv
    simp [aequalPrefix, this]
  | case3 as bs a as' b bs' ha hb hk hv ih =>
    rw [skipDel_eq_cons ha, skipDel_eq_cons hb]
    have h1 : (a.key == b.key) = true := by simpa using hk
    have h2 : veq a.val b.val = true := by simpa using hv
    simp only [aequalPrefix, h1, h2, ih, Bool.and_self, Bool.true_and]
  | case4 as bs hno =>
    cases ha : skipDel as with
    | nil => rw [skipDel_eq_nil ha]; simp [aequalPrefix]
    | cons a as' =>
      cases hb : skipDel bs with
      | nil => rw [skipDel_eq_nil hb, aequalPrefix_nil_right]
      | cons b bs' => exact (hno a as' b bs' ha hb).elim

theorem aequal_eq_prefix (veq : V → V → Bool) (l l' : AMap V) :
    aequal veq l l' = (l.length == l'.length && aequalPrefix veq l l') := by
  induction l generalizing l' with
  | nil => cases l' <;> simp [aequal, aequalPrefix]
  | cons p r ih =>
    obtain ⟨k, v⟩ := p
    cases l' with
    | nil => simp [aequal]
    | cons p' r' =>
      obtain ⟨k', v'⟩ := p'
      have hlen : (r.length + 1 == r'.length + 1) = (r.length == r'.length) := by
        rw [Bool.eq_iff_iff]; simp
      simp only [aequal, aequalPrefix, ih, List.length_cons, hlen]
      cases (k == k') <;> cases veq v v' <;> cases (r.length == r'.length) <;> rfl

theorem equal_eq {a b : CMap V} (ha : Inv a) (hb : Inv b) (veq : V → V → Bool) :
    equal veq (some a) (some b) = aequal veq (abs a) (abs b) := by
  simp only [equal, len_eq ha, len_eq hb, aequal_eq_prefix, equalLoop_eq]
  unfold abs
  by_cases hl : (pairsOf a.items).length = (pairsOf b.items).length
  · simp [hl]
  · simp [hl]

theorem aequal_refl (veq : V → V → Bool) (hr : ∀ v, veq v v = true) (l : AMap V) :
    aequal veq l l = true := by
  induction l with
  | nil => simp [aequal]
  | cons p r ih => obtain ⟨k, v⟩ := p; simp [aequal, hr, ih]

theorem aequal_symm (veq : V → V → Bool) (hs : ∀ v w, veq v w = veq w v) (l l' : AMap V) :
    aequal veq l l' = aequal veq l' l := by
  induction l generalizing l' with
  | nil => cases l' <;> simp [aequal]
  | cons p r ih =>
    obtain ⟨k, v⟩ := p
    cases l' with
    | nil => simp [aequal]
    | cons p' r' =>
      obtain ⟨k', v'⟩ := p'
      simp only [aequal, ih r', hs v v']
      rw [BEq.comm (a := k)]

theorem aequal_iff (veq : V → V → Bool) (l l' : AMap V) :
    aequal veq l l' = true ↔
      akeys l = akeys l' ∧ List.Forall₂ (fun p q => veq p.2 q.2 = true) l l' := by
  induction l generalizing l' with
  | nil =>
    cases l' with
    | nil => simp [aequal, akeys]
    | cons p' r' => simp [aequal, akeys]
  | cons p r ih =>
    obtain ⟨k, v⟩ := p
    cases l' with
    | nil => simp [aequal, akeys]
    | cons p' r' =>
      obtain ⟨k', v'⟩ := p'
      simp only [aequal, Bool.and_eq_true, beq_iff_eq, ih r', akeys, List.map_cons,
        List.cons.injEq, List.forall₂_cons]
      constructor
      · rintro ⟨⟨a, b⟩, c, d⟩; exact ⟨⟨a, c⟩, b, d⟩
      · rintro ⟨⟨a, c⟩, b, d⟩; exact ⟨⟨a, b⟩, c, d⟩

/-! ## Renames from inside an iteration -/

section RangeReplace
variable {E : Type}

theorem aRangeReplace_nil (f : String → V → Except E (String × V)) (done : AMap V) :
    aRangeReplace f done [] = .ok done := by
  rw [aRangeReplace]

theorem aRangeReplace_cons_error {f : String → V → Except E (String × V)} {k : String} {v : V}
    {e : E} (hf : f k v = .error e) (done rest : AMap V) :
    aRangeReplace f done ((k, v) :: rest) = .error e := by
  rw [aRangeReplace]; simp [hf]

theorem aRangeReplace_cons_same {f : String → V → Except E (String × V)} {k : String} {v v' : V}
    (hf : f k v = .ok (k, v')) (done rest : AMap V) :
    aRangeReplace f done ((k, v) :: rest) = aRangeReplace f (done ++ [(k, v')]) rest := by
  rw [aRangeReplace]; simp [hf]

theorem aRangeReplace_cons_ne {f : String → V → Except E (String × V)} {k k' : String} {v v' : V}
    (hf : f k v = .ok (k', v')) (hne : k' ≠ k) (done rest : AMap V) :
    aRangeReplace f done ((k, v) :: rest) =
      aRangeReplace f (adelete done k' ++ [(k', v')]) (adelete rest k') := by
  rw [aRangeReplace]; simp [hf, hne]

/-- "The concrete result refines the abstract one", for `Except`-valued loops. -/
def RefinesRes (r : Except E (CMap V)) (a : Except E (AMap V)) : Prop :=
  match r with
  | .ok c' => Inv c' ∧ a = .ok (abs c')
  | .error e => a = .error e

/-- Shape of the slot array after `Replace(s.key, s.key, v')` issued while standing on `s`. -/
theorem replace_items_same {c : CMap V} (h : Inv c) {A B : List (Slot V)} {s : Slot V}
    (hi : c.items = A ++ s :: B) (hd : s.deleted = false) (v' : V) :
    (replace c s.key s.key v').items = A ++ { key := s.key, val := v' } :: B := by
  have hnd : (keysOf A ++ s.key :: keysOf B).Nodup := by
    have := h.keys; rw [hi] at this
    simpa [keysOf_append, keysOf_cons, hd] using this
  have hA : s.key ∉ keysOf A := by
    intro hm
    rw [List.nodup_append] at hnd
    exact hnd.2.2 _ hm _ List.mem_cons_self rfl
  cases hp : posOf s.key 0 c.items with
  | none =>
    exfalso
    apply (posOf_eq_none_iff _ 0 _).1 hp
    rw [hi]; simp [keysOf_append, keysOf_cons, hd]
  | some i =>
    rw [replace_same_some h hp]
    simp only [hi]
    rw [modFirstLive_append_of_not_mem _ _ hA]
    simp [modFirstLive, hd]

/-- Shape of the slot array after `Replace(s.key, k', v')`, `k' ≠ s.key`, issued while standing on `s`. -/
theorem replace_items_ne {c : CMap V} (h : Inv c) {A B : List (Slot V)} {s : Slot V}
    (hi : c.items = A ++ s :: B) (hd : s.deleted = false) {k' : String} (hne : k' ≠ s.key) (v' : V) :
    (replace c s.key k' v').items =
      modFirstLive k' tomb A ++ { key := k', val := v' } :: modFirstLive k' tomb B := by
  have hnd : (keysOf A ++ s.key :: keysOf B).Nodup := by
    have := h.keys; rw [hi] at this
    simpa [keysOf_append, keysOf_cons, hd] using this
  have hndA : (keysOf A).Nodup := (List.nodup_append.1 hnd).1
  have hA : s.key ∉ keysOf A := by
    intro hm
    rw [List.nodup_append] at hnd
    exact hnd.2.2 _ hm _ List.mem_cons_self rfl
  have hsk : ¬ s.key = k' := fun e => hne e.symm
  have hT : modFirstLive k' tomb (A ++ s :: B) =
      modFirstLive k' tomb A ++ s :: modFirstLive k' tomb B := by
    by_cases hm : k' ∈ keysOf A
    · have hB : k' ∉ keysOf B := by
        intro hb
        rw [List.nodup_append] at hnd
        exact hnd.2.2 _ hm _ (List.mem_cons_of_mem _ hb) rfl
      rw [modFirstLive_append_of_mem _ _ hm, modFirstLive_of_not_mem _ hB]
    · rw [modFirstLive_append_of_not_mem _ _ hm, modFirstLive_of_not_mem _ hm]
      simp [modFirstLive, hd, hsk]
  cases hp : posOf s.key 0 c.items with
  | none =>
    exfalso
    apply (posOf_eq_none_iff _ 0 _).1 hp
    rw [hi]; simp [keysOf_append, keysOf_cons, hd]
  | some i =>
    rw [replace_ne_some h hsk hp]
    simp only [hi, hT]
    have hA' : s.key ∉ keysOf (modFirstLive k' tomb A) := by
      rw [mem_keysOf_tomb hndA]; exact fun hm => hA hm.1
    rw [modFirstLive_append_of_not_mem _ _ hA']
    simp [modFirstLive, hd]

theorem rangeReplaceLoop_refines (f : String → V → Except E (String × V)) :
    ∀ (n : Nat) (c : CMap V) (A B : List (Slot V)), Inv c → c.items = A ++ B → B.length = n →
      RefinesRes (rangeReplaceLoop f n A.length c) (aRangeReplace f (pairsOf A) (pairsOf B)) := by
  intro n
  induction n with
  | zero =>
    intro c A B h hi hn
    have : B = [] := by simpa using hn
    subst this
    simp only [rangeReplaceLoop, RefinesRes, pairsOf_nil, aRangeReplace_nil]
    refine ⟨h, ?_⟩
    simp [abs, hi]
  | succ n ih =>
    intro c A B h hi hn
    cases B with
    | nil => simp at hn
    | cons s B =>
      have hn' : B.length = n := by simpa using hn
      have hget : c.items[A.length]? = some s := by simp [hi]
      simp only [rangeReplaceLoop, hget]
      by_cases hd : s.deleted = true
      · simp only [hd, ↓reduceIte]
        have := ih c (A ++ [s]) B h (by simp [hi]) hn'
        simpa [pairsOf_append, pairsOf_cons, hd] using this
      · have hd' : s.deleted = false := by simpa using hd
        simp only [hd', Bool.false_eq_true, ↓reduceIte, pairsOf_cons]
        have hnd : (keysOf A ++ s.key :: keysOf B).Nodup := by
          have := h.keys; rw [hi] at this
          simpa [keysOf_append, keysOf_cons, hd'] using this
        have hndA : (keysOf A).Nodup := (List.nodup_append.1 hnd).1
        have hndB : (keysOf B).Nodup := ((List.nodup_append.1 hnd).2.1).of_cons
        cases hf : f s.key s.val with
        | error e =>
          simp only [RefinesRes]
          exact aRangeReplace_cons_error hf _ _
        | ok kv =>
          obtain ⟨k', v'⟩ := kv
          simp only
          have hc2 := inv_replace h s.key k' v'
          by_cases hk : k' = s.key
          · subst hk
            rw [aRangeReplace_cons_same hf]
            have hi2 := replace_items_same h hi hd' v'
            have := ih _ (A ++ [{ key := s.key, val := v' }]) B hc2 (by simp [hi2]) hn'
            simpa [pairsOf_append, pairsOf_cons] using this
          · rw [aRangeReplace_cons_ne hf hk]
            have hi2 := replace_items_ne h hi hd' hk v'
            have := ih _ (modFirstLive k' tomb A ++ [{ key := k', val := v' }])
              (modFirstLive k' tomb B) hc2 (by simp [hi2])
              (by rw [length_modFirstLive]; exact hn')
            simpa [pairsOf_append, pairsOf_cons, pairsOf_tomb hndA, pairsOf_tomb hndB,
              length_modFirstLive] using this

theorem rangeReplace_refines {c : CMap V} (h : Inv c) (f : String → V → Except E (String × V)) :
    (match rangeReplace f c with
     | .ok c' => Inv c' ∧ aRangeReplace f [] (abs c) = .ok (abs c')
     | .error e => aRangeReplace f [] (abs c) = .error e) := by
  change RefinesRes (rangeReplace f c) (aRangeReplace f [] (abs c))
  unfold rangeReplace
  by_cases hz : isZero c = true
  · simp only [hz, ↓reduceIte, RefinesRes]
    refine ⟨h, ?_⟩
    rw [isZero_eq h] at hz
    have : abs c = [] := by simpa using hz
    rw [this, aRangeReplace_nil]
  · simp only [hz, Bool.false_eq_true, ↓reduceIte]
    exact rangeReplaceLoop_refines f c.items.length c [] c.items h rfl rfl

end RangeReplace

end GoPipeline.OMap
