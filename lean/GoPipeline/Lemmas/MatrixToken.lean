/-
  C12 (string level) — helper lemmas: the deterministic matcher `matchToken` accepts exactly the
  well-formed tokens `{{ws matrix(.dim)? ws}}` (both directions), and the single left-to-right pass
  `transformAux` is characterised on the declarative segment view (`Seg`, `render`, `subst`,
  `unknowns`).

  Architecture: each scanner (`stripPrefix`, `skipWs`, `spanDim`, `matchDim`) gets a "forward" lemma
  (what it returns on a concatenation of the expected shape) and a "backward" lemma (how the input
  splits given what it returned).  `transformAux` (well-founded recursion) is only ever unfolded
  through the three equations `transformAux_nil` / `transformAux_of_none` / `transformAux_of_some`.
-/
import GoPipeline.Model.MatrixToken
namespace GoPipeline.MatrixTok

/-- Core has no `DecidableEq (Except ε α)`; the concrete examples in `Props/C12.lean`
    (`transform … = .ok …` / `.error …`) need one. -/
instance instDecidableEqExcept {ε α : Type} [DecidableEq ε] [DecidableEq α] :
    DecidableEq (Except ε α)
  | .ok a, .ok b => if h : a = b then isTrue (by rw [h]) else isFalse (fun e => h (by cases e; rfl))
  | .error a, .error b =>
    if h : a = b then isTrue (by rw [h]) else isFalse (fun e => h (by cases e; rfl))
  | .ok _, .error _ => isFalse (fun e => by cases e)
  | .error _, .ok _ => isFalse (fun e => by cases e)

/-! ## Character classes -/

theorem isWs_cases {c : Char} (h : isWs c = true) :
    c = ' ' ∨ c = '\t' ∨ c = '\n' ∨ c = '\x0c' ∨ c = '\r' := by
  simp only [isWs, Bool.or_eq_true, beq_iff_eq] at h
  rcases h with (((h | h) | h) | h) | h <;> simp [h]

theorem isWs_not_dim {c : Char} (h : isWs c = true) : isDimChar c = false := by
  rcases isWs_cases h with rfl | rfl | rfl | rfl | rfl <;> decide

theorem isWs_ne_dot {c : Char} (h : isWs c = true) : c ≠ '.' := by
  rcases isWs_cases h with rfl | rfl | rfl | rfl | rfl <;> decide

theorem matrix_toList : "matrix".toList = ['m', 'a', 't', 'r', 'i', 'x'] := by decide

/-! ## `stripPrefix` -/

theorem stripPrefix_append (p r : List Char) : stripPrefix p (p ++ r) = some r := by
  induction p with
  | nil => simp [stripPrefix]
  | cons a as ih => simp [stripPrefix, ih]

theorem stripPrefix_eq_some {p l r : List Char} (h : stripPrefix p l = some r) : l = p ++ r := by
  induction p generalizing l with
  | nil => simp [stripPrefix] at h; simp [h]
  | cons a as ih =>
    cases l with
    | nil => simp [stripPrefix] at h
    | cons b bs =>
      simp only [stripPrefix] at h
      split at h
      · rename_i hab
        have := ih h
        simp only [beq_iff_eq] at hab
        simp [hab, this]
      · simp at h

/-! ## `skipWs` -/

theorem skipWs_append_ws {w : List Char} (r : List Char) (h : ∀ c ∈ w, isWs c = true) :
    skipWs (w ++ r) = skipWs r := by
  induction w with
  | nil => rfl
  | cons c w ih =>
    have hc : isWs c = true := h c List.mem_cons_self
    simp only [List.cons_append, skipWs, hc, ↓reduceIte]
    exact ih fun x hx => h x (List.mem_cons_of_mem _ hx)

theorem skipWs_cons_of_not {c : Char} (r : List Char) (h : isWs c = false) :
    skipWs (c :: r) = c :: r := by
  simp [skipWs, h]

/-- Backward: the input is a run of whitespace followed by what `skipWs` returns. -/
theorem skipWs_split (l : List Char) :
    ∃ w, (∀ c ∈ w, isWs c = true) ∧ l = w ++ skipWs l := by
  induction l with
  | nil => exact ⟨[], by simp, by simp [skipWs]⟩
  | cons c r ih =>
    by_cases hc : isWs c = true
    · obtain ⟨w, hw, e⟩ := ih
      refine ⟨c :: w, ?_, ?_⟩
      · intro x hx
        rcases List.mem_cons.1 hx with rfl | hx
        · exact hc
        · exact hw x hx
      · simp only [skipWs, hc, ↓reduceIte, List.cons_append]
        rw [← e]
    · refine ⟨[], by simp, ?_⟩
      simp [skipWs, hc]

/-! ## `spanDim` -/

theorem spanDim_cons_of_not {c : Char} (r : List Char) (h : isDimChar c = false) :
    spanDim (c :: r) = ([], c :: r) := by
  simp [spanDim, h]

theorem spanDim_append {n r : List Char} (hn : ∀ c ∈ n, isDimChar c = true)
    (hr : spanDim r = ([], r)) : spanDim (n ++ r) = (n, r) := by
  induction n with
  | nil => simpa using hr
  | cons c n ih =>
    have hc : isDimChar c = true := hn c List.mem_cons_self
    have := ih fun x hx => hn x (List.mem_cons_of_mem _ hx)
    simp [spanDim, hc, this]

/-- Backward: the input is a run of class characters followed by the remainder. -/
theorem spanDim_split (l : List Char) :
    l = (spanDim l).1 ++ (spanDim l).2 ∧ ∀ c ∈ (spanDim l).1, isDimChar c = true := by
  induction l with
  | nil => simp [spanDim]
  | cons c r ih =>
    by_cases hc : isDimChar c = true
    · obtain ⟨e, hall⟩ := ih
      simp only [spanDim, hc, ↓reduceIte]
      refine ⟨?_, ?_⟩
      · simp only [List.cons_append]; rw [← e]
      · intro x hx
        rcases List.mem_cons.1 hx with rfl | hx
        · exact hc
        · exact hall x hx
    · simp [spanDim, hc]

/-! ## `matchDim` -/

theorem matchDim_cons_of_ne_dot {c : Char} (r : List Char) (h : c ≠ '.') :
    matchDim (c :: r) = ([], c :: r) := by
  unfold matchDim
  split
  · rename_i heq
    simp only [List.cons.injEq] at heq
    exact absurd heq.1 h
  · rfl

/-- What follows the submatch in a well-formed token: whitespace or the closing `}`. -/
def Closer (l : List Char) : Prop := ∃ c r, l = c :: r ∧ (isWs c = true ∨ c = '}')

theorem closer_tail (w2 rest : List Char) (hw : ∀ c ∈ w2, isWs c = true) :
    Closer (w2 ++ (['}', '}'] ++ rest)) := by
  cases w2 with
  | nil => exact ⟨'}', '}' :: rest, rfl, Or.inr rfl⟩
  | cons c w => exact ⟨c, w ++ (['}', '}'] ++ rest), rfl, Or.inl (hw c List.mem_cons_self)⟩

theorem Closer.spanDim {l : List Char} (h : Closer l) : spanDim l = ([], l) := by
  obtain ⟨c, r, rfl, hc⟩ := h
  apply spanDim_cons_of_not
  rcases hc with hc | rfl
  · exact isWs_not_dim hc
  · decide

theorem Closer.matchDim {l : List Char} (h : Closer l) : matchDim l = ([], l) := by
  obtain ⟨c, r, rfl, hc⟩ := h
  apply matchDim_cons_of_ne_dot
  rcases hc with hc | rfl
  · exact isWs_ne_dot hc
  · decide

/-- Forward: a well-formed submatch followed by a closer is returned whole. -/
theorem matchDim_append {d l : List Char} (hd : DimOK d) (hl : Closer l) :
    matchDim (d ++ l) = (d, l) := by
  rcases hd with rfl | ⟨n, rfl, hne, hall⟩
  · simpa using hl.matchDim
  · have hs := spanDim_append hall hl.spanDim
    cases n with
    | nil => exact absurd rfl hne
    | cons x xs =>
      rw [List.cons_append, matchDim]
      simp only [hs]

/-- Backward: the submatch is well-formed and the input is the submatch followed by the rest. -/
theorem matchDim_split (l : List Char) :
    l = (matchDim l).1 ++ (matchDim l).2 ∧ DimOK (matchDim l).1 := by
  unfold matchDim
  split
  · rename_i r
    obtain ⟨e, hall⟩ := spanDim_split r
    cases hsd : spanDim r with
    | mk d rest =>
      rw [hsd] at e hall
      cases d with
      | nil => exact ⟨by simp, Or.inl rfl⟩
      | cons x xs =>
        refine ⟨?_, Or.inr ⟨x :: xs, rfl, by simp, hall⟩⟩
        simp only [List.cons_append]
        rw [e]; rfl
  · exact ⟨by simp, Or.inl rfl⟩

/-! ## `matchToken` -/

/-- Forward (C12_token_grammar). -/
theorem token_grammar (w1 d w2 rest : List Char) (ok : Seg.OK (.tok w1 d w2)) :
    matchToken (Seg.render (.tok w1 d w2) ++ rest) = some (d, rest) := by
  obtain ⟨h1, hd, h2⟩ := ok
  have hcl := closer_tail w2 rest h2
  have e : Seg.render (.tok w1 d w2) ++ rest =
      ['{', '{'] ++ (w1 ++ ("matrix".toList ++ (d ++ (w2 ++ (['}', '}'] ++ rest))))) := by
    simp only [Seg.render, List.append_assoc]
  have hm : skipWs ("matrix".toList ++ (d ++ (w2 ++ (['}', '}'] ++ rest)))) =
      "matrix".toList ++ (d ++ (w2 ++ (['}', '}'] ++ rest))) := by
    rw [matrix_toList]; exact skipWs_cons_of_not _ (by decide)
  have hc : skipWs (w2 ++ (['}', '}'] ++ rest)) = ['}', '}'] ++ rest := by
    rw [skipWs_append_ws _ h2]; exact skipWs_cons_of_not _ (by decide)
  rw [e]
  unfold matchToken
  simp only [stripPrefix_append, skipWs_append_ws _ h1, hm, matchDim_append hd hcl, hc]

/-- Backward: whatever `matchToken` accepts is a well-formed token followed by the returned rest. -/
theorem matchToken_split {l d rest : List Char} (h : matchToken l = some (d, rest)) :
    ∃ w1 w2, l = Seg.render (.tok w1 d w2) ++ rest ∧ Seg.OK (.tok w1 d w2) := by
  unfold matchToken at h
  split at h; · simp at h
  rename_i r1 h1
  split at h; · simp at h
  rename_i r2 h2
  simp only at h
  split at h; · simp at h
  rename_i r3 h3
  simp only [Option.some.injEq, Prod.mk.injEq] at h
  obtain ⟨hd, rfl⟩ := h
  have e1 := stripPrefix_eq_some h1
  have e2 := stripPrefix_eq_some h2
  have e3 := stripPrefix_eq_some h3
  obtain ⟨w1, hw1, s1⟩ := skipWs_split r1
  obtain ⟨w2, hw2, s2⟩ := skipWs_split (matchDim r2).2
  obtain ⟨m1, m2⟩ := matchDim_split r2
  rw [hd] at m1 m2
  refine ⟨w1, w2, ?_, hw1, m2, hw2⟩
  rw [e1, s1, e2, m1, s2, e3]
  simp only [Seg.render, List.append_assoc]

theorem matchToken_prefix {l d rest : List Char} (h : matchToken l = some (d, rest)) :
    ['{', '{'] <+: l := by
  unfold matchToken at h
  split at h; · simp at h
  rename_i r1 h1
  exact ⟨r1, (stripPrefix_eq_some h1).symm⟩

theorem matchToken_cons_of_ne {c : Char} (cs : List Char) (h : c ≠ '{') :
    matchToken (c :: cs) = none := by
  cases hm : matchToken (c :: cs) with
  | none => rfl
  | some p =>
    obtain ⟨d, rest⟩ := p
    obtain ⟨t, ht⟩ := matchToken_prefix hm
    simp only [List.cons_append, List.cons.injEq] at ht
    exact absurd ht.1.symm h

/-! ## The three equations of `transformAux` -/

theorem transformAux_nil (repl : List Char → Option (List Char)) :
    transformAux repl [] = ([], []) := by
  rw [transformAux]

theorem transformAux_of_none (repl : List Char → Option (List Char)) {c : Char} {cs : List Char}
    (h : matchToken (c :: cs) = none) :
    transformAux repl (c :: cs) = (c :: (transformAux repl cs).1, (transformAux repl cs).2) := by
  rw [transformAux]
  split
  · rename_i heq; rw [h] at heq; cases heq
  · rfl

theorem transformAux_of_some (repl : List Char → Option (List Char)) {l d rest : List Char}
    (h : matchToken l = some (d, rest)) :
    transformAux repl l =
      ((repl d).getD [] ++ (transformAux repl rest).1,
       (if (repl d).isSome then [] else [d]) ++ (transformAux repl rest).2) := by
  cases l with
  | nil => simp [matchToken, stripPrefix] at h
  | cons c cs =>
    rw [transformAux]
    split
    · rename_i dim rest' heq
      rw [h] at heq
      simp only [Option.some.injEq, Prod.mk.injEq] at heq
      obtain ⟨rfl, rfl⟩ := heq
      cases repl d <;> simp
    · rename_i heq; rw [h] at heq; cases heq

/-- Brace-free text is copied. -/
theorem transformAux_text (repl : List Char → Option (List Char)) {t : List Char} (r : List Char)
    (ht : '{' ∉ t) :
    transformAux repl (t ++ r) = (t ++ (transformAux repl r).1, (transformAux repl r).2) := by
  induction t with
  | nil => simp
  | cons c t ih =>
    have hc : c ≠ '{' := fun e => ht (e ▸ List.mem_cons_self)
    have ht' : '{' ∉ t := fun hm => ht (List.mem_cons_of_mem _ hm)
    rw [List.cons_append, transformAux_of_none repl (matchToken_cons_of_ne _ hc), ih ht']
    rfl

/-! ## The segment view -/

theorem render_cons (s : Seg) (segs : List Seg) : render (s :: segs) = s.render ++ render segs := by
  simp [render]

theorem subst_cons (repl : List Char → Option (List Char)) (s : Seg) (segs : List Seg) :
    subst repl (s :: segs) = s.subst repl ++ subst repl segs := by
  simp [subst]

theorem unknowns_text (repl : List Char → Option (List Char)) (t : List Char) (segs : List Seg) :
    unknowns repl (.text t :: segs) = unknowns repl segs := by
  simp [unknowns]

theorem unknowns_tok (repl : List Char → Option (List Char)) (w1 d w2 : List Char)
    (segs : List Seg) :
    unknowns repl (.tok w1 d w2 :: segs) =
      (if (repl d).isSome then [] else [d]) ++ unknowns repl segs := by
  cases h : repl d <;> simp [unknowns, h]

/-- C12_segments. -/
theorem segments (repl : List Char → Option (List Char)) (segs : List Seg)
    (ok : ∀ s ∈ segs, s.OK) :
    transformAux repl (render segs) = (subst repl segs, unknowns repl segs) := by
  induction segs with
  | nil => simp [render, subst, unknowns, transformAux_nil]
  | cons s segs ih =>
    have ih := ih fun x hx => ok x (List.mem_cons_of_mem _ hx)
    have hs : s.OK := ok s List.mem_cons_self
    cases s with
    | text t =>
      rw [render_cons, subst_cons, unknowns_text]
      show transformAux repl (t ++ render segs) = (t ++ subst repl segs, unknowns repl segs)
      rw [transformAux_text repl _ hs, ih]
    | tok w1 d w2 =>
      rw [render_cons, subst_cons, unknowns_tok,
        transformAux_of_some repl (token_grammar w1 d w2 (render segs) hs), ih]
      rfl

/-- C12_single_pass. -/
theorem single_pass (repl : List Char → Option (List Char)) (s : List Char) :
    ∃ segs : List Seg, render segs = s ∧
      (∀ w1 d w2, Seg.tok w1 d w2 ∈ segs → Seg.OK (.tok w1 d w2)) ∧
      transformAux repl s = (subst repl segs, unknowns repl segs) := by
  suffices H : ∀ n (s : List Char), s.length < n →
      ∃ segs : List Seg, render segs = s ∧
        (∀ w1 d w2, Seg.tok w1 d w2 ∈ segs → Seg.OK (.tok w1 d w2)) ∧
        transformAux repl s = (subst repl segs, unknowns repl segs) from
    H (s.length + 1) s (Nat.lt_succ_self _)
  intro n
  induction n with
  | zero => intro s h; exact absurd h (Nat.not_lt_zero _)
  | succ n ih =>
    intro s hlen
    cases s with
    | nil => exact ⟨[], rfl, by simp, by simp [subst, unknowns, transformAux_nil]⟩
    | cons c cs =>
      cases hm : matchToken (c :: cs) with
      | none =>
        obtain ⟨segs, hr, hok, ht⟩ := ih cs (by simpa using hlen)
        refine ⟨.text [c] :: segs, ?_, ?_, ?_⟩
        · rw [render_cons, hr]; rfl
        · intro w1 d w2 hmem
          rcases List.mem_cons.1 hmem with e | hmem
          · cases e
          · exact hok w1 d w2 hmem
        · rw [transformAux_of_none repl hm, ht, subst_cons, unknowns_text]; rfl
      | some p =>
        obtain ⟨d, rest⟩ := p
        have hl := matchToken_length hm
        obtain ⟨w1, w2, e, hOK⟩ := matchToken_split hm
        obtain ⟨segs, hr, hok, ht⟩ := ih rest (by simp only [List.length_cons] at hlen hl; omega)
        refine ⟨.tok w1 d w2 :: segs, ?_, ?_, ?_⟩
        · rw [render_cons, hr, e]
        · intro a b c' hmem
          rcases List.mem_cons.1 hmem with e' | hmem
          · cases e'; exact hOK
          · exact hok a b c' hmem
        · rw [transformAux_of_some repl hm, ht, subst_cons, unknowns_tok]; rfl

/-! ## `transform` -/

theorem transform_of_nil {repl : List Char → Option (List Char)} {s out : List Char}
    (h : transformAux repl s = (out, [])) : transform repl s = .ok out := by
  simp [transform, h]

theorem transform_of_ne_nil {repl : List Char → Option (List Char)} {s out : List Char}
    {unk : List (List Char)} (h : transformAux repl s = (out, unk)) (hne : unk ≠ []) :
    transform repl s = .error unk := by
  cases unk with
  | nil => exact absurd rfl hne
  | cons u us => simp [transform, h]

/-- C12_no_double_brace_unchanged, on `transformAux`. -/
theorem transformAux_no_double_brace (repl : List Char → Option (List Char)) (s : List Char)
    (h : ¬ ['{', '{'] <:+: s) : transformAux repl s = (s, []) := by
  induction s with
  | nil => exact transformAux_nil repl
  | cons c cs ih =>
    have hm : matchToken (c :: cs) = none := by
      cases hm : matchToken (c :: cs) with
      | none => rfl
      | some p => exact absurd (matchToken_prefix (d := p.1) (rest := p.2) hm).isInfix h
    rw [transformAux_of_none repl hm, ih fun hi => h (List.infix_cons hi)]

theorem no_double_brace_unchanged (repl : List Char → Option (List Char)) (s : List Char)
    (h : ¬ ['{', '{'] <:+: s) : transform repl s = .ok s :=
  transform_of_nil (transformAux_no_double_brace repl s h)

theorem mem_unknowns {repl : List Char → Option (List Char)} {segs : List Seg}
    {w1 d w2 : List Char} (hm : Seg.tok w1 d w2 ∈ segs) (hd : repl d = none) :
    d ∈ unknowns repl segs := by
  unfold unknowns
  rw [List.mem_filterMap]
  exact ⟨_, hm, by simp [hd]⟩

theorem unknowns_eq_nil {repl : List Char → Option (List Char)} {segs : List Seg}
    (hk : ∀ w1 d w2, Seg.tok w1 d w2 ∈ segs → repl d ≠ none) : unknowns repl segs = [] := by
  unfold unknowns
  rw [List.filterMap_eq_nil_iff]
  intro s hs
  cases s with
  | text t => rfl
  | tok w1 d w2 =>
    have := hk w1 d w2 hs
    cases h : repl d with
    | none => exact absurd h this
    | some v => simp [h]

/-- C12_unknown_dimension_fails. -/
theorem unknown_dimension_fails (repl : List Char → Option (List Char)) (segs : List Seg)
    (ok : ∀ s ∈ segs, s.OK) (w1 d w2 : List Char) (hm : Seg.tok w1 d w2 ∈ segs)
    (hd : repl d = none) : ∃ u, transform repl (render segs) = .error u ∧ d ∈ u := by
  have hmem := mem_unknowns hm hd
  exact ⟨unknowns repl segs,
    transform_of_ne_nil (segments repl segs ok) (List.ne_nil_of_mem hmem), hmem⟩

/-- C12_all_known_ok. -/
theorem all_known_ok (repl : List Char → Option (List Char)) (segs : List Seg)
    (ok : ∀ s ∈ segs, s.OK) (hk : ∀ w1 d w2, Seg.tok w1 d w2 ∈ segs → repl d ≠ none) :
    transform repl (render segs) = .ok (subst repl segs) := by
  apply transform_of_nil
  rw [segments repl segs ok, unknowns_eq_nil hk]

/-- C12_ok_iff_no_unknown. -/
theorem ok_iff_no_unknown (repl : List Char → Option (List Char)) (s : List Char) :
    (∃ out, transform repl s = .ok out) ↔ (transformAux repl s).2 = [] := by
  cases h : transformAux repl s with
  | mk out unk =>
    cases unk with
    | nil => simp [transform, h]
    | cons u us => simp [transform, h]

/-! ## A structurally recursive evaluator

`transformAux` is defined by well-founded recursion, which `decide` cannot unfold.  The concrete
checks in `Props/C12.lean` go through `transformFuel` (same equations, recursion on a fuel argument
that the input length always suffices for) and `transform_eq_fuel`. -/

def transformFuel (repl : List Char → Option (List Char)) :
    Nat → List Char → List Char × List (List Char)
  | 0, _ => ([], [])
  | _ + 1, [] => ([], [])
  | n + 1, c :: cs =>
    match matchToken (c :: cs) with
    | some (dim, rest) =>
      ((repl dim).getD [] ++ (transformFuel repl n rest).1,
       (if (repl dim).isSome then [] else [dim]) ++ (transformFuel repl n rest).2)
    | none => (c :: (transformFuel repl n cs).1, (transformFuel repl n cs).2)

theorem transformAux_eq_fuel (repl : List Char → Option (List Char)) (n : Nat) (s : List Char)
    (h : s.length ≤ n) : transformAux repl s = transformFuel repl n s := by
  induction n generalizing s with
  | zero =>
    cases s with
    | nil => simp [transformFuel, transformAux_nil]
    | cons c cs => simp at h
  | succ n ih =>
    cases s with
    | nil => simp [transformFuel, transformAux_nil]
    | cons c cs =>
      simp only [List.length_cons] at h
      cases hm : matchToken (c :: cs) with
      | none =>
        rw [transformAux_of_none repl hm, ih cs (by omega)]
        simp only [transformFuel, hm]
      | some p =>
        obtain ⟨d, rest⟩ := p
        have hl := matchToken_length hm
        simp only [List.length_cons] at hl
        rw [transformAux_of_some repl hm, ih rest (by omega)]
        simp only [transformFuel, hm]

/-- `transform`, computed by structural recursion (for `decide`). -/
def transformD (repl : List Char → Option (List Char)) (s : List Char) :
    Except (List (List Char)) (List Char) :=
  match transformFuel repl s.length s with
  | (out, []) => .ok out
  | (_, unk) => .error unk

theorem transform_eq_fuel (repl : List Char → Option (List Char)) (s : List Char) :
    transform repl s = transformD repl s := by
  unfold transform transformD
  rw [transformAux_eq_fuel repl s.length s (Nat.le_refl _)]
  rcases transformFuel repl s.length s with ⟨out, _ | ⟨u, us⟩⟩ <;> rfl

end GoPipeline.MatrixTok
