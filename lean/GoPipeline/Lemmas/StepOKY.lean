/-
  C02 on structurally well-formed steps, YAML leg: the signed round trip through `yaml.Marshal` does not need the
  step to be in the image of the parser.

  The fourth corner of the square

                         parser image                      every `StepOK` tree
      JSON leg   `Lemmas/SignedRoundtrip.lean`          `Lemmas/StepOK.lean`
      YAML leg   `Lemmas/SignedRoundtripY.lean`         this file

  * Part A: the signed round trip for every `StepOK` tree on the YAML leg (`signed_steps_roundtripY_ok`,
    `signed_list_roundtripY_ok`), by induction on the fuel.  The command level is `signed_command_coreY`
    (already stated on `CommandOK`), the group level `yStep_group_eq` (the struct encoding succeeds because the
    group's unknown fields are `RemOK`, hence no `inlineConflict`) followed by `group_reparse`, which is stated on
    the marshalled value `inlineFriendly (grpOutline …) rem` both legs produce.
  * Part B: parse, interpolate, `SignSteps`, `yaml.Marshal`, re-read, re-parse, verify (`interp_then_sign_listY`).

  Where the legs differ (header of `Model/MarshalY.lean`) and why no extra hypothesis is needed:
    * `inlineConflict`: excluded by `RemOK.prim` at every struct level (`CommandOK`, `StepOK` of a group);
    * a trigger step without contents (`{}` instead of `null`): `StepOK (.trigger c)` asks the contents to SELECT
      the trigger kind, so they are not empty; non-empty contents are written as the same Go map on both legs;
    * an empty input step is an encoding error on both legs, and excluded by `StepOK` the same way;
    * nil step lists (`[]` instead of `null`): a group with `steps := none` is excluded by `StepOK`, and
      `signStep` always returns `some _` for a `some _`;
    * wait / input scalars: the same string on both legs.
  So the YAML-leg statements carry exactly the hypotheses of the JSON-leg ones, with `StableStepY` (weaker than
  `StableStep`: no `emptyishSkip` condition, finding F11) in place of `StableStep`.
-/
import GoPipeline.Lemmas.StepOK
import GoPipeline.Lemmas.SignedRoundtripY
import GoPipeline.Lemmas.StepOKInterp
set_option linter.unusedSimpArgs false
set_option linter.unusedVariables false
namespace GoPipeline.SignedRT
open GoPipeline GoPipeline.Pipe GoPipeline.Parse GoPipeline.Marshal GoPipeline.Signing GoPipeline.Roundtrip
  GoPipeline.Unm GoPipeline.MarshalY

/-! ## Part A: the signed round trip for well-formed steps, YAML leg -/

section TreesOKY
variable (S : SigScheme) (render : S.Sig → String) (parseSig : String → Option S.Sig)
variable (k : S.Key) (alg repo : String) (penv env₁ : List (String × String))

/-- The statement of `signed_steps_roundtripY_ok` at one fuel level; the re-parse raises no warning (needed
    one level up: a group step refuses nested warnings). -/
def SignedOKY (f : Nat) : Prop :=
  ∀ (s : Step), StepOK s → StableStepY s → stepDepth s ≤ f →
    ∀ signed, signStep S render k alg repo penv s = .ok signed →
    ∃ j s', yStep signed = .ok j ∧ parseStep f (rereadJ j) = .ok (s', []) ∧
      VerifiesAll S parseSig (S.pubOf k) repo env₁ s'

theorem signed_list_okY_of (f : Nat) (ih : SignedOKY S render parseSig k alg repo penv env₁ f) :
    (l : List Step) → StepsOK l → StableStepsY l → stepsDepth l ≤ f →
    (l' : List Step) → signSteps S render k alg repo penv l = .ok l' →
    ∃ js ss', ySteps l' = .ok js ∧ parseSteps f (rereadJList js) = .ok (ss', []) ∧
      VerifiesAllList S parseSig (S.pubOf k) repo env₁ ss'
  | [], _, _, _, l', hl' => by
    rw [Signing.signSteps_nil] at hl'
    injection hl' with hl'
    subst hl'
    exact ⟨[], [], rfl, by rw [rereadJList, parseSteps.eq_1], by rw [verifiesAllList_nil]; trivial⟩
  | s :: r, hok, hs, hdep, l', hl' => by
    rw [StepsOK] at hok
    rw [StableStepsY] at hs
    rw [stepsDepth] at hdep
    obtain ⟨hd1, hd2⟩ := Nat.max_le.1 hdep
    obtain ⟨s₁, r₁, hs₁, hr₁, rfl⟩ := (Signing.signSteps_cons_ok S render).1 hl'
    obtain ⟨j, s1, hj, hp, hv⟩ := ih s hok.1 hs.1 hd1 s₁ hs₁
    obtain ⟨js, ss1, hjs, hps, hvs⟩ := signed_list_okY_of f ih r hok.2 hs.2 hd2 r₁ hr₁
    refine ⟨j :: js, s1 :: ss1, ?_, ?_, ?_⟩
    · rw [ySteps_cons, hj, hjs]
    · rw [rereadJList, parseSteps.eq_2, hp, hps]
      rfl
    · rw [verifiesAllList_cons]; exact ⟨hv, hvs⟩

theorem signed_all_okY (hrender : ∀ s, parseSig (render s) = some s) (henv : EnvExtends penv env₁) :
    ∀ f, SignedOKY S render parseSig k alg repo penv env₁ f
  | 0 => by
    intro s _ _ hd
    exact absurd (stepDepth_pos s) (by omega)
  | f + 1 => by
    have ih := signed_all_okY hrender henv f
    intro s hok hs hdep signed hsign
    cases s with
    | command c =>
      rw [StepOK] at hok
      obtain ⟨hcok, hselc⟩ := hok
      rw [StableStepY] at hs
      rw [Signing.signStep_command] at hsign
      injection hsign with hsign
      subst hsign
      obtain ⟨j, U, c', hj, hU, hp, _, hv, hUc, hUo⟩ :=
        signed_command_coreY S render parseSig hrender c hcok hs k alg repo penv env₁ henv
      have hselU : selOf U = .ok (.known .command) := by
        apply selOf_command_of _ (by rw [hUc]; rfl) hselc
        rw [hUo "type" (by decide), lookup_cons_ne _ _ (by decide)]
      refine ⟨j, .command c', by rw [yStep_command]; exact hj, ?_, ?_⟩
      · rw [hU, parseStep.eq_3, hselU]
        simp only [hp]
      · rw [verifiesAll_command]; exact hv
    | group key grp ss r =>
      cases ss with
      | none => exact absurd hok (stepOK_group_none key grp r)
      | some l =>
        rw [stepOK_group_some] at hok
        obtain ⟨hR, hselg, hl⟩ := hok
        rw [stepDepth_group_some] at hdep
        rw [Signing.signStep_group_some, Roundtrip.map_ok_iff] at hsign
        obtain ⟨l', hl', rfl⟩ := hsign
        simp only [StableStepY] at hs
        obtain ⟨hss, _, _, hkey⟩ := hs
        obtain ⟨js, ss', hjs, hps, hv⟩ := signed_list_okY_of S render parseSig k alg repo penv env₁ f ih l hl hss
          (by omega) l' hl'
        obtain ⟨U, hU, hpg, hUg, hUo⟩ := group_reparse f key grp r hR hkey js ss' hps
        have hselU : selOf U = .ok (.known .group) := by
          rw [← hselg]
          apply selOf_eq_of
          · rw [hUo "type" (by decide), lookup_cons_ne _ _ (by decide)]
          · intro _ k' hk'
            by_cases hg : k' = "group"
            · subst hg
              rw [hUg]; rfl
            · rw [hUo k' (by
                simp only [StepKind.kindKeys, List.mem_cons, List.not_mem_nil, or_false] at hk'
                rcases hk' with rfl | rfl | rfl | rfl | rfl | rfl | rfl | rfl | rfl | rfl <;> first | decide | exact absurd rfl hg),
                lookup_cons_ne _ _ hg]
        refine ⟨_, .group key grp (some ss') (remMap (remainder U Gen.struct_GroupStep)),
          yStep_group_eq key grp l' _ js hR hjs, ?_, ?_⟩
        · rw [hU, parseStep.eq_3, hselU]
          simp only [hpg]
        · rw [verifiesAll_group_some]; exact hv
    | wait sc c =>
      rw [Signing.signStep_wait] at hsign
      injection hsign with hsign
      subst hsign
      rw [StepOK] at hok
      by_cases hsc : sc = ""
      · subst hsc
        rw [if_pos rfl] at hok
        rcases hok with hnil | hsel
        · have hlen : (lenUMap c == 0) = true := by
            cases c with
            | none => rfl
            | some l => simp only [Option.getD_some] at hnil; subst hnil; rfl
          refine ⟨.str "wait", .wait "wait" none, by rw [yStep_wait]; simp [hlen], ?_, by simp [VerifiesAll]⟩
          rw [rereadJ_str, parseStep.eq_2]
          have : StepKind.selectScalar Gen.scalarTable "wait" = .known .wait := by decide
          rw [this]
        · obtain ⟨kvs, rfl, hlen⟩ := lenUMap_ne_of_selOf hsel
          simp only [Option.getD_some] at hsel
          refine ⟨.umap kvs, .wait "" (some (Parse.umapOf (rereadJKVs kvs))),
            by rw [yStep_wait]; simp [hlen, umapV], ?_, by simp [VerifiesAll]⟩
          rw [rereadJ, parseStep.eq_3, selOf_rereadJKVs, hsel]
      · rw [if_neg hsc] at hok
        have hne : (sc != "") = true := by simpa using hsc
        refine ⟨.str sc, .wait sc none, by rw [yStep_wait, if_pos hne], ?_, by simp [VerifiesAll]⟩
        rw [rereadJ_str, parseStep.eq_2, hok]
    | input sc c =>
      rw [Signing.signStep_input] at hsign
      injection hsign with hsign
      subst hsign
      rw [StepOK] at hok
      by_cases hsc : sc = ""
      · subst hsc
        rw [if_pos rfl] at hok
        obtain ⟨kvs, rfl, hlen⟩ := lenUMap_ne_of_selOf hok
        simp only [Option.getD_some] at hok
        refine ⟨.umap kvs, .input "" (some (Parse.umapOf (rereadJKVs kvs))),
          by rw [yStep_input]; simp [hlen, umapV], ?_, by simp [VerifiesAll]⟩
        rw [rereadJ, parseStep.eq_3, selOf_rereadJKVs, hok]
      · rw [if_neg hsc] at hok
        have hne : (sc != "") = true := by simpa using hsc
        refine ⟨.str sc, .input sc none, by rw [yStep_input, if_pos hne], ?_, by simp [VerifiesAll]⟩
        rw [rereadJ_str, parseStep.eq_2, hok]
    | trigger c =>
      rw [Signing.signStep_trigger] at hsign
      injection hsign with hsign
      subst hsign
      rw [StepOK] at hok
      -- contents that select the trigger kind are not empty: the `{}` / `null` difference of the legs is not reached
      obtain ⟨kvs, rfl, hlen⟩ := lenUMap_ne_of_selOf hok
      simp only [Option.getD_some] at hok
      refine ⟨.umap kvs, .trigger (some (Parse.umapOf (rereadJKVs kvs))),
        by rw [yStep_trigger]; rfl, ?_, by simp [VerifiesAll]⟩
      rw [rereadJ, parseStep.eq_3, selOf_rereadJKVs, hok]
    | unknown v =>
      rw [Signing.signStep_unknown] at hsign
      cases hsign

/-- (a) The signed round trip through `yaml.Marshal` for every well-formed step tree: no parser hypothesis. The
    fuel of the re-parse must cover the nesting depth of the tree. -/
theorem signed_steps_roundtripY_ok (hrender : ∀ s, parseSig (render s) = some s)
    (s : Step) (hok : StepOK s) (hs : StableStepY s) (f : Nat) (hf : stepDepth s ≤ f)
    (henv : EnvExtends penv env₁)
    (signed : Step) (hsign : signStep S render k alg repo penv s = .ok signed) :
    ∃ j s' w', yStep signed = .ok j ∧ parseStep f (rereadJ j) = .ok (s', w') ∧
      VerifiesAll S parseSig (S.pubOf k) repo env₁ s' :=
  let ⟨j, s', h1, h2, h3⟩ :=
    signed_all_okY S render parseSig k alg repo penv env₁ hrender henv f s hok hs hf signed hsign
  ⟨j, s', [], h1, h2, h3⟩

/-- (b) The list version (the pipeline's steps). -/
theorem signed_list_roundtripY_ok (hrender : ∀ s, parseSig (render s) = some s)
    (l : List Step) (hok : StepsOK l) (hs : StableStepsY l) (f : Nat) (hf : stepsDepth l ≤ f)
    (henv : EnvExtends penv env₁)
    (l' : List Step) (hsign : signSteps S render k alg repo penv l = .ok l') :
    ∃ js ss' ws', ySteps l' = .ok js ∧ parseSteps f (rereadJList js) = .ok (ss', ws') ∧
      VerifiesAllList S parseSig (S.pubOf k) repo env₁ ss' :=
  let ⟨js, ss', h1, h2, h3⟩ :=
    signed_list_okY_of S render parseSig k alg repo penv env₁ f
      (signed_all_okY S render parseSig k alg repo penv env₁ hrender henv f) l hok hs hf l' hsign
  ⟨js, ss', [], h1, h2, h3⟩

/-- The same with the JSON-leg stability hypothesis (`StableSteps` implies `StableStepsY`). -/
theorem signed_list_roundtripY_ok' (hrender : ∀ s, parseSig (render s) = some s)
    (l : List Step) (hok : StepsOK l) (hs : StableSteps l) (f : Nat) (hf : stepsDepth l ≤ f)
    (henv : EnvExtends penv env₁)
    (l' : List Step) (hsign : signSteps S render k alg repo penv l = .ok l') :
    ∃ js ss' ws', ySteps l' = .ok js ∧ parseSteps f (rereadJList js) = .ok (ss', ws') ∧
      VerifiesAllList S parseSig (S.pubOf k) repo env₁ ss' :=
  signed_list_roundtripY_ok S render parseSig k alg repo penv env₁ hrender l hok (stableStepsY_of l hs) f hf henv
    l' hsign

end TreesOKY

/-! ## Part B: parse, interpolate, sign, `yaml.Marshal`, re-read, re-parse, verify (a step list) -/

/-- (c) The pipeline's steps: parsed, interpolated with a `TreesFixed` transformer, signed by `SignSteps`,
    marshalled by `yaml.Marshal`, re-read and re-parsed with the same fuel: every command step of the result
    carries a verifying signature. -/
theorem interp_then_sign_listY {E : Type} (S : SigScheme) (render : S.Sig → String)
    (parseSig : String → Option S.Sig) (hrender : ∀ s, parseSig (render s) = some s)
    (f : Nat) (xs : List Val) (l l₁ : List Step) (ws : List Warn) (hx : NoUMapList xs) (hd : KeysNodupList xs)
    (h : parseSteps f xs = .ok (l, ws))
    (tf : String → Except E String) (hi : Interp.interpSteps .env tf l = .ok l₁) (hfix : TreesFixed tf l)
    (hs : StableStepsY l₁)
    (k : S.Key) (alg repo : String) (penv env₁ : List (String × String)) (henv : EnvExtends penv env₁)
    (signed : List Step) (hsign : signSteps S render k alg repo penv l₁ = .ok signed) :
    ∃ js ss' ws', ySteps signed = .ok js ∧ parseSteps f (rereadJList js) = .ok (ss', ws') ∧
      VerifiesAllList S parseSig (S.pubOf k) repo env₁ ss' := by
  obtain ⟨hok₁, hdep₁⟩ := parse_then_interp_list f xs l l₁ ws hx hd h tf hi hfix
  exact signed_list_roundtripY_ok S render parseSig k alg repo penv env₁ hrender l₁ hok₁ hs f hdep₁ henv signed hsign

/-- The same for the typed pipeline: `(*Pipeline).Interpolate` (the part after the env block) on a pipeline
    whose steps were parsed from `xs`. -/
theorem interp_then_sign_pipelineY {E : Type} (S : SigScheme) (render : S.Sig → String)
    (parseSig : String → Option S.Sig) (hrender : ∀ s, parseSig (render s) = some s)
    (f : Nat) (xs : List Val) (l : List Step) (ws : List Warn) (hx : NoUMapList xs) (hd : KeysNodupList xs)
    (h : parseSteps f xs = .ok (l, ws))
    (tf : String → Except E String) (p p₁ : Pipeline) (hp : p.steps = some l)
    (hi : Interp.interpPipelineRest tf p = .ok p₁) (hfix : TreesFixed tf l) :
    ∃ l₁, p₁.steps = some l₁ ∧ StepsOK l₁ ∧ stepsDepth l₁ ≤ f ∧
      (StableStepsY l₁ → ∀ (k : S.Key) (alg repo : String) (penv env₁ : List (String × String)),
        EnvExtends penv env₁ → ∀ signed, signSteps S render k alg repo penv l₁ = .ok signed →
        ∃ js ss' ws', ySteps signed = .ok js ∧ parseSteps f (rereadJList js) = .ok (ss', ws') ∧
          VerifiesAllList S parseSig (S.pubOf k) repo env₁ ss') := by
  unfold Interp.interpPipelineRest at hi
  rw [hp] at hi
  cases hl : Interp.interpSteps .env tf l with
  | error e => simp [Interp.optM, hl, Except.map] at hi
  | ok l₁ =>
    simp only [Interp.optM, hl, Except.map] at hi
    cases hr : Interp.interpUMapV tf p.rem with
    | error e => simp [hr] at hi
    | ok rem =>
      simp only [hr, Except.ok.injEq] at hi
      subst hi
      obtain ⟨hok₁, hdep₁⟩ := parse_then_interp_list f xs l l₁ ws hx hd h tf hl hfix
      refine ⟨l₁, rfl, hok₁, hdep₁, fun hs k alg repo penv env₁ henv signed hsign => ?_⟩
      exact signed_list_roundtripY_ok S render parseSig k alg repo penv env₁ hrender l₁ hok₁ hs f hdep₁ henv
        signed hsign

end GoPipeline.SignedRT
