/-
  C02 on structurally well-formed steps: the signed round trip does not need the step to be in the image
  of the parser.

  `Lemmas/SignedRoundtrip.lean` proves the signed round trip (sign, marshal, re-read, re-parse, verify) for
  steps that `parseStep` produced.  The library also signs pipelines that were interpolated after parsing
  or built through the Go API; such steps are not syntactically parser output (finding F21: interpolation can
  turn the unknown key `"${P}"` into the declared key `plugins`, and then the round trip really fails).

  * Part A: `StepOK` / `StepsOK`, a structural predicate on the typed step tree (no parser input mentioned),
    and `stepDepth` / `stepsDepth`, the parser fuel a tree needs.
  * Part B: the parser's image satisfies it (`parseStep_stepOK`, `parseSteps_stepsOK`).
  * Part C: the signed round trip for every `StepOK` tree (`signed_steps_roundtrip_ok`,
    `signed_list_roundtrip_ok`), by induction on the fuel; the command level is `signed_command_core`, the group
    level `group_reparse` (both already stated without the parser).
  * Part D: interpolation.  `CfgOK` (plugin configs) is characterised structurally (`USorted`), the walkers
    of `Model/Interp.lean` preserve `NoUMap` / `USorted` / key-sortedness with no hypothesis on the transformer,
    and the only thing that can break `CommandOK` is an inline-remainder key landing on a declared key
    (`KeysSafe`, implied by `KeysFixed`): `interpCommand_ok`.
-/
import GoPipeline.Lemmas.SignedRoundtrip
import GoPipeline.Lemmas.Interp
set_option linter.unusedSimpArgs false
set_option linter.unusedVariables false
namespace GoPipeline.SignedRT
open GoPipeline GoPipeline.Pipe GoPipeline.Parse GoPipeline.Marshal GoPipeline.Signing GoPipeline.Roundtrip
  GoPipeline.Unm

/-! ## Part A: the predicate -/

mutual
  /-- A typed step whose marshalled form re-parses to a step of the same kind, stated on the step alone.
      * command: `CommandOK` (sorted maps, decoded content without Go maps, no unknown key equal to a declared
        key, plugin configs that are `ToMapRecursive` images) and the unknown fields do not redirect the kind
        selection (`type`, if present among them, is a string naming the command kind);
      * wait / input: the scalar form holds a scalar of that kind, the mapping form (`Scalar = ""`) holds
        contents that select that kind (an empty wait step is written as `"wait"`);
      * trigger: contents that select the trigger kind;
      * group: the unknown fields are a well-formed remainder of the group descriptor and do not redirect the
        kind selection, the nested step list is present and well-formed;
      * unknown: decoded content (signing refuses unknown steps, nothing else is needed). -/
  def StepOK : Step → Prop
    | .command c => CommandOK c ∧ selOf (("command", .null) :: c.rem.getD []) = .ok (.known .command)
    | .wait s c =>
      if s = "" then c.getD [] = [] ∨ selOf (c.getD []) = .ok (.known .wait)
      else StepKind.selectScalar Gen.scalarTable s = .known .wait
    | .input s c =>
      if s = "" then selOf (c.getD []) = .ok (.known .input)
      else StepKind.selectScalar Gen.scalarTable s = .known .input
    | .trigger c => selOf (c.getD []) = .ok (.known .trigger)
    | .group _ _ ss r =>
      RemOK Gen.struct_GroupStep r ∧ selOf (("group", .null) :: r.getD []) = .ok (.known .group) ∧
      (match ss with | none => False | some l => StepsOK l)
    | .unknown v => NoUMap v
  def StepsOK : List Step → Prop
    | [] => True
    | s :: r => StepOK s ∧ StepsOK r
end

mutual
  /-- The parser fuel a step needs: one level per nesting of groups. -/
  def stepDepth : Step → Nat
    | .command _ => 1
    | .wait _ _ => 1
    | .input _ _ => 1
    | .trigger _ => 1
    | .group _ _ ss _ => (match ss with | none => 0 | some l => stepsDepth l) + 1
    | .unknown _ => 1
  def stepsDepth : List Step → Nat
    | [] => 0
    | s :: r => max (stepDepth s) (stepsDepth r)
end

theorem stepDepth_pos (s : Step) : 1 ≤ stepDepth s := by
  cases s with
  | group k g ss r => cases ss <;> simp [stepDepth]
  | _ => simp [stepDepth]

theorem rereadJ_str (s : String) : rereadJ (.str s) = .str s := by simp [rereadJ]

theorem stepOK_group_some (k : String) (g : Option String) (l : List Step) (r : UMap Val) :
    StepOK (.group k g (some l) r) =
      (RemOK Gen.struct_GroupStep r ∧ selOf (("group", .null) :: r.getD []) = .ok (.known .group) ∧ StepsOK l) := by
  simp [StepOK]

theorem stepOK_group_none (k : String) (g : Option String) (r : UMap Val) : ¬ StepOK (.group k g none r) := by
  simp [StepOK]

theorem stepDepth_group_some (k : String) (g : Option String) (l : List Step) (r : UMap Val) :
    stepDepth (.group k g (some l) r) = stepsDepth l + 1 := by
  simp [stepDepth]

/-! ### Kind selection on re-read contents -/

theorem lookup_cons_ne {β : Type} {k f : String} (v : β) (r : List (String × β)) (h : f ≠ k) :
    ((k, v) :: r).lookup f = r.lookup f := by
  rw [Roundtrip.lookup_cons_if, if_neg h]

theorem isSome_map_reread (o : Option Val) : (o.map rereadJ).isSome = o.isSome := by
  cases o <;> rfl

/-- Re-reading does not change which kind a mapping selects (`type` stays a string or stays a non-string,
    the same keys are present). -/
theorem selOf_rereadJKVs (kvs : List (String × Val)) : selOf (rereadJKVs kvs) = selOf kvs := by
  unfold selOf
  simp only [lookup_rereadJKVs, isSome_map_reread]
  cases kvs.lookup "type" with
  | none => rfl
  | some v => cases v <;> rfl

/-! ## Part B: the parser's image is well-formed -/

/-- The statement of `parseStep_stepOK` at one fuel level. -/
def ParsedOK (f : Nat) : Prop :=
  ∀ (x : Val) (s : Step) (w : List Warn), NoUMap x → KeysNodup x → parseStep f x = .ok (s, w) →
    StepOK s ∧ stepDepth s ≤ f

theorem parsed_list_of (f : Nat) (ih : ParsedOK f) : (xs : List Val) → (ss : List Step) → (ws : List Warn) →
    NoUMapList xs → KeysNodupList xs → parseSteps f xs = .ok (ss, ws) → StepsOK ss ∧ stepsDepth ss ≤ f
  | [], ss, ws, _, _, h => by
    rw [parseSteps.eq_1] at h
    simp only [Except.ok.injEq, Prod.mk.injEq] at h
    obtain ⟨rfl, rfl⟩ := h
    simp [StepsOK, stepsDepth]
  | v :: r, ss, ws, hx, hd, h => by
    obtain ⟨s, w, ss', ws', hs1, hss, rfl, rfl⟩ := parseSteps_cons_ok h
    rw [NoUMapList] at hx
    rw [KeysNodupList] at hd
    obtain ⟨h1, h2⟩ := ih v s w hx.1 hd.1 hs1
    obtain ⟨h3, h4⟩ := parsed_list_of f ih r ss' ws' hx.2 hd.2 hss
    refine ⟨by rw [StepsOK]; exact ⟨h1, h3⟩, ?_⟩
    rw [stepsDepth]
    exact Nat.max_le.2 ⟨h2, h4⟩

theorem stepOK_unknown {v : Val} (h : NoUMap v) : StepOK (.unknown v) := by
  simpa [StepOK] using h

theorem parsed_all : ∀ f, ParsedOK f
  | 0 => by
    intro x s w _ _ h
    rw [parseStep.eq_1] at h; cases h
  | f + 1 => by
    have ih := parsed_all f
    intro x s w hx hd h
    cases x with
    | str t =>
      rw [parseStep.eq_2] at h
      split at h
      · rename_i hsel
        simp only [Except.ok.injEq, Prod.mk.injEq] at h; obtain ⟨rfl, rfl⟩ := h
        have hne : t ≠ "" := selectScalar_ne_empty (by rw [hsel]; simp)
        exact ⟨by simp [StepOK, hne, hsel], by simp [stepDepth]⟩
      · rename_i hsel
        simp only [Except.ok.injEq, Prod.mk.injEq] at h; obtain ⟨rfl, rfl⟩ := h
        have hne : t ≠ "" := selectScalar_ne_empty (by rw [hsel]; simp)
        exact ⟨by simp [StepOK, hne, hsel], by simp [stepDepth]⟩
      · simp only [Except.ok.injEq, Prod.mk.injEq] at h; obtain ⟨rfl, rfl⟩ := h
        exact ⟨stepOK_unknown hx, by simp [stepDepth]⟩
    | omap m =>
      have hm : NoUMapKVs m := by simpa [NoUMap] using hx
      have hn : (m.map (·.1)).Nodup := by rw [KeysNodup] at hd; exact hd.1
      have hkk : KeysNodupKVs m := by rw [KeysNodup] at hd; exact hd.2
      rw [parseStep.eq_3] at h
      split at h
      · cases h
      · rename_i sel hsel
        split at h
        · cases h
        · simp only [Except.ok.injEq, Prod.mk.injEq] at h; obtain ⟨rfl, rfl⟩ := h
          exact ⟨stepOK_unknown hx, by simp [stepDepth]⟩
        · simp only [Except.ok.injEq, Prod.mk.injEq] at h; obtain ⟨rfl, rfl⟩ := h
          exact ⟨stepOK_unknown hx, by simp [stepDepth]⟩
        · split at h
          · rename_i c hc
            simp only [Except.ok.injEq, Prod.mk.injEq] at h; obtain ⟨rfl, rfl⟩ := h
            refine ⟨?_, by simp [stepDepth]⟩
            rw [StepOK]
            refine ⟨parseCommand_inv hm hc, ?_⟩
            apply selOf_command_of _ (by simp [List.lookup]) hsel
            rw [lookup_cons_ne _ _ (by decide), command_rem_lookup hc hn (by decide) (by decide)]
          · simp only [Except.ok.injEq, Prod.mk.injEq] at h; obtain ⟨rfl, rfl⟩ := h
            exact ⟨stepOK_unknown hx, by simp [stepDepth]⟩
        · simp only [Except.ok.injEq, Prod.mk.injEq] at h; obtain ⟨rfl, rfl⟩ := h
          exact ⟨by simp [StepOK, selOf_umapOf hn, hsel], by simp [stepDepth]⟩
        · simp only [Except.ok.injEq, Prod.mk.injEq] at h; obtain ⟨rfl, rfl⟩ := h
          exact ⟨by simp [StepOK, selOf_umapOf hn, hsel], by simp [stepDepth]⟩
        · simp only [Except.ok.injEq, Prod.mk.injEq] at h; obtain ⟨rfl, rfl⟩ := h
          exact ⟨by simp [StepOK, selOf_umapOf hn, hsel], by simp [stepDepth]⟩
        · split at h
          · rename_i g hg
            simp only [Except.ok.injEq, Prod.mk.injEq] at h; obtain ⟨rfl, rfl⟩ := h
            obtain ⟨key, grp, ss, rfl, hsteps⟩ := parseGroup_ok hg
            have hR : RemOK Gen.struct_GroupStep (remMap (remainder m Gen.struct_GroupStep)) := remOK_remMap m _ hm
            have hsel' : selOf (("group", Val.null) :: (remMap (remainder m Gen.struct_GroupStep)).getD []) =
                .ok (.known .group) :=
              selOf_group_of hn hsel (by simp [List.lookup])
                (fun k' hk' => lookup_cons_ne _ _ (fun e => hk' (by rw [e]; decide)))
            have hsub : StepsOK ss ∧ stepsDepth ss ≤ f := by
              rcases hsteps with ⟨_, rfl⟩ | ⟨xs, hl, hps⟩
              · simp [StepsOK, stepsDepth]
              · have h1 : NoUMap (.seq xs) := noUMap_of_lookup hm hl
                have h2 : KeysNodup (.seq xs) := keysNodup_of_lookup hkk hl
                exact parsed_list_of f ih xs ss [] (by simpa [NoUMap] using h1) (by simpa [KeysNodup] using h2) hps
            rw [stepOK_group_some, stepDepth_group_some]
            exact ⟨⟨hR, hsel', hsub.1⟩, Nat.succ_le_succ hsub.2⟩
          · simp only [Except.ok.injEq, Prod.mk.injEq] at h; obtain ⟨rfl, rfl⟩ := h
            exact ⟨stepOK_unknown hx, by simp [stepDepth]⟩
        · simp only [Except.ok.injEq, Prod.mk.injEq] at h; obtain ⟨rfl, rfl⟩ := h
          exact ⟨stepOK_unknown hx, by simp [stepDepth]⟩
    | null | bool _ | int _ | float _ | time _ | seq _ | umap _ =>
      rw [parseStep.eq_4 _ _ (by intro s h; cases h) (by intro m h; cases h)] at h; cases h

/-- Every step in the image of the parser is well-formed, and the fuel that parsed it bounds its depth. -/
theorem parseStep_stepOK (f : Nat) (x : Val) (s : Step) (w : List Warn) (hx : NoUMap x) (hd : KeysNodup x)
    (h : parseStep f x = .ok (s, w)) : StepOK s ∧ stepDepth s ≤ f :=
  parsed_all f x s w hx hd h

theorem parseSteps_stepsOK (f : Nat) (xs : List Val) (ss : List Step) (ws : List Warn) (hx : NoUMapList xs)
    (hd : KeysNodupList xs) (h : parseSteps f xs = .ok (ss, ws)) : StepsOK ss ∧ stepsDepth ss ≤ f :=
  parsed_list_of f (parsed_all f) xs ss ws hx hd h

/-! ## Part C: the signed round trip for well-formed steps -/

section Trees
variable (S : SigScheme) (render : S.Sig → String) (parseSig : String → Option S.Sig)
variable (k : S.Key) (alg repo : String) (penv env₁ : List (String × String))

/-- The statement of `signed_steps_roundtrip_ok` at one fuel level; the re-parse raises no warning (needed
    one level up: a group step refuses nested warnings). -/
def SignedOK (f : Nat) : Prop :=
  ∀ (s : Step), StepOK s → StableStep s → stepDepth s ≤ f →
    ∀ signed, signStep S render k alg repo penv s = .ok signed →
    ∃ j s', mStep signed = .ok j ∧ parseStep f (rereadJ j) = .ok (s', []) ∧
      VerifiesAll S parseSig (S.pubOf k) repo env₁ s'

theorem signed_list_ok_of (f : Nat) (ih : SignedOK S render parseSig k alg repo penv env₁ f) :
    (l : List Step) → StepsOK l → StableSteps l → stepsDepth l ≤ f →
    (l' : List Step) → signSteps S render k alg repo penv l = .ok l' →
    ∃ js ss', mSteps l' = .ok js ∧ parseSteps f (rereadJList js) = .ok (ss', []) ∧
      VerifiesAllList S parseSig (S.pubOf k) repo env₁ ss'
  | [], _, _, _, l', hl' => by
    rw [Signing.signSteps_nil] at hl'
    injection hl' with hl'
    subst hl'
    exact ⟨[], [], rfl, by rw [rereadJList, parseSteps.eq_1], by rw [verifiesAllList_nil]; trivial⟩
  | s :: r, hok, hs, hdep, l', hl' => by
    rw [StepsOK] at hok
    rw [StableSteps] at hs
    rw [stepsDepth] at hdep
    obtain ⟨hd1, hd2⟩ := Nat.max_le.1 hdep
    obtain ⟨s₁, r₁, hs₁, hr₁, rfl⟩ := (Signing.signSteps_cons_ok S render).1 hl'
    obtain ⟨j, s1, hj, hp, hv⟩ := ih s hok.1 hs.1 hd1 s₁ hs₁
    obtain ⟨js, ss1, hjs, hps, hvs⟩ := signed_list_ok_of f ih r hok.2 hs.2 hd2 r₁ hr₁
    refine ⟨j :: js, s1 :: ss1, ?_, ?_, ?_⟩
    · rw [mSteps_cons, hj, hjs]
    · rw [rereadJList, parseSteps.eq_2, hp, hps]
      rfl
    · rw [verifiesAllList_cons]; exact ⟨hv, hvs⟩

theorem lenUMap_ne_of_selOf {c : UMap Val} {kd : StepKind.Kind} (h : selOf (c.getD []) = .ok (.known kd)) :
    ∃ kvs, c = some kvs ∧ (lenUMap c == 0) = false := by
  have hne := selOf_ne_nil h
  cases c with
  | none => exact absurd rfl hne
  | some kvs =>
    refine ⟨kvs, rfl, ?_⟩
    cases kvs with
    | nil => exact absurd rfl hne
    | cons a t => simp [lenUMap]

theorem signed_all_ok (hrender : ∀ s, parseSig (render s) = some s) (henv : EnvExtends penv env₁) :
    ∀ f, SignedOK S render parseSig k alg repo penv env₁ f
  | 0 => by
    intro s _ _ hd
    exact absurd (stepDepth_pos s) (by omega)
  | f + 1 => by
    have ih := signed_all_ok hrender henv f
    intro s hok hs hdep signed hsign
    cases s with
    | command c =>
      rw [StepOK] at hok
      obtain ⟨hcok, hselc⟩ := hok
      rw [StableStep] at hs
      rw [Signing.signStep_command] at hsign
      injection hsign with hsign
      subst hsign
      obtain ⟨U, c', hU, hp, _, hv, hUc, hUo⟩ :=
        signed_command_core S render parseSig hrender c hcok hs k alg repo penv env₁ henv
      have hselU : selOf U = .ok (.known .command) := by
        apply selOf_command_of _ (by rw [hUc]; rfl) hselc
        rw [hUo "type" (by decide), lookup_cons_ne _ _ (by decide)]
      refine ⟨_, .command c', mStep_command _, ?_, ?_⟩
      · rw [hU, parseStep.eq_3, hselU]
        simp only [hp]
      · rw [verifiesAll_command]; exact hv
    | group key grp ss r =>
      cases ss with
      | none => exact absurd hok (stepOK_group_none key grp r)
      | some l =>
        rw [stepOK_group_some] at hok
        obtain ⟨hR, hselg, hl⟩ := hok
        rw [stepDepth_group_some] at hdep
        rw [Signing.signStep_group_some, Roundtrip.map_ok_iff] at hsign
        obtain ⟨l', hl', rfl⟩ := hsign
        simp only [StableStep] at hs
        obtain ⟨hss, _, _, hkey⟩ := hs
        obtain ⟨js, ss', hjs, hps, hv⟩ := signed_list_ok_of S render parseSig k alg repo penv env₁ f ih l hl hss
          (by omega) l' hl'
        obtain ⟨U, hU, hpg, hUg, hUo⟩ := group_reparse f key grp r hR hkey js ss' hps
        have hselU : selOf U = .ok (.known .group) := by
          rw [← hselg]
          apply selOf_eq_of
          · rw [hUo "type" (by decide), lookup_cons_ne _ _ (by decide)]
          · intro _ k' hk'
            by_cases hg : k' = "group"
            · subst hg
              rw [hUg]; rfl
            · rw [hUo k' (by
                simp only [StepKind.kindKeys, List.mem_cons, List.not_mem_nil, or_false] at hk'
                rcases hk' with rfl | rfl | rfl | rfl | rfl | rfl | rfl | rfl | rfl | rfl <;> first | decide | exact absurd rfl hg),
                lookup_cons_ne _ _ hg]
        refine ⟨_, .group key grp (some ss') (remMap (remainder U Gen.struct_GroupStep)),
          mStep_group_eq key grp l' _ js hjs, ?_, ?_⟩
        · rw [hU, parseStep.eq_3, hselU]
          simp only [hpg]
        · rw [verifiesAll_group_some]; exact hv
    | wait sc c =>
      rw [Signing.signStep_wait] at hsign
      injection hsign with hsign
      subst hsign
      rw [StepOK] at hok
      by_cases hsc : sc = ""
      · subst hsc
        rw [if_pos rfl] at hok
        rcases hok with hnil | hsel
        · have hlen : (lenUMap c == 0) = true := by
            cases c with
            | none => rfl
            | some l => simp only [Option.getD_some] at hnil; subst hnil; rfl
          refine ⟨.str "wait", .wait "wait" none, by rw [mStep_wait]; simp [hlen], ?_, by simp [VerifiesAll]⟩
          rw [rereadJ_str, parseStep.eq_2]
          have : StepKind.selectScalar Gen.scalarTable "wait" = .known .wait := by decide
          rw [this]
        · obtain ⟨kvs, rfl, hlen⟩ := lenUMap_ne_of_selOf hsel
          simp only [Option.getD_some] at hsel
          refine ⟨.umap kvs, .wait "" (some (Parse.umapOf (rereadJKVs kvs))),
            by rw [mStep_wait]; simp [hlen, umapV], ?_, by simp [VerifiesAll]⟩
          rw [rereadJ, parseStep.eq_3, selOf_rereadJKVs, hsel]
      · rw [if_neg hsc] at hok
        have hne : (sc != "") = true := by simpa using hsc
        refine ⟨.str sc, .wait sc none, by rw [mStep_wait, if_pos hne], ?_, by simp [VerifiesAll]⟩
        rw [rereadJ_str, parseStep.eq_2, hok]
    | input sc c =>
      rw [Signing.signStep_input] at hsign
      injection hsign with hsign
      subst hsign
      rw [StepOK] at hok
      by_cases hsc : sc = ""
      · subst hsc
        rw [if_pos rfl] at hok
        obtain ⟨kvs, rfl, hlen⟩ := lenUMap_ne_of_selOf hok
        simp only [Option.getD_some] at hok
        refine ⟨.umap kvs, .input "" (some (Parse.umapOf (rereadJKVs kvs))),
          by rw [mStep_input]; simp [hlen, umapV], ?_, by simp [VerifiesAll]⟩
        rw [rereadJ, parseStep.eq_3, selOf_rereadJKVs, hok]
      · rw [if_neg hsc] at hok
        have hne : (sc != "") = true := by simpa using hsc
        refine ⟨.str sc, .input sc none, by rw [mStep_input, if_pos hne], ?_, by simp [VerifiesAll]⟩
        rw [rereadJ_str, parseStep.eq_2, hok]
    | trigger c =>
      rw [Signing.signStep_trigger] at hsign
      injection hsign with hsign
      subst hsign
      rw [StepOK] at hok
      obtain ⟨kvs, rfl, hlen⟩ := lenUMap_ne_of_selOf hok
      simp only [Option.getD_some] at hok
      refine ⟨.umap kvs, .trigger (some (Parse.umapOf (rereadJKVs kvs))),
        by rw [mStep_trigger]; rfl, ?_, by simp [VerifiesAll]⟩
      rw [rereadJ, parseStep.eq_3, selOf_rereadJKVs, hok]
    | unknown v =>
      rw [Signing.signStep_unknown] at hsign
      cases hsign

/-- The signed round trip for every well-formed step tree: no parser hypothesis. The fuel of the re-parse
    must cover the nesting depth of the tree. -/
theorem signed_steps_roundtrip_ok (hrender : ∀ s, parseSig (render s) = some s)
    (s : Step) (hok : StepOK s) (hs : StableStep s) (f : Nat) (hf : stepDepth s ≤ f)
    (henv : EnvExtends penv env₁)
    (signed : Step) (hsign : signStep S render k alg repo penv s = .ok signed) :
    ∃ j s' w', mStep signed = .ok j ∧ parseStep f (rereadJ j) = .ok (s', w') ∧
      VerifiesAll S parseSig (S.pubOf k) repo env₁ s' :=
  let ⟨j, s', h1, h2, h3⟩ :=
    signed_all_ok S render parseSig k alg repo penv env₁ hrender henv f s hok hs hf signed hsign
  ⟨j, s', [], h1, h2, h3⟩

theorem signed_list_roundtrip_ok (hrender : ∀ s, parseSig (render s) = some s)
    (l : List Step) (hok : StepsOK l) (hs : StableSteps l) (f : Nat) (hf : stepsDepth l ≤ f)
    (henv : EnvExtends penv env₁)
    (l' : List Step) (hsign : signSteps S render k alg repo penv l = .ok l') :
    ∃ js ss' ws', mSteps l' = .ok js ∧ parseSteps f (rereadJList js) = .ok (ss', ws') ∧
      VerifiesAllList S parseSig (S.pubOf k) repo env₁ ss' :=
  let ⟨js, ss', h1, h2, h3⟩ :=
    signed_list_ok_of S render parseSig k alg repo penv env₁ f
      (signed_all_ok S render parseSig k alg repo penv env₁ hrender henv f) l hok hs hf l' hsign
  ⟨js, ss', [], h1, h2, h3⟩

end Trees

/-! ## Part D: interpolation keeps a command step well-formed -/

section InterpOK
open GoPipeline.Interp
variable {E : Type}

theorem interp_umapInsert_eq {α : Type} (k : String) (v : α) (m : List (String × α)) :
    Interp.umapInsert k v m = Parse.umapInsert k v m := by
  induction m with
  | nil => rfl
  | cons p r ih =>
    obtain ⟨k0, v0⟩ := p
    simp only [Interp.umapInsert, Parse.umapInsert, ih]

/-! ### Plugin configs, structurally: `CfgOK` is "no ordered map, every Go map strictly key-sorted" -/

mutual
  /-- A `ToMapRecursive` image: no ordered mapping at any depth, every Go map strictly sorted by key. -/
  def USorted : Val → Prop
    | .seq xs => USortedList xs
    | .omap _ => False
    | .umap kvs => Roundtrip.SortedK kvs ∧ USortedKVs kvs
    | _ => True
  def USortedList : List Val → Prop
    | [] => True
    | x :: r => USorted x ∧ USortedList r
  def USortedKVs : List (String × Val) → Prop
    | [] => True
    | (_, v) :: r => USorted v ∧ USortedKVs r
end

theorem uSortedKVs_iff : (l : List (String × Val)) → (USortedKVs l ↔ ∀ p ∈ l, USorted p.2)
  | [] => by simp [USortedKVs]
  | (k, v) :: r => by
    rw [USortedKVs, uSortedKVs_iff r]
    simp

mutual
  theorem noUMap_rereadJ : (v : Val) → NoUMap (rereadJ v)
    | .null => by simp [rereadJ, NoUMap]
    | .bool _ => by simp [rereadJ, NoUMap]
    | .int _ => by simp [rereadJ, NoUMap]
    | .float _ => by simp [rereadJ, NoUMap]
    | .time _ => by simp [rereadJ, NoUMap]
    | .str _ => by simp [rereadJ, NoUMap]
    | .seq xs => by rw [rereadJ, NoUMap]; exact noUMap_rereadJList xs
    | .omap kvs => by rw [rereadJ, NoUMap]; exact noUMap_rereadJKVs kvs
    | .umap kvs => by rw [rereadJ, NoUMap]; exact noUMap_rereadJKVs kvs
  theorem noUMap_rereadJList : (xs : List Val) → NoUMapList (rereadJList xs)
    | [] => by simp [rereadJList, NoUMapList]
    | x :: r => by rw [rereadJList, NoUMapList]; exact ⟨noUMap_rereadJ x, noUMap_rereadJList r⟩
  theorem noUMap_rereadJKVs : (kvs : List (String × Val)) → NoUMapKVs (rereadJKVs kvs)
    | [] => by simp [rereadJKVs, NoUMapKVs]
    | (k, v) :: r => by rw [rereadJKVs, NoUMapKVs]; exact ⟨noUMap_rereadJ v, noUMap_rereadJKVs r⟩
end

mutual
  theorem toMapRec_reread_of_uSorted : (v : Val) → USorted v → toMapRec (rereadJ v) = v
    | .null, _ | .bool _, _ | .int _, _ | .float _, _ | .time _, _ | .str _, _ => by simp [rereadJ, toMapRec]
    | .seq xs, h => by
      rw [rereadJ, toMapRec, toMapRec_reread_list xs (by simpa [USorted] using h)]
    | .omap kvs, h => by simp [USorted] at h
    | .umap kvs, h => by
      have h' : Roundtrip.SortedK kvs ∧ USortedKVs kvs := by simpa [USorted] using h
      rw [rereadJ, toMapRec, toMapRec_reread_kvs kvs h'.2, umapOf_sorted h'.1]
  theorem toMapRec_reread_list : (xs : List Val) → USortedList xs → toMapRecList (rereadJList xs) = xs
    | [], _ => rfl
    | x :: r, h => by
      rw [USortedList] at h
      rw [rereadJList, toMapRecList, toMapRec_reread_of_uSorted x h.1, toMapRec_reread_list r h.2]
  theorem toMapRec_reread_kvs : (kvs : List (String × Val)) → USortedKVs kvs →
      toMapRecKVs (rereadJKVs kvs) = kvs
    | [], _ => rfl
    | (k, v) :: r, h => by
      rw [USortedKVs] at h
      rw [rereadJKVs, toMapRecKVs, toMapRec_reread_of_uSorted v h.1, toMapRec_reread_kvs r h.2]
end

mutual
  theorem uSorted_toMapRec : (v : Val) → NoUMap v → USorted (toMapRec v)
    | .null, _ | .bool _, _ | .int _, _ | .float _, _ | .time _, _ | .str _, _ => by simp [toMapRec, USorted]
    | .seq xs, h => by
      rw [toMapRec, USorted]; exact uSorted_toMapRecList xs (by simpa [NoUMap] using h)
    | .omap kvs, h => by
      rw [toMapRec, USorted]
      refine ⟨sortedK_umapOf _, (uSortedKVs_iff _).2 fun p hp => ?_⟩
      exact uSorted_toMapRecKVs kvs (by simpa [NoUMap] using h) p (mem_umapOf hp)
    | .umap _, h => by simp [NoUMap] at h
  theorem uSorted_toMapRecList : (xs : List Val) → NoUMapList xs → USortedList (toMapRecList xs)
    | [], _ => by simp [toMapRecList, USortedList]
    | x :: r, h => by
      rw [NoUMapList] at h
      rw [toMapRecList, USortedList]
      exact ⟨uSorted_toMapRec x h.1, uSorted_toMapRecList r h.2⟩
  theorem uSorted_toMapRecKVs : (kvs : List (String × Val)) → NoUMapKVs kvs →
      ∀ p ∈ toMapRecKVs kvs, USorted p.2
    | [], _ => by simp [toMapRecKVs]
    | (k, v) :: r, h => by
      rw [NoUMapKVs] at h
      intro p hp
      rw [toMapRecKVs] at hp
      rcases List.mem_cons.1 hp with rfl | hp
      · exact uSorted_toMapRec v h.1
      · exact uSorted_toMapRecKVs r h.2 p hp
end

/-- The parser-image condition on plugin configs (`∃ v, NoUMap v ∧ c = toMapRec v`) is a structural one. -/
theorem cfgOK_iff_uSorted (c : Val) : CfgOK c ↔ USorted c := by
  constructor
  · rintro ⟨v, hv, rfl⟩
    exact uSorted_toMapRec v hv
  · intro h
    exact ⟨rereadJ c, noUMap_rereadJ c, (toMapRec_reread_of_uSorted c h).symm⟩

/-! ### The untyped walkers keep `USorted` and `NoUMap` (no hypothesis on the transformer) -/

mutual
  theorem interpVal_uSorted (tf : String → Except E String) : (v : Val) → USorted v →
      ∀ v', interpVal tf v = .ok v' → USorted v'
    | .null, _, v', h => by simp [interpVal] at h; subst h; simp [USorted]
    | .bool _, _, v', h => by simp [interpVal] at h; subst h; simp [USorted]
    | .int _, _, v', h => by simp [interpVal] at h; subst h; simp [USorted]
    | .float _, _, v', h => by simp [interpVal] at h; subst h; simp [USorted]
    | .time _, _, v', h => by simp [interpVal] at h; subst h; simp [USorted]
    | .str s, _, v', h => by
      rw [interpVal] at h
      obtain ⟨t, _, rfl⟩ := map_eq_ok h
      simp [USorted]
    | .seq xs, hs, v', h => by
      rw [interpVal] at h
      obtain ⟨xs', hx, rfl⟩ := map_eq_ok h
      rw [USorted]
      exact interpSeq_uSorted tf xs (by simpa [USorted] using hs) xs' hx
    | .omap kvs, hs, _, _ => by simp [USorted] at hs
    | .umap kvs, hs, v', h => by
      have hs' : Roundtrip.SortedK kvs ∧ USortedKVs kvs := by simpa [USorted] using hs
      rw [interpVal] at h
      obtain ⟨r, hr, rfl⟩ := map_eq_ok h
      rw [USorted]
      obtain ⟨h1, h2⟩ := interpUMap_uSorted tf kvs hs'.2 [] r List.Pairwise.nil (by simp) hr
      exact ⟨h1, (uSortedKVs_iff _).2 h2⟩
  theorem interpSeq_uSorted (tf : String → Except E String) : (xs : List Val) → USortedList xs →
      ∀ xs', interpSeq tf xs = .ok xs' → USortedList xs'
    | [], _, xs', h => by simp [interpSeq] at h; subst h; simp [USortedList]
    | x :: r, hs, xs', h => by
      rw [USortedList] at hs
      rw [interpSeq] at h
      cases hx : interpVal tf x with
      | error e => simp [hx] at h
      | ok x' =>
        simp only [hx] at h
        cases hr : interpSeq tf r with
        | error e => simp [hr] at h
        | ok r' =>
          simp only [hr, Except.ok.injEq] at h; subst h
          rw [USortedList]
          exact ⟨interpVal_uSorted tf x hs.1 x' hx, interpSeq_uSorted tf r hs.2 r' hr⟩
  theorem interpUMap_uSorted (tf : String → Except E String) : (kvs : List (String × Val)) → USortedKVs kvs →
      ∀ acc r, Roundtrip.SortedK acc → (∀ p ∈ acc, USorted p.2) → interpUMap tf acc kvs = .ok r →
      Roundtrip.SortedK r ∧ ∀ p ∈ r, USorted p.2
    | [], _, acc, r, h1, h2, h => by simp [interpUMap] at h; subst h; exact ⟨h1, h2⟩
    | (k, v) :: rest, hs, acc, r, h1, h2, h => by
      rw [USortedKVs] at hs
      rw [interpUMap] at h
      cases hk : tf k with
      | error e => simp [hk] at h
      | ok k' =>
        simp only [hk] at h
        cases hv : interpVal tf v with
        | error e => simp [hv] at h
        | ok v' =>
          simp only [hv] at h
          refine interpUMap_uSorted tf rest hs.2 _ r ?_ ?_ h
          · rw [interp_umapInsert_eq]; exact sortedK_umapInsert _ _ _ h1
          · intro p hp
            rw [interp_umapInsert_eq] at hp
            rcases mem_umapInsert hp with rfl | hp
            · exact interpVal_uSorted tf v hs.1 v' hv
            · exact h2 p hp
end

theorem cfgOK_interp (tf : String → Except E String) {c c' : Val} (h : CfgOK c) (hi : interpVal tf c = .ok c') :
    CfgOK c' :=
  (cfgOK_iff_uSorted c').2 (interpVal_uSorted tf c ((cfgOK_iff_uSorted c).1 h) c' hi)

mutual
  theorem interpVal_noUMap (tf : String → Except E String) : (v : Val) → NoUMap v →
      ∀ v', interpVal tf v = .ok v' → NoUMap v'
    | .null, _, v', h => by simp [interpVal] at h; subst h; simp [NoUMap]
    | .bool _, _, v', h => by simp [interpVal] at h; subst h; simp [NoUMap]
    | .int _, _, v', h => by simp [interpVal] at h; subst h; simp [NoUMap]
    | .float _, _, v', h => by simp [interpVal] at h; subst h; simp [NoUMap]
    | .time _, _, v', h => by simp [interpVal] at h; subst h; simp [NoUMap]
    | .str s, _, v', h => by
      rw [interpVal] at h
      obtain ⟨t, _, rfl⟩ := map_eq_ok h
      simp [NoUMap]
    | .seq xs, hs, v', h => by
      rw [interpVal] at h
      obtain ⟨xs', hx, rfl⟩ := map_eq_ok h
      rw [NoUMap]
      exact interpSeq_noUMap tf xs (by simpa [NoUMap] using hs) xs' hx
    | .omap kvs, hs, v', h => by
      rw [interpVal] at h
      obtain ⟨r, hr, rfl⟩ := map_eq_ok h
      rw [NoUMap, noUMapKVs_iff]
      exact interpOMap_noUMap tf kvs (by simpa [NoUMap] using hs) [] [] r (by simp) hr
    | .umap kvs, hs, _, _ => by simp [NoUMap] at hs
  theorem interpSeq_noUMap (tf : String → Except E String) : (xs : List Val) → NoUMapList xs →
      ∀ xs', interpSeq tf xs = .ok xs' → NoUMapList xs'
    | [], _, xs', h => by simp [interpSeq] at h; subst h; simp [NoUMapList]
    | x :: r, hs, xs', h => by
      rw [NoUMapList] at hs
      rw [interpSeq] at h
      cases hx : interpVal tf x with
      | error e => simp [hx] at h
      | ok x' =>
        simp only [hx] at h
        cases hr : interpSeq tf r with
        | error e => simp [hr] at h
        | ok r' =>
          simp only [hr, Except.ok.injEq] at h; subst h
          rw [NoUMapList]
          exact ⟨interpVal_noUMap tf x hs.1 x' hx, interpSeq_noUMap tf r hs.2 r' hr⟩
  theorem interpOMap_noUMap (tf : String → Except E String) : (rest : List (String × Val)) → NoUMapKVs rest →
      ∀ done dead r, (∀ p ∈ done, NoUMap p.2) → interpOMap tf done dead rest = .ok r → ∀ p ∈ r, NoUMap p.2
    | [], _, done, dead, r, hd, h => by simp [interpOMap] at h; subst h; exact hd
    | (k, v) :: rest, hs, done, dead, r, hd, h => by
      rw [NoUMapKVs] at hs
      rw [interpOMap] at h
      split at h
      · exact interpOMap_noUMap tf rest hs.2 done dead r hd h
      · cases hk : tf k with
        | error e => simp [hk] at h
        | ok k' =>
          simp only [hk] at h
          cases hv : interpVal tf v with
          | error e => simp [hv] at h
          | ok v' =>
            simp only [hv] at h
            have hv' := interpVal_noUMap tf v hs.1 v' hv
            split at h
            · refine interpOMap_noUMap tf rest hs.2 _ _ r ?_ h
              intro p hp
              rcases List.mem_append.1 hp with hp | hp
              · exact hd p hp
              · simp only [List.mem_singleton] at hp; subst hp; exact hv'
            · refine interpOMap_noUMap tf rest hs.2 _ _ r ?_ h
              intro p hp
              rcases List.mem_append.1 hp with hp | hp
              · exact hd p (List.mem_filter.1 hp).1
              · simp only [List.mem_singleton] at hp; subst hp; exact hv'
end

/-! ### Go-map walks: sorted result, values transformed, every result key is the image of an input key -/

theorem interpUMap_inv (tf : String → Except E String) (Q : Val → Prop) : (kvs : List (String × Val)) →
    (∀ p ∈ kvs, ∀ v', interpVal tf p.2 = .ok v' → Q v') → ∀ acc r, interpUMap tf acc kvs = .ok r →
    Roundtrip.SortedK acc → (∀ p ∈ acc, Q p.2) →
    Roundtrip.SortedK r ∧ (∀ p ∈ r, Q p.2) ∧
      ∀ k' ∈ r.map (·.1), k' ∈ acc.map (·.1) ∨ ∃ k ∈ kvs.map (·.1), tf k = .ok k'
  | [], _, acc, r, h, h1, h2 => by
    simp [interpUMap] at h; subst h
    exact ⟨h1, h2, fun k' hk' => .inl hk'⟩
  | (k, v) :: rest, hq, acc, r, h, h1, h2 => by
    rw [interpUMap] at h
    cases hk : tf k with
    | error e => simp [hk] at h
    | ok k' =>
      simp only [hk] at h
      cases hv : interpVal tf v with
      | error e => simp [hv] at h
      | ok v' =>
        simp only [hv] at h
        obtain ⟨r1, r2, r3⟩ := interpUMap_inv tf Q rest (fun p hp => hq p (List.mem_cons_of_mem _ hp)) _ r h
          (by rw [interp_umapInsert_eq]; exact sortedK_umapInsert _ _ _ h1)
          (by
            intro p hp
            rw [interp_umapInsert_eq] at hp
            rcases mem_umapInsert hp with rfl | hp
            · exact hq (k, v) List.mem_cons_self v' hv
            · exact h2 p hp)
        refine ⟨r1, r2, fun k'' hk'' => ?_⟩
        rcases r3 k'' hk'' with h' | ⟨k0, hk0, hk0'⟩
        · obtain ⟨p, hp, rfl⟩ := List.mem_map.1 h'
          rw [interp_umapInsert_eq] at hp
          rcases mem_umapInsert hp with rfl | hp
          · exact .inr ⟨k, by simp, hk⟩
          · exact .inl (List.mem_map_of_mem hp)
        · exact .inr ⟨k0, by simp only [List.map_cons, List.mem_cons]; exact .inr hk0, hk0'⟩

theorem interpUMapV_inv (tf : String → Except E String) (rem rem' : UMap Val)
    (hn : ∀ p ∈ rem.getD [], NoUMap p.2) (h : interpUMapV tf rem = .ok rem') :
    Roundtrip.SortedK (rem'.getD []) ∧ (∀ p ∈ rem'.getD [], NoUMap p.2) ∧
      ∀ k' ∈ (rem'.getD []).map (·.1), ∃ k ∈ (rem.getD []).map (·.1), tf k = .ok k' := by
  cases rem with
  | none =>
    simp only [interpUMapV, Except.ok.injEq] at h; subst h
    exact ⟨List.Pairwise.nil, by simp, by simp⟩
  | some kvs =>
    rw [interpUMapV] at h
    obtain ⟨r, hr, rfl⟩ := map_eq_ok h
    simp only [Option.getD_some] at hn ⊢
    obtain ⟨h1, h2, h3⟩ := interpUMap_inv tf NoUMap kvs
      (fun p hp v' hv => interpVal_noUMap tf p.2 (hn p hp) v' hv) [] r hr List.Pairwise.nil (by simp)
    refine ⟨h1, h2, fun k' hk' => ?_⟩
    rcases h3 k' hk' with h' | h'
    · simp at h'
    · exact h'

/-- No key of the Go map `rem` is sent by the transformer to one of the keys `bad`. -/
def RemSafe (tf : String → Except E String) (bad : List String) (rem : UMap Val) : Prop :=
  ∀ k ∈ (rem.getD []).map (·.1), ∀ k', tf k = .ok k' → k' ∉ bad

/-- The transformer fixes every key of the Go map `rem` (top level only). -/
def RemFixed (tf : String → Except E String) (rem : UMap Val) : Prop :=
  ∀ k ∈ (rem.getD []).map (·.1), tf k = .ok k

theorem RemSafe.mono {tf : String → Except E String} {bad bad' : List String} {rem : UMap Val}
    (h : RemSafe tf bad rem) (hsub : ∀ k ∈ bad', k ∈ bad) : RemSafe tf bad' rem :=
  fun k hk k' hk' hb => h k hk k' hk' (hsub k' hb)

theorem mem_normalKeys_of {fs : List Field} {f : Field} (hf : f ∈ fs) (hr : f.role = .normal) :
    f.key ∈ normalKeys fs := by
  unfold normalKeys
  exact List.mem_map.2 ⟨f, List.mem_filter.2 ⟨hf, by simp [hr]⟩, rfl⟩

theorem remSafe_of_fixed {tf : String → Except E String} {bad : List String} {rem : UMap Val}
    (hfix : RemFixed tf rem) (hbad : ∀ k ∈ bad, (rem.getD []).lookup k = none) : RemSafe tf bad rem := by
  intro k hk k' hk' hb
  rw [hfix k hk] at hk'
  injection hk' with hk'
  subst hk'
  exact lookup_none_iff.1 (hbad k hb) hk

/-- An inline remainder stays well-formed under interpolation exactly when none of its keys lands on a
    declared key of the struct. -/
theorem remOK_interp (tf : String → Except E String) (fs : List Field) (rem rem' : UMap Val) (hR : RemOK fs rem)
    (hsafe : RemSafe tf (normalKeys fs) rem) (h : interpUMapV tf rem = .ok rem') : RemOK fs rem' := by
  obtain ⟨h1, h2, h3⟩ := interpUMapV_inv tf rem rem' hR.noUMap h
  refine ⟨h1, h2, fun f hf hr => ?_⟩
  rw [lookup_none_iff]
  intro hk
  obtain ⟨k, hk1, hk2⟩ := h3 _ hk
  exact hsafe k hk1 _ hk2 (mem_normalKeys_of hf hr)

/-! ### Typed Go maps: the result of a map walk is sorted -/

theorem interpUMapSAux_sorted (tf : String → Except E String) (kvs acc r : List (String × String))
    (ha : Roundtrip.SortedK acc) (h : interpUMapSAux tf acc kvs = .ok r) : Roundtrip.SortedK r := by
  induction kvs generalizing acc with
  | nil => simp [interpUMapSAux] at h; subst h; exact ha
  | cons p t ih =>
    obtain ⟨k, v⟩ := p
    rw [interpUMapSAux] at h
    cases hk : tf k with
    | error e => simp [hk] at h
    | ok k' =>
      simp only [hk] at h
      cases hv : tf v with
      | error e => simp [hv] at h
      | ok v' =>
        simp only [hv] at h
        exact ih _ (by rw [interp_umapInsert_eq]; exact sortedK_umapInsert _ _ _ ha) h

theorem interpUMapS_sorted (tf : String → Except E String) (m m' : UMap String) (h : interpUMapS tf m = .ok m') :
    ∀ kvs, m' = some kvs → Roundtrip.SortedK kvs := by
  intro kvs hm
  subst hm
  cases m with
  | none => simp [interpUMapS] at h
  | some l =>
    rw [interpUMapS] at h
    obtain ⟨r, hr, hr'⟩ := map_eq_ok h
    injection hr' with hr'
    subst hr'
    exact interpUMapSAux_sorted tf l [] r List.Pairwise.nil hr

theorem interpSetupAux_sorted (tf : String → Except E String) (kvs acc r : List (String × Option (List String)))
    (ha : Roundtrip.SortedK acc) (h : interpSetupAux tf acc kvs = .ok r) : Roundtrip.SortedK r := by
  induction kvs generalizing acc with
  | nil => simp [interpSetupAux] at h; subst h; exact ha
  | cons p t ih =>
    obtain ⟨k, v⟩ := p
    unfold interpSetupAux at h
    cases hk : tf k with
    | error e => simp [hk] at h
    | ok k' =>
      simp only [hk] at h
      split at h
      · cases h
      · exact ih _ (by rw [interp_umapInsert_eq]; exact sortedK_umapInsert _ _ _ ha) h

theorem interpSetup_sorted (tf : String → Except E String) (m m' : UMap (Option (List String)))
    (h : interpSetup tf m = .ok m') : ∀ kvs, m' = some kvs → Roundtrip.SortedK kvs := by
  intro kvs hm
  subst hm
  cases m with
  | none => simp [interpSetup] at h
  | some l =>
    rw [interpSetup] at h
    obtain ⟨r, hr, hr'⟩ := map_eq_ok h
    injection hr' with hr'
    subst hr'
    exact interpSetupAux_sorted tf l [] r List.Pairwise.nil hr

/-! ### Plugins -/

theorem interpPlugins_ok (tf : String → Except E String) : (l l' : List (Option Plugin)) →
    interpPlugins tf l = .ok l' → (∀ p ∈ l, PluginOK p) → l'.length = l.length ∧ ∀ p ∈ l', PluginOK p
  | [], l', h, _ => by simp [interpPlugins] at h; subst h; simp
  | none :: r, l', h, hok => by
    obtain ⟨q, hq, _⟩ := hok none List.mem_cons_self
    cases hq
  | some p :: r, l', h, hok => by
    rw [interpPlugins] at h
    cases hp : interpPlugin tf p with
    | error e => simp [hp] at h
    | ok p' =>
      simp only [hp] at h
      cases hr : interpPlugins tf r with
      | error e => simp [hr] at h
      | ok r' =>
        simp only [hr, Except.ok.injEq] at h; subst h
        obtain ⟨h1, h2⟩ := interpPlugins_ok tf r r' hr (fun q hq => hok q (List.mem_cons_of_mem _ hq))
        refine ⟨by simp [h1], fun q hq => ?_⟩
        rcases List.mem_cons.1 hq with rfl | hq
        · obtain ⟨q0, hq0, hc⟩ := hok (some p) List.mem_cons_self
          injection hq0 with hq0
          subst hq0
          refine ⟨p', rfl, ?_⟩
          unfold interpPlugin at hp
          cases hs : tf p.source with
          | error e => simp [hs] at hp
          | ok s' =>
            simp only [hs] at hp
            cases hcfg : interpVal tf p.config with
            | error e => simp [hcfg] at hp
            | ok c' =>
              simp only [hcfg, Except.ok.injEq] at hp; subst hp
              exact cfgOK_interp tf hc hcfg
        · exact h2 q hq

/-! ### Matrix, cache -/

local notation "adjD" => Gen.struct_MatrixAdjustment
local notation "mxD" => Gen.struct_Matrix
local notation "cacheD" => Gen.struct_Cache
local notation "csD" => Gen.struct_CommandStep

theorem interpAdjustment_ok (tf : String → Except E String) (a a' : Adjustment)
    (h : interpAdjustment tf a = .ok a') (hok : AdjOK a) (hsafe : RemSafe tf (normalKeys adjD) a.rem) :
    AdjOK a' := by
  unfold interpAdjustment at h
  cases hw : interpUMapS tf a.with_ with
  | error e => simp [hw] at h
  | ok w =>
    simp only [hw] at h
    cases hs : interpVal tf a.skip with
    | error e => simp [hs] at h
    | ok s =>
      simp only [hs] at h
      cases hr : interpUMapV tf a.rem with
      | error e => simp [hr] at h
      | ok r =>
        simp only [hr, Except.ok.injEq] at h; subst h
        exact ⟨interpUMapS_sorted tf _ _ hw, interpVal_noUMap tf _ hok.skip _ hs,
          remOK_interp tf _ _ _ hok.rem hsafe hr⟩

theorem interpAdjustments_ok (tf : String → Except E String) : (l l' : List (Option Adjustment)) →
    interpAdjustments tf l = .ok l' →
    (∀ a, some a ∈ l → AdjOK a ∧ RemSafe tf (normalKeys adjD) a.rem) → ∀ a', some a' ∈ l' → AdjOK a'
  | [], l', h, _ => by simp [interpAdjustments] at h; subst h; simp
  | none :: r, l', h, hok => by
    rw [interpAdjustments] at h
    obtain ⟨r', hr, rfl⟩ := map_eq_ok h
    intro a' ha'
    rcases List.mem_cons.1 ha' with ha' | ha'
    · cases ha'
    · exact interpAdjustments_ok tf r r' hr (fun a ha => hok a (List.mem_cons_of_mem _ ha)) a' ha'
  | some a :: r, l', h, hok => by
    rw [interpAdjustments] at h
    cases ha : interpAdjustment tf a with
    | error e => simp [ha] at h
    | ok a1 =>
      simp only [ha] at h
      cases hr : interpAdjustments tf r with
      | error e => simp [hr] at h
      | ok r' =>
        simp only [hr, Except.ok.injEq] at h; subst h
        intro a' ha'
        rcases List.mem_cons.1 ha' with ha' | ha'
        · injection ha' with ha'
          subst ha'
          obtain ⟨h1, h2⟩ := hok a List.mem_cons_self
          exact interpAdjustment_ok tf a a' ha h1 h2
        · exact interpAdjustments_ok tf r r' hr (fun a ha => hok a (List.mem_cons_of_mem _ ha)) a' ha'

theorem interpMatrix_ok (tf : String → Except E String) (m m' : Matrix) (h : interpMatrix .env tf m = .ok m')
    (hok : MatrixOK m) (hsafe : RemSafe tf (normalKeys mxD) m.rem)
    (hadj : ∀ l, m.adjustments = some l → ∀ a, some a ∈ l → RemSafe tf (normalKeys adjD) a.rem) :
    MatrixOK m' := by
  simp only [interpMatrix] at h
  cases hs : interpSetup tf m.setup with
  | error e => simp [hs] at h
  | ok s =>
    simp only [hs] at h
    cases hl : m.adjustments with
    | none =>
      simp only [hl] at h
      cases hr : interpUMapV tf m.rem with
      | error e => simp [hr] at h
      | ok r =>
        simp only [hr, Except.ok.injEq] at h; subst h
        exact ⟨interpSetup_sorted tf _ _ hs, (fun l hl' => by cases hl'), remOK_interp tf _ _ _ hok.rem hsafe hr⟩
    | some l =>
      simp only [hl] at h
      cases ha : interpAdjustments tf l with
      | error e => simp [ha, Except.map] at h
      | ok l' =>
        simp only [ha, Except.map] at h
        cases hr : interpUMapV tf m.rem with
        | error e => simp [hr] at h
        | ok r =>
          simp only [hr, Except.ok.injEq] at h; subst h
          refine ⟨interpSetup_sorted tf _ _ hs, fun l1 hl1 a' ha' => ?_, remOK_interp tf _ _ _ hok.rem hsafe hr⟩
          simp only [Option.some.injEq] at hl1
          subst hl1
          exact interpAdjustments_ok tf l l' ha (fun a ha0 => ⟨hok.adjs l hl a ha0, hadj l hl a ha0⟩) a' ha'

theorem interpCache_ok (tf : String → Except E String) (k k' : Cache) (h : interpCache tf k = .ok k')
    (hR : RemOK cacheD k.rem) (hsafe : RemSafe tf (normalKeys cacheD) k.rem) : RemOK cacheD k'.rem := by
  unfold interpCache at h
  cases hn : tf k.name with
  | error e => simp [hn] at h
  | ok n =>
    simp only [hn] at h
    split at h
    · cases h
    · cases hs : tf k.size with
      | error e => simp [hs] at h
      | ok s =>
        simp only [hs] at h
        cases hr : interpUMapV tf k.rem with
        | error e => simp [hr] at h
        | ok r =>
          simp only [hr, Except.ok.injEq] at h; subst h
          exact remOK_interp tf _ _ _ hR hsafe hr

/-! ### The command step -/

/-- The side condition that finding F21 violates: no key of an inline remainder (the step's unknown fields, the cache's, the matrix's,
    each adjustment's) is sent by the transformer to a declared key of the struct it is inlined into (for the
    step itself also not to `commands`, the alias the parser claims before the struct). -/
def KeysSafe (tf : String → Except E String) (c : CommandStep) : Prop :=
  RemSafe tf ("commands" :: normalKeys csD) c.rem ∧
  (∀ k, c.cache = some k → RemSafe tf (normalKeys cacheD) k.rem) ∧
  (∀ m, c.matrix = some m → RemSafe tf (normalKeys mxD) m.rem ∧
    ∀ l, m.adjustments = some l → ∀ a, some a ∈ l → RemSafe tf (normalKeys adjD) a.rem)

/-- The transformer fixes every (top-level) key of every inline remainder of the step: the step's unknown
    fields, the cache's, the matrix's and each adjustment's.  Nothing else is needed: env names, `with` names,
    setup dimension names and the keys inside plugin configs and inside the values of the remainders may be
    rewritten freely (the walkers re-insert into a fresh sorted map). -/
def KeysFixed (tf : String → Except E String) (c : CommandStep) : Prop :=
  RemFixed tf c.rem ∧
  (∀ k, c.cache = some k → RemFixed tf k.rem) ∧
  (∀ m, c.matrix = some m → RemFixed tf m.rem ∧
    ∀ l, m.adjustments = some l → ∀ a, some a ∈ l → RemFixed tf a.rem)

theorem keysSafe_of_fixed {tf : String → Except E String} {c : CommandStep} (hok : CommandOK c)
    (h : KeysFixed tf c) : KeysSafe tf c := by
  obtain ⟨h1, h2, h3⟩ := h
  refine ⟨remSafe_of_fixed h1 ?_, fun k hk => remSafe_of_fixed (h2 k hk) fun k' hk' => (hok.cache k hk).prim' hk',
    fun m hm => ⟨remSafe_of_fixed (h3 m hm).1 fun k' hk' => (hok.matrix m hm).rem.prim' hk', fun l hl a ha =>
      remSafe_of_fixed ((h3 m hm).2 l hl a ha) fun k' hk' => ((hok.matrix m hm).adjs l hl a ha).rem.prim' hk'⟩⟩
  intro k' hk'
  rcases List.mem_cons.1 hk' with rfl | hk'
  · exact hok.noCommands
  · exact hok.rem.prim' hk'

theorem optM_ok' {α : Type} {f : α → Except E α} {o o' : Option α} (h : optM f o = .ok o') :
    ∀ a', o' = some a' → ∃ a, o = some a ∧ f a = .ok a' := by
  intro a' ha'
  rcases optM_ok f o o' h with ⟨_, h2⟩ | ⟨a, a1, h1, h2, h3⟩
  · rw [h2] at ha'; cases ha'
  · rw [h2] at ha'; injection ha' with ha'; subst ha'
    exact ⟨a, h1, h3⟩

/-- Env interpolation keeps a command step well-formed as long as no inline-remainder key lands on a declared
    key.  No hypothesis on plugin sources / configs, env names, matrix dimension or `with` names. -/
theorem interpCommand_ok_safe (tf : String → Except E String) (c c₁ : CommandStep) (hok : CommandOK c)
    (h : interpCommand .env tf c = .ok c₁) (hsafe : KeysSafe tf c) : CommandOK c₁ := by
  rw [interpCommand_env_def] at h
  cases h1 : tf c.command with
  | error e => simp [h1] at h
  | ok command =>
  simp only [h1] at h
  cases h2 : tf c.label with
  | error e => simp [h2] at h
  | ok label =>
  simp only [h2] at h
  cases h3 : optM (interpPlugins tf) c.plugins with
  | error e => simp [h3] at h
  | ok plugins =>
  simp only [h3] at h
  cases h4 : tf c.key with
  | error e => simp [h4] at h
  | ok key =>
  simp only [h4] at h
  cases h5 : interpUMapS tf c.env with
  | error e => simp [h5] at h
  | ok env =>
  simp only [h5] at h
  cases h6 : optM (interpMatrix .env tf) c.matrix with
  | error e => simp [h6] at h
  | ok matrix =>
  simp only [h6] at h
  cases h7 : optM (interpCache tf) c.cache with
  | error e => simp [h7] at h
  | ok cache =>
  simp only [h7] at h
  cases h8 : interpUMapV tf c.rem with
  | error e => simp [h8] at h
  | ok rem =>
  simp only [h8, Except.ok.injEq] at h
  subst h
  obtain ⟨s1, s2, s3⟩ := hsafe
  obtain ⟨r1, r2, r3⟩ := interpUMapV_inv tf c.rem rem hok.rem.noUMap h8
  refine ⟨?_, ?_, ?_, ?_, ?_, ?_⟩
  · intro l hl
    obtain ⟨l0, hl0, hi⟩ := optM_ok' h3 l hl
    obtain ⟨hne, hall⟩ := hok.plugins l0 hl0
    obtain ⟨hlen, hall'⟩ := interpPlugins_ok tf l0 l hi hall
    refine ⟨?_, hall'⟩
    intro hnil
    subst hnil
    cases l0 with
    | nil => exact hne rfl
    | cons a t => simp at hlen
  · exact interpUMapS_sorted tf _ _ h5
  · intro mm hmm
    obtain ⟨m0, hm0, hi⟩ := optM_ok' h6 mm hmm
    exact interpMatrix_ok tf m0 mm hi (hok.matrix m0 hm0) (s3 m0 hm0).1 (s3 m0 hm0).2
  · intro k hk
    obtain ⟨k0, hk0, hi⟩ := optM_ok' h7 k hk
    exact interpCache_ok tf k0 k hi (hok.cache k0 hk0) (s2 k0 hk0)
  · exact remOK_interp tf _ _ _ hok.rem (s1.mono fun k hk => List.mem_cons_of_mem _ hk) h8
  · simp only
    rw [lookup_none_iff]
    intro hk
    obtain ⟨k0, hk0, hk0'⟩ := r3 _ hk
    exact s1 k0 hk0 _ hk0' List.mem_cons_self

/-- (d) Env interpolation with a transformer that fixes the keys of the step's inline remainders keeps the
    step well-formed. -/
theorem interpCommand_ok (tf : String → Except E String) (c c₁ : CommandStep) (hok : CommandOK c)
    (h : interpCommand .env tf c = .ok c₁) (hfix : KeysFixed tf c) : CommandOK c₁ :=
  interpCommand_ok_safe tf c c₁ hok h (keysSafe_of_fixed hok hfix)

/-! ### The step level: the kind selection survives as well

  `CommandOK` is about the command step's own fields.  For the tree-level theorem the step must also still be
  SELECTED as a command step after the round trip (`StepOK (.command c)`), which depends on the unknown field
  `type` (key and value).  With fixed remainder keys the key `type` cannot appear or disappear; its value, if
  present, is a string the transformer has to keep. -/

theorem interpUMap_lookup_fixed (tf : String → Except E String) : (kvs : List (String × Val)) →
    (∀ k ∈ kvs.map (·.1), tf k = .ok k) → ∀ acc r, interpUMap tf acc kvs = .ok r →
    (∀ k, k ∉ kvs.map (·.1) → r.lookup k = acc.lookup k) ∧
    ((kvs.map (·.1)).Nodup → ∀ k v, (k, v) ∈ kvs → ∃ v', interpVal tf v = .ok v' ∧ r.lookup k = some v')
  | [], _, acc, r, h => by
    simp [interpUMap] at h; subst h
    exact ⟨fun _ _ => rfl, fun _ k v hm => by cases hm⟩
  | (k0, v0) :: rest, hfix, acc, r, h => by
    rw [interpUMap] at h
    have hk0 : tf k0 = .ok k0 := hfix k0 (by simp)
    simp only [hk0] at h
    cases hv : interpVal tf v0 with
    | error e => simp [hv] at h
    | ok v0' =>
      simp only [hv] at h
      obtain ⟨ih1, ih2⟩ := interpUMap_lookup_fixed tf rest
        (fun k hk => hfix k (by simp only [List.map_cons, List.mem_cons]; exact .inr hk)) _ r h
      refine ⟨fun k hk => ?_, fun hnd k v hm => ?_⟩
      · simp only [List.map_cons, List.mem_cons, not_or] at hk
        rw [ih1 k hk.2, interp_umapInsert_eq, Roundtrip.lookup_umapInsert, if_neg hk.1]
      · simp only [List.map_cons, List.nodup_cons] at hnd
        rcases List.mem_cons.1 hm with hm | hm
        · injection hm with e1 e2
          subst e1 e2
          exact ⟨v0', hv, by rw [ih1 k hnd.1, interp_umapInsert_eq, Roundtrip.lookup_umapInsert, if_pos rfl]⟩
        · exact ih2 hnd.2 k v hm

theorem interpCommand_env_rem (tf : String → Except E String) (c c₁ : CommandStep)
    (h : interpCommand .env tf c = .ok c₁) : interpUMapV tf c.rem = .ok c₁.rem := by
  rw [interpCommand_env_def] at h
  cases h1 : tf c.command with
  | error e => simp [h1] at h
  | ok command =>
  simp only [h1] at h
  cases h2 : tf c.label with
  | error e => simp [h2] at h
  | ok label =>
  simp only [h2] at h
  cases h3 : optM (interpPlugins tf) c.plugins with
  | error e => simp [h3] at h
  | ok plugins =>
  simp only [h3] at h
  cases h4 : tf c.key with
  | error e => simp [h4] at h
  | ok key =>
  simp only [h4] at h
  cases h5 : interpUMapS tf c.env with
  | error e => simp [h5] at h
  | ok env =>
  simp only [h5] at h
  cases h6 : optM (interpMatrix .env tf) c.matrix with
  | error e => simp [h6] at h
  | ok matrix =>
  simp only [h6] at h
  cases h7 : optM (interpCache tf) c.cache with
  | error e => simp [h7] at h
  | ok cache =>
  simp only [h7] at h
  cases h8 : interpUMapV tf c.rem with
  | error e => simp [h8] at h
  | ok rem =>
  simp only [h8, Except.ok.injEq] at h
  subst h
  rfl

/-- With fixed remainder keys, the unknown field `type` of the interpolated step is the interpolated `type`
    of the original one. -/
theorem lookup_type_interp (tf : String → Except E String) (rem rem' : UMap Val) (hR : Roundtrip.SortedK (rem.getD []))
    (hn : ∀ p ∈ rem.getD [], NoUMap p.2) (hfix : RemFixed tf rem) (h : interpUMapV tf rem = .ok rem') (k : String) :
    match (rem.getD []).lookup k with
    | none => (rem'.getD []).lookup k = none
    | some v => ∃ v', interpVal tf v = .ok v' ∧ (rem'.getD []).lookup k = some v' := by
  cases hl : (rem.getD []).lookup k with
  | none =>
    simp only
    rw [lookup_none_iff]
    intro hk
    obtain ⟨_, _, h3⟩ := interpUMapV_inv tf rem rem' hn h
    obtain ⟨k0, hk0, hk0'⟩ := h3 k hk
    rw [hfix k0 hk0] at hk0'
    injection hk0' with e
    subst e
    exact lookup_none_iff.1 hl hk0
  | some v =>
    simp only
    cases rem with
    | none => simp at hl
    | some kvs =>
      rw [interpUMapV] at h
      obtain ⟨r, hr, rfl⟩ := map_eq_ok h
      simp only [Option.getD_some] at hl hR hfix ⊢
      exact (interpUMap_lookup_fixed tf kvs hfix [] r hr).2 (nodup_keys_of_sortedK hR) k v (Roundtrip.mem_of_lookup hl)

/-- The interpolated command step is still a well-formed command STEP (so `signed_steps_roundtrip_ok` applies
    to it), provided the transformer also keeps the value of the unknown field `type`, if there is one. -/
theorem interpCommand_stepOK (tf : String → Except E String) (c c₁ : CommandStep) (hok : StepOK (.command c))
    (h : interpCommand .env tf c = .ok c₁) (hfix : KeysFixed tf c)
    (htype : ∀ s, (c.rem.getD []).lookup "type" = some (.str s) → tf s = .ok s) : StepOK (.command c₁) := by
  rw [StepOK] at hok ⊢
  obtain ⟨hcok, hsel⟩ := hok
  refine ⟨interpCommand_ok tf c c₁ hcok h hfix, ?_⟩
  have hlt := lookup_type_interp tf c.rem c₁.rem hcok.rem.sorted hcok.rem.noUMap hfix.1
    (interpCommand_env_rem tf c c₁ h) "type"
  apply selOf_command_of _ (by simp [List.lookup]) hsel
  rw [lookup_cons_ne _ _ (by decide), lookup_cons_ne _ _ (by decide)]
  cases hl : (c.rem.getD []).lookup "type" with
  | none => rw [hl] at hlt; exact hlt
  | some v =>
    rw [hl] at hlt
    obtain ⟨v', hv', hlv'⟩ := hlt
    cases v with
    | str s =>
      rw [interpVal, htype s hl] at hv'
      simp only [Except.map, Except.ok.injEq] at hv'
      subst hv'
      exact hlv'
    | _ =>
      exfalso
      unfold selOf at hsel
      rw [lookup_cons_ne _ _ (by decide), hl] at hsel
      simp at hsel

end InterpOK

/-! ### Parse, interpolate, sign, marshal, re-read, re-parse, verify (one command step) -/

theorem interp_then_sign_command {E : Type} (S : SigScheme) (render : S.Sig → String)
    (parseSig : String → Option S.Sig) (hrender : ∀ s, parseSig (render s) = some s)
    (m : Unm.Entries) (c c₁ : CommandStep) (hm : NoUMapKVs m) (h : parseCommand m = .ok c)
    (tf : String → Except E String) (hi : Interp.interpCommand .env tf c = .ok c₁) (hfix : KeysFixed tf c)
    (hs : StableCommand c₁)
    (k : S.Key) (alg repo : String) (penv env₁ : List (String × String)) (henv : EnvExtends penv env₁) :
    ∃ kvs c', rereadJ (mCommand (attach S render (sign S k alg c₁ repo penv) c₁)) = .omap kvs ∧
      parseCommand kvs = .ok c' ∧
      c'.signature = (attach S render (sign S k alg c₁ repo penv) c₁).signature ∧
      StepVerifies S parseSig (S.pubOf k) repo env₁ c' :=
  let ⟨kvs, c', h1, h2, h3, h4, _⟩ :=
    signed_command_core S render parseSig hrender c₁ (interpCommand_ok tf c c₁ (parseCommand_inv hm h) hi hfix) hs
      k alg repo penv env₁ henv
  ⟨kvs, c', h1, h2, h3, h4⟩

/-- The same through the tree-level theorem: a parsed command step, interpolated, signed as a step, marshalled,
    re-read and re-parsed BY `parseStep` (kind selection included) carries a verifying signature. -/
theorem interp_then_sign_step {E : Type} (S : SigScheme) (render : S.Sig → String)
    (parseSig : String → Option S.Sig) (hrender : ∀ s, parseSig (render s) = some s)
    (f : Nat) (x : Val) (c c₁ : CommandStep) (w : List Warn) (hx : NoUMap x) (hd : KeysNodup x)
    (h : parseStep f x = .ok (.command c, w))
    (tf : String → Except E String) (hi : Interp.interpCommand .env tf c = .ok c₁) (hfix : KeysFixed tf c)
    (htype : ∀ s, (c.rem.getD []).lookup "type" = some (.str s) → tf s = .ok s)
    (hs : StableCommand c₁)
    (k : S.Key) (alg repo : String) (penv env₁ : List (String × String)) (henv : EnvExtends penv env₁) :
    ∃ j s' w', mStep (.command (attach S render (sign S k alg c₁ repo penv) c₁)) = .ok j ∧
      parseStep f (rereadJ j) = .ok (s', w') ∧ VerifiesAll S parseSig (S.pubOf k) repo env₁ s' := by
  obtain ⟨hok, hdep⟩ := parseStep_stepOK f x _ w hx hd h
  have hok₁ := interpCommand_stepOK tf c c₁ hok hi hfix htype
  have hdep₁ : stepDepth (.command c₁) ≤ f := by
    simp only [stepDepth] at hdep ⊢
    exact hdep
  exact signed_steps_roundtrip_ok S render parseSig k alg repo penv env₁ hrender (.command c₁) hok₁
    (by rw [StableStep]; exact hs) f hdep₁ henv _ (Signing.signStep_command S render k alg repo penv c₁)

/-! ### `StepOK` is strictly larger than the parser's image -/

/-- An empty wait step built through the API (`&WaitStep{}`: no scalar, nil contents) is well-formed (it is
    written as `"wait"`), but the parser never produces it. -/
theorem wait_empty_not_parsed (f : Nat) (x : Val) (w : List Warn) : parseStep f x ≠ .ok (.wait "" none, w) := by
  intro h
  cases f with
  | zero => rw [parseStep.eq_1] at h; cases h
  | succ f =>
    cases x with
    | str t =>
      rw [parseStep.eq_2] at h
      split at h
      · rename_i hsel
        simp only [Except.ok.injEq, Prod.mk.injEq, Step.wait.injEq] at h
        obtain ⟨⟨rfl, _⟩, _⟩ := h
        exact selectScalar_ne_empty (by rw [hsel]; simp) rfl
      · simp at h
      · simp at h
    | omap m =>
      rw [parseStep.eq_3] at h
      split at h
      · cases h
      · split at h
        · cases h
        · simp at h
        · simp at h
        · split at h <;> simp at h
        · simp at h
        · simp at h
        · simp at h
        · split at h
          · rename_i g hg
            obtain ⟨key, grp, ss, rfl, _⟩ := parseGroup_ok hg
            simp at h
          · simp at h
        · simp at h
    | null | bool _ | int _ | float _ | time _ | seq _ | umap _ =>
      rw [parseStep.eq_4 _ _ (by intro s h; cases h) (by intro m h; cases h)] at h; cases h

theorem stepOK_wait_empty : StepOK (.wait "" none) := by
  simp [StepOK]

end GoPipeline.SignedRT
