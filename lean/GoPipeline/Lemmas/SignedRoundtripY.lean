/-
  C02, YAML leg — signed steps still verify after `yaml.Marshal` and re-parse: lemmas.

  Mirror of `Lemmas/SignedRoundtrip.lean` (JSON leg), composed with the YAML-leg round trip of
  `Lemmas/RoundtripY.lean`.

  * Part A (what the payload sees of a step: `SigSame`, `verify_of_sigSame`, `verify_attach`,
    `matrixField_congr`, `mAdjustment_congr`) is leg-independent and is reused from the JSON-leg file.
  * Part B-Y: the matrix comes back from the YAML round trip with the very same signed `matrixField`
    (`matrix_roundtripY_sig`).  The payload is computed from the JSON form of the matrix (`mMatrix`) on both
    legs; the YAML emitter keeps an adjustment's empty-ish `skip` (dropped on the JSON leg, finding F11), the
    re-parsed adjustment therefore has the same `with`, `skip` and inline entries, hence the same `mAdjustment`.
    `matrix_roundtripY` of `Lemmas/RoundtripY.lean` only states equality of normal forms (too coarse inside the
    matrix), so the three lemmas are re-proved with the sharper conclusion.
  * Part C-Y: one command step.  `command_roundtripY` applies to the signed step `attach … c` directly
    (`CommandOK` / `StableCommandY` do not mention `signature`); the re-parsed signature and matrix are
    identified by determinism of the parser (`reparse_sig_matrixY`).  The YAML leg writes a nil
    `signed_fields` as `[]`; `attach` always stores `some _`, so the embedded signature comes back exactly.
  * Part D-Y: step trees (induction on the parser's fuel) and the pipeline.  The YAML leg omits an empty
    non-nil env block: the re-parsed pipeline has `env = normList p.env`.

  `Lemmas/SignedRoundtrip.lean` and `Lemmas/RoundtripY.lean` can be imported together without clashes.
-/
import GoPipeline.Lemmas.SignedRoundtrip
import GoPipeline.Lemmas.RoundtripY
set_option linter.unusedSimpArgs false
set_option linter.unusedVariables false
namespace GoPipeline.SignedRT
open GoPipeline GoPipeline.Pipe GoPipeline.Parse GoPipeline.Marshal GoPipeline.Signing GoPipeline.Roundtrip
  GoPipeline.Unm GoPipeline.MarshalY

/-! ## Part B-Y: the matrix comes back with the same signed form -/

theorem adjustment_roundtripY_sig (a : Adjustment) (hok : AdjOK a) :
    ∃ v U a', yAdjustment a = .ok v ∧ rereadJ v = .omap U ∧ parseAdjustment U = .ok a' ∧
      mAdjustment a' = mAdjustment a := by
  have hw := with_roundtrip a.with_ hok.withSorted
  by_cases he : yIsZeroAny a.skip = true
  · have hnull := yIsZeroAny_null he
    have hy : yAdjustment a = .ok (inlineFriendly [("with", mWith a.with_)] a.rem) := by
      unfold yAdjustment
      simp only [he, if_true, List.append_nil]
      exact yStruct_ok _ _ _ hok.rem (by simp only [List.map_cons, List.map_nil]; decide)
    obtain ⟨U, hU, hsU, hl⟩ := reread_inline [("with", mWith a.with_)] a.rem (by simp) hok.rem.sorted hok.rem.noUMap
    have hrem := rem_roundtrip_af _ aliasFree_adj _ a.rem (by simp only [List.map_cons, List.map_nil, List.cons_append, List.nil_append]; decide) hok.rem U hsU hl
    refine ⟨_, U, { with_ := a.with_, skip := a.skip, rem := remMap (remainder U Gen.struct_MatrixAdjustment) }, hy, hU, ?_, ?_⟩
    · simp only [parseAdjustment]
      rw [fieldOf_afKey (k := "with") (by decide), fieldOf_afKey (k := "skip") (by decide), hl "with", hl "skip"]
      have : (a.rem.getD []).lookup "skip" = none := hok.rem.prim' (by decide)
      simp [List.lookup, hw, this, hnull]
    · exact mAdjustment_congr rfl rfl (getD_of_normList hrem)
  · have he' : yIsZeroAny a.skip = false := by simpa using he
    have hy : yAdjustment a = .ok (inlineFriendly ([("with", mWith a.with_)] ++ [("skip", a.skip)]) a.rem) := by
      unfold yAdjustment
      simp only [he', Bool.false_eq_true, if_false]
      exact yStruct_ok _ _ _ hok.rem (by simp only [List.map_cons, List.map_nil, List.cons_append, List.nil_append]; decide)
    obtain ⟨U, hU, hsU, hl⟩ := reread_inline ([("with", mWith a.with_)] ++ [("skip", a.skip)]) a.rem (by simp)
      hok.rem.sorted hok.rem.noUMap
    have hrem := rem_roundtrip_af _ aliasFree_adj _ a.rem (by simp only [List.map_cons, List.map_nil, List.cons_append, List.nil_append]; decide) hok.rem U hsU hl
    refine ⟨_, U, { with_ := a.with_, skip := a.skip, rem := remMap (remainder U Gen.struct_MatrixAdjustment) }, hy, hU, ?_, ?_⟩
    · simp only [parseAdjustment]
      rw [fieldOf_afKey (k := "with") (by decide), fieldOf_afKey (k := "skip") (by decide), hl "with", hl "skip"]
      simp [List.lookup, hw, reread_noUMap _ hok.skip]
    · exact mAdjustment_congr rfl rfl (getD_of_normList hrem)

theorem adjustments_roundtripY_sig : (l : List (Option Adjustment)) → (∀ a, some a ∈ l → AdjOK a) →
    ∃ avs l', yAdjustments l = .ok avs ∧ adjustmentsElems (rereadJList avs) = .ok l' ∧
      l'.map mAdjOpt = l.map mAdjOpt
  | [], _ => ⟨[], [], rfl, rfl, rfl⟩
  | none :: r, h => by
    obtain ⟨avs, l', h0, h1, h2⟩ := adjustments_roundtripY_sig r (fun a ha => h a (List.mem_cons_of_mem _ ha))
    refine ⟨.null :: avs, none :: l', ?_, ?_, by simp [h2]⟩
    · simp only [yAdjustments, h0, Except.map]
    · simp only [rereadJList, rereadJ, adjustmentsElems, h1, Except.map]
  | some a :: r, h => by
    obtain ⟨avs, l', h0, h1, h2⟩ := adjustments_roundtripY_sig r (fun a ha => h a (List.mem_cons_of_mem _ ha))
    obtain ⟨v, U, a', hv, hU, hp, hn⟩ := adjustment_roundtripY_sig a (h a List.mem_cons_self)
    refine ⟨v :: avs, some a' :: l', ?_, ?_, by simp [h2, hn, mAdjOpt]⟩
    · simp only [yAdjustments, hv, h0, Except.map]
    · rw [rereadJList, hU, adjustmentsElems, hp, h1]
      rfl

/-- YAML-leg analogue of `matrix_roundtrip_sig`: the re-parsed matrix has the same signed `matrixField`. -/
theorem matrix_roundtripY_sig (m : Matrix) (hok : MatrixOK m) :
    ∃ v m', yMatrix m = .ok v ∧ parseMatrix (rereadJ v) = .ok (some m') ∧
      matrixField (some m') = matrixField (some m) := by
  by_cases hsimp : isSimple m = true
  · obtain ⟨x, xs, hs, ha, hr⟩ := isSimple_inv hsimp
    refine ⟨mSetup m.setup, { setup := some [("", some (x :: xs))], adjustments := none, rem := none }, ?_, ?_, ?_⟩
    · unfold yMatrix
      rw [if_pos hsimp]
    · rw [hs]
      simp only [mSetup]
      rw [reread_strsV]
      simp only [strsV, parseMatrix, strsOfSeq, strsElems_strs, Except.map]
    · exact matrixField_congr hs.symm (by rw [ha]; rfl) hr.symm
  · have hsetup := setup_roundtrip m.setup hok.setupSorted
    have hadjOK : ∀ a, some a ∈ m.adjustments.getD [] → AdjOK a := by
      intro a ha
      cases hx : m.adjustments with
      | none => rw [hx] at ha; simp at ha
      | some l => rw [hx] at ha; exact hok.adjs l hx a ha
    obtain ⟨avs, l', hav, hl1, hl2⟩ := adjustments_roundtripY_sig (m.adjustments.getD []) hadjOK
    have hy : ∀ outline, (∀ k ∈ outline.map (·.1), k ∈ normalKeys Gen.struct_Matrix) →
        outline = [("setup", mSetup m.setup)] ++
          (if (m.adjustments.getD []).isEmpty then [] else [("adjustments", .seq avs)]) →
        yMatrix m = .ok (inlineFriendly outline m.rem) := by
      intro outline hsub ho
      unfold yMatrix
      rw [if_neg hsimp]
      simp only [hav]
      rw [← ho]
      exact yStruct_ok _ _ _ hok.rem hsub
    by_cases hadj : (m.adjustments.getD []).isEmpty = true
    · obtain ⟨U, hU, hsU, hl⟩ := reread_inline [("setup", mSetup m.setup)] m.rem (by simp) hok.rem.sorted hok.rem.noUMap
      have hsub : ∀ k ∈ [("setup", mSetup m.setup)].map (·.1), k ∈ normalKeys Gen.struct_Matrix := by
        simp only [List.map_cons, List.map_nil, List.cons_append, List.nil_append]; decide
      have hrem := rem_roundtrip_af _ aliasFree_matrix _ m.rem hsub hok.rem U hsU hl
      have hnone : (m.rem.getD []).lookup "adjustments" = none := hok.rem.prim' (by decide)
      refine ⟨_, { setup := m.setup, adjustments := none, rem := remMap (remainder U Gen.struct_Matrix) },
        hy _ hsub (by simp only [hadj, if_true, List.append_nil]), ?_, ?_⟩
      · rw [hU]
        simp only [parseMatrix]
        rw [fieldOf_afKey (k := "setup") (by decide), fieldOf_afKey (k := "adjustments") (by decide),
          hl "setup", hl "adjustments"]
        simp [List.lookup, hsetup, hnone]
      · have hnil : m.adjustments.getD [] = [] := by simpa using hadj
        exact matrixField_congr rfl (by rw [hnil]; rfl) (getD_of_normList hrem)
    · have hadj' : (m.adjustments.getD []).isEmpty = false := by simpa using hadj
      obtain ⟨adjs, hadjs⟩ : ∃ adjs, m.adjustments = some adjs := by
        cases hx : m.adjustments with
        | none => rw [hx] at hadj'; simp at hadj'
        | some l => exact ⟨l, rfl⟩
      rw [hadjs, Option.getD_some] at hl2
      obtain ⟨U, hU, hsU, hl⟩ := reread_inline ([("setup", mSetup m.setup)] ++ [("adjustments", .seq avs)])
        m.rem (by simp) hok.rem.sorted hok.rem.noUMap
      have hsub : ∀ k ∈ ([("setup", mSetup m.setup)] ++ [("adjustments", Val.seq avs)]).map (·.1),
          k ∈ normalKeys Gen.struct_Matrix := by
        simp only [List.map_cons, List.map_nil, List.cons_append, List.nil_append]; decide
      have hrem := rem_roundtrip_af _ aliasFree_matrix _ m.rem hsub hok.rem U hsU hl
      refine ⟨_, { setup := m.setup, adjustments := some l', rem := remMap (remainder U Gen.struct_Matrix) },
        hy _ hsub (by simp only [hadj', Bool.false_eq_true, if_false]), ?_, ?_⟩
      · rw [hU]
        simp only [parseMatrix]
        rw [fieldOf_afKey (k := "setup") (by decide), fieldOf_afKey (k := "adjustments") (by decide),
          hl "setup", hl "adjustments"]
        simp [List.lookup, hsetup, rereadJ, parseAdjustments, hl1, Except.map]
      · exact matrixField_congr rfl (by rw [hadjs]; exact hl2) (getD_of_normList hrem)

/-! ## Part C-Y: one command step -/

section CommandY
variable (S : SigScheme) (render : S.Sig → String) (parseSig : String → Option S.Sig)

theorem stableY_attach {c : CommandStep} (r : Record S) (h : StableCommandY c) :
    StableCommandY (attach S render r c) := h

/-- The value `yaml.Marshal` is handed for a command step in the image of the parser. -/
theorem yCommand_ok (c : CommandStep) (hok : CommandOK c) :
    yCommand c = .ok (inlineFriendly (cmdOutlineY c) c.rem) := by
  rw [yCommand_eq c
    (fun m hm => let ⟨v, _, h, _⟩ := matrix_roundtripY m (hok.matrix m hm); ⟨v, h⟩)
    (fun k hk => let ⟨v, _, h, _⟩ := cache_roundtripY k (hok.cache k hk); ⟨v, h⟩)]
  exact yStruct_ok Gen.struct_CommandStep _ c.rem hok.rem
    (fun k hk => cmdOutlineKeys_normal k ((cmdOutlineY_keys c).subset hk))

/-- The re-parse of a YAML-marshalled command step reads its `signature` back with `signed_fields` as a
    non-nil slice, and its `matrix` from the marshalled matrix. -/
theorem reparse_sig_matrixY (c : CommandStep) (hok : CommandOK c) {j : Val} {kvs : Entries} {c' : CommandStep}
    (hj : yCommand c = .ok j) (hU : rereadJ j = .omap kvs) (hp : parseCommand kvs = .ok c') :
    c'.signature = c.signature.map (fun s => { s with signedFields := some (s.signedFields.getD []) }) ∧
      (c.matrix = none → c'.matrix = none) ∧
      ∀ mm, c.matrix = some mm → parseMatrix (rereadJ (mxY mm)) = .ok c'.matrix := by
  rw [yCommand_ok c hok] at hj
  injection hj with hj
  subst hj
  obtain ⟨U, hU', hsU, hl⟩ := reread_inline (cmdOutlineY c) c.rem (cmdOutlineY_nodup c) hok.rem.sorted hok.rem.noUMap
  rw [hU'] at hU
  injection hU with hU
  subst hU
  obtain ⟨_, _, _, _, _, os, om, _⟩ := cmdOutlineY_lookups c
  obtain ⟨hsg, hmx⟩ := parseCommand_sig_matrix hp
  unfold optField at hsg hmx
  rw [fieldOf_afKey (k := "signature") (by decide), lookup_remainder_of_not_claim (by decide), hl, os] at hsg
  rw [fieldOf_afKey (k := "matrix") (by decide), lookup_remainder_of_not_claim (by decide), hl, om] at hmx
  refine ⟨?_, ?_, ?_⟩
  · cases hs : c.signature with
    | none =>
      rw [hs] at hsg
      simp only [Option.map_none, hok.rem.prim' (k := "signature") (by decide), Except.ok.injEq] at hsg
      exact hsg.symm
    | some s =>
      rw [hs] at hsg
      simp only [Option.map_some, signature_roundtripY s, Except.ok.injEq] at hsg
      exact hsg.symm
  · intro hm
    rw [hm] at hmx
    simp only [Option.map_none, hok.rem.prim' (k := "matrix") (by decide), Except.ok.injEq] at hmx
    exact hmx.symm
  · intro mm hm
    rw [hm] at hmx
    simpa only [Option.map_some] using hmx

/-- YAML-leg analogue of `signed_command_core`. -/
theorem signed_command_coreY (hrender : ∀ s, parseSig (render s) = some s)
    (c : CommandStep) (hok : CommandOK c) (hs : StableCommandY c)
    (k : S.Key) (alg repo : String) (penv env₁ : List (String × String)) (henv : EnvExtends penv env₁) :
    ∃ j kvs c', yCommand (attach S render (sign S k alg c repo penv) c) = .ok j ∧
      rereadJ j = .omap kvs ∧ parseCommand kvs = .ok c' ∧
      c'.signature = (attach S render (sign S k alg c repo penv) c).signature ∧
      StepVerifies S parseSig (S.pubOf k) repo env₁ c' ∧
      kvs.lookup "command" = some (.str c.command) ∧
      ∀ k', k' ∉ cmdOutlineKeys → kvs.lookup k' = (c.rem.getD []).lookup k' := by
  obtain ⟨r, hr⟩ : ∃ r, sign S k alg c repo penv = r := ⟨_, rfl⟩
  have hok' := commandOK_attach S render r hok
  obtain ⟨j, kvs, c', hj, hU, hp, hn, hcmd, hoth⟩ :=
    command_roundtripY (attach S render r c) hok' (stableY_attach S render r hs)
  obtain ⟨hsig0, hmx0, hmx1⟩ := reparse_sig_matrixY (attach S render r c) hok' hj hU hp
  have hsig : c'.signature = (attach S render r c).signature := hsig0
  have hsame : SigSame c' (attach S render r c) := by
    have h1 := congrArg CommandStep.command hn
    have h2 := congrArg CommandStep.env hn
    have h3 := congrArg CommandStep.plugins hn
    refine ⟨h1, h2, h3, ?_⟩
    cases hm : c.matrix with
    | none =>
      have hm' : (attach S render r c).matrix = none := hm
      rw [hmx0 hm', hm']
    | some mm =>
      have hm' : (attach S render r c).matrix = some mm := hm
      obtain ⟨v, m', hv, hpm, hfm⟩ := matrix_roundtripY_sig mm (hok.matrix mm hm)
      have hvx : mxY mm = v := by simp only [mxY, hv]
      have := hmx1 mm hm'
      rw [hvx, hpm] at this
      injection this with this
      rw [← this, hm', hfm]
  rw [hr]
  refine ⟨j, kvs, c', hj, hU, hp, hsig, ?_, hcmd, hoth⟩
  obtain ⟨sg, hsg, hrec⟩ := recordOf_attach S render parseSig hrender r c
  refine ⟨sg, r, hsig.trans hsg, hrec, ?_⟩
  rw [verify_of_sigSame S r (S.pubOf k) repo env₁ hsame, verify_attach, ← hr]
  exact Signing.complete S k alg c repo penv env₁ henv.1 henv.2.1 (fun name v hmem _ => henv.2.2 name v hmem)

theorem signed_step_roundtripY (hrender : ∀ s, parseSig (render s) = some s)
    (m : Unm.Entries) (c : CommandStep) (hm : NoUMapKVs m) (hk : (m.map (·.1)).Nodup)
    (h : parseCommand m = .ok c) (hs : StableCommandY c)
    (k : S.Key) (alg repo : String) (penv env₁ : List (String × String)) (henv : EnvExtends penv env₁) :
    ∃ j kvs c', yCommand (attach S render (sign S k alg c repo penv) c) = .ok j ∧
      rereadJ j = .omap kvs ∧ parseCommand kvs = .ok c' ∧
      c'.signature = (attach S render (sign S k alg c repo penv) c).signature ∧
      StepVerifies S parseSig (S.pubOf k) repo env₁ c' :=
  let ⟨j, kvs, c', h0, h1, h2, h3, h4, _⟩ :=
    signed_command_coreY S render parseSig hrender c (parseCommand_inv hm h) hs k alg repo penv env₁ henv
  ⟨j, kvs, c', h0, h1, h2, h3, h4⟩

end CommandY

/-! ## Part D-Y: step trees and the pipeline -/

section TreesY
variable (S : SigScheme) (render : S.Sig → String) (parseSig : String → Option S.Sig)
variable (k : S.Key) (alg repo : String) (penv env₁ : List (String × String))

/-- The statement of `signed_steps_roundtripY` at one fuel level (the induction hypothesis). -/
def SignedRTY (f : Nat) : Prop :=
  ∀ (x : Val) (s : Step) (w : List Warn), NoUMap x → KeysNodup x → parseStep f x = .ok (s, w) → StableStepY s →
    ∀ signed, signStep S render k alg repo penv s = .ok signed →
    ∃ j s' w', yStep signed = .ok j ∧ parseStep f (rereadJ j) = .ok (s', w') ∧
      VerifiesAll S parseSig (S.pubOf k) repo env₁ s' ∧ w' = w

theorem signed_list_ofY (f : Nat) (ih : SignedRTY S render parseSig k alg repo penv env₁ f) :
    (xs : List Val) → (ss : List Step) → (ws : List Warn) →
    NoUMapList xs → KeysNodupList xs → parseSteps f xs = .ok (ss, ws) → StableStepsY ss →
    (l' : List Step) → signSteps S render k alg repo penv ss = .ok l' →
    ∃ js ss', ySteps l' = .ok js ∧ parseSteps f (rereadJList js) = .ok (ss', ws) ∧
      VerifiesAllList S parseSig (S.pubOf k) repo env₁ ss'
  | [], ss, ws, _, _, h, _, l', hl' => by
    rw [parseSteps.eq_1] at h
    simp only [Except.ok.injEq, Prod.mk.injEq] at h
    obtain ⟨rfl, rfl⟩ := h
    rw [Signing.signSteps_nil] at hl'
    injection hl' with hl'
    subst hl'
    exact ⟨[], [], rfl, by rw [rereadJList, parseSteps.eq_1], by rw [verifiesAllList_nil]; trivial⟩
  | v :: r, ss, ws, hx, hd, h, hs, l', hl' => by
    obtain ⟨s, w, ss', ws', hs1, hss, rfl, rfl⟩ := parseSteps_cons_ok h
    rw [NoUMapList] at hx
    rw [KeysNodupList] at hd
    rw [StableStepsY] at hs
    obtain ⟨s₁, r₁, hs₁, hr₁, rfl⟩ := (Signing.signSteps_cons_ok S render).1 hl'
    obtain ⟨j, s1, w1, hj, hp, hv, rfl⟩ := ih v s w hx.1 hd.1 hs1 hs.1 s₁ hs₁
    obtain ⟨js, ss1, hjs, hps, hvs⟩ := signed_list_ofY f ih r ss' ws' hx.2 hd.2 hss hs.2 r₁ hr₁
    refine ⟨j :: js, s1 :: ss1, ?_, ?_, ?_⟩
    · rw [ySteps_cons, hj, hjs]
    · rw [rereadJList, parseSteps.eq_2, hp, hps]
    · rw [verifiesAllList_cons]; exact ⟨hv, hvs⟩

theorem signed_allY (hrender : ∀ s, parseSig (render s) = some s) (henv : EnvExtends penv env₁) :
    ∀ f, SignedRTY S render parseSig k alg repo penv env₁ f
  | 0 => by
    intro x s w _ _ h
    rw [parseStep.eq_1] at h; cases h
  | f + 1 => by
    have ih := signed_allY hrender henv f
    intro x s w hx hd h hs signed hsign
    rcases parseStep_inv h with ⟨m, c, rfl, hsel, hc, rfl, rfl⟩ | ⟨m, rfl, hsel, hg, rfl⟩ | ht | ⟨v, rfl⟩
    · -- command step
      have hm : NoUMapKVs m := by simpa [NoUMap] using hx
      have hn : (m.map (·.1)).Nodup := by rw [KeysNodup] at hd; exact hd.1
      rw [StableStepY] at hs
      rw [Signing.signStep_command] at hsign
      injection hsign with hsign
      subst hsign
      obtain ⟨j, U, c', hj, hU, hp, _, hv, hUc, hUo⟩ :=
        signed_command_coreY S render parseSig hrender c (parseCommand_inv hm hc) hs k alg repo penv env₁ henv
      have hselU : selOf U = .ok (.known .command) := by
        apply selOf_command_of _ (by rw [hUc]; rfl) hsel
        rw [hUo "type" (by decide), command_rem_lookup hc hn (by decide) (by decide)]
      refine ⟨j, .command c', [], by rw [yStep_command]; exact hj, ?_, ?_, rfl⟩
      · rw [hU, parseStep.eq_3, hselU]
        simp only [hp]
      · rw [verifiesAll_command]; exact hv
    · -- group step
      have hm : NoUMapKVs m := by simpa [NoUMap] using hx
      have hn : (m.map (·.1)).Nodup := by rw [KeysNodup] at hd; exact hd.1
      have hkk : KeysNodupKVs m := by rw [KeysNodup] at hd; exact hd.2
      obtain ⟨key, grp, ss, rfl, hsteps⟩ := parseGroup_ok hg
      rw [Signing.signStep_group_some, Roundtrip.map_ok_iff] at hsign
      obtain ⟨l', hl', rfl⟩ := hsign
      have hR : RemOK Gen.struct_GroupStep (remMap (remainder m Gen.struct_GroupStep)) := remOK_remMap m _ hm
      simp only [StableStepY] at hs
      obtain ⟨hss, _, _, hkey⟩ := hs
      have hsub : ∃ js ss', ySteps l' = .ok js ∧ parseSteps f (rereadJList js) = .ok (ss', []) ∧
          VerifiesAllList S parseSig (S.pubOf k) repo env₁ ss' := by
        rcases hsteps with ⟨_, rfl⟩ | ⟨xs, hl, hps⟩
        · rw [Signing.signSteps_nil] at hl'
          injection hl' with hl'
          subst hl'
          exact ⟨[], [], rfl, by rw [rereadJList, parseSteps.eq_1], by rw [verifiesAllList_nil]; trivial⟩
        · have h1 : NoUMap (.seq xs) := noUMap_of_lookup hm hl
          have h2 : KeysNodup (.seq xs) := keysNodup_of_lookup hkk hl
          exact signed_list_ofY S render parseSig k alg repo penv env₁ f ih xs ss [] (by simpa [NoUMap] using h1)
            (by simpa [KeysNodup] using h2) hps hss l' hl'
      obtain ⟨js, ss', hjs, hps, hv⟩ := hsub
      obtain ⟨U, hU, hpg, hUg, hUo⟩ := group_reparse f key grp _ hR hkey js ss' hps
      have hselU : selOf U = .ok (.known .group) := selOf_group_of hn hsel hUg hUo
      refine ⟨_, .group key grp (some ss') (remMap (remainder U Gen.struct_GroupStep)), [],
        yStep_group_eq key grp l' _ js hR hjs, ?_, ?_, rfl⟩
      · rw [hU, parseStep.eq_3, hselU]
        simp only [hpg]
      · rw [verifiesAll_group_some]; exact hv
    · -- wait / input / trigger: signing leaves the step alone
      rw [signStep_trivial S render k alg repo penv ht] at hsign
      injection hsign with hsign
      subst hsign
      obtain ⟨j, s', w', h1, h2, h3, h4⟩ := step_roundtripY_all (f + 1) x s w hx hd h hs
      exact ⟨j, s', w', h1, h2, verifiesAll_of_norm_trivial S parseSig _ _ _ ht h3, h4⟩
    · -- unknown step: signing refuses
      rw [Signing.signStep_unknown] at hsign
      cases hsign

theorem signed_steps_roundtripY (hrender : ∀ s, parseSig (render s) = some s)
    (f : Nat) (x : Val) (s : Step) (w : List Warn) (hx : NoUMap x) (hd : KeysNodup x)
    (h : parseStep f x = .ok (s, w)) (hs : StableStepY s)
    (k : S.Key) (alg repo : String) (penv env₁ : List (String × String)) (henv : EnvExtends penv env₁)
    (signed : Step) (hsign : signStep S render k alg repo penv s = .ok signed) :
    ∃ j s' w', yStep signed = .ok j ∧ parseStep f (rereadJ j) = .ok (s', w') ∧
      VerifiesAll S parseSig (S.pubOf k) repo env₁ s' :=
  let ⟨j, s', w', h1, h2, h3, _⟩ :=
    signed_allY S render parseSig k alg repo penv env₁ hrender henv f x s w hx hd h hs signed hsign
  ⟨j, s', w', h1, h2, h3⟩

/-- The pipeline, with the re-parsed env block identified: yaml.v3 omits a nil or empty block, so the
    re-parsed pipeline has `env = normList p.env`. -/
theorem signed_pipeline_coreY (hrender : ∀ s, parseSig (render s) = some s)
    (v : Val) (p : Pipeline) (ws : List Warn) (hv : NoUMap v) (hd : KeysNodup v)
    (h : parsePipeline v = .ok (p, ws)) (hs : StablePipelineY p)
    (k : S.Key) (alg repo : String) (env₁ : List (String × String))
    (henv : EnvExtends (p.env.getD []) env₁)
    (signed : List Step) (hsign : signSteps S render k alg repo (p.env.getD []) (p.steps.getD []) = .ok signed) :
    ∃ j p' ws', yPipeline { p with steps := some signed } = .ok j ∧
      parsePipeline (rereadJ j) = .ok (p', ws') ∧ p'.env = normList p.env ∧
      VerifiesAllList S parseSig (S.pubOf k) repo env₁ (p'.steps.getD []) := by
  obtain ⟨xs, l, ws1, hl, hx1, hx2, hps, hR⟩ := parsePipeline_inv hv hd h
  rw [hl, Option.getD_some] at hsign
  obtain ⟨js, ss', hjs, hps', hvs⟩ := signed_list_ofY S render parseSig k alg repo (p.env.getD []) env₁ stepFuel
    (signed_allY S render parseSig k alg repo (p.env.getD []) env₁ hrender henv stepFuel) xs l ws1 hx1 hx2 hps
    (hs.1 l hl) signed hsign
  have hnd : ((pipeOutline js (normList p.env)).map (·.1)).Nodup :=
    List.Nodup.sublist (pipeOutline_keys js (normList p.env)) (by decide)
  have hsubK : ∀ k ∈ (pipeOutline js (normList p.env)).map (·.1), k ∈ normalKeys Gen.struct_Pipeline := by
    intro k hk
    have : ∀ k ∈ ["steps", "env"], k ∈ normalKeys Gen.struct_Pipeline := by decide
    exact this k ((pipeOutline_keys js (normList p.env)).subset hk)
  obtain ⟨U, hU, hsU, hlk⟩ := reread_inline (pipeOutline js (normList p.env)) p.rem hnd hR.sorted hR.noUMap
  have hUs : U.lookup "steps" = some (.seq (rereadJList js)) := by
    rw [hlk]; simp [pipeOutline, List.lookup_append, Roundtrip.lookup_cons_if, rereadJ]
  have hUe : U.lookup "env" = (normList p.env).map fun e => rereadJ (envOV e) := by
    rw [hlk]
    simp only [pipeOutline, List.lookup_append, Roundtrip.lookup_cons_if, lookup_optO, List.lookup_nil]
    cases normList p.env with
    | none => simp [hR.prim' (k := "env") (by decide)]
    | some e => simp
  have henv' : optField (taken U Gen.struct_Pipeline) "Env" none parseEnvOrdered = .ok (normList p.env) := by
    unfold optField
    rw [fieldOf_afKey (k := "env") (by decide), hUe]
    cases normList p.env with
    | none => rfl
    | some e => exact pipeline_env_roundtrip e
  refine ⟨inlineFriendly (pipeOutline js (normList p.env)) p.rem,
    { steps := some ss', env := normList p.env, rem := remMap (remainder U Gen.struct_Pipeline) }, ws1, ?_, ?_, rfl, ?_⟩
  · rw [yPipeline_eq { p with steps := some signed } signed js rfl hjs]
    exact yStruct_ok Gen.struct_Pipeline _ p.rem hR hsubK
  · rw [hU]
    unfold parsePipeline
    simp only [fieldOf_pipeline_steps, hUs, hps', Except.map, henv']
  · exact hvs

theorem signed_pipeline_roundtripY (hrender : ∀ s, parseSig (render s) = some s)
    (v : Val) (p : Pipeline) (ws : List Warn) (hv : NoUMap v) (hd : KeysNodup v)
    (h : parsePipeline v = .ok (p, ws)) (hs : StablePipelineY p)
    (k : S.Key) (alg repo : String) (env₁ : List (String × String))
    (henv : EnvExtends (p.env.getD []) env₁)
    (signed : List Step) (hsign : signSteps S render k alg repo (p.env.getD []) (p.steps.getD []) = .ok signed) :
    ∃ j p' ws', yPipeline { p with steps := some signed } = .ok j ∧
      parsePipeline (rereadJ j) = .ok (p', ws') ∧
      VerifiesAllList S parseSig (S.pubOf k) repo env₁ (p'.steps.getD []) :=
  let ⟨j, p', ws', h1, h2, _, h4⟩ :=
    signed_pipeline_coreY S render parseSig hrender v p ws hv hd h hs k alg repo env₁ henv signed hsign
  ⟨j, p', ws', h1, h2, h4⟩

/-- The verification env may be the env block of the re-parsed pipeline itself: it has the same entries
    (`getD []`: an empty non-nil block is omitted by yaml.v3 and comes back as nil). -/
theorem reparsed_yaml_env_extends (hrender : ∀ s, parseSig (render s) = some s)
    (v : Val) (p : Pipeline) (ws : List Warn) (hv : NoUMap v) (hd : KeysNodup v)
    (h : parsePipeline v = .ok (p, ws)) (hs : StablePipelineY p)
    (k : S.Key) (alg repo : String)
    (henv : EnvExtends (p.env.getD []) (p.env.getD []))
    (signed : List Step) (hsign : signSteps S render k alg repo (p.env.getD []) (p.steps.getD []) = .ok signed) :
    ∃ j p' ws', yPipeline { p with steps := some signed } = .ok j ∧
      parsePipeline (rereadJ j) = .ok (p', ws') ∧ p'.env.getD [] = p.env.getD [] ∧
      VerifiesAllList S parseSig (S.pubOf k) repo (p'.env.getD []) (p'.steps.getD []) := by
  obtain ⟨j, p', ws', h1, h2, h3, h4⟩ :=
    signed_pipeline_coreY S render parseSig hrender v p ws hv hd h hs k alg repo (p.env.getD []) henv signed hsign
  have he : p'.env.getD [] = p.env.getD [] := by rw [h3, getD_normList]
  exact ⟨j, p', ws', h1, h2, he, by rw [he]; exact h4⟩

/-! ### The hypothesis `EnvExtends (p.env.getD []) (p.env.getD [])` follows from `KeysNodup v` and the parse

  The env block of a parsed pipeline is read in document order from an ordered mapping (`parseEnvOrdered`),
  whose keys are pairwise distinct by `KeysNodup`; on a list with distinct keys every entry is found by
  `lookup`.  `reparsed_yaml_env_extends'` is `reparsed_yaml_env_extends` without the hypothesis. -/

theorem ssElems_keys : (kvs : List (String × Val)) → (e : List (String × String)) → ssElems kvs = .ok e →
    e.map (·.1) = kvs.map (·.1)
  | [], e, h => by
    simp only [ssElems, Except.ok.injEq] at h
    subst h; rfl
  | (k, v) :: r, e, h => by
    rw [ssElems] at h
    split at h
    · cases h
    · rename_i s _
      cases hr : ssElems r with
      | error x => rw [hr] at h; cases h
      | ok e' =>
        rw [hr] at h
        simp only [Except.map, Except.ok.injEq] at h
        subst h
        simp only [List.map_cons, ssElems_keys r e' hr]

theorem envExtends_self {l : List (String × String)} (h : (l.map (·.1)).Nodup) : EnvExtends l l :=
  ⟨h, h, fun _ _ hm => Signing.lookup_of_mem_nodup h hm⟩

theorem parsePipeline_env_nodup {v : Val} {p : Pipeline} {ws : List Warn} (hd : KeysNodup v)
    (h : parsePipeline v = .ok (p, ws)) : ((p.env.getD []).map (·.1)).Nodup := by
  unfold parsePipeline at h
  simp only [fieldOf_pipeline_steps] at h
  split at h
  · rename_i m
    have hkk : KeysNodupKVs m := by rw [KeysNodup] at hd; exact hd.2
    split at h
    · cases h
    · rename_i steps ws1 hst
      split at h
      · cases h
      · rename_i env henv
        have hpe : p.env = env := by
          cases steps <;> (simp only [Except.ok.injEq, Prod.mk.injEq] at h; obtain ⟨rfl, _⟩ := h; rfl)
        rw [hpe]
        unfold optField at henv
        rw [fieldOf_afKey (k := "env") (by decide)] at henv
        cases hl : m.lookup "env" with
        | none =>
          rw [hl] at henv
          simp only [Except.ok.injEq] at henv
          subst henv
          exact List.nodup_nil
        | some ev =>
          rw [hl] at henv
          simp only at henv
          have hk := keysNodup_of_lookup hkk hl
          cases ev with
          | null =>
            simp only [parseEnvOrdered, Except.ok.injEq] at henv
            subst henv
            exact List.nodup_nil
          | omap kvs =>
            simp only [parseEnvOrdered] at henv
            cases hr : ssElems kvs with
            | error x => rw [hr] at henv; cases henv
            | ok e =>
              rw [hr] at henv
              simp only [Except.map, Except.ok.injEq] at henv
              subst henv
              rw [KeysNodup] at hk
              rw [Option.getD_some, ssElems_keys kvs e hr]
              exact hk.1
          | _ => simp only [parseEnvOrdered] at henv; cases henv
  · split at h
    · cases h
    · simp only [Except.ok.injEq, Prod.mk.injEq] at h
      obtain ⟨rfl, _⟩ := h
      exact List.nodup_nil
  · cases h

theorem parsePipeline_envExtends_self {v : Val} {p : Pipeline} {ws : List Warn} (hd : KeysNodup v)
    (h : parsePipeline v = .ok (p, ws)) : EnvExtends (p.env.getD []) (p.env.getD []) :=
  envExtends_self (parsePipeline_env_nodup hd h)

/-- `reparsed_yaml_env_extends` with its `henv` hypothesis discharged. -/
theorem reparsed_yaml_env_extends' (hrender : ∀ s, parseSig (render s) = some s)
    (v : Val) (p : Pipeline) (ws : List Warn) (hv : NoUMap v) (hd : KeysNodup v)
    (h : parsePipeline v = .ok (p, ws)) (hs : StablePipelineY p)
    (k : S.Key) (alg repo : String)
    (signed : List Step) (hsign : signSteps S render k alg repo (p.env.getD []) (p.steps.getD []) = .ok signed) :
    ∃ j p' ws', yPipeline { p with steps := some signed } = .ok j ∧
      parsePipeline (rereadJ j) = .ok (p', ws') ∧ p'.env.getD [] = p.env.getD [] ∧
      VerifiesAllList S parseSig (S.pubOf k) repo (p'.env.getD []) (p'.steps.getD []) :=
  reparsed_yaml_env_extends S render parseSig hrender v p ws hv hd h hs k alg repo
    (parsePipeline_envExtends_self hd h) signed hsign

end TreesY

end GoPipeline.SignedRT
