/-
  C02 — signed steps still verify after serialisation and re-parse: lemmas.

  Architecture.
  * Part A: what the signed payload sees of a step.  `SigSame c' c` (same command, env / plugins equal in
    normal form, same `matrixField`) implies the same `fieldValue` for every field name and the same
    shadowing set, hence the same `verify` verdict (`verify_of_sigSame`).  `normCommand c' = normCommand c`
    gives `SigSame` when neither matrix holds an empty-but-non-nil inner container
    (`MatrixInnerNonEmpty`; without it the claim is false: `"setup":{}` vs `"setup":null`).
  * Part B: the matrix comes back from the JSON round trip with the very same marshalled form
    (`matrix_roundtrip_sig`): the C09 lemma `matrix_roundtrip_ok` only states equality of normal forms,
    which is too coarse for the payload, so the three matrix lemmas are re-proved here with the sharper
    conclusion (same proofs, `Lemmas/Roundtrip.lean` is not modified).
  * Part C: one command step.  `command_roundtrip_ok` (C09) depends on the typed step only through
    `CommandOK` / `StableCommand`, neither of which mentions the `signature` field, so it applies to the
    signed step `attach … c` directly; the re-parsed matrix is then identified by determinism of the parser.
  * Part D: step trees (induction on the parser's fuel, as for `step_roundtrip`) and the pipeline.

  `Lemmas/Signing.lean` and `Lemmas/Roundtrip.lean` can be imported together, but both declare generic
  association-list facts under their own namespaces (`lookup_cons_if`, `SortedK`, `map_ok_iff`, …); the
  clashing names are used qualified here.
-/
import GoPipeline.Model.SignedRoundtrip
import GoPipeline.Lemmas.Signing
import GoPipeline.Lemmas.Roundtrip
set_option linter.unusedSimpArgs false
set_option linter.unusedVariables false
namespace GoPipeline.SignedRT
open GoPipeline GoPipeline.Pipe GoPipeline.Parse GoPipeline.Marshal GoPipeline.Signing GoPipeline.Roundtrip
  GoPipeline.Unm

/-! ## Part A: the payload sees the normal form only -/

theorem getD_normList {α : Type} (x : Option (List α)) : (normList x).getD [] = x.getD [] := by
  cases x with
  | none => rfl
  | some l => cases l <;> rfl

theorem getD_of_normList {α : Type} {x y : Option (List α)} (h : normList x = normList y) : x.getD [] = y.getD [] := by
  rw [← getD_normList x, h, getD_normList]

theorem envField_normList (e : UMap String) : envField (normList e) = envField e := by
  cases e with
  | none => rfl
  | some l => cases l <;> rfl

theorem mPlugin_normPlugin (p : Plugin) : mPlugin (normPlugin p) = mPlugin p := by
  obtain ⟨src, cfg⟩ := p
  simp only [mPlugin, normPlugin, fullSource_idem src]
  cases cfg with
  | umap kvs => cases kvs <;> rfl
  | seq xs => cases xs <;> rfl
  | _ => rfl

theorem mPluginOpt_norm (p : Option Plugin) : mPluginOpt (p.map normPlugin) = mPluginOpt p := by
  cases p with
  | none => rfl
  | some q => exact mPlugin_normPlugin q

theorem pluginsField_norm (p : Option (List (Option Plugin))) :
    pluginsField (normList (p.map fun l => l.map fun q => q.map normPlugin)) = pluginsField p := by
  cases p with
  | none => rfl
  | some l =>
    cases l with
    | nil => rfl
    | cons a t =>
      simp only [Option.map_some, List.map_cons, normList, pluginsField, mPlugins_eq, List.map_map]
      congr 1
      rw [mPluginOpt_norm a]
      congr 1
      apply List.map_congr_left
      intro b _
      exact mPluginOpt_norm b

/-- What the signed payload and the shadowing rule see of a step. -/
structure SigSame (c' c : CommandStep) : Prop where
  command : c'.command = c.command
  env : normList c'.env = normList c.env
  plugins : normList (c'.plugins.map fun l => l.map fun q => q.map normPlugin) =
    normList (c.plugins.map fun l => l.map fun q => q.map normPlugin)
  matrix : matrixField c'.matrix = matrixField c.matrix

theorem fieldValue_of_sigSame {c' c : CommandStep} (h : SigSame c' c) (repo f : String) :
    fieldValue c' repo f = fieldValue c repo f := by
  rw [fieldValue_eq, fieldValue_eq, h.command, h.matrix, ← envField_normList c'.env, h.env, envField_normList,
    ← pluginsField_norm c'.plugins, h.plugins, pluginsField_norm]

theorem go_congr {c' c : CommandStep} {repo : String} (h : ∀ f, fieldValue c' repo f = fieldValue c repo f) :
    (fields : List String) → (acc : List (String × Val)) →
    valuesForFields.go c' repo fields acc = valuesForFields.go c repo fields acc
  | [], _ => rfl
  | g :: r, acc => by
    unfold valuesForFields.go
    rw [h g]
    cases fieldValue c repo g with
    | some v => exact go_congr h r _
    | none =>
      simp only
      rw [go_congr h r acc]

theorem valuesForFields_congr {c' c : CommandStep} {repo : String}
    (h : ∀ f, fieldValue c' repo f = fieldValue c repo f) (fields : List String) :
    valuesForFields c' repo fields = valuesForFields c repo fields := by
  unfold valuesForFields
  rw [go_congr h fields []]

theorem objEnvNames_congr {c' c : CommandStep} (h : c'.env.getD [] = c.env.getD []) (values : List (String × Val)) :
    objEnvNames values c' = objEnvNames values c := by
  unfold objEnvNames
  rw [h]

/-- `verify` uses the presented step only through the field values and the step's env names. -/
theorem verify_congr (S : SigScheme) (r : Record S) (pub : S.Pub) {c' c : CommandStep} (repo : String)
    (env : List (String × String)) (hf : ∀ f, fieldValue c' repo f = fieldValue c repo f)
    (he : c'.env.getD [] = c.env.getD []) : verify S r pub c' repo env = verify S r pub c repo env := by
  have hp : verifyPayload S r c' repo env = verifyPayload S r c repo env := by
    unfold verifyPayload
    rw [valuesForFields_congr hf]
    simp only [objEnvNames_congr he]
  unfold verify
  rw [hp]

theorem verify_of_sigSame (S : SigScheme) (r : Record S) (pub : S.Pub) {c' c : CommandStep} (repo : String)
    (env : List (String × String)) (h : SigSame c' c) : verify S r pub c' repo env = verify S r pub c repo env :=
  verify_congr S r pub repo env (fieldValue_of_sigSame h repo) (getD_of_normList h.env)

/-- `verify` does not look at the `signature` field of the presented step. -/
theorem verify_attach (S : SigScheme) (render : S.Sig → String) (r₀ r : Record S) (pub : S.Pub) (c : CommandStep)
    (repo : String) (env : List (String × String)) :
    verify S r pub (attach S render r₀ c) repo env = verify S r pub c repo env :=
  verify_congr S r pub repo env (fun f => by rw [fieldValue_eq, fieldValue_eq]; rfl) rfl

/-! ### Marshalled matrix: what it depends on -/

theorem lenUMap_getD {α : Type} (x : UMap α) : lenUMap x = (x.getD []).length := by
  cases x <;> rfl

theorem isEmpty_of_map_eq {α β : Type} {f : α → β} {l' l : List α} (h : l'.map f = l.map f) :
    l'.isEmpty = l.isEmpty := by
  have := congrArg List.length h
  simp only [List.length_map] at this
  cases l' <;> cases l <;> simp_all

theorem mAdjustment_congr {a' a : Adjustment} (h1 : a'.with_ = a.with_) (h2 : a'.skip = a.skip)
    (h3 : a'.rem.getD [] = a.rem.getD []) : mAdjustment a' = mAdjustment a := by
  simp only [mAdjustment, inlineFriendly, h1, h2, h3]

theorem matrixField_congr {m' m : Matrix} (h1 : m'.setup = m.setup)
    (h2 : (m'.adjustments.getD []).map mAdjOpt = (m.adjustments.getD []).map mAdjOpt)
    (h3 : m'.rem.getD [] = m.rem.getD []) : matrixField (some m') = matrixField (some m) := by
  have he := isEmpty_of_map_eq h2
  simp only [matrixField, matrixIsEmpty, mMatrix_eq, isSimple, lenUMap_getD m'.rem, lenUMap_getD m.rem, h1, h2, h3, he,
    inlineFriendly]

/-! ### Same normal form, no empty inner containers ⇒ same marshalled matrix -/

theorem normList_of_ne {α : Type} {x : Option (List α)} (h : x ≠ some []) : normList x = x := by
  cases x with
  | none => rfl
  | some l =>
    cases l with
    | nil => exact absurd rfl h
    | cons a t => rfl

theorem map_ne_some_nil {α β : Type} {x : Option (List α)} (g : α → β) (h : x ≠ some []) :
    (x.map fun l => l.map g) ≠ some [] := by
  cases x with
  | none => simp
  | some l =>
    cases l with
    | nil => exact absurd rfl h
    | cons a t => simp

theorem getD_map_map {α β : Type} (x : Option (List α)) (g : α → β) :
    (x.map fun l => l.map g).getD [] = (x.getD []).map g := by
  cases x <;> rfl

theorem map_eq_map_of {α β γ : Type} (f : α → β) (g : α → γ) (P : α → Prop)
    (hfg : ∀ a' a, P a' → P a → f a' = f a → g a' = g a) :
    (l' l : List α) → (∀ a ∈ l', P a) → (∀ a ∈ l, P a) → l'.map f = l.map f → l'.map g = l.map g
  | [], [], _, _, _ => rfl
  | [], _ :: _, _, _, h => by simp at h
  | _ :: _, [], _, _, h => by simp at h
  | a' :: t', a :: t, h', h, e => by
    simp only [List.map_cons, List.cons.injEq] at e ⊢
    exact ⟨hfg a' a (h' a' List.mem_cons_self) (h a List.mem_cons_self) e.1,
      map_eq_map_of f g P hfg t' t (fun b hb => h' b (List.mem_cons_of_mem _ hb))
        (fun b hb => h b (List.mem_cons_of_mem _ hb)) e.2⟩

theorem matrixField_of_norm {m' m : Matrix} (h : normMatrix m' = normMatrix m)
    (ht' : m'.setup ≠ some [] ∧ (∀ kv ∈ m'.setup.getD [], kv.2 ≠ some []) ∧
      (∀ a, some a ∈ m'.adjustments.getD [] → a.with_ ≠ some []))
    (ht : m.setup ≠ some [] ∧ (∀ kv ∈ m.setup.getD [], kv.2 ≠ some []) ∧
      (∀ a, some a ∈ m.adjustments.getD [] → a.with_ ≠ some [])) :
    matrixField (some m') = matrixField (some m) := by
  have hs := congrArg Matrix.setup h
  have ha := congrArg Matrix.adjustments h
  have hr := congrArg Matrix.rem h
  simp only [normMatrix] at hs ha hr
  apply matrixField_congr
  · -- setup
    rw [normList_of_ne (map_ne_some_nil _ ht'.1), normList_of_ne (map_ne_some_nil _ ht.1)] at hs
    have hg := congrArg (fun x => x.getD []) hs
    simp only [getD_map_map] at hg
    have hid := map_eq_map_of (fun (kv : String × Option (List String)) => (kv.1, normList kv.2)) id
      (fun kv => kv.2 ≠ some [])
      (fun a' a h1 h2 e => by
        obtain ⟨k', v'⟩ := a'
        obtain ⟨k, v⟩ := a
        simp only [normList_of_ne h1, normList_of_ne h2] at e
        exact e)
      _ _ ht'.2.1 ht.2.1 hg
    simp only [List.map_id] at hid
    cases hs' : m'.setup with
    | none =>
      cases hs0 : m.setup with
      | none => rfl
      | some l => rw [hs', hs0] at hs; simp at hs
    | some l' =>
      cases hs0 : m.setup with
      | none => rw [hs', hs0] at hs; simp at hs
      | some l => rw [hs', hs0] at hid; simp only [Option.getD_some] at hid; rw [hid]
  · -- adjustments
    have hg := getD_of_normList ha
    simp only [getD_map_map] at hg
    refine map_eq_map_of (fun a => Option.map normAdjustment a) mAdjOpt
      (fun x => ∀ a, x = some a → a.with_ ≠ some []) ?_ _ _
      (fun x hx a e => ht'.2.2 a (e ▸ hx)) (fun x hx a e => ht.2.2 a (e ▸ hx)) hg
    intro x' x h1 h2 e
    cases x' with
    | none =>
      cases x with
      | none => rfl
      | some a => simp at e
    | some a' =>
      cases x with
      | none => simp at e
      | some a =>
        simp only [Option.map_some, Option.some.injEq] at e
        have hw := congrArg Adjustment.with_ e
        have hk := congrArg Adjustment.skip e
        have hrm := congrArg Adjustment.rem e
        simp only [normAdjustment] at hw hk hrm
        rw [normList_of_ne (h1 a' rfl), normList_of_ne (h2 a rfl)] at hw
        exact mAdjustment_congr hw hk (getD_of_normList hrm)
  · exact getD_of_normList hr

theorem sigSame_of_norm {c' c : CommandStep} (h : normCommand c' = normCommand c)
    (ht' : MatrixInnerNonEmpty c') (ht : MatrixInnerNonEmpty c) : SigSame c' c := by
  have h1 := congrArg CommandStep.command h
  have h2 := congrArg CommandStep.env h
  have h3 := congrArg CommandStep.plugins h
  refine ⟨h1, h2, h3, ?_⟩
  have hm := congrArg CommandStep.matrix h
  simp only [normCommand] at hm
  cases hm' : c'.matrix with
  | none =>
    cases hm0 : c.matrix with
    | none => rfl
    | some m => rw [hm', hm0] at hm; simp at hm
  | some m' =>
    cases hm0 : c.matrix with
    | none => rw [hm', hm0] at hm; simp at hm
    | some m =>
      rw [hm', hm0] at hm
      simp only [Option.map_some, Option.some.injEq] at hm
      exact matrixField_of_norm hm (ht' m' hm') (ht m hm0)

theorem fieldValue_norm (c c' : CommandStep) (repo f : String) (h : normCommand c' = normCommand c)
    (ht : MatrixInnerNonEmpty c) (ht' : MatrixInnerNonEmpty c') : fieldValue c' repo f = fieldValue c repo f :=
  fieldValue_of_sigSame (sigSame_of_norm h ht' ht) repo f

theorem verify_norm (S : SigScheme) (r : Record S) (pub : S.Pub) (c c' : CommandStep) (repo : String)
    (env : List (String × String)) (h : normCommand c' = normCommand c)
    (ht : MatrixInnerNonEmpty c) (ht' : MatrixInnerNonEmpty c') :
    verify S r pub c' repo env = verify S r pub c repo env :=
  verify_of_sigSame S r pub repo env (sigSame_of_norm h ht' ht)

/-! ## Part B: the matrix comes back with the same marshalled form

  Same proofs as `adjustment_roundtrip`, `adjustments_roundtrip`, `matrix_roundtrip_ok` of
  `Lemmas/Roundtrip.lean`, whose conclusions (`normAdjustment a' = normAdjustment a`, …) forget that `with`
  and `setup` come back exactly. -/

theorem adjustment_roundtrip_sig (a : Adjustment) (hok : AdjOK a) (hst : StableAdjustment a) :
    ∃ U a', rereadJ (mAdjustment a) = .omap U ∧ parseAdjustment U = .ok a' ∧ mAdjustment a' = mAdjustment a := by
  have hw := with_roundtrip a.with_ hok.withSorted
  have hma : mAdjustment a = inlineFriendly ([("with", mWith a.with_)] ++ (if isEmptyAny a.skip then [] else [("skip", a.skip)])) a.rem := rfl
  rw [hma]
  by_cases he : isEmptyAny a.skip = true
  · have hnull := emptyish_null hst.1 he
    simp only [he, if_true, List.append_nil]
    obtain ⟨U, hU, hsU, hl⟩ := reread_inline [("with", mWith a.with_)] a.rem (by simp) hok.rem.sorted hok.rem.noUMap
    have hrem := rem_roundtrip_af _ aliasFree_adj _ a.rem (by simp only [List.map_cons, List.map_nil, List.cons_append, List.nil_append]; decide) hok.rem U hsU hl
    refine ⟨U, { with_ := a.with_, skip := a.skip, rem := remMap (remainder U Gen.struct_MatrixAdjustment) }, hU, ?_, ?_⟩
    · simp only [parseAdjustment]
      rw [fieldOf_afKey (k := "with") (by decide), fieldOf_afKey (k := "skip") (by decide), hl "with", hl "skip"]
      have : (a.rem.getD []).lookup "skip" = none := hok.rem.prim' (by decide)
      simp [List.lookup, hw, this, hnull]
    · have := mAdjustment_congr (a' := { with_ := a.with_, skip := a.skip, rem := remMap (remainder U Gen.struct_MatrixAdjustment) })
        (a := a) rfl rfl (getD_of_normList hrem)
      rw [this, hma]
      simp only [he, if_true, List.append_nil]
  · have he' : isEmptyAny a.skip = false := by simpa using he
    simp only [he', Bool.false_eq_true, if_false]
    obtain ⟨U, hU, hsU, hl⟩ := reread_inline ([("with", mWith a.with_)] ++ [("skip", a.skip)]) a.rem (by simp)
      hok.rem.sorted hok.rem.noUMap
    have hrem := rem_roundtrip_af _ aliasFree_adj _ a.rem (by simp only [List.map_cons, List.map_nil, List.cons_append, List.nil_append]; decide) hok.rem U hsU hl
    refine ⟨U, { with_ := a.with_, skip := a.skip, rem := remMap (remainder U Gen.struct_MatrixAdjustment) }, hU, ?_, ?_⟩
    · simp only [parseAdjustment]
      rw [fieldOf_afKey (k := "with") (by decide), fieldOf_afKey (k := "skip") (by decide), hl "with", hl "skip"]
      simp [List.lookup, hw, reread_noUMap _ hok.skip]
    · have := mAdjustment_congr (a' := { with_ := a.with_, skip := a.skip, rem := remMap (remainder U Gen.struct_MatrixAdjustment) })
        (a := a) rfl rfl (getD_of_normList hrem)
      rw [this, hma]
      simp only [he', Bool.false_eq_true, if_false]

theorem adjustments_roundtrip_sig : (l : List (Option Adjustment)) →
    (∀ a, some a ∈ l → AdjOK a ∧ StableAdjustment a) →
    ∃ l', adjustmentsElems (rereadJList (l.map mAdjOpt)) = .ok l' ∧ l'.map mAdjOpt = l.map mAdjOpt
  | [], _ => ⟨[], rfl, rfl⟩
  | none :: r, h => by
    obtain ⟨l', h1, h2⟩ := adjustments_roundtrip_sig r (fun a ha => h a (List.mem_cons_of_mem _ ha))
    refine ⟨none :: l', ?_, by simp [h2]⟩
    simp only [List.map_cons, rereadJList, mAdjOpt, rereadJ, adjustmentsElems, h1, Except.map]
  | some a :: r, h => by
    obtain ⟨l', h1, h2⟩ := adjustments_roundtrip_sig r (fun a ha => h a (List.mem_cons_of_mem _ ha))
    obtain ⟨U, a', hU, hp, hn⟩ := adjustment_roundtrip_sig a (h a List.mem_cons_self).1 (h a List.mem_cons_self).2
    refine ⟨some a' :: l', ?_, by simp [h2, hn, mAdjOpt]⟩
    rw [List.map_cons, rereadJList, mAdjOpt, hU, adjustmentsElems, hp, h1]
    rfl

theorem matrix_roundtrip_sig (m : Matrix) (hok : MatrixOK m) (hst : StableMatrix m) :
    ∃ m', parseMatrix (rereadJ (mMatrix m)) = .ok (some m') ∧ matrixField (some m') = matrixField (some m) := by
  rw [mMatrix_eq]
  by_cases hsimp : isSimple m = true
  · obtain ⟨x, xs, hs, ha, hr⟩ := isSimple_inv hsimp
    rw [if_pos hsimp, hs]
    refine ⟨{ setup := some [("", some (x :: xs))], adjustments := none, rem := none }, ?_, ?_⟩
    · simp only [mSetup]
      rw [reread_strsV]
      simp only [strsV, parseMatrix, strsOfSeq, strsElems_strs, Except.map]
    · exact matrixField_congr hs.symm (by rw [ha]; rfl) hr.symm
  · rw [if_neg hsimp]
    have hsetup := setup_roundtrip m.setup hok.setupSorted
    by_cases hadj : (m.adjustments.getD []).isEmpty = true
    · simp only [hadj, if_true, List.append_nil]
      obtain ⟨U, hU, hsU, hl⟩ := reread_inline [("setup", mSetup m.setup)] m.rem (by simp) hok.rem.sorted hok.rem.noUMap
      have hrem := rem_roundtrip_af _ aliasFree_matrix _ m.rem (by simp only [List.map_cons, List.map_nil, List.cons_append, List.nil_append]; decide) hok.rem U hsU hl
      have hnone : (m.rem.getD []).lookup "adjustments" = none := hok.rem.prim' (by decide)
      refine ⟨{ setup := m.setup, adjustments := none, rem := remMap (remainder U Gen.struct_Matrix) }, ?_, ?_⟩
      · rw [hU]
        simp only [parseMatrix]
        rw [fieldOf_afKey (k := "setup") (by decide), fieldOf_afKey (k := "adjustments") (by decide),
          hl "setup", hl "adjustments"]
        simp [List.lookup, hsetup, hnone]
      · have hnil : m.adjustments.getD [] = [] := by simpa using hadj
        exact matrixField_congr rfl (by rw [hnil]; rfl) (getD_of_normList hrem)
    · have hadj' : (m.adjustments.getD []).isEmpty = false := by simpa using hadj
      simp only [hadj', Bool.false_eq_true, if_false]
      obtain ⟨adjs, hadjs⟩ : ∃ adjs, m.adjustments = some adjs := by
        cases hx : m.adjustments with
        | none => rw [hx] at hadj'; simp at hadj'
        | some l => exact ⟨l, rfl⟩
      obtain ⟨l', hl1, hl2⟩ := adjustments_roundtrip_sig adjs
        (fun a ha => ⟨hok.adjs adjs hadjs a ha, hst.1 adjs hadjs a ha⟩)
      rw [hadjs, Option.getD_some]
      obtain ⟨U, hU, hsU, hl⟩ := reread_inline ([("setup", mSetup m.setup)] ++ [("adjustments", .seq (adjs.map mAdjOpt))])
        m.rem (by simp) hok.rem.sorted hok.rem.noUMap
      have hrem := rem_roundtrip_af _ aliasFree_matrix _ m.rem (by simp only [List.map_cons, List.map_nil, List.cons_append, List.nil_append]; decide) hok.rem U hsU hl
      refine ⟨{ setup := m.setup, adjustments := some l', rem := remMap (remainder U Gen.struct_Matrix) }, ?_, ?_⟩
      · rw [hU]
        simp only [parseMatrix]
        rw [fieldOf_afKey (k := "setup") (by decide), fieldOf_afKey (k := "adjustments") (by decide),
          hl "setup", hl "adjustments"]
        simp [List.lookup, hsetup, rereadJ, parseAdjustments, hl1, Except.map]
      · exact matrixField_congr rfl (by rw [hadjs]; exact hl2) (getD_of_normList hrem)

/-! ## Part C: one command step -/

section Command
variable (S : SigScheme) (render : S.Sig → String) (parseSig : String → Option S.Sig)

theorem commandOK_attach {c : CommandStep} (r : Record S) (h : CommandOK c) : CommandOK (attach S render r c) :=
  ⟨h.plugins, h.env, h.matrix, h.cache, h.rem, h.noCommands⟩

theorem stable_attach {c : CommandStep} (r : Record S) (h : StableCommand c) : StableCommand (attach S render r c) := h

theorem parseCommand_sig_matrix {m : Entries} {c : CommandStep} (h : parseCommand m = .ok c) :
    optField (taken (remainder m Gen.struct_CommandStep_UnmarshalOrdered_local0) Gen.struct_CommandStep)
        "Signature" none parseSignature = .ok c.signature ∧
    optField (taken (remainder m Gen.struct_CommandStep_UnmarshalOrdered_local0) Gen.struct_CommandStep)
        "Matrix" none parseMatrix = .ok c.matrix := by
  unfold parseCommand at h
  simp only at h
  split at h
  · cases h
  · split at h
    · rename_i key label cmd plugins env sig matrix cache hk hl hcm hp he hs hmx hca
      simp only [Except.ok.injEq] at h
      subst h
      exact ⟨hs, hmx⟩
    · cases h

/-- The re-parse of a marshalled command step reads its `signature` back exactly and its `matrix` from the
    marshalled matrix (determinism of the parser on top of `reread_inline`). -/
theorem reparse_sig_matrix (c : CommandStep) (hok : CommandOK c) {kvs : Entries} {c' : CommandStep}
    (hU : rereadJ (mCommand c) = .omap kvs) (hp : parseCommand kvs = .ok c') :
    c'.signature = c.signature ∧ (c.matrix = none → c'.matrix = none) ∧
      ∀ mm, c.matrix = some mm → parseMatrix (rereadJ (mMatrix mm)) = .ok c'.matrix := by
  obtain ⟨U, hU', hsU, hl⟩ := reread_inline (cmdOutline c) c.rem (cmdOutline_nodup c) hok.rem.sorted hok.rem.noUMap
  rw [mCommand_eq, hU'] at hU
  injection hU with hU
  subst hU
  obtain ⟨_, _, _, _, _, os, om, _⟩ := cmdOutline_lookups c
  obtain ⟨hsg, hmx⟩ := parseCommand_sig_matrix hp
  unfold optField at hsg hmx
  rw [fieldOf_afKey (k := "signature") (by decide), lookup_remainder_of_not_claim (by decide), hl, os] at hsg
  rw [fieldOf_afKey (k := "matrix") (by decide), lookup_remainder_of_not_claim (by decide), hl, om] at hmx
  refine ⟨?_, ?_, ?_⟩
  · cases hs : c.signature with
    | none =>
      rw [hs] at hsg
      simp only [Option.map_none, hok.rem.prim' (k := "signature") (by decide), Except.ok.injEq] at hsg
      exact hsg.symm
    | some s =>
      rw [hs] at hsg
      simp only [Option.map_some, signature_roundtrip s, Except.ok.injEq] at hsg
      exact hsg.symm
  · intro hm
    rw [hm] at hmx
    simp only [Option.map_none, hok.rem.prim' (k := "matrix") (by decide), Except.ok.injEq] at hmx
    exact hmx.symm
  · intro mm hm
    rw [hm] at hmx
    simpa only [Option.map_some] using hmx

theorem recordOf_attach (hrender : ∀ s, parseSig (render s) = some s) (r : Record S) (c : CommandStep) :
    ∃ sg, (attach S render r c).signature = some sg ∧ recordOf S parseSig sg = some r :=
  ⟨_, rfl, by simp [recordOf, hrender]⟩

/-- The signed step marshals, re-reads and re-parses to a step with the same embedded signature, which verifies.
    Stated on `CommandOK` (what the parser guarantees) so that the step-tree induction can use it. -/
theorem signed_command_core (hrender : ∀ s, parseSig (render s) = some s)
    (c : CommandStep) (hok : CommandOK c) (hs : StableCommand c)
    (k : S.Key) (alg repo : String) (penv env₁ : List (String × String)) (henv : EnvExtends penv env₁) :
    ∃ kvs c', rereadJ (mCommand (attach S render (sign S k alg c repo penv) c)) = .omap kvs ∧
      parseCommand kvs = .ok c' ∧
      c'.signature = (attach S render (sign S k alg c repo penv) c).signature ∧
      StepVerifies S parseSig (S.pubOf k) repo env₁ c' ∧
      kvs.lookup "command" = some (.str c.command) ∧
      ∀ k', k' ∉ cmdOutlineKeys → kvs.lookup k' = (c.rem.getD []).lookup k' := by
  obtain ⟨r, hr⟩ : ∃ r, sign S k alg c repo penv = r := ⟨_, rfl⟩
  have hok' := commandOK_attach S render r hok
  obtain ⟨kvs, c', hU, hp, hn, hcmd, hoth⟩ := command_roundtrip_ok (attach S render r c) hok' (stable_attach S render r hs)
  obtain ⟨hsig, hmx0, hmx1⟩ := reparse_sig_matrix (attach S render r c) hok' hU hp
  have hsame : SigSame c' (attach S render r c) := by
    have h1 := congrArg CommandStep.command hn
    have h2 := congrArg CommandStep.env hn
    have h3 := congrArg CommandStep.plugins hn
    refine ⟨h1, h2, h3, ?_⟩
    cases hm : c.matrix with
    | none =>
      have hm' : (attach S render r c).matrix = none := hm
      rw [hmx0 hm', hm']
    | some mm =>
      have hm' : (attach S render r c).matrix = some mm := hm
      obtain ⟨m', hpm, hfm⟩ := matrix_roundtrip_sig mm (hok.matrix mm hm) (hs.2.2.1 mm hm)
      have := hmx1 mm hm'
      rw [hpm] at this
      injection this with this
      rw [← this, hm', hfm]
  rw [hr]
  refine ⟨kvs, c', hU, hp, hsig, ?_, hcmd, hoth⟩
  obtain ⟨sg, hsg, hrec⟩ := recordOf_attach S render parseSig hrender r c
  refine ⟨sg, r, hsig.trans hsg, hrec, ?_⟩
  rw [verify_of_sigSame S r (S.pubOf k) repo env₁ hsame, verify_attach, ← hr]
  exact Signing.complete S k alg c repo penv env₁ henv.1 henv.2.1 (fun name v hmem _ => henv.2.2 name v hmem)

theorem signed_step_roundtrip (hrender : ∀ s, parseSig (render s) = some s)
    (m : Unm.Entries) (c : CommandStep) (hm : NoUMapKVs m) (hk : (m.map (·.1)).Nodup)
    (h : parseCommand m = .ok c) (hs : StableCommand c)
    (k : S.Key) (alg repo : String) (penv env₁ : List (String × String)) (henv : EnvExtends penv env₁) :
    ∃ kvs c', rereadJ (mCommand (attach S render (sign S k alg c repo penv) c)) = .omap kvs ∧
      parseCommand kvs = .ok c' ∧
      c'.signature = (attach S render (sign S k alg c repo penv) c).signature ∧
      StepVerifies S parseSig (S.pubOf k) repo env₁ c' :=
  let ⟨kvs, c', h1, h2, h3, h4, _⟩ :=
    signed_command_core S render parseSig hrender c (parseCommand_inv hm h) hs k alg repo penv env₁ henv
  ⟨kvs, c', h1, h2, h3, h4⟩

end Command

/-! ## Part D: step trees and the pipeline -/

section Trees
variable (S : SigScheme) (render : S.Sig → String) (parseSig : String → Option S.Sig)

/-! ### Unfolding `VerifiesAll` (no automatic equations for the nested `match ss`) -/

theorem verifiesAll_command (pub : S.Pub) (repo : String) (env : List (String × String)) (c : CommandStep) :
    VerifiesAll S parseSig pub repo env (.command c) = StepVerifies S parseSig pub repo env c := by
  simp [VerifiesAll]

theorem verifiesAll_group_some (pub : S.Pub) (repo : String) (env : List (String × String)) (k : String)
    (g : Option String) (l : List Step) (r : UMap Val) :
    VerifiesAll S parseSig pub repo env (.group k g (some l) r) = VerifiesAllList S parseSig pub repo env l := by
  simp [VerifiesAll]

theorem verifiesAllList_nil (pub : S.Pub) (repo : String) (env : List (String × String)) :
    VerifiesAllList S parseSig pub repo env [] = True := by
  simp [VerifiesAllList]

theorem verifiesAllList_cons (pub : S.Pub) (repo : String) (env : List (String × String)) (s : Step) (r : List Step) :
    VerifiesAllList S parseSig pub repo env (s :: r) =
      (VerifiesAll S parseSig pub repo env s ∧ VerifiesAllList S parseSig pub repo env r) := by
  simp [VerifiesAllList]

/-- Steps that carry no command step and that signing leaves alone. -/
def kindTrivial : Step → Bool
  | .wait _ _ => true
  | .input _ _ => true
  | .trigger _ => true
  | _ => false

theorem kindTrivial_normStep (s : Step) : kindTrivial (normStep s) = kindTrivial s := by
  cases s with
  | group k g ss r => cases ss <;> simp [normStep, kindTrivial]
  | _ => simp [normStep, kindTrivial]

theorem verifiesAll_of_norm_trivial (pub : S.Pub) (repo : String) (env : List (String × String)) {s' s : Step}
    (ht : kindTrivial s = true) (h : normStep s' = normStep s) : VerifiesAll S parseSig pub repo env s' := by
  have h' : kindTrivial s' = true := by
    rw [← kindTrivial_normStep s', h, kindTrivial_normStep s, ht]
  cases s' with
  | command c => simp [kindTrivial] at h'
  | group k g ss r => simp [kindTrivial] at h'
  | unknown v => simp [kindTrivial] at h'
  | wait a b => simp [VerifiesAll]
  | input a b => simp [VerifiesAll]
  | trigger a => simp [VerifiesAll]

theorem signStep_trivial (k : S.Key) (alg repo : String) (penv : List (String × String)) {s : Step}
    (ht : kindTrivial s = true) : signStep S render k alg repo penv s = .ok s := by
  cases s with
  | command c => simp [kindTrivial] at ht
  | group k g ss r => simp [kindTrivial] at ht
  | unknown v => simp [kindTrivial] at ht
  | wait a b => exact Signing.signStep_wait S render k alg repo penv a b
  | input a b => exact Signing.signStep_input S render k alg repo penv a b
  | trigger a => exact Signing.signStep_trigger S render k alg repo penv a

/-- What a successful `parseStep` was: a command step, a group step, a step of a kind without command steps,
    or an unknown step. -/
theorem parseStep_inv {f : Nat} {x : Val} {s : Step} {w : List Warn} (h : parseStep (f + 1) x = .ok (s, w)) :
    (∃ m c, x = .omap m ∧ selOf m = .ok (.known .command) ∧ parseCommand m = .ok c ∧ s = .command c ∧ w = []) ∨
    (∃ m, x = .omap m ∧ selOf m = .ok (.known .group) ∧ parseGroup f m = .ok s ∧ w = []) ∨
    kindTrivial s = true ∨ (∃ v, s = .unknown v) := by
  cases x with
  | str t =>
    rw [parseStep.eq_2] at h
    split at h <;>
      (simp only [Except.ok.injEq, Prod.mk.injEq] at h; obtain ⟨rfl, rfl⟩ := h; simp [kindTrivial])
  | omap m =>
    rw [parseStep.eq_3] at h
    split at h
    · cases h
    · rename_i sel hsel
      split at h
      · cases h
      · simp only [Except.ok.injEq, Prod.mk.injEq] at h; obtain ⟨rfl, rfl⟩ := h; simp [kindTrivial]
      · simp only [Except.ok.injEq, Prod.mk.injEq] at h; obtain ⟨rfl, rfl⟩ := h; simp [kindTrivial]
      · split at h
        · rename_i c hc
          simp only [Except.ok.injEq, Prod.mk.injEq] at h; obtain ⟨rfl, rfl⟩ := h
          exact .inl ⟨m, c, rfl, hsel, hc, rfl, rfl⟩
        · simp only [Except.ok.injEq, Prod.mk.injEq] at h; obtain ⟨rfl, rfl⟩ := h; simp [kindTrivial]
      · simp only [Except.ok.injEq, Prod.mk.injEq] at h; obtain ⟨rfl, rfl⟩ := h; simp [kindTrivial]
      · simp only [Except.ok.injEq, Prod.mk.injEq] at h; obtain ⟨rfl, rfl⟩ := h; simp [kindTrivial]
      · simp only [Except.ok.injEq, Prod.mk.injEq] at h; obtain ⟨rfl, rfl⟩ := h; simp [kindTrivial]
      · split at h
        · rename_i g hg
          simp only [Except.ok.injEq, Prod.mk.injEq] at h; obtain ⟨rfl, rfl⟩ := h
          exact .inr (.inl ⟨m, rfl, hsel, hg, rfl⟩)
        · simp only [Except.ok.injEq, Prod.mk.injEq] at h; obtain ⟨rfl, rfl⟩ := h; simp [kindTrivial]
      · simp only [Except.ok.injEq, Prod.mk.injEq] at h; obtain ⟨rfl, rfl⟩ := h; simp [kindTrivial]
  | null | bool _ | int _ | float _ | time _ | seq _ | umap _ =>
    rw [parseStep.eq_4 _ _ (by intro s h; cases h) (by intro m h; cases h)] at h; cases h

/-- Re-parsing a marshalled group step whose nested steps `js` re-parse to `ss'` (second half of
    `group_roundtrip` in `Lemmas/Roundtrip.lean`, with the nested steps as a parameter). -/
theorem group_reparse (f : Nat) (k : String) (grp : Option String) (rem : UMap Val)
    (hR : RemOK Gen.struct_GroupStep rem)
    (hkey : k = "" → (rem.getD []).lookup "id" = none ∧ (rem.getD []).lookup "identifier" = none)
    (js : List Val) (ss' : List Step) (hps : parseSteps f (rereadJList js) = .ok (ss', [])) :
    ∃ U, rereadJ (inlineFriendly (grpOutline k grp js) rem) = .omap U ∧
      parseGroup f U = .ok (.group k grp (some ss') (remMap (remainder U Gen.struct_GroupStep))) ∧
      (U.lookup "group").isSome = true ∧
      ∀ k', k' ∉ grpOutlineKeys → U.lookup k' = (rem.getD []).lookup k' := by
  have hnd : ((grpOutline k grp js).map (·.1)).Nodup := List.Nodup.sublist (grpOutline_keys k grp js) (by decide)
  obtain ⟨U, hU, hsU, hl⟩ := reread_inline (grpOutline k grp js) rem hnd hR.sorted hR.noUMap
  obtain ⟨ok, og, os⟩ := grpOutline_lookups k grp js
  have hUg : U.lookup "group" = some (match grp with | none => Val.null | some s => .str s) := by
    rw [hl, og]
    cases grp <;> rfl
  have hUs : U.lookup "steps" = some (.seq (rereadJList js)) := by
    rw [hl, os]; rfl
  have hkeyF : optField (taken U Gen.struct_GroupStep) "Key" "" strOf = .ok k := by
    unfold optField
    rw [fieldOf_grp_key, hl "key", hl "id", hl "identifier", ok,
      lookup_none_of_not_mem (fun h => absurd ((grpOutline_keys k grp js).subset h) (by decide)),
      lookup_none_of_not_mem (fun h => absurd ((grpOutline_keys k grp js).subset h) (by decide))]
    by_cases hk : k = ""
    · have := hkey hk
      simp [hk, this.1, this.2, hR.prim' (k := "key") (by decide)]
    · simp [hk, rereadJ, strOf_str]
  refine ⟨U, hU, ?_, by rw [hUg]; rfl, fun k' hk' => ?_⟩
  · rw [parseGroup.eq_1]
    simp only [hkeyF, fieldOf_group_steps, hUs, hps, fieldOf_grp_group U _ hUg]
    cases grp <;> simp [strOf_str, Except.map]
  · rw [hl, lookup_none_of_not_mem (fun h => hk' ((grpOutline_keys k grp js).subset h))]

variable (k : S.Key) (alg repo : String) (penv env₁ : List (String × String))

/-- The statement of `signed_steps_roundtrip` at one fuel level (the induction hypothesis). -/
def SignedRT (f : Nat) : Prop :=
  ∀ (x : Val) (s : Step) (w : List Warn), NoUMap x → KeysNodup x → parseStep f x = .ok (s, w) → StableStep s →
    ∀ signed, signStep S render k alg repo penv s = .ok signed →
    ∃ j s' w', mStep signed = .ok j ∧ parseStep f (rereadJ j) = .ok (s', w') ∧
      VerifiesAll S parseSig (S.pubOf k) repo env₁ s' ∧ w' = w

theorem signed_list_of (f : Nat) (ih : SignedRT S render parseSig k alg repo penv env₁ f) :
    (xs : List Val) → (ss : List Step) → (ws : List Warn) →
    NoUMapList xs → KeysNodupList xs → parseSteps f xs = .ok (ss, ws) → StableSteps ss →
    (l' : List Step) → signSteps S render k alg repo penv ss = .ok l' →
    ∃ js ss', mSteps l' = .ok js ∧ parseSteps f (rereadJList js) = .ok (ss', ws) ∧
      VerifiesAllList S parseSig (S.pubOf k) repo env₁ ss'
  | [], ss, ws, _, _, h, _, l', hl' => by
    rw [parseSteps.eq_1] at h
    simp only [Except.ok.injEq, Prod.mk.injEq] at h
    obtain ⟨rfl, rfl⟩ := h
    rw [Signing.signSteps_nil] at hl'
    injection hl' with hl'
    subst hl'
    exact ⟨[], [], rfl, by rw [rereadJList, parseSteps.eq_1], by rw [verifiesAllList_nil]; trivial⟩
  | v :: r, ss, ws, hx, hd, h, hs, l', hl' => by
    obtain ⟨s, w, ss', ws', hs1, hss, rfl, rfl⟩ := parseSteps_cons_ok h
    rw [NoUMapList] at hx
    rw [KeysNodupList] at hd
    rw [StableSteps] at hs
    obtain ⟨s₁, r₁, hs₁, hr₁, rfl⟩ := (Signing.signSteps_cons_ok S render).1 hl'
    obtain ⟨j, s1, w1, hj, hp, hv, rfl⟩ := ih v s w hx.1 hd.1 hs1 hs.1 s₁ hs₁
    obtain ⟨js, ss1, hjs, hps, hvs⟩ := signed_list_of f ih r ss' ws' hx.2 hd.2 hss hs.2 r₁ hr₁
    refine ⟨j :: js, s1 :: ss1, ?_, ?_, ?_⟩
    · rw [mSteps_cons, hj, hjs]
    · rw [rereadJList, parseSteps.eq_2, hp, hps]
    · rw [verifiesAllList_cons]; exact ⟨hv, hvs⟩

theorem signed_all (hrender : ∀ s, parseSig (render s) = some s) (henv : EnvExtends penv env₁) :
    ∀ f, SignedRT S render parseSig k alg repo penv env₁ f
  | 0 => by
    intro x s w _ _ h
    rw [parseStep.eq_1] at h; cases h
  | f + 1 => by
    have ih := signed_all hrender henv f
    intro x s w hx hd h hs signed hsign
    rcases parseStep_inv h with ⟨m, c, rfl, hsel, hc, rfl, rfl⟩ | ⟨m, rfl, hsel, hg, rfl⟩ | ht | ⟨v, rfl⟩
    · -- command step
      have hm : NoUMapKVs m := by simpa [NoUMap] using hx
      have hn : (m.map (·.1)).Nodup := by rw [KeysNodup] at hd; exact hd.1
      rw [StableStep] at hs
      rw [Signing.signStep_command] at hsign
      injection hsign with hsign
      subst hsign
      obtain ⟨U, c', hU, hp, _, hv, hUc, hUo⟩ :=
        signed_command_core S render parseSig hrender c (parseCommand_inv hm hc) hs k alg repo penv env₁ henv
      have hselU : selOf U = .ok (.known .command) := by
        apply selOf_command_of _ (by rw [hUc]; rfl) hsel
        rw [hUo "type" (by decide), command_rem_lookup hc hn (by decide) (by decide)]
      refine ⟨_, .command c', [], mStep_command _, ?_, ?_, rfl⟩
      · rw [hU, parseStep.eq_3, hselU]
        simp only [hp]
      · rw [verifiesAll_command]; exact hv
    · -- group step
      have hm : NoUMapKVs m := by simpa [NoUMap] using hx
      have hn : (m.map (·.1)).Nodup := by rw [KeysNodup] at hd; exact hd.1
      have hkk : KeysNodupKVs m := by rw [KeysNodup] at hd; exact hd.2
      obtain ⟨key, grp, ss, rfl, hsteps⟩ := parseGroup_ok hg
      rw [Signing.signStep_group_some, Roundtrip.map_ok_iff] at hsign
      obtain ⟨l', hl', rfl⟩ := hsign
      have hR : RemOK Gen.struct_GroupStep (remMap (remainder m Gen.struct_GroupStep)) := remOK_remMap m _ hm
      simp only [StableStep] at hs
      obtain ⟨hss, _, _, hkey⟩ := hs
      have hsub : ∃ js ss', mSteps l' = .ok js ∧ parseSteps f (rereadJList js) = .ok (ss', []) ∧
          VerifiesAllList S parseSig (S.pubOf k) repo env₁ ss' := by
        rcases hsteps with ⟨_, rfl⟩ | ⟨xs, hl, hps⟩
        · rw [Signing.signSteps_nil] at hl'
          injection hl' with hl'
          subst hl'
          exact ⟨[], [], rfl, by rw [rereadJList, parseSteps.eq_1], by rw [verifiesAllList_nil]; trivial⟩
        · have h1 : NoUMap (.seq xs) := noUMap_of_lookup hm hl
          have h2 : KeysNodup (.seq xs) := keysNodup_of_lookup hkk hl
          exact signed_list_of S render parseSig k alg repo penv env₁ f ih xs ss [] (by simpa [NoUMap] using h1)
            (by simpa [KeysNodup] using h2) hps hss l' hl'
      obtain ⟨js, ss', hjs, hps, hv⟩ := hsub
      obtain ⟨U, hU, hpg, hUg, hUo⟩ := group_reparse f key grp _ hR hkey js ss' hps
      have hselU : selOf U = .ok (.known .group) := selOf_group_of hn hsel hUg hUo
      refine ⟨_, .group key grp (some ss') (remMap (remainder U Gen.struct_GroupStep)), [],
        mStep_group_eq key grp l' _ js hjs, ?_, ?_, rfl⟩
      · rw [hU, parseStep.eq_3, hselU]
        simp only [hpg]
      · rw [verifiesAll_group_some]; exact hv
    · -- wait / input / trigger: signing leaves the step alone
      rw [signStep_trivial S render k alg repo penv ht] at hsign
      injection hsign with hsign
      subst hsign
      obtain ⟨j, s', w', h1, h2, h3, h4⟩ := step_roundtrip_all (f + 1) x s w hx hd h hs
      exact ⟨j, s', w', h1, h2, verifiesAll_of_norm_trivial S parseSig _ _ _ ht h3, h4⟩
    · -- unknown step: signing refuses
      rw [Signing.signStep_unknown] at hsign
      cases hsign

theorem signed_steps_roundtrip (hrender : ∀ s, parseSig (render s) = some s)
    (f : Nat) (x : Val) (s : Step) (w : List Warn) (hx : NoUMap x) (hd : KeysNodup x)
    (h : parseStep f x = .ok (s, w)) (hs : StableStep s)
    (k : S.Key) (alg repo : String) (penv env₁ : List (String × String)) (henv : EnvExtends penv env₁)
    (signed : Step) (hsign : signStep S render k alg repo penv s = .ok signed) :
    ∃ j s' w', mStep signed = .ok j ∧ parseStep f (rereadJ j) = .ok (s', w') ∧
      VerifiesAll S parseSig (S.pubOf k) repo env₁ s' :=
  let ⟨j, s', w', h1, h2, h3, _⟩ :=
    signed_all S render parseSig k alg repo penv env₁ hrender henv f x s w hx hd h hs signed hsign
  ⟨j, s', w', h1, h2, h3⟩

theorem signed_pipeline_roundtrip (hrender : ∀ s, parseSig (render s) = some s)
    (v : Val) (p : Pipeline) (ws : List Warn) (hv : NoUMap v) (hd : KeysNodup v)
    (h : parsePipeline v = .ok (p, ws)) (hs : StablePipeline p)
    (k : S.Key) (alg repo : String) (env₁ : List (String × String))
    (henv : EnvExtends (p.env.getD []) env₁)
    (signed : List Step) (hsign : signSteps S render k alg repo (p.env.getD []) (p.steps.getD []) = .ok signed) :
    ∃ j p' ws', mPipeline { p with steps := some signed } = .ok j ∧ parsePipeline (rereadJ j) = .ok (p', ws') ∧
      VerifiesAllList S parseSig (S.pubOf k) repo env₁ (p'.steps.getD []) := by
  obtain ⟨xs, l, ws1, hl, hx1, hx2, hps, hR⟩ := parsePipeline_inv hv hd h
  rw [hl, Option.getD_some] at hsign
  obtain ⟨js, ss', hjs, hps', hvs⟩ := signed_list_of S render parseSig k alg repo (p.env.getD []) env₁ stepFuel
    (signed_all S render parseSig k alg repo (p.env.getD []) env₁ hrender henv stepFuel) xs l ws1 hx1 hx2 hps
    (hs.1 l hl) signed hsign
  have hnd : ((pipeOutline js p.env).map (·.1)).Nodup := List.Nodup.sublist (pipeOutline_keys js p.env) (by decide)
  obtain ⟨U, hU, hsU, hlk⟩ := reread_inline (pipeOutline js p.env) p.rem hnd hR.sorted hR.noUMap
  have hUs : U.lookup "steps" = some (.seq (rereadJList js)) := by
    rw [hlk]; simp [pipeOutline, List.lookup_append, Roundtrip.lookup_cons_if, rereadJ]
  have hUe : U.lookup "env" = p.env.map fun e => rereadJ (envOV e) := by
    rw [hlk]
    simp only [pipeOutline, List.lookup_append, Roundtrip.lookup_cons_if, lookup_optO, List.lookup_nil]
    cases p.env with
    | none => simp [hR.prim' (k := "env") (by decide)]
    | some e => simp
  have henv' : optField (taken U Gen.struct_Pipeline) "Env" none parseEnvOrdered = .ok p.env := by
    unfold optField
    rw [fieldOf_afKey (k := "env") (by decide), hUe]
    cases p.env with
    | none => rfl
    | some e => exact pipeline_env_roundtrip e
  refine ⟨_, { steps := some ss', env := p.env, rem := remMap (remainder U Gen.struct_Pipeline) }, ws1,
    mPipeline_eq { p with steps := some signed } signed js rfl hjs, ?_, ?_⟩
  · rw [hU]
    unfold parsePipeline
    simp only [fieldOf_pipeline_steps, hUs, hps', Except.map, henv']
  · exact hvs

end Trees

end GoPipeline.SignedRT
