/-
  C09, YAML leg — the normal form is a fixpoint of `yaml.Marshal` + re-parse as well, and both output
  formats carry the same data.

  `Model/MarshalY.lean` differs from `Model/Marshal.lean` in a handful of places (see its header). The
  bridge is `yStruct_ok`: for an inline map in the image of the parser (`RemOK`: no key of a declared
  field) yaml.v3's struct encoding succeeds and is the very value `inlineFriendlyMarshalJSON` builds, so
  `reread_inline` / `rem_roundtrip_*` of `Lemmas/Roundtrip.lean` apply unchanged.

  * Part A: `yStruct` on parser images.
  * Part B: components (adjustment without the `emptyishSkip` condition, matrix, cache that never
    collapses to `false`, signature with `signed_fields: []`).
  * Part C: command step.  Part D: steps (induction on the fuel).  Part E: pipeline.
  * Part F: `StablePipeline → StablePipelineY`, `legs_carry_same_data`, `yaml_keeps_emptyish_skip`.
-/
import GoPipeline.Lemmas.Roundtrip
import GoPipeline.Model.MarshalY
set_option linter.unusedSimpArgs false
set_option linter.unusedVariables false
namespace GoPipeline.Roundtrip
open GoPipeline GoPipeline.Pipe GoPipeline.Parse GoPipeline.Marshal GoPipeline.Unm GoPipeline.MarshalY

local notation "outerD" => Gen.struct_CommandStep_UnmarshalOrdered_local0
local notation "csD" => Gen.struct_CommandStep
local notation "grpD" => Gen.struct_GroupStep
local notation "pipeD" => Gen.struct_Pipeline

/-! ## Part A: yaml.v3 struct encoding on parser images -/

theorem declaredKeys_eq (d : List Field) : declaredKeys d = normalKeys d := by
  unfold declaredKeys normalKeys
  induction d with
  | nil => rfl
  | cons f r ih =>
    cases hr : f.role <;> simp [List.filterMap_cons, List.filter_cons, hr, ih]

/-- No inline key is a declared key, every outline key is: the encoding succeeds and is the value the
    JSON leg's `inlineFriendlyMarshalJSON` builds. -/
theorem yStruct_ok (fs : List Field) (outline : List (String × Val)) (rem : UMap Val) (hR : RemOK fs rem)
    (hsub : ∀ k ∈ outline.map (·.1), k ∈ normalKeys fs) :
    yStruct fs outline rem = .ok (inlineFriendly outline rem) := by
  have hno : ∀ p ∈ rem.getD [], p.1 ∉ normalKeys fs := by
    intro p hp hk
    have h1 := hR.prim' hk
    obtain ⟨v, hv⟩ := mem_keys_lookup_some (List.mem_map_of_mem (f := (·.1)) hp)
    rw [h1] at hv; cases hv
  have hfind : (rem.getD []).find? (fun p => (declaredKeys fs).contains p.1) = none := by
    rw [List.find?_eq_none]
    intro p hp
    rw [declaredKeys_eq]
    simpa using hno p hp
  have hfilter : (rem.getD []).filter (fun p => !(outline.map (·.1)).contains p.1) = rem.getD [] := by
    rw [List.filter_eq_self]
    intro p hp
    have : p.1 ∉ outline.map (·.1) := fun h => hno p hp (hsub _ h)
    simpa using this
  unfold yStruct inlineFriendly
  rw [hfind]
  simp only [hfilter]

/-! ## Part B: components -/

/-! ### Adjustment: `skip` is kept unless nil, no `emptyishSkip` condition -/

theorem yIsZeroAny_null {v : Val} (h : yIsZeroAny v = true) : v = .null := by
  cases v <;> simp_all [yIsZeroAny]

theorem adjustment_roundtripY (a : Adjustment) (hok : AdjOK a) :
    ∃ v U a', yAdjustment a = .ok v ∧ rereadJ v = .omap U ∧ parseAdjustment U = .ok a' ∧
      normAdjustment a' = normAdjustment a := by
  have hw := with_roundtrip a.with_ hok.withSorted
  by_cases he : yIsZeroAny a.skip = true
  · have hnull := yIsZeroAny_null he
    have hy : yAdjustment a = .ok (inlineFriendly [("with", mWith a.with_)] a.rem) := by
      unfold yAdjustment
      simp only [he, if_true, List.append_nil]
      exact yStruct_ok _ _ _ hok.rem (by simp only [List.map_cons, List.map_nil]; decide)
    obtain ⟨U, hU, hsU, hl⟩ := reread_inline [("with", mWith a.with_)] a.rem (by simp) hok.rem.sorted hok.rem.noUMap
    have hrem := rem_roundtrip_af _ aliasFree_adj _ a.rem (by simp only [List.map_cons, List.map_nil, List.cons_append, List.nil_append]; decide) hok.rem U hsU hl
    refine ⟨_, U, { with_ := a.with_, skip := a.skip, rem := remMap (remainder U Gen.struct_MatrixAdjustment) }, hy, hU, ?_, ?_⟩
    · simp only [parseAdjustment]
      rw [fieldOf_afKey (k := "with") (by decide), fieldOf_afKey (k := "skip") (by decide), hl "with", hl "skip"]
      have : (a.rem.getD []).lookup "skip" = none := hok.rem.prim' (by decide)
      simp [List.lookup, hw, this, hnull]
    · simp only [normAdjustment, hrem]
  · have he' : yIsZeroAny a.skip = false := by simpa using he
    have hy : yAdjustment a = .ok (inlineFriendly ([("with", mWith a.with_)] ++ [("skip", a.skip)]) a.rem) := by
      unfold yAdjustment
      simp only [he', Bool.false_eq_true, if_false]
      exact yStruct_ok _ _ _ hok.rem (by simp only [List.map_cons, List.map_nil, List.cons_append, List.nil_append]; decide)
    obtain ⟨U, hU, hsU, hl⟩ := reread_inline ([("with", mWith a.with_)] ++ [("skip", a.skip)]) a.rem (by simp)
      hok.rem.sorted hok.rem.noUMap
    have hrem := rem_roundtrip_af _ aliasFree_adj _ a.rem (by simp only [List.map_cons, List.map_nil, List.cons_append, List.nil_append]; decide) hok.rem U hsU hl
    refine ⟨_, U, { with_ := a.with_, skip := a.skip, rem := remMap (remainder U Gen.struct_MatrixAdjustment) }, hy, hU, ?_, ?_⟩
    · simp only [parseAdjustment]
      rw [fieldOf_afKey (k := "with") (by decide), fieldOf_afKey (k := "skip") (by decide), hl "with", hl "skip"]
      simp [List.lookup, hw, reread_noUMap _ hok.skip]
    · simp only [normAdjustment, hrem]

theorem adjustments_roundtripY : (l : List (Option Adjustment)) → (∀ a, some a ∈ l → AdjOK a) →
    ∃ avs l', yAdjustments l = .ok avs ∧ adjustmentsElems (rereadJList avs) = .ok l' ∧
      l'.map (fun a => a.map normAdjustment) = l.map (fun a => a.map normAdjustment)
  | [], _ => ⟨[], [], rfl, rfl, rfl⟩
  | none :: r, h => by
    obtain ⟨avs, l', h0, h1, h2⟩ := adjustments_roundtripY r (fun a ha => h a (List.mem_cons_of_mem _ ha))
    refine ⟨.null :: avs, none :: l', ?_, ?_, by simp [h2]⟩
    · simp only [yAdjustments, h0, Except.map]
    · simp only [rereadJList, rereadJ, adjustmentsElems, h1, Except.map]
  | some a :: r, h => by
    obtain ⟨avs, l', h0, h1, h2⟩ := adjustments_roundtripY r (fun a ha => h a (List.mem_cons_of_mem _ ha))
    obtain ⟨v, U, a', hv, hU, hp, hn⟩ := adjustment_roundtripY a (h a List.mem_cons_self)
    refine ⟨v :: avs, some a' :: l', ?_, ?_, by simp [h2, hn]⟩
    · simp only [yAdjustments, hv, h0, Except.map]
    · rw [rereadJList, hU, adjustmentsElems, hp, h1]
      rfl

/-! ### Matrix -/

theorem matrix_roundtripY (m : Matrix) (hok : MatrixOK m) :
    ∃ v m', yMatrix m = .ok v ∧ parseMatrix (rereadJ v) = .ok (some m') ∧ normMatrix m' = normMatrix m := by
  by_cases hsimp : isSimple m = true
  · obtain ⟨x, xs, hs, ha, hr⟩ := isSimple_inv hsimp
    refine ⟨mSetup m.setup, { setup := some [("", some (x :: xs))], adjustments := none, rem := none }, ?_, ?_, ?_⟩
    · unfold yMatrix
      rw [if_pos hsimp]
    · rw [hs]
      simp only [mSetup]
      rw [reread_strsV]
      simp only [strsV, parseMatrix, strsOfSeq, strsElems_strs, Except.map]
    · simp only [normMatrix, hs, normList_of_getD_nil hr,
        normList_map_of_getD_nil (fun a => Option.map normAdjustment a) ha]
      rfl
  · have hsetup := setup_roundtrip m.setup hok.setupSorted
    have hadjOK : ∀ a, some a ∈ m.adjustments.getD [] → AdjOK a := by
      intro a ha
      cases hx : m.adjustments with
      | none => rw [hx] at ha; simp at ha
      | some l => rw [hx] at ha; exact hok.adjs l hx a ha
    obtain ⟨avs, l', hav, hl1, hl2⟩ := adjustments_roundtripY (m.adjustments.getD []) hadjOK
    have hy : ∀ outline, (∀ k ∈ outline.map (·.1), k ∈ normalKeys Gen.struct_Matrix) →
        outline = [("setup", mSetup m.setup)] ++
          (if (m.adjustments.getD []).isEmpty then [] else [("adjustments", .seq avs)]) →
        yMatrix m = .ok (inlineFriendly outline m.rem) := by
      intro outline hsub ho
      unfold yMatrix
      rw [if_neg hsimp]
      simp only [hav]
      rw [← ho]
      exact yStruct_ok _ _ _ hok.rem hsub
    by_cases hadj : (m.adjustments.getD []).isEmpty = true
    · obtain ⟨U, hU, hsU, hl⟩ := reread_inline [("setup", mSetup m.setup)] m.rem (by simp) hok.rem.sorted hok.rem.noUMap
      have hsub : ∀ k ∈ [("setup", mSetup m.setup)].map (·.1), k ∈ normalKeys Gen.struct_Matrix := by
        simp only [List.map_cons, List.map_nil, List.cons_append, List.nil_append]; decide
      have hrem := rem_roundtrip_af _ aliasFree_matrix _ m.rem hsub hok.rem U hsU hl
      have hnone : (m.rem.getD []).lookup "adjustments" = none := hok.rem.prim' (by decide)
      refine ⟨_, { setup := m.setup, adjustments := none, rem := remMap (remainder U Gen.struct_Matrix) },
        hy _ hsub (by simp only [hadj, if_true, List.append_nil]), ?_, ?_⟩
      · rw [hU]
        simp only [parseMatrix]
        rw [fieldOf_afKey (k := "setup") (by decide), fieldOf_afKey (k := "adjustments") (by decide),
          hl "setup", hl "adjustments"]
        simp [List.lookup, hsetup, hnone]
      · have hA := normList_map_of_getD_nil (x := m.adjustments) (fun a => Option.map normAdjustment a)
          (by simpa using hadj)
        simp only [normMatrix, hrem, hA]
        rfl
    · have hadj' : (m.adjustments.getD []).isEmpty = false := by simpa using hadj
      obtain ⟨adjs, hadjs⟩ : ∃ adjs, m.adjustments = some adjs := by
        cases hx : m.adjustments with
        | none => rw [hx] at hadj'; simp at hadj'
        | some l => exact ⟨l, rfl⟩
      rw [hadjs, Option.getD_some] at hl2
      obtain ⟨U, hU, hsU, hl⟩ := reread_inline ([("setup", mSetup m.setup)] ++ [("adjustments", .seq avs)])
        m.rem (by simp) hok.rem.sorted hok.rem.noUMap
      have hsub : ∀ k ∈ ([("setup", mSetup m.setup)] ++ [("adjustments", Val.seq avs)]).map (·.1),
          k ∈ normalKeys Gen.struct_Matrix := by
        simp only [List.map_cons, List.map_nil, List.cons_append, List.nil_append]; decide
      have hrem := rem_roundtrip_af _ aliasFree_matrix _ m.rem hsub hok.rem U hsU hl
      refine ⟨_, { setup := m.setup, adjustments := some l', rem := remMap (remainder U Gen.struct_Matrix) },
        hy _ hsub (by simp only [hadj', Bool.false_eq_true, if_false]), ?_, ?_⟩
      · rw [hU]
        simp only [parseMatrix]
        rw [fieldOf_afKey (k := "setup") (by decide), fieldOf_afKey (k := "adjustments") (by decide),
          hl "setup", hl "adjustments"]
        simp [List.lookup, hsetup, rereadJ, parseAdjustments, hl1, Except.map]
      · simp only [normMatrix, hrem, hadjs, Option.map_some, hl2]

/-! ### Cache: plain struct encoding, a cache that is only disabled is `{disabled: true}` -/

theorem cache_roundtripY (c : Cache) (hR : RemOK Gen.struct_Cache c.rem) :
    ∃ v c', yCache c = .ok v ∧ parseCache (rereadJ v) = .ok (some c') ∧ normCache c' = normCache c := by
  have hdis : (c.rem.getD []).lookup "disabled" = none := hR.prim' (by decide)
  have hname : (c.rem.getD []).lookup "name" = none := hR.prim' (by decide)
  have hpaths : (c.rem.getD []).lookup "paths" = none := hR.prim' (by decide)
  have hsize : (c.rem.getD []).lookup "size" = none := hR.prim' (by decide)
  obtain ⟨U, hU, hsU, hl⟩ := reread_inline
    ((if c.disabled then [("disabled", .bool true)] else []) ++
      (if c.name == "" then [] else [("name", .str c.name)]) ++
      (if (c.paths.getD []).isEmpty then [] else [("paths", strsV (c.paths.getD []))]) ++
      (if c.size == "" then [] else [("size", .str c.size)])) c.rem
    (by by_cases h0 : c.disabled = true <;> by_cases h1 : c.name = "" <;>
          by_cases h2 : (c.paths.getD []).isEmpty = true <;>
          by_cases h3 : c.size = "" <;> simp [h0, h1, h2, h3])
    hR.sorted hR.noUMap
  have hsub : ∀ k ∈ (((if c.disabled then [("disabled", Val.bool true)] else []) ++
      (if c.name == "" then [] else [("name", Val.str c.name)]) ++
      (if (c.paths.getD []).isEmpty then [] else [("paths", strsV (c.paths.getD []))]) ++
      (if c.size == "" then [] else [("size", Val.str c.size)]) : List (String × Val)).map (·.1)),
      k ∈ normalKeys Gen.struct_Cache := by
    by_cases h0 : c.disabled = true <;> by_cases h1 : c.name = "" <;>
      by_cases h2 : (c.paths.getD []).isEmpty = true <;>
      by_cases h3 : c.size = "" <;> simp [h0, h1, h2, h3] <;> decide
  have hrem := rem_roundtrip_af _ aliasFree_cache _ c.rem hsub hR U hsU hl
  refine ⟨_, { disabled := c.disabled, name := c.name, paths := (if (c.paths.getD []).isEmpty then none else c.paths),
                size := c.size, rem := remMap (remainder U Gen.struct_Cache) },
    yStruct_ok Gen.struct_Cache _ c.rem hR hsub, ?_, ?_⟩
  · rw [hU]
    simp only [parseCache]
    rw [fieldOf_afKey (k := "disabled") (by decide), fieldOf_afKey (k := "name") (by decide),
      fieldOf_afKey (k := "paths") (by decide), fieldOf_afKey (k := "size") (by decide),
      hl "disabled", hl "name", hl "paths", hl "size"]
    by_cases h0 : c.disabled = true <;> by_cases h1 : c.name = "" <;>
      by_cases h2 : (c.paths.getD []).isEmpty = true <;>
      by_cases h3 : c.size = "" <;>
      simp [h0, h1, h2, h3, List.lookup, hdis, hname, hpaths, hsize, boolOf, strOf_str, strsOf_strsV, reread_strsV,
        rereadJ, show strsOf Val.null = .ok none from rfl] <;>
      (cases hp : c.paths <;> simp_all)
  · simp only [normCache, hrem]
    by_cases h2 : (c.paths.getD []).isEmpty = true
    · simp only [h2, if_true]
      rw [normList_of_getD_nil (x := c.paths) (by simpa using h2)]
      rfl
    · simp [h2]

/-! ### Signature: a nil `signed_fields` is written `[]` and comes back as an empty slice -/

theorem signature_roundtripY (s : Signature) :
    parseSignature (rereadJ (ySignature s)) = .ok (some { s with signedFields := some (s.signedFields.getD []) }) := by
  have hr : rereadJ (ySignature s) = .omap [("algorithm", .str s.algorithm),
      ("signed_fields", strsV (s.signedFields.getD [])), ("value", .str s.value)] := by
    simp [ySignature, rereadJ, rereadJKVs, reread_strsV]
  rw [hr]
  simp only [parseSignature]
  rw [fieldOf_afKey (k := "algorithm") (by decide), fieldOf_afKey (k := "signed_fields") (by decide),
    fieldOf_afKey (k := "value") (by decide)]
  simp [List.lookup, strOf_str, strsOf_strsV]

/-! ## Part C: the command step -/

/-- The matrix / cache value of a command step (total: the error branches are never taken on parser
    images, `matrix_roundtripY` / `cache_roundtripY`). -/
def mxY (m : Matrix) : Val := match yMatrix m with | .ok v => v | .error _ => .null
def caY (k : Cache) : Val := match yCache k with | .ok v => v | .error _ => .null

def cmdOutlineY (c : CommandStep) : List (String × Val) :=
  optE (c.key == "") "key" (.str c.key) ++ optE (c.label == "") "label" (.str c.label) ++
  [("command", .str c.command)] ++
  optE (c.plugins.getD []).isEmpty "plugins" (mPlugins (c.plugins.getD [])) ++
  optE (lenUMap c.env == 0) "env" (envV c.env) ++
  optO c.signature "signature" ySignature ++ optO c.matrix "matrix" mxY ++ optO c.cache "cache" caY

theorem yCommand_eq (c : CommandStep)
    (hmx : ∀ m, c.matrix = some m → ∃ v, yMatrix m = .ok v)
    (hca : ∀ k, c.cache = some k → ∃ v, yCache k = .ok v) :
    yCommand c = yStruct csD (cmdOutlineY c) c.rem := by
  obtain ⟨key, label, command, plugins, env, sig, matrix, cache, rem⟩ := c
  cases matrix with
  | none =>
    cases cache with
    | none => cases sig <;> rfl
    | some k =>
      obtain ⟨w, hw⟩ := hca k rfl
      cases sig <;> simp only [yCommand, cmdOutlineY, optE, optO, caY, hw, Except.map] <;> rfl
  | some m =>
    obtain ⟨v, hv⟩ := hmx m rfl
    cases cache with
    | none => cases sig <;> simp only [yCommand, cmdOutlineY, optE, optO, mxY, hv, Except.map] <;> rfl
    | some k =>
      obtain ⟨w, hw⟩ := hca k rfl
      cases sig <;> simp only [yCommand, cmdOutlineY, optE, optO, mxY, caY, hv, hw, Except.map] <;> rfl

theorem cmdOutlineY_keys (c : CommandStep) : ((cmdOutlineY c).map (·.1)).Sublist cmdOutlineKeys := by
  unfold cmdOutlineY
  simp only [List.map_append]
  exact (((((((keys_optE _ _ _).append (keys_optE _ _ _)).append (List.Sublist.refl _)).append
    (keys_optE _ _ _)).append (keys_optE _ _ _)).append (keys_optO _ _ _)).append (keys_optO _ _ _)).append
    (keys_optO _ _ _)

theorem cmdOutlineY_nodup (c : CommandStep) : ((cmdOutlineY c).map (·.1)).Nodup :=
  List.Nodup.sublist (cmdOutlineY_keys c) (by decide)

theorem cmdOutlineY_lookup_other (c : CommandStep) {k : String} (hk : k ∉ cmdOutlineKeys) :
    (cmdOutlineY c).lookup k = none :=
  lookup_none_of_not_mem (fun h => hk ((cmdOutlineY_keys c).subset h))

theorem cmdOutlineY_lookups (c : CommandStep) :
    (cmdOutlineY c).lookup "key" = (if (c.key == "") = true then none else some (.str c.key)) ∧
    (cmdOutlineY c).lookup "label" = (if (c.label == "") = true then none else some (.str c.label)) ∧
    (cmdOutlineY c).lookup "command" = some (.str c.command) ∧
    (cmdOutlineY c).lookup "plugins" =
      (if (c.plugins.getD []).isEmpty = true then none else some (mPlugins (c.plugins.getD []))) ∧
    (cmdOutlineY c).lookup "env" = (if (lenUMap c.env == 0) = true then none else some (envV c.env)) ∧
    (cmdOutlineY c).lookup "signature" = c.signature.map ySignature ∧
    (cmdOutlineY c).lookup "matrix" = c.matrix.map mxY ∧
    (cmdOutlineY c).lookup "cache" = c.cache.map caY := by
  unfold cmdOutlineY
  simp only [List.lookup_append, lookup_optE, lookup_optO, lookup_cons_if, List.lookup_nil]
  refine ⟨?_, ?_, ?_, ?_, ?_, ?_, ?_, ?_⟩ <;> simp <;> split <;> simp

/-- The command step: same assembly as `command_roundtrip_ok`, no condition on `skip` values. -/
theorem command_roundtripY (c : CommandStep) (hok : CommandOK c) (hs : StableCommandY c) :
    ∃ j kvs c', yCommand c = .ok j ∧ rereadJ j = .omap kvs ∧ parseCommand kvs = .ok c' ∧
      normCommand c' = normCommand c ∧
      kvs.lookup "command" = some (.str c.command) ∧
      ∀ k, k ∉ cmdOutlineKeys → kvs.lookup k = (c.rem.getD []).lookup k := by
  obtain ⟨hst_alias, _, _, _, _⟩ := hs
  have hyc : yCommand c = .ok (inlineFriendly (cmdOutlineY c) c.rem) := by
    rw [yCommand_eq c
      (fun m hm => let ⟨v, _, h, _⟩ := matrix_roundtripY m (hok.matrix m hm); ⟨v, h⟩)
      (fun k hk => let ⟨v, _, h, _⟩ := cache_roundtripY k (hok.cache k hk); ⟨v, h⟩)]
    exact yStruct_ok csD _ c.rem hok.rem
      (fun k hk => cmdOutlineKeys_normal k ((cmdOutlineY_keys c).subset hk))
  obtain ⟨U, hU, hsU, hl⟩ := reread_inline (cmdOutlineY c) c.rem (cmdOutlineY_nodup c) hok.rem.sorted hok.rem.noUMap
  obtain ⟨ok, ol, oc, op, oe, os, om, oca⟩ := cmdOutlineY_lookups c
  have hUcommands : U.lookup "commands" = none := by
    rw [hl, cmdOutlineY_lookup_other c (by decide)]; exact hok.noCommands
  have hUcommand : U.lookup "command" = some (.str c.command) := by rw [hl, oc]; rfl
  have hcmds : optField (taken U outerD) "Commands" none strsOf = .ok (some [c.command]) := by
    unfold optField; rw [fieldOf_commands, hUcommands, hUcommand]; rfl
  have hOK : outlineKeys U outerD = ["command"] := by
    simp [outlineKeys, taken, fieldTake, firstAlias, Gen.struct_CommandStep_UnmarshalOrdered_local0, Field.role,
      Field.key, Field.aliases, Field.name, hUcommands, hUcommand]
  have hR : ∀ k, (remainder U outerD).lookup k = if k = "command" then none else U.lookup k := by
    intro k; rw [lookup_remainder, hOK]; simp
  have hsR : SortedK (remainder U outerD) := sortedK_sublist List.filter_sublist hsU
  obtain ⟨R, hRdef⟩ : ∃ R, remainder U outerD = R := ⟨_, rfl⟩
  rw [hRdef] at hR hsR
  have hRU : ∀ k, k ≠ "command" → R.lookup k = match (cmdOutlineY c).lookup k with
      | some v => some (rereadJ v)
      | none => (c.rem.getD []).lookup k := by
    intro k hne; rw [hR, if_neg hne]; exact hl k
  -- key, label, command
  have hkey : optField (taken R csD) "Key" "" strOf = .ok c.key := by
    unfold optField
    rw [fieldOf_cs_key, hRU "key" (by decide), hRU "id" (by decide), hRU "identifier" (by decide), ok,
      cmdOutlineY_lookup_other c (k := "id") (by decide), cmdOutlineY_lookup_other c (k := "identifier") (by decide)]
    by_cases hk : c.key = ""
    · have := hst_alias.2 hk
      simp [hk, this.1, this.2, hok.rem.prim' (k := "key") (by decide)]
    · simp [hk, rereadJ, strOf_str]
  have hlabel : optField (taken R csD) "Label" "" strOf = .ok c.label := by
    unfold optField
    rw [fieldOf_cs_label, hRU "label" (by decide), hRU "name" (by decide), ol,
      cmdOutlineY_lookup_other c (k := "name") (by decide)]
    by_cases hk : c.label = ""
    · have := hst_alias.1 hk
      simp [hk, this, hok.rem.prim' (k := "label") (by decide)]
    · simp [hk, rereadJ, strOf_str]
  have hcommand : optField (taken R csD) "Command" "" strOf = .ok "" := by
    unfold optField
    rw [fieldOf_afKey (k := "command") (by decide), hR "command", if_pos rfl]
  -- plugins
  have hplug : ∃ pl', optField (taken R csD) "Plugins" none parsePlugins = .ok pl' ∧
      normList (pl'.map fun l => l.map fun p => p.map normPlugin) =
        normList (c.plugins.map fun l => l.map fun p => p.map normPlugin) := by
    unfold optField
    rw [fieldOf_afKey (k := "plugins") (by decide), hRU "plugins" (by decide), op]
    cases hp : c.plugins with
    | none =>
      refine ⟨none, ?_, rfl⟩
      simp [hok.rem.prim' (k := "plugins") (by decide)]
    | some l =>
      obtain ⟨hne, hall⟩ := hok.plugins l hp
      have hne' : l.isEmpty = false := by simpa using hne
      refine ⟨some (l.map fun p => p.map normPlugin), ?_, ?_⟩
      · simp only [Option.getD_some, hne', Bool.false_eq_true, if_false]
        exact plugins_roundtrip_ok l hne hall
      · simp only [Option.map_some]
        rw [map_map_idem]
        intro a _
        cases a with
        | none => rfl
        | some p =>
          simp only [Option.map_some]
          rw [normPlugin_idem p]
  -- env
  have henv : ∃ env', optField (taken R csD) "Env" none parseEnvMap = .ok env' ∧ normList env' = normList c.env := by
    unfold optField
    rw [fieldOf_afKey (k := "env") (by decide), hRU "env" (by decide), oe]
    have hnone := hok.rem.prim' (k := "env") (by decide)
    cases he : c.env with
    | none => exact ⟨none, by simp [lenUMap, hnone], rfl⟩
    | some e =>
      cases e with
      | nil => exact ⟨none, by simp [lenUMap, hnone], rfl⟩
      | cons a t =>
        refine ⟨some (a :: t), ?_, rfl⟩
        simp only [lenUMap, List.length_cons, Nat.add_eq_zero_iff, Nat.succ_ne_self, and_false, beq_iff_eq,
          if_false]
        exact env_roundtrip_sorted (a :: t) (hok.env _ he)
  -- signature: `signed_fields: []` for a nil slice comes back as an empty slice
  have hsig : ∃ sg', optField (taken R csD) "Signature" none parseSignature = .ok sg' ∧
      (sg'.map fun s => { s with signedFields := normList s.signedFields }) =
        (c.signature.map fun s => { s with signedFields := normList s.signedFields }) := by
    unfold optField
    rw [fieldOf_afKey (k := "signature") (by decide), hRU "signature" (by decide), os]
    cases hsg : c.signature with
    | none => exact ⟨none, by simp [hok.rem.prim' (k := "signature") (by decide)], rfl⟩
    | some s =>
      refine ⟨some { s with signedFields := some (s.signedFields.getD []) }, ?_, ?_⟩
      · simp only [Option.map_some]; exact signature_roundtripY s
      · obtain ⟨alg, sf, val⟩ := s
        cases sf <;> rfl
  -- matrix
  have hmx : ∃ mx', optField (taken R csD) "Matrix" none parseMatrix = .ok mx' ∧
      mx'.map normMatrix = c.matrix.map normMatrix := by
    unfold optField
    rw [fieldOf_afKey (k := "matrix") (by decide), hRU "matrix" (by decide), om]
    cases hm : c.matrix with
    | none => exact ⟨none, by simp [hok.rem.prim' (k := "matrix") (by decide)], rfl⟩
    | some mm =>
      obtain ⟨v, m', h0, h1, h2⟩ := matrix_roundtripY mm (hok.matrix mm hm)
      have hv : mxY mm = v := by simp only [mxY, h0]
      exact ⟨some m', by simp only [Option.map_some, hv]; exact h1, by simp [h2]⟩
  -- cache
  have hca : ∃ ca', optField (taken R csD) "Cache" none parseCache = .ok ca' ∧
      ca'.map normCache = c.cache.map normCache := by
    unfold optField
    rw [fieldOf_afKey (k := "cache") (by decide), hRU "cache" (by decide), oca]
    cases hm : c.cache with
    | none => exact ⟨none, by simp [hok.rem.prim' (k := "cache") (by decide)], rfl⟩
    | some k =>
      obtain ⟨v, k', h0, h1, h2⟩ := cache_roundtripY k (hok.cache k hm)
      have hv : caY k = v := by simp only [caY, h0]
      exact ⟨some k', by simp only [Option.map_some, hv]; exact h1, by simp [h2]⟩
  -- remainder
  have hrem : normList (remMap (remainder R csD)) = normList c.rem := by
    apply rem_roundtrip_gen csD ((cmdOutlineY c).filter fun p => p.1 != "command") rereadJ c.rem ?_ hok.rem R hsR
    · intro k
      rw [lookup_filter_key (fun k => k != "command")]
      by_cases hk : k = "command"
      · subst hk
        simp [hR, hok.rem.prim' (k := "command") (by decide)]
      · have : (k != "command") = true := by simpa using hk
        rw [if_pos this]
        exact hRU k hk
    · intro k hk hn
      rcases outlineKeys_cs_alias hk hn with ⟨hk', hnone⟩ | ⟨rfl, hnone⟩
      · rw [hRU "key" (by decide), ok] at hnone
        have hk0 : c.key = "" := by
          by_cases h0 : c.key = ""
          · exact h0
          · simp [h0] at hnone
        rcases hk' with rfl | rfl
        · exact (hst_alias.2 hk0).1
        · exact (hst_alias.2 hk0).2
      · rw [hRU "label" (by decide), ol] at hnone
        have hk0 : c.label = "" := by
          by_cases h0 : c.label = ""
          · exact h0
          · simp [h0] at hnone
        exact hst_alias.1 hk0
    · intro k hk
      obtain ⟨p, hp, rfl⟩ := List.mem_map.1 hk
      exact cmdOutlineKeys_normal _ ((cmdOutlineY_keys c).subset (List.mem_map_of_mem (List.mem_filter.1 hp).1))
  obtain ⟨pl', hpl1, hpl2⟩ := hplug
  obtain ⟨env', henv1, henv2⟩ := henv
  obtain ⟨sg', hsg1, hsg2⟩ := hsig
  obtain ⟨mx', hmx1, hmx2⟩ := hmx
  obtain ⟨ca', hca1, hca2⟩ := hca
  refine ⟨_, U, { key := c.key, label := c.label, command := c.command, plugins := pl', env := env',
                  signature := sg', matrix := mx', cache := ca', rem := remMap (remainder R csD) }, hyc, hU, ?_, ?_⟩
  · unfold parseCommand
    simp only [hcmds, hRdef, hkey, hlabel, hcommand, hpl1, henv1, hsg1, hmx1, hca1]
    rfl
  · refine ⟨?_, hUcommand, fun k hk => ?_⟩
    · simp only [normCommand, hpl2, henv2, hsg2, hmx2, hca2, hrem]
    · rw [hl, cmdOutlineY_lookup_other c hk]

/-! ## Part D: steps -/

theorem yStep_command (c : CommandStep) : yStep (.command c) = yCommand c := rfl
theorem yStep_wait (s : String) (c : UMap Val) :
    yStep (.wait s c) = .ok (if s != "" then .str s else if lenUMap c == 0 then .str "wait" else umapV c) := rfl
theorem yStep_input (s : String) (c : UMap Val) :
    yStep (.input s c) =
      if s != "" then .ok (.str s) else if lenUMap c == 0 then .error .emptyInputStep else .ok (umapV c) := rfl
theorem yStep_trigger (c : UMap Val) : yStep (.trigger c) = .ok (.umap (c.getD [])) := rfl
theorem yStep_unknown (v : Val) : yStep (.unknown v) = .ok v := rfl
theorem yStep_group_some (k : String) (g : Option String) (l : List Step) (r : UMap Val) :
    yStep (.group k g (some l) r) =
      match ySteps l with
      | .error e => .error e
      | .ok svs =>
        yStruct grpD ((if k == "" then [] else [("key", .str k)]) ++
          [("group", match g with | none => .null | some s => .str s), ("steps", .seq svs)]) r := rfl
theorem ySteps_cons (s : Step) (r : List Step) :
    ySteps (s :: r) =
      match yStep s with
      | .error e => .error e
      | .ok v =>
        match ySteps r with
        | .error e => .error e
        | .ok vs => .ok (v :: vs) := rfl

/-- The statement of the step round trip at one fuel level (the induction hypothesis), YAML leg. -/
def StepRTY (f : Nat) : Prop :=
  ∀ (x : Val) (s : Step) (w : List Warn), NoUMap x → KeysNodup x → parseStep f x = .ok (s, w) → StableStepY s →
    ∃ j s' w', yStep s = .ok j ∧ parseStep f (rereadJ j) = .ok (s', w') ∧ normStep s' = normStep s ∧ w' = w

theorem steps_roundtripY_of (f : Nat) (ih : StepRTY f) : (xs : List Val) → (ss : List Step) → (ws : List Warn) →
    NoUMapList xs → KeysNodupList xs → parseSteps f xs = .ok (ss, ws) → StableStepsY ss →
    ∃ js ss', ySteps ss = .ok js ∧ parseSteps f (rereadJList js) = .ok (ss', ws) ∧ normSteps ss' = normSteps ss
  | [], ss, ws, _, _, h, _ => by
    rw [parseSteps.eq_1] at h
    simp only [Except.ok.injEq, Prod.mk.injEq] at h
    obtain ⟨rfl, rfl⟩ := h
    exact ⟨[], [], rfl, by rw [rereadJList, parseSteps.eq_1], rfl⟩
  | v :: r, ss, ws, hx, hd, h, hs => by
    obtain ⟨s, w, ss', ws', hs1, hss, rfl, rfl⟩ := parseSteps_cons_ok h
    rw [NoUMapList] at hx
    rw [KeysNodupList] at hd
    rw [StableStepsY] at hs
    obtain ⟨j, s1, w1, hj, hp, hn, rfl⟩ := ih v s w hx.1 hd.1 hs1 hs.1
    obtain ⟨js, ss1, hjs, hps, hns⟩ := steps_roundtripY_of f ih r ss' ws' hx.2 hd.2 hss hs.2
    refine ⟨j :: js, s1 :: ss1, ?_, ?_, ?_⟩
    · rw [ySteps_cons, hj, hjs]
    · rw [rereadJList, parseSteps.eq_2, hp, hps]
    · rw [normSteps, normSteps, hn, hns]

theorem yStep_group_eq (k : String) (g : Option String) (l : List Step) (r : UMap Val) (js : List Val)
    (hR : RemOK grpD r) (h : ySteps l = .ok js) :
    yStep (.group k g (some l) r) = .ok (inlineFriendly (grpOutline k g js) r) := by
  rw [yStep_group_some, h]
  have hn : ∀ k ∈ grpOutlineKeys, k ∈ normalKeys grpD := by decide
  exact yStruct_ok grpD (grpOutline k g js) r hR (fun k' hk' => hn _ ((grpOutline_keys k g js).subset hk'))

theorem group_roundtripY (f : Nat) (ih : StepRTY f) (m : Entries) (hm : NoUMapKVs m) (hkk : KeysNodupKVs m)
    (g : Step) (hg : parseGroup f m = .ok g) (hs : StableStepY g) :
    ∃ j U g' k grp ss, g = .group k grp (some ss) (remMap (remainder m grpD)) ∧
      yStep g = .ok j ∧ rereadJ j = .omap U ∧ parseGroup f U = .ok g' ∧ normStep g' = normStep g ∧
      (U.lookup "group").isSome = true ∧
      ∀ k', k' ∉ grpOutlineKeys → U.lookup k' = ((remMap (remainder m grpD)).getD []).lookup k' := by
  obtain ⟨k, grp, ss, rfl, hsteps⟩ := parseGroup_ok hg
  have hR : RemOK grpD (remMap (remainder m grpD)) := remOK_remMap m grpD hm
  generalize remMap (remainder m grpD) = rem at hR hs
  simp only [StableStepY] at hs
  obtain ⟨hss, _, _, hkey⟩ := hs
  -- the nested steps
  have hsub : ∃ js ss', ySteps ss = .ok js ∧ parseSteps f (rereadJList js) = .ok (ss', []) ∧
      normSteps ss' = normSteps ss := by
    rcases hsteps with ⟨_, rfl⟩ | ⟨xs, hl, hps⟩
    · exact ⟨[], [], rfl, by rw [rereadJList, parseSteps.eq_1], rfl⟩
    · have h1 : NoUMap (.seq xs) := noUMap_of_lookup hm hl
      have h2 : KeysNodup (.seq xs) := keysNodup_of_lookup hkk hl
      exact steps_roundtripY_of f ih xs ss [] (by simpa [NoUMap] using h1) (by simpa [KeysNodup] using h2) hps hss
  obtain ⟨js, ss', hjs, hps, hns⟩ := hsub
  have hnd : ((grpOutline k grp js).map (·.1)).Nodup := List.Nodup.sublist (grpOutline_keys k grp js) (by decide)
  obtain ⟨U, hU, hsU, hl⟩ := reread_inline (grpOutline k grp js) rem hnd hR.sorted hR.noUMap
  obtain ⟨ok, og, os⟩ := grpOutline_lookups k grp js
  have hUg : U.lookup "group" = some (match grp with | none => Val.null | some s => .str s) := by
    rw [hl, og]
    cases grp <;> rfl
  have hUs : U.lookup "steps" = some (.seq (rereadJList js)) := by
    rw [hl, os]; rfl
  have hkeyF : optField (taken U grpD) "Key" "" strOf = .ok k := by
    unfold optField
    rw [fieldOf_grp_key, hl "key", hl "id", hl "identifier", ok,
      lookup_none_of_not_mem (fun h => absurd ((grpOutline_keys k grp js).subset h) (by decide)),
      lookup_none_of_not_mem (fun h => absurd ((grpOutline_keys k grp js).subset h) (by decide))]
    by_cases hk : k = ""
    · have := hkey hk
      simp [hk, this.1, this.2, hR.prim' (k := "key") (by decide)]
    · simp [hk, rereadJ, strOf_str]
  have hrem : normList (remMap (remainder U grpD)) = normList rem := by
    apply rem_roundtrip_gen grpD (grpOutline k grp js) rereadJ rem ?_ hR U hsU hl
    · intro k' hk' hn
      rcases outlineKeys_grp_alias hk' hn with ⟨hk2, hnone⟩ | hnone
      · rw [hl "key", ok] at hnone
        have hk0 : k = "" := by
          by_cases h0 : k = ""
          · exact h0
          · simp [h0] at hnone
        rcases hk2 with rfl | rfl
        · exact (hkey hk0).1
        · exact (hkey hk0).2
      · rw [hUg] at hnone; cases hnone
    · intro k' hk'
      have : ∀ k ∈ grpOutlineKeys, k ∈ normalKeys grpD := by decide
      exact this _ ((grpOutline_keys k grp js).subset hk')
  refine ⟨_, U, .group k grp (some ss') (remMap (remainder U grpD)), k, grp, ss, rfl,
    yStep_group_eq k grp ss rem js hR hjs, hU, ?_, ?_, by rw [hUg]; rfl, fun k' hk' => ?_⟩
  · rw [parseGroup.eq_1]
    simp only [hkeyF, fieldOf_group_steps, hUs, hps, fieldOf_grp_group U _ hUg]
    cases grp <;> simp [strOf_str, Except.map]
  · simp only [normStep, hns, hrem]
  · rw [hl, lookup_none_of_not_mem (fun h => hk' ((grpOutline_keys k grp js).subset h))]

/-- A step that marshals to the very entry it was parsed from re-parses to itself. -/
theorem verbatim_roundtripY {f : Nat} {x : Val} {s : Step} {w : List Warn} (hx : NoUMap x)
    (h : parseStep f x = .ok (s, w)) (hm : yStep s = .ok x) :
    ∃ j s' w', yStep s = .ok j ∧ parseStep f (rereadJ j) = .ok (s', w') ∧ normStep s' = normStep s ∧ w' = w :=
  ⟨x, s, w, hm, by rw [reread_noUMap x hx]; exact h, rfl, rfl⟩

theorem step_roundtripY_all : ∀ f, StepRTY f
  | 0 => by
    intro x s w _ _ h
    rw [parseStep.eq_1] at h; cases h
  | f + 1 => by
    have ih := step_roundtripY_all f
    intro x s w hx hd h hs
    cases x with
    | str t =>
      have h0 := h
      rw [parseStep.eq_2] at h
      split at h
      · rename_i hsel
        simp only [Except.ok.injEq, Prod.mk.injEq] at h; obtain ⟨rfl, rfl⟩ := h
        apply verbatim_roundtripY hx h0
        have hne : (t != "") = true := by
          simpa using selectScalar_ne_empty (by rw [hsel]; simp)
        rw [yStep_wait, if_pos hne]
      · rename_i hsel
        simp only [Except.ok.injEq, Prod.mk.injEq] at h; obtain ⟨rfl, rfl⟩ := h
        apply verbatim_roundtripY hx h0
        have hne : (t != "") = true := by
          simpa using selectScalar_ne_empty (by rw [hsel]; simp)
        rw [yStep_input, if_pos hne]
      · simp only [Except.ok.injEq, Prod.mk.injEq] at h; obtain ⟨rfl, rfl⟩ := h
        exact verbatim_roundtripY hx h0 (yStep_unknown _)
    | omap m =>
      have h0 := h
      have hm : NoUMapKVs m := by simpa [NoUMap] using hx
      have hn : (m.map (·.1)).Nodup := by rw [KeysNodup] at hd; exact hd.1
      have hkk : KeysNodupKVs m := by rw [KeysNodup] at hd; exact hd.2
      rw [parseStep.eq_3] at h
      split at h
      · cases h
      · rename_i sel hsel
        split at h
        · cases h
        · simp only [Except.ok.injEq, Prod.mk.injEq] at h; obtain ⟨rfl, rfl⟩ := h
          exact verbatim_roundtripY hx h0 (yStep_unknown _)
        · simp only [Except.ok.injEq, Prod.mk.injEq] at h; obtain ⟨rfl, rfl⟩ := h
          exact verbatim_roundtripY hx h0 (yStep_unknown _)
        · split at h
          · rename_i c hc
            simp only [Except.ok.injEq, Prod.mk.injEq] at h; obtain ⟨rfl, rfl⟩ := h
            rw [StableStepY] at hs
            obtain ⟨j, U, c', hj, hU, hp, hnc, hUc, hUo⟩ := command_roundtripY c (parseCommand_inv hm hc) hs
            have hselU : selOf U = .ok (.known .command) := by
              apply selOf_command_of _ (by rw [hUc]; rfl) hsel
              rw [hUo "type" (by decide), command_rem_lookup hc hn (by decide) (by decide)]
            refine ⟨j, .command c', [], by rw [yStep_command]; exact hj, ?_, ?_, rfl⟩
            · rw [hU, parseStep.eq_3, hselU]
              simp only [hp]
            · rw [normStep, normStep, hnc]
          · simp only [Except.ok.injEq, Prod.mk.injEq] at h; obtain ⟨rfl, rfl⟩ := h
            exact verbatim_roundtripY hx h0 (yStep_unknown _)
        · simp only [Except.ok.injEq, Prod.mk.injEq] at h; obtain ⟨rfl, rfl⟩ := h
          obtain ⟨h1, h2, h3⟩ := contents_reparse m hm hn
          refine ⟨.umap (Parse.umapOf m), .wait "" (some (Parse.umapOf m)), [], ?_, ?_, rfl, rfl⟩
          · rw [yStep_wait, lenUMap_umapOf_ne (selOf_ne_nil hsel)]; rfl
          · rw [h1, parseStep.eq_3, h2, hsel]
            simp only [h3]
        · simp only [Except.ok.injEq, Prod.mk.injEq] at h; obtain ⟨rfl, rfl⟩ := h
          obtain ⟨h1, h2, h3⟩ := contents_reparse m hm hn
          refine ⟨.umap (Parse.umapOf m), .input "" (some (Parse.umapOf m)), [], ?_, ?_, rfl, rfl⟩
          · rw [yStep_input, lenUMap_umapOf_ne (selOf_ne_nil hsel)]; rfl
          · rw [h1, parseStep.eq_3, h2, hsel]
            simp only [h3]
        · simp only [Except.ok.injEq, Prod.mk.injEq] at h; obtain ⟨rfl, rfl⟩ := h
          obtain ⟨h1, h2, h3⟩ := contents_reparse m hm hn
          refine ⟨.umap (Parse.umapOf m), .trigger (some (Parse.umapOf m)), [], ?_, ?_, rfl, rfl⟩
          · rw [yStep_trigger]; rfl
          · rw [h1, parseStep.eq_3, h2, hsel]
            simp only [h3]
        · split at h
          · rename_i g hg
            simp only [Except.ok.injEq, Prod.mk.injEq] at h; obtain ⟨rfl, rfl⟩ := h
            obtain ⟨j, U, g', k, grp, ss, hgeq, hj, hU, hpg, hng, hUg, hUo⟩ :=
              group_roundtripY f ih m hm hkk g hg hs
            have hselU : selOf U = .ok (.known .group) := selOf_group_of hn hsel hUg hUo
            refine ⟨j, g', [], hj, ?_, hng, rfl⟩
            rw [hU, parseStep.eq_3, hselU]
            simp only [hpg]
          · simp only [Except.ok.injEq, Prod.mk.injEq] at h; obtain ⟨rfl, rfl⟩ := h
            exact verbatim_roundtripY hx h0 (yStep_unknown _)
        · simp only [Except.ok.injEq, Prod.mk.injEq] at h; obtain ⟨rfl, rfl⟩ := h
          exact verbatim_roundtripY hx h0 (yStep_unknown _)
    | null | bool _ | int _ | float _ | time _ | seq _ | umap _ =>
      rw [parseStep.eq_4 _ _ (by intro s h; cases h) (by intro m h; cases h)] at h; cases h

/-- Every step kind, groups recursively, YAML leg. -/
theorem step_roundtripY (f : Nat) (x : Val) (s : Step) (w : List Warn) (hx : NoUMap x) (hd : KeysNodup x)
    (h : parseStep f x = .ok (s, w)) (hs : StableStepY s) :
    ∃ j s' w', yStep s = .ok j ∧ parseStep f (rereadJ j) = .ok (s', w') ∧ normStep s' = normStep s ∧ w' = w :=
  step_roundtripY_all f x s w hx hd h hs

/-! ## Part E: the pipeline -/

/-- yaml.v3 omits an env block that is nil or empty (`ordered.Map.IsZero`). -/
theorem yPipeline_eq (p : Pipeline) (l : List Step) (js : List Val) (hl : p.steps = some l) (h : ySteps l = .ok js) :
    yPipeline p = yStruct pipeD (pipeOutline js (normList p.env)) p.rem := by
  obtain ⟨steps, env, rem⟩ := p
  simp only at hl
  subst hl
  unfold yPipeline
  simp only [h]
  cases env with
  | none => rfl
  | some e => cases e <;> rfl

theorem yaml_fixpoint (v : Val) (p : Pipeline) (ws : List Warn) (hv : NoUMap v) (hd : KeysNodup v)
    (h : parsePipeline v = .ok (p, ws)) (hs : StablePipelineY p) :
    ∃ j p' ws', yPipeline p = .ok j ∧ parsePipeline (rereadJ j) = .ok (p', ws') ∧ normPipeline p' = normPipeline p := by
  obtain ⟨xs, l, ws1, hl, hx1, hx2, hps, hR⟩ := parsePipeline_inv hv hd h
  obtain ⟨js, ss', hjs, hps', hns⟩ := steps_roundtripY_of stepFuel (step_roundtripY_all stepFuel) xs l ws1 hx1 hx2 hps
    (hs.1 l hl)
  have hnd : ((pipeOutline js (normList p.env)).map (·.1)).Nodup :=
    List.Nodup.sublist (pipeOutline_keys js (normList p.env)) (by decide)
  have hsubK : ∀ k ∈ (pipeOutline js (normList p.env)).map (·.1), k ∈ normalKeys pipeD := by
    intro k hk
    have : ∀ k ∈ ["steps", "env"], k ∈ normalKeys pipeD := by decide
    exact this k ((pipeOutline_keys js (normList p.env)).subset hk)
  obtain ⟨U, hU, hsU, hlk⟩ := reread_inline (pipeOutline js (normList p.env)) p.rem hnd hR.sorted hR.noUMap
  have hUs : U.lookup "steps" = some (.seq (rereadJList js)) := by
    rw [hlk]; simp [pipeOutline, List.lookup_append, lookup_cons_if, rereadJ]
  have hUe : U.lookup "env" = (normList p.env).map fun e => rereadJ (envOV e) := by
    rw [hlk]
    simp only [pipeOutline, List.lookup_append, lookup_cons_if, lookup_optO, List.lookup_nil]
    cases normList p.env with
    | none => simp [hR.prim' (k := "env") (by decide)]
    | some e => simp
  have henv : optField (taken U pipeD) "Env" none parseEnvOrdered = .ok (normList p.env) := by
    unfold optField
    rw [fieldOf_afKey (k := "env") (by decide), hUe]
    cases normList p.env with
    | none => rfl
    | some e => exact pipeline_env_roundtrip e
  have hrem := rem_roundtrip_af pipeD aliasFree_pipeline _ p.rem hsubK hR U hsU hlk
  refine ⟨inlineFriendly (pipeOutline js (normList p.env)) p.rem,
    { steps := some ss', env := normList p.env, rem := remMap (remainder U pipeD) }, ws1, ?_, ?_, ?_⟩
  · rw [yPipeline_eq p l js hl hjs]
    exact yStruct_ok pipeD _ p.rem hR hsubK
  · rw [hU]
    unfold parsePipeline
    simp only [fieldOf_pipeline_steps, hUs, hps', Except.map, henv]
  · simp only [normPipeline, hns, hrem, hl, normList_idem]

/-! ## Part F: the two legs -/

theorem stableAdjustmentY_of {a : Adjustment} (h : StableAdjustment a) : StableAdjustmentY a := ⟨h.2.1, h.2.2⟩

theorem stableMatrixY_of {m : Matrix} (h : StableMatrix m) : StableMatrixY m :=
  ⟨fun l hl a ha => stableAdjustmentY_of (h.1 l hl a ha), h.2.1, h.2.2⟩

theorem stableCommandY_of {c : CommandStep} (h : StableCommand c) : StableCommandY c :=
  ⟨h.1, h.2.1, fun m hm => stableMatrixY_of (h.2.2.1 m hm), h.2.2.2.1, h.2.2.2.2⟩

mutual
  theorem stableStepY_of : (s : Step) → StableStep s → StableStepY s
    | .command c, h => by
      rw [StableStep] at h; rw [StableStepY]; exact stableCommandY_of h
    | .wait _ c, h => by rw [StableStep] at h; rw [StableStepY]; exact h
    | .input _ c, h => by rw [StableStep] at h; rw [StableStepY]; exact h
    | .trigger c, h => by rw [StableStep] at h; rw [StableStepY]; exact h
    | .group k g none r, h => by
      rw [StableStep] at h; rw [StableStepY]; exact ⟨trivial, h.2⟩
    | .group k g (some l) r, h => by
      rw [StableStep] at h; rw [StableStepY]; exact ⟨stableStepsY_of l h.1, h.2⟩
    | .unknown v, h => by rw [StableStep] at h; rw [StableStepY]; exact h
  theorem stableStepsY_of : (l : List Step) → StableSteps l → StableStepsY l
    | [], _ => by rw [StableStepsY]; trivial
    | s :: r, h => by
      rw [StableSteps] at h; rw [StableStepsY]; exact ⟨stableStepY_of s h.1, stableStepsY_of r h.2⟩
end

/-- The YAML leg needs less than the JSON leg. -/
theorem stablePipelineY_of {p : Pipeline} (h : StablePipeline p) : StablePipelineY p :=
  ⟨fun l hl => stableStepsY_of l (h.1 l hl), h.2⟩

theorem legs_carry_same_data (v : Val) (p : Pipeline) (ws : List Warn) (hv : NoUMap v) (hd : KeysNodup v)
    (h : parsePipeline v = .ok (p, ws)) (hs : StablePipeline p) :
    ∃ jJ jY pJ pY wJ wY, mPipeline p = .ok jJ ∧ yPipeline p = .ok jY ∧
      parsePipeline (rereadJ jJ) = .ok (pJ, wJ) ∧ parsePipeline (rereadJ jY) = .ok (pY, wY) ∧
      normPipeline pJ = normPipeline pY := by
  obtain ⟨jJ, pJ, wJ, h1, h2, h3⟩ := json_fixpoint v p ws hv hd h hs
  obtain ⟨jY, pY, wY, g1, g2, g3⟩ := yaml_fixpoint v p ws hv hd h (stablePipelineY_of hs)
  exact ⟨jJ, jY, pJ, pY, wJ, wY, h1, g1, h2, g2, h3.trans g3.symm⟩

/-- The one place where the legs differ in content (finding F11): a `skip` that is `false`, `""`, `0` or
    `[]` is kept by yaml.v3 (`isZero` of an interface: only nil) and dropped by `isEmptyValue`. -/
theorem yaml_keeps_emptyish_skip (a : Adjustment) (h : emptyishSkip a.skip = true)
    (hrem : (a.rem.getD []).lookup "skip" = none ∧ (a.rem.getD []).lookup "with" = none) :
    (∃ kvs, yAdjustment a = .ok (.umap kvs) ∧ kvs.lookup "skip" = some a.skip) ∧
    (∃ kvs, mAdjustment a = .umap kvs ∧ kvs.lookup "skip" = none) := by
  have hnn : yIsZeroAny a.skip = false := by
    cases hs : a.skip <;> simp [hs, emptyishSkip, yIsZeroAny] at h ⊢
  have hemp : isEmptyAny a.skip = true := by
    cases hs : a.skip <;> simp_all [emptyishSkip]
  have hskip : "skip" ∉ (a.rem.getD []).map (·.1) := lookup_none_iff.1 hrem.1
  have hwith : "with" ∉ (a.rem.getD []).map (·.1) := lookup_none_iff.1 hrem.2
  constructor
  · refine ⟨Marshal.umapOf ((a.rem.getD []) ++ ([("with", mWith a.with_)] ++ [("skip", a.skip)])), ?_, ?_⟩
    · have hfind : (a.rem.getD []).find?
          (fun p => (declaredKeys Gen.struct_MatrixAdjustment).contains p.1) = none := by
        rw [List.find?_eq_none]
        intro p hp hc
        have hd : declaredKeys Gen.struct_MatrixAdjustment = ["with", "skip"] := by decide
        rw [hd] at hc
        have hk : p.1 ∈ (a.rem.getD []).map (·.1) := List.mem_map_of_mem hp
        simp only [List.contains_cons, List.contains_nil, Bool.or_false, Bool.or_eq_true, beq_iff_eq] at hc
        rcases hc with hc | hc
        · rw [hc] at hk; exact hwith hk
        · rw [hc] at hk; exact hskip hk
      unfold yAdjustment yStruct
      rw [hfind]
      simp only [hnn, Bool.false_eq_true, if_false]
    · rw [marshal_umapOf_eq]
      unfold Parse.umapOf
      rw [← List.append_assoc, List.foldl_append]
      simp only [List.foldl_cons, List.foldl_nil, lookup_umapInsert, if_true]
  · refine ⟨Marshal.umapOf ((a.rem.getD []).filter (fun p => !([("with", mWith a.with_)].map (·.1)).contains p.1) ++
        [("with", mWith a.with_)]), ?_, ?_⟩
    · unfold mAdjustment inlineFriendly
      simp only [hemp, if_true, List.append_nil]
    · rw [marshal_umapOf_eq]
      unfold Parse.umapOf
      rw [List.foldl_append]
      simp only [List.foldl_cons, List.foldl_nil, lookup_umapInsert]
      rw [if_neg (by decide)]
      apply lookup_foldl_not_mem
      intro hm
      exact hskip ((List.filter_sublist.map _).subset hm)

end GoPipeline.Roundtrip
