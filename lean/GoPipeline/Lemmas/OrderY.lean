/-
  C08, YAML leg — lemmas behind `Props/C08Y.lean`: the value tree handed to `yaml.Marshal`
  (`Model/MarshalY.lean`) keeps the order-significant mappings exactly as the JSON leg does.

  This file sits on the `Lemmas/Order.lean` side of the import graph (`Lemmas/Parse03.lean`). It cannot
  import `Lemmas/RoundtripY.lean` / `Lemmas/MarshalYTotal.lean`: those build on `Lemmas/Parse13.lean`, which
  declares the same `GoPipeline.Parse.*` names as `Lemmas/Parse03.lean`. What is needed of the YAML leg is
  therefore proved here from `Model/MarshalY.lean` directly:

  * `Free`, `yStruct_inv`, `yStruct_of_free`: yaml.v3's struct encoding succeeds exactly when no inline key
    is a declared key, and then it is the Go map of inline entries followed by the outline entries.
  * `yCommand_inv` / `yCommand_of`: the struct level of a command step.
  * `env_marshal_order_yaml`, `empty_env_omitted_yaml`, `env_block_order_yaml`: the pipeline env block.
  * `plugins_order_yaml`: the plugin list is the JSON leg's `mPlugins` value.
  * `command_other_keys_preserved_yaml`: unknown keys of a command step are carried verbatim.
  * `free_remMap`, `yMatrix_total_of_parse`, `yCache_total_of_parse`, `yCommand_total_of_parse`: a parsed
    command step always encodes (no `NoUMap` / distinct-keys condition is needed for that).
  * `legs_same_order`: both legs hold the identical value under every unknown key.
-/
import GoPipeline.Lemmas.Order
import GoPipeline.Model.MarshalY
namespace GoPipeline.Order
open GoPipeline GoPipeline.Pipe GoPipeline.Parse GoPipeline.Marshal GoPipeline.Unm GoPipeline.Roundtrip
open GoPipeline.MarshalY

local notation "outerD" => Gen.struct_CommandStep_UnmarshalOrdered_local0
local notation "csD" => Gen.struct_CommandStep
local notation "pipeD" => Gen.struct_Pipeline

/-! ## yaml.v3 struct encoding -/

/-- No key of the inline map is a declared key of the struct. -/
def Free (d : List Field) (rem : UMap Val) : Prop := ∀ p ∈ rem.getD [], p.1 ∉ declaredKeys d

theorem free_none (d : List Field) : Free d none := by
  intro p hp
  simp at hp

/-- The struct encoding succeeded: no inline key collides, and the value is the Go map of the inline
    entries followed by the outline entries. -/
theorem yStruct_inv {d : List Field} {outline : List (String × Val)} {inline : UMap Val} {j : Val}
    (h : yStruct d outline inline = .ok j) :
    Free d inline ∧ j = .umap (Marshal.umapOf (inline.getD [] ++ outline)) := by
  unfold yStruct at h
  split at h
  · cases h
  · rename_i hf
    simp only [Except.ok.injEq] at h
    refine ⟨?_, h.symm⟩
    intro p hp hk
    have := List.find?_eq_none.1 hf p hp
    simp [hk] at this

theorem yStruct_of_free {d : List Field} (outline : List (String × Val)) {inline : UMap Val} (h : Free d inline) :
    yStruct d outline inline = .ok (.umap (Marshal.umapOf (inline.getD [] ++ outline))) := by
  unfold yStruct
  have hf : (inline.getD []).find? (fun p => (declaredKeys d).contains p.1) = none := by
    rw [List.find?_eq_none]
    intro p hp
    simpa using h p hp
  rw [hf]

theorem mem_declaredKeys {d : List Field} {k : String} (h : k ∈ declaredKeys d) :
    ∃ f ∈ d, f.role = .normal ∧ f.key = k := by
  unfold declaredKeys at h
  obtain ⟨f, hf, hm⟩ := List.mem_filterMap.1 h
  cases hr : f.role <;> simp only [hr, Option.some.injEq] at hm <;> first | exact ⟨f, hf, hr, hm⟩ | cases hm

/-! ## Go map stores: which entry of the stored list a key reads back -/

/-- Entries stored afterwards under other keys do not matter. -/
theorem lookup_umapOf_append_of_not_mem (a b : List (String × Val)) (k : String) (hk : k ∉ b.map (·.1)) :
    (Marshal.umapOf (a ++ b)).lookup k = (Marshal.umapOf a).lookup k := by
  rw [marshal_umapOf_eq, marshal_umapOf_eq]
  unfold Parse.umapOf
  rw [List.foldl_append, lookup_foldl_not_mem _ _ hk]

/-- The last entry stored under a key reads back. -/
theorem lookup_umapOf_mid (X Y : List (String × Val)) (k : String) (v : Val) (hk : k ∉ Y.map (·.1)) :
    (Marshal.umapOf (X ++ [(k, v)] ++ Y)).lookup k = some v := by
  rw [lookup_umapOf_append_of_not_mem _ _ _ hk]
  exact lookup_umapOf_append_last X k v

theorem lookup_umapOf_none (a : List (String × Val)) (k : String) (hk : k ∉ a.map (·.1)) :
    (Marshal.umapOf a).lookup k = none := by
  rw [marshal_umapOf_eq]
  unfold Parse.umapOf
  rw [lookup_foldl_not_mem _ _ hk]
  rfl

theorem mem_foldl_umapInsertY {q : String × Val} : (l acc : List (String × Val)) →
    q ∈ l.foldl (fun acc p => Parse.umapInsert p.1 p.2 acc) acc → q ∈ l ∨ q ∈ acc
  | [], _, h => .inr h
  | p :: r, acc, h => by
    rw [List.foldl_cons] at h
    rcases mem_foldl_umapInsertY r _ h with h | h
    · exact .inl (List.mem_cons_of_mem _ h)
    · rcases mem_umapInsert h with h | h
      · exact .inl (h ▸ List.mem_cons_self)
      · exact .inr h

theorem mem_of_mem_remMap {rest : Entries} {q : String × Val} (h : q ∈ (remMap rest).getD []) : q ∈ rest := by
  unfold remMap at h
  split at h
  · simp at h
  · simp only [Option.getD_some] at h
    unfold Parse.umapOf at h
    rcases mem_foldl_umapInsertY rest [] h with h | h
    · exact h
    · simp at h

/-- What `Unm.remainder` leaves for the inline map holds no key of a declared field: the parser's
    remainder never collides in yaml.v3's struct encoding. -/
theorem free_remMap (m : Entries) (fs : List Field) : Free fs (remMap (remainder m fs)) := by
  intro p hp hk
  have h1 : p.1 ∈ (remainder m fs).map (·.1) := List.mem_map_of_mem (mem_of_mem_remMap hp)
  rw [keys_remainder, List.mem_filter] at h1
  obtain ⟨hkm, hno⟩ := h1
  obtain ⟨f, hf, hr, hfk⟩ := mem_declaredKeys hk
  obtain ⟨v, hv⟩ := mem_keys_lookup_some hkm
  have ht : fieldTake m f = some (p.1, v) := by
    unfold fieldTake
    rw [hfk, hv]
  have : p.1 ∈ outlineKeys m fs := mem_outlineKeys.2 ⟨f, hf, hr, v, ht⟩
  simp [this] at hno

/-! ## (3) the pipeline env block -/

theorem declaredKeys_pipeline : declaredKeys pipeD = ["steps", "env"] := by decide

theorem env_marshal_order_yaml (p : Pipeline) (l : List (String × String)) (j : Val)
    (he : p.env = some l) (hne : l ≠ []) (h : yPipeline p = .ok j) :
    ∃ kvs, j = .umap kvs ∧ kvs.lookup "env" = some (.omap (l.map fun (k, v) => (k, .str v))) := by
  unfold yPipeline at h
  split at h
  · cases h
  · rename_i svs _
    obtain ⟨a, t, rfl⟩ : ∃ a t, l = a :: t := by
      cases l with
      | nil => exact absurd rfl hne
      | cons a t => exact ⟨a, t, rfl⟩
    rw [he] at h
    obtain ⟨_, rfl⟩ := yStruct_inv h
    refine ⟨_, rfl, ?_⟩
    rw [← List.append_assoc]
    exact lookup_umapOf_append_last _ _ _

/-- An empty (or absent) env block is not written at all, and no unknown key can take its place: an inline
    key `env` would be a struct-encoding error. -/
theorem env_omitted_yaml (p : Pipeline) (j : Val) (he : p.env = none ∨ p.env = some [])
    (h : yPipeline p = .ok j) : ∃ kvs, j = .umap kvs ∧ kvs.lookup "env" = none := by
  unfold yPipeline at h
  split at h
  · cases h
  · rename_i svs _
    have h' : yStruct pipeD ([("steps", .seq svs)] ++ []) p.rem = .ok j := by
      rcases he with he | he <;> (rw [he] at h; exact h)
    obtain ⟨hfree, rfl⟩ := yStruct_inv h'
    refine ⟨_, rfl, ?_⟩
    rw [List.append_nil, lookup_umapOf_append_of_not_mem _ _ _ (by simp)]
    apply lookup_umapOf_none
    intro hmem
    obtain ⟨q, hq, hqk⟩ := List.mem_map.1 hmem
    apply hfree q hq
    rw [hqk, declaredKeys_pipeline]
    simp

theorem empty_env_omitted_yaml (p : Pipeline) (j : Val) (he : p.env = some [])
    (h : yPipeline p = .ok j) : ∃ kvs, j = .umap kvs ∧ kvs.lookup "env" = none :=
  env_omitted_yaml p j (.inr he) h

theorem env_block_order_yaml (m : Entries) (kvs : List (String × Val)) (p : Pipeline) (ws : List Warn) (j : Val)
    (henv : m.lookup "env" = some (.omap kvs)) (hne : kvs ≠ [])
    (hp : parsePipeline (.omap m) = .ok (p, ws)) (hj : yPipeline p = .ok j) :
    ∃ out kvs', j = .umap out ∧ out.lookup "env" = some (.omap kvs') ∧ kvs'.map (·.1) = kvs.map (·.1) := by
  have hf : fieldOf (taken m Gen.struct_Pipeline) "Env" = some (.omap kvs) := by
    rw [fieldOf_pipeline_env, henv]
  have he := parsePipeline_env hp
  rw [optField_some hf] at he
  cases hpe : p.env with
  | none =>
    rw [hpe] at he
    simp only [parseEnvOrdered, map_ok_iff] at he
    obtain ⟨_, _, hx⟩ := he
    cases hx
  | some l =>
    rw [hpe] at he
    have hkeys := env_parse_order kvs l he
    have hl : l ≠ [] := by
      intro hnil
      rw [hnil] at hkeys
      cases kvs with
      | nil => exact hne rfl
      | cons a t => simp at hkeys
    obtain ⟨out, h1, h2⟩ := env_marshal_order_yaml p l j hpe hl hj
    refine ⟨out, _, h1, h2, ?_⟩
    rw [← hkeys]
    simp [List.map_map, Function.comp_def]

/-! ## The struct level of a command step -/

/-- The outline entries of a command step, given the (already encoded) matrix and cache entries. -/
def yCmdOutline (c : CommandStep) (mv cv : List (String × Val)) : List (String × Val) :=
  (if c.key == "" then [] else [("key", .str c.key)]) ++
  (if c.label == "" then [] else [("label", .str c.label)]) ++
  [("command", .str c.command)] ++
  (if (c.plugins.getD []).isEmpty then [] else [("plugins", mPlugins (c.plugins.getD []))]) ++
  (if lenUMap c.env == 0 then [] else [("env", envV c.env)]) ++
  (match c.signature with | none => [] | some s => [("signature", ySignature s)]) ++
  mv ++ cv

def yMatrixEntry (c : CommandStep) : Except YErr (List (String × Val)) :=
  match c.matrix with | none => .ok [] | some m => (yMatrix m).map fun v => [("matrix", v)]

def yCacheEntry (c : CommandStep) : Except YErr (List (String × Val)) :=
  match c.cache with | none => .ok [] | some k => (yCache k).map fun v => [("cache", v)]

theorem yMatrixEntry_keys {c : CommandStep} {mv : List (String × Val)} (h : yMatrixEntry c = .ok mv) :
    ∀ k ∈ mv.map (·.1), k = "matrix" := by
  unfold yMatrixEntry at h
  split at h
  · simp only [Except.ok.injEq] at h
    subst h
    simp
  · rw [map_ok_iff] at h
    obtain ⟨v, _, rfl⟩ := h
    simp

theorem yCacheEntry_keys {c : CommandStep} {cv : List (String × Val)} (h : yCacheEntry c = .ok cv) :
    ∀ k ∈ cv.map (·.1), k = "cache" := by
  unfold yCacheEntry at h
  split at h
  · simp only [Except.ok.injEq] at h
    subst h
    simp
  · rw [map_ok_iff] at h
    obtain ⟨v, _, rfl⟩ := h
    simp

theorem yCommand_unfold (c : CommandStep) :
    yCommand c =
      match yMatrixEntry c, yCacheEntry c with
      | .error e, _ => .error e
      | _, .error e => .error e
      | .ok mv, .ok cv => yStruct csD (yCmdOutline c mv cv) c.rem := rfl

/-- A command step that encodes: the matrix and the cache encoded, and the struct level did. -/
theorem yCommand_inv {c : CommandStep} {j : Val} (h : yCommand c = .ok j) :
    ∃ mv cv, yMatrixEntry c = .ok mv ∧ yCacheEntry c = .ok cv ∧ yStruct csD (yCmdOutline c mv cv) c.rem = .ok j := by
  unfold yCommand at h
  split at h
  · cases h
  · cases h
  · rename_i mv cv hmv hcv
    exact ⟨mv, cv, hmv, hcv, h⟩

theorem yCommand_of {c : CommandStep} {mv cv : List (String × Val)} (hmv : yMatrixEntry c = .ok mv)
    (hcv : yCacheEntry c = .ok cv) : yCommand c = yStruct csD (yCmdOutline c mv cv) c.rem := by
  rw [yCommand_unfold, hmv, hcv]

/-- Every outline key of a command step is one of the eight declared keys. -/
theorem yCmdOutline_keys {c : CommandStep} {mv cv : List (String × Val)}
    (hmv : ∀ k ∈ mv.map (·.1), k = "matrix") (hcv : ∀ k ∈ cv.map (·.1), k = "cache") :
    ∀ k ∈ (yCmdOutline c mv cv).map (·.1),
      k ∈ ["key", "label", "command", "plugins", "env", "signature", "matrix", "cache"] := by
  intro k hx
  unfold yCmdOutline at hx
  simp only [List.map_append, List.mem_append] at hx
  rcases hx with ((((((hx | hx) | hx) | hx) | hx) | hx) | hx) | hx
  · split at hx <;> simp at hx
    simp [hx]
  · split at hx <;> simp at hx
    simp [hx]
  · simp at hx
    simp [hx]
  · split at hx <;> simp at hx
    simp [hx]
  · split at hx <;> simp at hx
    simp [hx]
  · split at hx <;> simp at hx
    simp [hx]
  · simp [hmv k hx]
  · simp [hcv k hx]

/-! ## (4) the plugin list -/

theorem plugins_order_yaml (c : CommandStep) (l : List (Option Plugin)) (j : Val)
    (hp : c.plugins = some l) (hne : l ≠ []) (h : yCommand c = .ok j) :
    ∃ kvs, j = .umap kvs ∧ kvs.lookup "plugins" = some (mPlugins l) := by
  obtain ⟨mv, cv, hmv, hcv, hs⟩ := yCommand_inv h
  obtain ⟨_, rfl⟩ := yStruct_inv hs
  refine ⟨_, rfl, ?_⟩
  have hemp : l.isEmpty = false := by
    cases l with
    | nil => exact absurd rfl hne
    | cons a t => rfl
  have hshape : c.rem.getD [] ++ yCmdOutline c mv cv =
      (c.rem.getD [] ++ ((if c.key == "" then [] else [("key", .str c.key)]) ++
        (if c.label == "" then [] else [("label", .str c.label)]) ++ [("command", .str c.command)])) ++
      [("plugins", mPlugins l)] ++
      ((if lenUMap c.env == 0 then [] else [("env", envV c.env)]) ++
        (match c.signature with | none => [] | some s => [("signature", ySignature s)]) ++ mv ++ cv) := by
    unfold yCmdOutline
    simp only [hp, Option.getD_some, hemp, Bool.false_eq_true, if_false, List.append_assoc]
  rw [hshape]
  apply lookup_umapOf_mid
  intro hx
  simp only [List.map_append, List.mem_append] at hx
  rcases hx with ((hx | hx) | hx) | hx
  · split at hx <;> simp at hx
  · split at hx <;> simp at hx
  · have := yMatrixEntry_keys hmv _ hx
    simp at this
  · have := yCacheEntry_keys hcv _ hx
    simp at this

/-! ## (5) unknown keys of a command step -/

/-- What the parser leaves in `RemainingFields` under a key no command-step field claims. -/
theorem command_rem_lookup_other (m : Entries) (c : CommandStep) (h : parseCommand m = .ok c)
    (hm : (keysOf m).Nodup) (k : String) (hk : k ∉ commandKeys) :
    (c.rem.getD []).lookup k = m.lookup k ∧ ((c.rem.getD []).map (·.1)).Nodup := by
  obtain ⟨_, _, _, _, _, hrem⟩ := parseCommand_ok h
  simp only [commandKeys, List.mem_cons, List.not_mem_nil, or_false, not_or] at hk
  have hk1 : k ∉ ["commands", "command"] := by simp [hk]
  have hk2 : k ∉ claimKeys csD := by rw [claimKeys_cs]; simp [hk]
  refine ⟨?_, by rw [hrem]; exact nodup_keys_remMap _⟩
  rw [hrem, lookup_remMap (nodup_keys_remainder _ (nodup_keys_remainder _ hm)),
    lookup_remainder_of_not_claim hk2, lookup_remainder_of_not_claim (by rw [claimKeys_outer]; exact hk1)]

theorem command_other_keys_preserved_yaml (m : Entries) (c : CommandStep) (j : Val) (h : parseCommand m = .ok c)
    (hj : yCommand c = .ok j) (hm : (keysOf m).Nodup) (k : String) (hk : k ∉ commandKeys) :
    ∃ kvs, j = .umap kvs ∧ kvs.lookup k = m.lookup k ∧ (kvs.map (·.1)).Nodup := by
  obtain ⟨hkey, hnd⟩ := command_rem_lookup_other m c h hm k hk
  obtain ⟨mv, cv, hmv, hcv, hs⟩ := yCommand_inv hj
  obtain ⟨_, rfl⟩ := yStruct_inv hs
  refine ⟨_, rfl, ?_, by rw [marshal_umapOf_eq]; exact nodup_keys_umapOf _⟩
  have hko : k ∉ (yCmdOutline c mv cv).map (·.1) := by
    intro hx
    have := yCmdOutline_keys (yMatrixEntry_keys hmv) (yCacheEntry_keys hcv) k hx
    apply hk
    simp only [List.mem_cons, List.not_mem_nil, or_false] at this
    simp only [commandKeys, List.mem_cons, List.not_mem_nil, or_false]
    rcases this with h | h | h | h | h | h | h | h <;> simp [h]
  rw [lookup_umapOf_append_of_not_mem _ _ _ hko, marshal_umapOf_eq, lookup_umapOf_nodup hnd, hkey]

/-! ## A parsed command step always encodes -/

theorem yAdjustment_of_free (a : Adjustment) (h : Free Gen.struct_MatrixAdjustment a.rem) :
    ∃ v, yAdjustment a = .ok v := by
  unfold yAdjustment
  exact ⟨_, yStruct_of_free _ h⟩

theorem parseAdjustment_rem {m : Entries} {a : Adjustment} (h : parseAdjustment m = .ok a) :
    a.rem = remMap (remainder m Gen.struct_MatrixAdjustment) := by
  unfold parseAdjustment at h
  simp only at h
  split at h
  · cases h
  · simp only [Except.ok.injEq] at h
    rw [← h]

theorem yAdjustments_total_of_parse : (xs : List Val) → (l : List (Option Adjustment)) →
    adjustmentsElems xs = .ok l → ∃ avs, yAdjustments l = .ok avs
  | [], l, h => by
    simp only [adjustmentsElems, Except.ok.injEq] at h
    subst h
    exact ⟨[], rfl⟩
  | .null :: r, l, h => by
    rw [adjustmentsElems, map_ok_iff] at h
    obtain ⟨l', hr, rfl⟩ := h
    obtain ⟨avs, ha⟩ := yAdjustments_total_of_parse r l' hr
    exact ⟨.null :: avs, by simp only [yAdjustments, ha, Except.map]⟩
  | .omap m :: r, l, h => by
    rw [adjustmentsElems] at h
    split at h
    · cases h
    · rename_i a hpa
      rw [map_ok_iff] at h
      obtain ⟨l', hr, rfl⟩ := h
      obtain ⟨avs, ha⟩ := yAdjustments_total_of_parse r l' hr
      obtain ⟨v, hv⟩ := yAdjustment_of_free a (by rw [parseAdjustment_rem hpa]; exact free_remMap _ _)
      exact ⟨v :: avs, by simp only [yAdjustments, hv, ha, Except.map]⟩
  | .bool _ :: _, _, h | .int _ :: _, _, h | .float _ :: _, _, h | .time _ :: _, _, h | .str _ :: _, _, h
  | .seq _ :: _, _, h | .umap _ :: _, _, h => by
    simp [adjustmentsElems] at h

theorem yMatrix_total (mx : Matrix) (hadj : ∀ l, mx.adjustments = some l → ∃ avs, yAdjustments l = .ok avs)
    (hfree : Free Gen.struct_Matrix mx.rem) : ∃ j, yMatrix mx = .ok j := by
  unfold yMatrix
  split
  · exact ⟨_, rfl⟩
  · have : ∃ avs, yAdjustments (mx.adjustments.getD []) = .ok avs := by
      cases hx : mx.adjustments with
      | none => exact ⟨[], rfl⟩
      | some l => exact hadj l hx
    obtain ⟨avs, ha⟩ := this
    simp only [ha]
    exact ⟨_, yStruct_of_free _ hfree⟩

theorem yMatrix_total_of_parse {v : Val} {mx : Matrix} (h : parseMatrix v = .ok (some mx)) :
    ∃ j, yMatrix mx = .ok j := by
  cases v with
  | seq xs =>
    rw [parseMatrix, map_ok_iff] at h
    obtain ⟨l, _, hx⟩ := h
    simp only [Option.some.injEq] at hx
    subst hx
    exact yMatrix_total _ (by intro l hl; cases hl) (free_none _)
  | omap m =>
    rw [parseMatrix] at h
    split at h
    · cases h
    · split at h
      · cases h
      · rename_i adjs hadjs
        simp only [Except.ok.injEq, Option.some.injEq] at h
        subst h
        refine yMatrix_total _ ?_ (free_remMap _ _)
        intro l hl
        simp only at hl
        subst hl
        split at hadjs
        · cases hadjs
        · rename_i w _
          cases w with
          | seq xs =>
            rw [parseAdjustments, map_ok_iff] at hadjs
            obtain ⟨l', hl', hx⟩ := hadjs
            simp only [Option.some.injEq] at hx
            subst hx
            exact yAdjustments_total_of_parse xs _ hl'
          | null | bool _ | int _ | float _ | time _ | str _ | omap _ | umap _ => simp [parseAdjustments] at hadjs
  | null | bool _ | int _ | float _ | time _ | str _ | umap _ => simp [parseMatrix] at h

theorem parseCache_free {v : Val} {k : Cache} (h : parseCache v = .ok (some k)) : Free Gen.struct_Cache k.rem := by
  cases v with
  | bool b =>
    simp only [parseCache, Except.ok.injEq, Option.some.injEq] at h
    subst h
    exact free_none _
  | str s =>
    simp only [parseCache, Except.ok.injEq, Option.some.injEq] at h
    subst h
    exact free_none _
  | seq xs =>
    rw [parseCache, map_ok_iff] at h
    obtain ⟨l, _, hx⟩ := h
    simp only [Option.some.injEq] at hx
    subst hx
    exact free_none _
  | omap m =>
    rw [parseCache] at h
    split at h
    · simp only [Except.ok.injEq, Option.some.injEq] at h
      subst h
      exact free_remMap _ _
    · cases h
  | null | int _ | float _ | time _ | umap _ => simp [parseCache] at h

theorem yCache_total_of_parse {v : Val} {k : Cache} (h : parseCache v = .ok (some k)) : ∃ j, yCache k = .ok j := by
  unfold yCache
  exact ⟨_, yStruct_of_free _ (parseCache_free h)⟩

/-- Inversion of a successful `parseCommand`: the matrix, the cache and the remainder. -/
theorem parseCommand_ok_mx {m : Entries} {c : CommandStep} (h : parseCommand m = .ok c) :
    optField (taken (remainder m outerD) csD) "Matrix" none parseMatrix = .ok c.matrix ∧
    optField (taken (remainder m outerD) csD) "Cache" none parseCache = .ok c.cache ∧
    c.rem = remMap (remainder (remainder m outerD) csD) := by
  unfold parseCommand at h
  simp only at h
  split at h
  · cases h
  · split at h
    · rename_i key label _ plugins env sig matrix cache _ _ _ _ _ _ hmx hca
      simp only [Except.ok.injEq] at h
      subst h
      exact ⟨hmx, hca, rfl⟩
    · cases h

theorem optField_some_inv {α : Type} {t : List (String × String × Val)} {n : String}
    {f : Val → Except Hard (Option α)} {a : α} (h : optField t n none f = .ok (some a)) :
    ∃ v, f v = .ok (some a) := by
  unfold optField at h
  split at h
  · cases h
  · exact ⟨_, h⟩

/-- Every command step in the image of the parser has a YAML value tree. -/
theorem yCommand_total_of_parse (m : Entries) (c : CommandStep) (h : parseCommand m = .ok c) :
    ∃ j, yCommand c = .ok j := by
  obtain ⟨hmx, hca, hrem⟩ := parseCommand_ok_mx h
  have h1 : ∃ mv, yMatrixEntry c = .ok mv := by
    unfold yMatrixEntry
    cases hx : c.matrix with
    | none => exact ⟨[], rfl⟩
    | some mx =>
      rw [hx] at hmx
      obtain ⟨v, hv⟩ := optField_some_inv hmx
      obtain ⟨w, hw⟩ := yMatrix_total_of_parse hv
      exact ⟨[("matrix", w)], by simp only [hw, Except.map]⟩
  have h2 : ∃ cv, yCacheEntry c = .ok cv := by
    unfold yCacheEntry
    cases hx : c.cache with
    | none => exact ⟨[], rfl⟩
    | some k =>
      rw [hx] at hca
      obtain ⟨v, hv⟩ := optField_some_inv hca
      obtain ⟨w, hw⟩ := yCache_total_of_parse hv
      exact ⟨[("cache", w)], by simp only [hw, Except.map]⟩
  obtain ⟨mv, hmv⟩ := h1
  obtain ⟨cv, hcv⟩ := h2
  rw [yCommand_of hmv hcv]
  exact ⟨_, yStruct_of_free _ (by rw [hrem]; exact free_remMap _ _)⟩

/-! ## The two legs -/

/-- For a parsed command step both value trees exist and hold, under every key that is not a command key,
    the very value of the document — the same nested order on both legs. -/
theorem legs_same_order (m : Entries) (c : CommandStep) (h : parseCommand m = .ok c) (hm : (keysOf m).Nodup)
    (k : String) (hk : k ∉ commandKeys) :
    ∃ kj ky, mCommand c = .umap kj ∧ yCommand c = .ok (.umap ky) ∧
      kj.lookup k = ky.lookup k ∧ ky.lookup k = m.lookup k := by
  obtain ⟨kj, hj1, hj2, _⟩ := command_other_keys_preserved m c h hm k hk
  obtain ⟨j, hj⟩ := yCommand_total_of_parse m c h
  obtain ⟨ky, rfl, hy2, _⟩ := command_other_keys_preserved_yaml m c j h hj hm k hk
  exact ⟨kj, ky, hj1, hj, hj2.trans hy2.symm, hy2⟩

end GoPipeline.Order
