/-
  C16 — helper lemmas for the reflective unmarshaller model (`Model/Unmarshal.lean`).

  Architecture: the key bookkeeping (`fieldTake`, `taken`, `outlineKeys`, `remainder`) is
  characterised by membership lemmas (`mem_taken`, `mem_outlineKeys`); `outlineKeys` is a sublist of
  `claimKeys`, which gives uniqueness under `WF`; the destination rule `destOf` is identified with
  "the first ordinary field whose `fieldTake` yields the key"; the frame property of `decodeStruct`
  is proved through `decodeTaken` generalised over the list of taken triples.
-/
import GoPipeline.Model.Unmarshal
namespace GoPipeline.Unm

/-! ## Association-list lookups -/

theorem lookup_some_mem_keys {V : Type} {l : List (String × V)} {k : String} {v : V}
    (h : l.lookup k = some v) : k ∈ l.map (·.1) := by
  induction l with
  | nil => simp at h
  | cons p r ih =>
    obtain ⟨a, b⟩ := p
    by_cases hk : k = a
    · subst hk; simp
    · have h' : (k == a) = false := by simpa using hk
      simp only [List.lookup_cons, h'] at h
      simp [ih h]

theorem mem_keys_lookup_some {V : Type} {l : List (String × V)} {k : String}
    (h : k ∈ l.map (·.1)) : ∃ v, l.lookup k = some v := by
  induction l with
  | nil => simp at h
  | cons p r ih =>
    obtain ⟨a, b⟩ := p
    by_cases hk : k = a
    · subst hk; exact ⟨b, by simp⟩
    · have h' : (k == a) = false := by simpa using hk
      simp only [List.map_cons, List.mem_cons, hk, false_or] at h
      obtain ⟨v, hv⟩ := ih h
      exact ⟨v, by simp [List.lookup_cons, h', hv]⟩

/-! ## `firstAlias` / `fieldTake` -/

theorem firstAlias_some {m : Entries} {as : List String} {k : String} {v : Val}
    (h : firstAlias m as = some (k, v)) : k ∈ as.filter (· != "") ∧ m.lookup k = some v := by
  induction as with
  | nil => simp [firstAlias] at h
  | cons a r ih =>
    unfold firstAlias at h
    by_cases ha : a = ""
    · subst ha
      simp only [beq_self_eq_true, if_true] at h
      simpa using ih h
    · have ha' : (a == "") = false := by simpa using ha
      simp only [ha', Bool.false_eq_true, if_false] at h
      cases hl : m.lookup a with
      | some w =>
        simp only [hl, Option.some.injEq, Prod.mk.injEq] at h
        obtain ⟨rfl, rfl⟩ := h
        exact ⟨by simp [ha], hl⟩
      | none =>
        simp only [hl] at h
        have := ih h
        exact ⟨by simp [ha, this.1], this.2⟩

theorem fieldTake_some {m : Entries} {f : Field} {k : String} {v : Val}
    (h : fieldTake m f = some (k, v)) :
    k ∈ f.key :: f.aliases.filter (· != "") ∧ m.lookup k = some v := by
  unfold fieldTake at h
  cases hl : m.lookup f.key with
  | some w =>
    simp only [hl, Option.some.injEq, Prod.mk.injEq] at h
    obtain ⟨rfl, rfl⟩ := h
    exact ⟨by simp, hl⟩
  | none =>
    simp only [hl] at h
    have := firstAlias_some h
    exact ⟨List.mem_cons_of_mem _ this.1, this.2⟩

/-- The destination predicate of `destOf`, restated through `fieldTake`. -/
theorem claims_iff (m : Entries) (f : Field) (k : String) (hk : k ∈ m.map (·.1)) :
    (f.key == k || ((m.lookup f.key).isNone && (firstAlias m f.aliases).map (·.1) == some k)) = true
      ↔ ∃ v, fieldTake m f = some (k, v) := by
  unfold fieldTake
  cases hl : m.lookup f.key with
  | some w =>
    simp only [Option.isNone_some, Bool.false_and, Bool.or_false, beq_iff_eq, Option.some.injEq,
      Prod.mk.injEq]
    constructor
    · intro h; exact ⟨w, h, rfl⟩
    · rintro ⟨_, h, _⟩; exact h
  | none =>
    have hne : f.key ≠ k := by
      intro e
      obtain ⟨v, hv⟩ := mem_keys_lookup_some hk
      rw [← e, hl] at hv
      cases hv
    have hne' : (f.key == k) = false := by simpa using hne
    simp only [hne', Option.isNone_none, Bool.true_and, Bool.false_or, beq_iff_eq]
    cases hfa : firstAlias m f.aliases with
    | none => simp
    | some p =>
      obtain ⟨a, b⟩ := p
      simp only [Option.map_some, Option.some.injEq, Prod.mk.injEq]
      constructor
      · intro h; exact ⟨b, h, rfl⟩
      · rintro ⟨_, h, _⟩; exact h

/-! ## `taken`, `outlineKeys`, `claimKeys`: unfolding lemmas -/

theorem taken_cons_some {m : Entries} {f : Field} {r : List Field} {k : String} {v : Val}
    (hr : f.role = .normal) (h : fieldTake m f = some (k, v)) :
    taken m (f :: r) = (f.name, k, v) :: taken m r := by
  simp [taken, hr, h]

theorem taken_cons_none {m : Entries} {f : Field} {r : List Field}
    (hr : f.role = .normal) (h : fieldTake m f = none) :
    taken m (f :: r) = taken m r := by
  simp [taken, hr, h]

theorem taken_cons_other {m : Entries} {f : Field} {r : List Field}
    (hr : f.role ≠ .normal) : taken m (f :: r) = taken m r := by
  cases hrole : f.role <;> simp_all [taken]

theorem claimKeys_cons_normal {f : Field} {r : List Field} (hr : f.role = .normal) :
    claimKeys (f :: r) = (f.key :: f.aliases.filter (· != "")) ++ claimKeys r := by
  simp [claimKeys, hr]

theorem claimKeys_cons_other {f : Field} {r : List Field} (hr : f.role ≠ .normal) :
    claimKeys (f :: r) = claimKeys r := by
  cases hrole : f.role <;> simp_all [claimKeys]

theorem mem_taken {m : Entries} {fs : List Field} {n k : String} {v : Val} :
    (n, k, v) ∈ taken m fs ↔
      ∃ f ∈ fs, f.role = .normal ∧ f.name = n ∧ fieldTake m f = some (k, v) := by
  induction fs with
  | nil => simp [taken]
  | cons f r ih =>
    by_cases hr : f.role = .normal
    · cases ht : fieldTake m f with
      | none =>
        rw [taken_cons_none hr ht, ih]
        constructor
        · rintro ⟨g, hg, h⟩; exact ⟨g, List.mem_cons_of_mem _ hg, h⟩
        · rintro ⟨g, hg, h1, h2, h3⟩
          rcases List.mem_cons.1 hg with rfl | hg
          · rw [ht] at h3; cases h3
          · exact ⟨g, hg, h1, h2, h3⟩
      | some p =>
        obtain ⟨k', v'⟩ := p
        rw [taken_cons_some hr ht, List.mem_cons, ih]
        constructor
        · rintro (h | ⟨g, hg, h⟩)
          · simp only [Prod.mk.injEq] at h
            obtain ⟨rfl, rfl, rfl⟩ := h
            exact ⟨f, List.mem_cons_self, hr, rfl, ht⟩
          · exact ⟨g, List.mem_cons_of_mem _ hg, h⟩
        · rintro ⟨g, hg, h1, h2, h3⟩
          rcases List.mem_cons.1 hg with rfl | hg
          · rw [ht] at h3
            simp only [Option.some.injEq, Prod.mk.injEq] at h3
            obtain ⟨rfl, rfl⟩ := h3
            exact Or.inl (by rw [h2])
          · exact Or.inr ⟨g, hg, h1, h2, h3⟩
    · rw [taken_cons_other hr, ih]
      constructor
      · rintro ⟨g, hg, h⟩; exact ⟨g, List.mem_cons_of_mem _ hg, h⟩
      · rintro ⟨g, hg, h1, h2, h3⟩
        rcases List.mem_cons.1 hg with rfl | hg
        · exact absurd h1 hr
        · exact ⟨g, hg, h1, h2, h3⟩

theorem mem_outlineKeys {m : Entries} {fs : List Field} {k : String} :
    k ∈ outlineKeys m fs ↔ ∃ f ∈ fs, f.role = .normal ∧ ∃ v, fieldTake m f = some (k, v) := by
  unfold outlineKeys
  rw [List.mem_map]
  constructor
  · rintro ⟨⟨n, k', v⟩, ht, rfl⟩
    obtain ⟨f, hf, h1, _, h3⟩ := mem_taken.1 ht
    exact ⟨f, hf, h1, v, h3⟩
  · rintro ⟨f, hf, h1, v, h3⟩
    exact ⟨(f.name, k, v), mem_taken.2 ⟨f, hf, h1, rfl, h3⟩, rfl⟩

theorem taken_value (fs : List Field) (m : Entries) (f k : String) (v : Val)
    (h : (f, k, v) ∈ taken m fs) : m.lookup k = some v := by
  obtain ⟨g, _, _, _, h3⟩ := mem_taken.1 h
  exact (fieldTake_some h3).2

theorem outlineKeys_subset_keys (m : Entries) (fs : List Field) :
    ∀ k ∈ outlineKeys m fs, k ∈ m.map (·.1) := by
  intro k hk
  obtain ⟨f, _, _, v, h⟩ := mem_outlineKeys.1 hk
  exact lookup_some_mem_keys (fieldTake_some h).2

/-! ## Uniqueness -/

theorem outlineKeys_sublist (m : Entries) (fs : List Field) :
    (outlineKeys m fs).Sublist (claimKeys fs) := by
  induction fs with
  | nil => simp [outlineKeys, taken, claimKeys]
  | cons f r ih =>
    unfold outlineKeys at ih ⊢
    by_cases hr : f.role = .normal
    · rw [claimKeys_cons_normal hr]
      cases ht : fieldTake m f with
      | none =>
        rw [taken_cons_none hr ht]
        exact ih.trans (List.sublist_append_right _ _)
      | some p =>
        obtain ⟨k, v⟩ := p
        rw [taken_cons_some hr ht, List.map_cons]
        have hk := (fieldTake_some ht).1
        exact List.Sublist.append (List.singleton_sublist.2 hk) ih
    · rw [claimKeys_cons_other hr, taken_cons_other hr]
      exact ih

theorem outline_nodup (fs : List Field) (m : Entries) (wf : WF fs) : (outlineKeys m fs).Nodup :=
  wf.1.sublist (outlineKeys_sublist m fs)

/-! ## Partition -/

theorem perm_append_filter_not {l s : List String} (hl : l.Nodup) (hs : s.Nodup)
    (hsub : ∀ k ∈ s, k ∈ l) : (s ++ l.filter (fun k => !s.contains k)).Perm l := by
  have hf : (l.filter (fun k => !s.contains k)).Nodup := hl.sublist List.filter_sublist
  rw [List.perm_ext_iff_of_nodup _ hl]
  · intro a
    by_cases ha : a ∈ s
    · simp [ha, hsub a ha]
    · simp [ha]
  · rw [List.nodup_append]
    refine ⟨hs, hf, ?_⟩
    intro a ha b hb e
    subst e
    simp [ha] at hb

theorem keys_remainder (m : Entries) (fs : List Field) :
    (remainder m fs).map (·.1) = (m.map (·.1)).filter (fun k => !(outlineKeys m fs).contains k) := by
  unfold remainder
  rw [List.filter_map]
  rfl

theorem partition (fs : List Field) (m : Entries) (hm : (m.map (·.1)).Nodup) (wf : WF fs) :
    (outlineKeys m fs ++ (remainder m fs).map (·.1)).Perm (m.map (·.1)) := by
  rw [keys_remainder]
  exact perm_append_filter_not hm (outline_nodup fs m wf) (outlineKeys_subset_keys m fs)

/-! ## Destination rule -/

/-- `destOf`'s `find?` predicate. -/
def claimsB (m : Entries) (k : String) (f : Field) : Bool :=
  f.role == .normal &&
    (f.key == k || ((m.lookup f.key).isNone && (firstAlias m f.aliases).map (·.1) == some k))

theorem destOf_eq (m : Entries) (fs : List Field) (k : String) :
    destOf m fs k = match fs.find? (claimsB m k) with
      | some f => .field f.name
      | none => .inline := rfl

theorem claimsB_iff (m : Entries) (f : Field) (k : String) (hk : k ∈ m.map (·.1)) :
    claimsB m k f = true ↔ f.role = .normal ∧ ∃ v, fieldTake m f = some (k, v) := by
  unfold claimsB
  rw [Bool.and_eq_true, claims_iff m f k hk]
  simp

/-- The destination rule needs only `(claimKeys fs).Nodup`; distinctness of field names is not used. -/
theorem destination_field_aux (fs : List Field) (m : Entries) (wf : (claimKeys fs).Nodup)
    (k : String) (hk : k ∈ m.map (·.1)) (f : String) :
    (∃ v, (f, k, v) ∈ taken m fs) ↔ destOf m fs k = .field f := by
  rw [destOf_eq]
  induction fs with
  | nil => simp [taken]
  | cons g r ih =>
    by_cases hc : claimsB m k g = true
    · obtain ⟨hr, v, ht⟩ := (claimsB_iff m g k hk).1 hc
      rw [List.find?_cons_of_pos hc, taken_cons_some hr ht]
      simp only [Dest.field.injEq, List.mem_cons, Prod.mk.injEq]
      rw [claimKeys_cons_normal hr, List.nodup_append] at wf
      have hkseg := (fieldTake_some ht).1
      constructor
      · rintro ⟨w, h | h⟩
        · exact h.1.symm
        · exfalso
          have : k ∈ outlineKeys m r := List.mem_map.2 ⟨_, h, rfl⟩
          exact wf.2.2 k hkseg k ((outlineKeys_sublist m r).subset this) rfl
      · intro h
        exact ⟨v, Or.inl (by simp [h])⟩
    · have hc' : claimsB m k g = false := by simpa using hc
      rw [List.find?_cons_of_neg (by simpa using hc')]
      have wf' : (claimKeys r).Nodup := by
        by_cases hr : g.role = .normal
        · rw [claimKeys_cons_normal hr, List.nodup_append] at wf; exact wf.2.1
        · rwa [claimKeys_cons_other hr] at wf
      refine Iff.trans ?_ (ih wf')
      have hiff := claimsB_iff m g k hk
      by_cases hr : g.role = .normal
      · cases ht : fieldTake m g with
        | none => rw [taken_cons_none hr ht]
        | some p =>
          obtain ⟨k', v'⟩ := p
          rw [taken_cons_some hr ht]
          have hne : k' ≠ k := by
            intro e; subst e
            exact hc (hiff.2 ⟨hr, v', ht⟩)
          constructor
          · rintro ⟨w, h⟩
            rcases List.mem_cons.1 h with h | h
            · simp only [Prod.mk.injEq] at h
              exact absurd h.2.1.symm hne
            · exact ⟨w, h⟩
          · rintro ⟨w, h⟩; exact ⟨w, List.mem_cons_of_mem _ h⟩
      · rw [taken_cons_other hr]

theorem destination_field (fs : List Field) (m : Entries) (wf : WF fs)
    (_hn : (fs.map Field.name).Nodup) (k : String) (hk : k ∈ m.map (·.1)) (f : String) :
    (∃ v, (f, k, v) ∈ taken m fs) ↔ destOf m fs k = .field f :=
  destination_field_aux fs m wf.1 k hk f

theorem destOf_inline_iff (fs : List Field) (m : Entries) (k : String) (hk : k ∈ m.map (·.1)) :
    destOf m fs k = .inline ↔ k ∉ outlineKeys m fs := by
  rw [destOf_eq, mem_outlineKeys]
  cases hf : fs.find? (claimsB m k) with
  | some g =>
    simp only [reduceCtorEq, false_iff, Classical.not_not]
    have hg := List.mem_of_find?_eq_some hf
    have hp := List.find?_some hf
    obtain ⟨hr, v, ht⟩ := (claimsB_iff m g k hk).1 hp
    exact ⟨g, hg, hr, v, ht⟩
  | none =>
    simp only [true_iff]
    rintro ⟨g, hg, hr, v, ht⟩
    rw [List.find?_eq_none] at hf
    exact hf g hg ((claimsB_iff m g k hk).2 ⟨hr, v, ht⟩)

theorem mem_keys_remainder (fs : List Field) (m : Entries) (k : String) :
    k ∈ (remainder m fs).map (·.1) ↔ k ∈ m.map (·.1) ∧ k ∉ outlineKeys m fs := by
  rw [keys_remainder]
  simp [List.mem_filter]

theorem destination_inline (fs : List Field) (m : Entries) (_wf : WF fs) (k : String)
    (hk : k ∈ m.map (·.1)) :
    k ∈ (remainder m fs).map (·.1) ↔ destOf m fs k = .inline := by
  rw [mem_keys_remainder, destOf_inline_iff fs m k hk]
  simp [hk]

theorem remainder_in_order (fs : List Field) (m : Entries) (_wf : WF fs)
    (_hm : (m.map (·.1)).Nodup) :
    remainder m fs = m.filter (fun e => destOf m fs e.1 == .inline) := by
  unfold remainder
  apply List.filter_congr
  intro e he
  have hk : e.1 ∈ m.map (·.1) := List.mem_map_of_mem he
  have := destOf_inline_iff fs m e.1 hk
  by_cases hin : e.1 ∈ outlineKeys m fs
  · have hd : destOf m fs e.1 ≠ .inline := fun h => (this.1 h) hin
    simp [hin, hd]
  · have hd : destOf m fs e.1 = .inline := this.2 hin
    simp [hin, hd]

/-! ## Frame property of `decodeStruct` -/

theorem getField_setField_ne {g n : String} (v : GoVal) (cvs : List (String × GoVal))
    (h : g ≠ n) : getField g (setField n v cvs) = getField g cvs := by
  unfold getField
  congr 1
  induction cvs with
  | nil => simp [setField]
  | cons p r ih =>
    obtain ⟨n', v'⟩ := p
    unfold setField
    by_cases hn : n = n'
    · subst hn
      have : (g == n) = false := by simpa using h
      simp [List.lookup_cons, this]
    · have hn' : (n == n') = false := by simpa using hn
      simp only [hn', Bool.false_eq_true, if_false, List.lookup_cons]
      rw [ih]

theorem decodeTaken_getField (n : Nat) (fs : List Field) (g : String) :
    ∀ (ts : List (String × String × Val)) (cvs cvs' : List (String × GoVal)),
      decodeTaken n fs ts cvs = .ok cvs' → g ∉ ts.map (·.1) → getField g cvs' = getField g cvs := by
  intro ts
  induction ts with
  | nil =>
    intro cvs cvs' h _
    unfold decodeTaken at h
    cases h
    rfl
  | cons t r ih =>
    intro cvs cvs' h hg
    obtain ⟨fname, k, v⟩ := t
    unfold decodeTaken at h
    simp only [List.map_cons, List.mem_cons, not_or] at hg
    cases hf : fs.find? (fun f => f.name == fname) with
    | none => simp [hf] at h
    | some f =>
      simp only [hf] at h
      cases hu : unmarshal n f.ty v (getField fname cvs) with
      | error e => simp [hu] at h
      | ok x =>
        simp only [hu] at h
        rw [ih _ _ h hg.2, getField_setField_ne _ _ hg.1]

theorem name_inj {fs : List Field} (hn : (fs.map Field.name).Nodup) {f g : Field}
    (hf : f ∈ fs) (hg : g ∈ fs) (h : f.name = g.name) : f = g := by
  induction fs with
  | nil => cases hf
  | cons a r ih =>
    simp only [List.map_cons, List.nodup_cons] at hn
    rcases List.mem_cons.1 hf with rfl | hf' <;> rcases List.mem_cons.1 hg with rfl | hg'
    · rfl
    · exact absurd (h ▸ List.mem_map_of_mem hg') hn.1
    · exact absurd (h ▸ List.mem_map_of_mem hf') hn.1
    · exact ih hn.2 hf' hg'

theorem absent_untouched (n : Nat) (fs : List Field) (m : Entries) (cvs cvs' : List (String × GoVal))
    (hn : (fs.map Field.name).Nodup) (h : decodeStruct n fs m cvs = .ok cvs')
    (f : Field) (hf : f ∈ fs) (hr : f.role ≠ .inline) (habs : f.role = .skip ∨ fieldTake m f = none) :
    getField f.name cvs' = getField f.name cvs := by
  have hnot : f.name ∉ (taken m fs).map (·.1) := by
    intro hmem
    obtain ⟨⟨nm, k, v⟩, ht, hnm⟩ := List.mem_map.1 hmem
    simp only at hnm
    subst hnm
    obtain ⟨g, hg, h1, h2, h3⟩ := mem_taken.1 ht
    have := name_inj hn hg hf h2
    subst this
    rcases habs with h' | h'
    · rw [h1] at h'; cases h'
    · rw [h3] at h'; cases h'
  unfold decodeStruct at h
  split at h
  · cases h
  · cases hd : decodeTaken n fs (taken m fs) cvs with
    | error e => simp [hd] at h
    | ok cvs'' =>
      have hframe := decodeTaken_getField n fs f.name _ _ _ hd hnot
      simp only [hd] at h
      split at h
      · rename_i g hg
        have hgmem : g ∈ inlineFields fs := by rw [hg]; simp
        unfold inlineFields at hgmem
        rw [List.mem_filter] at hgmem
        have hne : f.name ≠ g.name := by
          intro e
          have := name_inj hn hf hgmem.1 e
          subst this
          exact hr (by simpa using hgmem.2)
        split at h
        · cases h; exact hframe
        · split at h
          · cases h
          · cases h
            rw [getField_setField_ne _ _ hne, hframe]
      · cases h; exact hframe

/-! ## `null` -/

theorem null_zeroes (n : Nat) (ty : GoTy) (cur : GoVal) (h : ∀ s, ty ≠ .named s) :
    unmarshal (n + 1) ty .null cur = .ok (zero ty) := by
  unfold unmarshal
  cases ty with
  | named s => exact absurd rfl (h s)
  | omap e => simp [zero]
  | _ => rfl

/-! ## Alias-free descriptors -/

theorem firstAlias_none_of_filter {m : Entries} {as : List String}
    (h : as.filter (· != "") = []) : firstAlias m as = none := by
  induction as with
  | nil => rfl
  | cons a r ih =>
    by_cases ha : a = ""
    · subst ha
      unfold firstAlias
      simp only [beq_self_eq_true, if_true]
      exact ih (by simpa using h)
    · simp [ha] at h

theorem fieldTake_aliasFree {m : Entries} {f : Field} (h : f.aliases.filter (· != "") = []) :
    fieldTake m f = (m.lookup f.key).map (fun v => (f.key, v)) := by
  unfold fieldTake
  cases m.lookup f.key with
  | some v => rfl
  | none => simp [firstAlias_none_of_filter h]

theorem taken_eq_refTaken (fs : List Field) (m : Entries) (h : aliasFree fs) :
    taken m fs = refTaken m fs := by
  induction fs with
  | nil => rfl
  | cons f r ih =>
    have hf := fieldTake_aliasFree (m := m) (h f List.mem_cons_self)
    have ih' := ih (fun g hg => h g (List.mem_cons_of_mem _ hg))
    unfold taken refTaken
    rw [hf, ih']
    cases f.role <;> cases m.lookup f.key <;> rfl

theorem alias_free_ref (fs : List Field) (m : Entries) (h : aliasFree fs) :
    taken m fs = refTaken m fs ∧ remainder m fs = refRemainder m fs := by
  refine ⟨taken_eq_refTaken fs m h, ?_⟩
  unfold remainder refRemainder
  apply List.filter_congr
  intro e he
  have hk : e.1 ∈ m.map (·.1) := List.mem_map_of_mem he
  have hiff : e.1 ∈ outlineKeys m fs ↔
      e.1 ∈ (fs.filter (fun f => f.role == .normal)).map Field.key := by
    rw [mem_outlineKeys, List.mem_map]
    constructor
    · rintro ⟨f, hf, hr, v, ht⟩
      rw [fieldTake_aliasFree (h f hf)] at ht
      cases hl : m.lookup f.key with
      | none => simp [hl] at ht
      | some w =>
        simp only [hl, Option.map_some, Option.some.injEq, Prod.mk.injEq] at ht
        exact ⟨f, List.mem_filter.2 ⟨hf, by simp [hr]⟩, ht.1⟩
    · rintro ⟨f, hf, hfk⟩
      rw [List.mem_filter] at hf
      obtain ⟨v, hv⟩ := mem_keys_lookup_some hk
      refine ⟨f, hf.1, by simpa using hf.2, v, ?_⟩
      rw [fieldTake_aliasFree (h f hf.1), hfk, hv]
      rfl
  congr 1
  rw [Bool.eq_iff_iff, List.contains_iff_mem, List.contains_iff_mem]
  exact hiff

end GoPipeline.Unm
