/-
  C01 / C06 — lemmas about the signing model (`Model/Signing.lean`).

  Architecture.  Every value map the model builds (`umapOf`, `addEnv`, `requireKeys`, the accumulator
  of `valuesForFields.go`) is built with `umapInsert`, hence is sorted by key (`SortedK`) and is
  determined by its `lookup` function (`sortedK_ext`).  So each function is characterised once by
  "it succeeds iff …, and its result has these lookups":

  * `lookup_umapInsert`, `sortedK_umapInsert`; `addEnv_lookup_inv/other/env`, `addEnv_keys`;
  * `requireKeys_ok/of`; `go_ok/of`, `vff_ok/of` (a successful `valuesForFields` always returns
    `umapOf (signedFields c repo)`, whatever the field list);
  * `verifyRequired` (the `required` map of `Verify`; `verifyPayload_eq`) succeeds iff the field list
    is non-empty, contains the mandatory names, contains only known/`env::` names, and
    `requireKeys (signValues c repo env) fields` succeeds (`verifyRequired_ok/of`): the values the
    verifier recomputes are exactly `signValues` of the presented step, URL and env.

  The C01 lemmas then combine these with the scheme hypotheses (`S.a1`, `S.a2`, `S.correct`) and
  `payload_injective` (Lemmas/Jcs); the C06 lemmas are mutual structural inductions over `Step`.
-/
import GoPipeline.Lemmas.Jcs
namespace GoPipeline.Signing
open GoPipeline GoPipeline.Pipe GoPipeline.Marshal GoPipeline.Jcs

/-! ## Sorted association lists -/

theorem lookup_cons_if {β : Type} (k f : String) (v : β) (r : List (String × β)) :
    ((k, v) :: r).lookup f = if f = k then some v else r.lookup f := by
  rw [List.lookup_cons]
  by_cases h : f = k
  · simp [h]
  · have : (f == k) = false := by simpa using h
    simp [h, this]

theorem lookup_umapInsert (k : String) (v : Val) (k' : String) (m : List (String × Val)) :
    (umapInsert k v m).lookup k' = if k' = k then some v else m.lookup k' := by
  induction m with
  | nil => simp [umapInsert, lookup_cons_if]
  | cons p r ih =>
    obtain ⟨k0, v0⟩ := p
    unfold umapInsert
    split
    · rename_i h
      have h : k = k0 := by simpa using h
      subst h
      by_cases h : k' = k <;> simp [lookup_cons_if, h]
    · rename_i hne
      have hne : k ≠ k0 := by simpa using hne
      split
      · simp [lookup_cons_if]
      · simp only [lookup_cons_if, ih]
        by_cases h : k' = k
        · subst h; simp [hne]
        · simp [h]

theorem mem_umapInsert {k : String} {v : Val} {p : String × Val} : {m : List (String × Val)} →
    p ∈ umapInsert k v m → p = (k, v) ∨ p ∈ m
  | [], h => by simpa [umapInsert] using h
  | (k0, v0) :: r, h => by
    unfold umapInsert at h
    split at h
    · rcases List.mem_cons.1 h with h | h
      · exact .inl h
      · exact .inr (List.mem_cons_of_mem _ h)
    · split at h
      · rcases List.mem_cons.1 h with h | h
        · exact .inl h
        · exact .inr h
      · rcases List.mem_cons.1 h with h | h
        · exact .inr (h ▸ List.mem_cons_self)
        · rcases mem_umapInsert h with h | h
          · exact .inl h
          · exact .inr (List.mem_cons_of_mem _ h)

/-- Sorted by key, strictly. -/
def SortedK (l : List (String × Val)) : Prop := l.Pairwise (fun p q => p.1 < q.1)

theorem sortedK_nil : SortedK [] := List.Pairwise.nil

theorem str_lt_of_not {a b : String} (h1 : a ≠ b) (h2 : ¬ a < b) : b < a := by
  rcases Classical.em (b < a) with h | h
  · exact h
  · exact absurd (String.le_antisymm (String.not_lt.1 h) (String.not_lt.1 h2)) h1

theorem sortedK_umapInsert (k : String) (v : Val) : (m : List (String × Val)) → SortedK m →
    SortedK (umapInsert k v m)
  | [], _ => by simp [umapInsert, SortedK]
  | (k0, v0) :: r, h => by
    unfold SortedK at h ⊢
    rw [List.pairwise_cons] at h
    unfold umapInsert
    split
    · rename_i e
      have e : k = k0 := by simpa using e
      subst e
      exact List.pairwise_cons.2 ⟨h.1, h.2⟩
    · rename_i hne
      have hne : k ≠ k0 := by simpa using hne
      split
      · rename_i hlt
        refine List.pairwise_cons.2 ⟨fun q hq => ?_, List.pairwise_cons.2 h⟩
        rcases List.mem_cons.1 hq with rfl | hq
        · exact hlt
        · exact String.lt_trans hlt (h.1 q hq)
      · rename_i hlt
        refine List.pairwise_cons.2 ⟨fun q hq => ?_, sortedK_umapInsert k v r h.2⟩
        rcases mem_umapInsert hq with rfl | hq
        · exact str_lt_of_not hne hlt
        · exact h.1 q hq

theorem sortedK_lookup {l : List (String × Val)} (hs : SortedK l) {k : String} {v : Val} :
    (k, v) ∈ l ↔ l.lookup k = some v := by
  induction l with
  | nil => simp
  | cons p r ih =>
    obtain ⟨k0, v0⟩ := p
    unfold SortedK at hs
    rw [List.pairwise_cons] at hs
    rw [lookup_cons_if, List.mem_cons]
    by_cases e : k = k0
    · subst e
      simp only [if_true, Option.some.injEq, Prod.mk.injEq, true_and]
      constructor
      · rintro (h | h)
        · exact h.symm
        · exact absurd (hs.1 _ h) (String.lt_irrefl _)
      · intro h; exact .inl h.symm
    · simp only [e, if_false, Prod.mk.injEq, false_and, false_or]
      exact ih hs.2

theorem sortedK_nodup {l : List (String × Val)} (hs : SortedK l) : l.Nodup := by
  unfold SortedK at hs
  exact hs.imp (fun {a b} h e => by subst e; exact String.lt_irrefl _ h)

theorem sortedK_ext {l₁ l₂ : List (String × Val)} (h₁ : SortedK l₁) (h₂ : SortedK l₂)
    (h : ∀ f, l₁.lookup f = l₂.lookup f) : l₁ = l₂ := by
  have hp : l₁.Perm l₂ := by
    rw [List.perm_ext_iff_of_nodup (sortedK_nodup h₁) (sortedK_nodup h₂)]
    rintro ⟨k, v⟩
    rw [sortedK_lookup h₁, sortedK_lookup h₂, h]
  exact List.Perm.eq_of_pairwise (fun a b _ _ hab hba => absurd hba (String.lt_asymm hab)) h₁ h₂ hp

theorem lookup_ne_none_iff {l : List (String × Val)} {f : String} :
    l.lookup f ≠ none ↔ f ∈ l.map (·.1) := by
  induction l with
  | nil => simp
  | cons p r ih =>
    obtain ⟨k0, v0⟩ := p
    rw [lookup_cons_if]
    by_cases e : f = k0
    · simp [e]
    · simp [e, ih]
/-! ## The five signed fields -/

theorem fieldValue_eq (c : CommandStep) (repo f : String) :
    fieldValue c repo f =
      if f = "command" then some (.str c.command)
      else if f = "env" then some (envField c.env)
      else if f = "plugins" then some (pluginsField c.plugins)
      else if f = "matrix" then some (matrixField c.matrix)
      else if f = "repository_url" then some (.str repo)
      else none := by
  unfold fieldValue
  split <;> simp_all

theorem signedFields_eq (c : CommandStep) (repo : String) :
    signedFields c repo =
      [("command", .str c.command), ("env", envField c.env), ("plugins", pluginsField c.plugins),
       ("matrix", matrixField c.matrix), ("repository_url", .str repo)] := by
  simp [signedFields, mandatoryFields, fieldValue]

theorem fieldValue_ne_none_iff (c : CommandStep) (repo f : String) :
    fieldValue c repo f ≠ none ↔ f ∈ mandatoryFields := by
  rw [fieldValue_eq]
  simp only [mandatoryFields, List.mem_cons, List.not_mem_nil, or_false]
  by_cases h1 : f = "command"
  · simp [h1]
  by_cases h2 : f = "env"
  · simp [h2]
  by_cases h3 : f = "plugins"
  · simp [h3]
  by_cases h4 : f = "matrix"
  · simp [h4]
  by_cases h5 : f = "repository_url"
  · simp [h5]
  simp [h1, h2, h3, h4, h5]

theorem sortedK_base (c : CommandStep) (repo : String) : SortedK (umapOf (signedFields c repo)) := by
  rw [signedFields_eq]
  simp only [umapOf, List.foldl_cons, List.foldl_nil]
  repeat apply sortedK_umapInsert
  exact sortedK_nil

theorem lookup_base (c : CommandStep) (repo f : String) :
    (umapOf (signedFields c repo)).lookup f = fieldValue c repo f := by
  rw [signedFields_eq, fieldValue_eq]
  simp only [umapOf, List.foldl_cons, List.foldl_nil, lookup_umapInsert, List.lookup_nil]
  by_cases h1 : f = "command"
  · simp [h1]
  by_cases h2 : f = "env"
  · simp [h2]
  by_cases h3 : f = "plugins"
  · simp [h3]
  by_cases h4 : f = "matrix"
  · simp [h4]
  by_cases h5 : f = "repository_url"
  · simp [h5]
  simp [h1, h2, h3, h4, h5]

/-! ## `addEnv` -/

theorem addEnv_nil (vals : List (String × Val)) (sh : List String) : addEnv vals sh [] = vals := rfl

theorem addEnv_cons (vals : List (String × Val)) (sh : List String) (k v : String) (env : List (String × String)) :
    addEnv vals sh ((k, v) :: env) =
      addEnv (if sh.contains k then vals else umapInsert (envNamespacePrefix ++ k) (.str v) vals) sh env := rfl

theorem sortedK_addEnv (sh : List String) : (env : List (String × String)) → (vals : List (String × Val)) →
    SortedK vals → SortedK (addEnv vals sh env)
  | [], _, h => h
  | (k, v) :: env, vals, h => by
    rw [addEnv_cons]
    apply sortedK_addEnv sh env
    split
    · exact h
    · exact sortedK_umapInsert _ _ _ h

theorem addEnv_lookup_inv (sh : List String) {f : String} {x : Val} : (env : List (String × String)) →
    (vals : List (String × Val)) → (addEnv vals sh env).lookup f = some x →
    vals.lookup f = some x ∨
      ∃ name v, (name, v) ∈ env ∧ name ∉ sh ∧ f = envNamespacePrefix ++ name ∧ x = .str v
  | [], _, h => .inl h
  | (k, v) :: env, vals, h => by
    rw [addEnv_cons] at h
    rcases addEnv_lookup_inv sh env _ h with h' | ⟨name, v', hm, hs, hf, hx⟩
    · split at h'
      · exact .inl h'
      · rename_i hc
        rw [lookup_umapInsert] at h'
        split at h'
        · rename_i e
          refine .inr ⟨k, v, List.mem_cons_self, by simpa using hc, e, ?_⟩
          simpa using h'.symm
        · exact .inl h'
    · exact .inr ⟨name, v', List.mem_cons_of_mem _ hm, hs, hf, hx⟩

theorem addEnv_lookup_other (sh : List String) {f : String} : (env : List (String × String)) →
    (vals : List (String × Val)) →
    (∀ name v, (name, v) ∈ env → name ∉ sh → f ≠ envNamespacePrefix ++ name) →
    (addEnv vals sh env).lookup f = vals.lookup f
  | [], _, _ => rfl
  | (k, v) :: env, vals, h => by
    rw [addEnv_cons, addEnv_lookup_other sh env _ (fun n v' hm => h n v' (List.mem_cons_of_mem _ hm))]
    split
    · rfl
    · rename_i hc
      rw [lookup_umapInsert, if_neg (h k v List.mem_cons_self (by simpa using hc))]

theorem addEnv_lookup_env (sh : List String) {name v : String} : (env : List (String × String)) →
    (vals : List (String × Val)) → (env.map (·.1)).Nodup → (name, v) ∈ env → name ∉ sh →
    (addEnv vals sh env).lookup (envNamespacePrefix ++ name) = some (.str v)
  | [], _, _, hm, _ => by cases hm
  | (k, v') :: env, vals, hn, hm, hs => by
    rw [addEnv_cons]
    simp only [List.map_cons, List.nodup_cons] at hn
    rcases List.mem_cons.1 hm with e | hm'
    · simp only [Prod.mk.injEq] at e
      obtain ⟨rfl, rfl⟩ := e
      rw [addEnv_lookup_other]
      · simp [hs, lookup_umapInsert]
      · intro n w hmem _ e
        have := (env_namespace name).2 n e
        subst this
        exact hn.1 (List.mem_map.2 ⟨_, hmem, rfl⟩)
    · exact addEnv_lookup_env sh env _ hn.2 hm' hs

theorem keys_umapInsert {k f : String} {v : Val} {m : List (String × Val)} :
    f ∈ (umapInsert k v m).map (·.1) ↔ f = k ∨ f ∈ m.map (·.1) := by
  rw [← lookup_ne_none_iff, ← lookup_ne_none_iff, lookup_umapInsert]
  by_cases e : f = k <;> simp [e]

theorem addEnv_keys (sh : List String) {f : String} : (env : List (String × String)) →
    (vals : List (String × Val)) →
    (f ∈ (addEnv vals sh env).map (·.1) ↔
      f ∈ vals.map (·.1) ∨ ∃ name v, (name, v) ∈ env ∧ name ∉ sh ∧ f = envNamespacePrefix ++ name)
  | [], _ => by simp [addEnv_nil]
  | (k, v) :: env, vals => by
    rw [addEnv_cons, addEnv_keys sh env]
    by_cases hc : k ∈ sh
    · have : sh.contains k = true := by simpa using hc
      simp only [this, if_true, List.mem_cons, Prod.mk.injEq]
      constructor
      · rintro (h | ⟨n, w, hm, hs, hf⟩)
        · exact .inl h
        · exact .inr ⟨n, w, .inr hm, hs, hf⟩
      · rintro (h | ⟨n, w, hm | hm, hs, hf⟩)
        · exact .inl h
        · exact absurd (hm.1 ▸ hc) hs
        · exact .inr ⟨n, w, hm, hs, hf⟩
    · have : sh.contains k = false := by simpa using hc
      simp only [this, Bool.false_eq_true, if_false, keys_umapInsert, List.mem_cons, Prod.mk.injEq]
      constructor
      · rintro ((h | h) | ⟨n, w, hm, hs, hf⟩)
        · exact .inr ⟨k, v, .inl ⟨rfl, rfl⟩, hc, h⟩
        · exact .inl h
        · exact .inr ⟨n, w, .inr hm, hs, hf⟩
      · rintro (h | ⟨n, w, hm | hm, hs, hf⟩)
        · exact .inl (.inr h)
        · exact .inl (.inl (hm.1 ▸ hf))
        · exact .inr ⟨n, w, hm, hs, hf⟩

/-! ## `requireKeys` -/

theorem requireKeys_ok {values : List (String × Val)} : {fields : List String} → {req : List (String × Val)} →
    requireKeys values fields = .ok req →
    SortedK req ∧ (∀ f, req.lookup f = if f ∈ fields then values.lookup f else none) ∧
      ∀ f ∈ fields, values.lookup f ≠ none
  | [], req, h => by
    simp only [requireKeys, Except.ok.injEq] at h
    subst h
    simp [sortedK_nil]
  | k :: r, req, h => by
    unfold requireKeys at h
    cases hk : values.lookup k with
    | none => simp [hk] at h
    | some v =>
      cases hr : requireKeys values r with
      | error e => simp [hk, hr] at h
      | ok out =>
        simp only [hk, hr, Except.ok.injEq] at h
        subst h
        obtain ⟨s, l, n⟩ := requireKeys_ok hr
        refine ⟨sortedK_umapInsert _ _ _ s, fun f => ?_, fun f hf => ?_⟩
        · rw [mapSet, lookup_umapInsert, l]
          simp only [List.mem_cons]
          by_cases e : f = k
          · simp [e, hk]
          · simp [e]
        · rcases List.mem_cons.1 hf with rfl | hf
          · simp [hk]
          · exact n f hf

theorem requireKeys_of {values : List (String × Val)} : {fields : List String} →
    (∀ f ∈ fields, values.lookup f ≠ none) → ∃ req, requireKeys values fields = .ok req
  | [], _ => ⟨[], rfl⟩
  | k :: r, h => by
    obtain ⟨out, ho⟩ := requireKeys_of (fields := r) (fun f hf => h f (List.mem_cons_of_mem _ hf))
    cases hk : values.lookup k with
    | none => exact absurd hk (h k List.mem_cons_self)
    | some v => exact ⟨mapSet k v out, by simp [requireKeys, hk, ho]⟩

/-! ## `valuesForFields` -/

/-- A field name `ValuesForFields` accepts. -/
def FieldOK (c : CommandStep) (repo f : String) : Prop :=
  fieldValue c repo f ≠ none ∨ f.startsWith envNamespacePrefix = true

theorem go_ok {c : CommandStep} {repo : String} : {fields : List String} → {acc out : List (String × Val)} →
    valuesForFields.go c repo fields acc = .ok out → SortedK acc →
    SortedK out ∧
      (∀ f, out.lookup f = if f ∈ fields ∧ fieldValue c repo f ≠ none then fieldValue c repo f else acc.lookup f) ∧
      ∀ f ∈ fields, FieldOK c repo f
  | [], acc, out, h, hs => by
    simp only [valuesForFields.go, Except.ok.injEq] at h
    subst h
    simp [hs]
  | g :: r, acc, out, h, hs => by
    unfold valuesForFields.go at h
    cases hg : fieldValue c repo g with
    | some v =>
      simp only [hg] at h
      obtain ⟨s, l, n⟩ := go_ok h (sortedK_umapInsert _ _ _ hs)
      refine ⟨s, fun f => ?_, fun f hf => ?_⟩
      · rw [l, mapSet, lookup_umapInsert]
        simp only [List.mem_cons]
        by_cases hfr : f ∈ r ∧ fieldValue c repo f ≠ none
        · simp [hfr]
        · by_cases e : f = g
          · subst e; simp [hg]
          · rw [if_neg hfr, if_neg e, if_neg]
            rintro ⟨h1 | h1, h2⟩
            · exact e h1
            · exact hfr ⟨h1, h2⟩
      · rcases List.mem_cons.1 hf with rfl | hf
        · exact .inl (by simp [hg])
        · exact n f hf
    | none =>
      simp only [hg] at h
      split at h
      · rename_i hp
        obtain ⟨s, l, n⟩ := go_ok h hs
        refine ⟨s, fun f => ?_, fun f hf => ?_⟩
        · rw [l]
          simp only [List.mem_cons]
          by_cases e : f = g
          · subst e; simp [hg]
          · simp [e]
        · rcases List.mem_cons.1 hf with rfl | hf
          · exact .inr hp
          · exact n f hf
      · cases h

theorem go_of {c : CommandStep} {repo : String} : {fields : List String} → (acc : List (String × Val)) →
    (∀ f ∈ fields, FieldOK c repo f) → ∃ out, valuesForFields.go c repo fields acc = .ok out
  | [], acc, _ => ⟨acc, rfl⟩
  | g :: r, acc, h => by
    have hr : ∀ f ∈ r, FieldOK c repo f := fun f hf => h f (List.mem_cons_of_mem _ hf)
    unfold valuesForFields.go
    cases hg : fieldValue c repo g with
    | some v => exact go_of _ hr
    | none =>
      rcases h g List.mem_cons_self with h' | h'
      · exact absurd hg h'
      · simp only [h', if_true]
        exact go_of _ hr

theorem mandatory_all {fields : List String} :
    mandatoryFields.all (fields.contains ·) = true ↔ ∀ m ∈ mandatoryFields, m ∈ fields := by
  simp [List.all_eq_true]

theorem vff_ok {c : CommandStep} {repo : String} {fields : List String} {out : List (String × Val)}
    (h : valuesForFields c repo fields = .ok out) :
    out = umapOf (signedFields c repo) ∧ (∀ m ∈ mandatoryFields, m ∈ fields) ∧ ∀ f ∈ fields, FieldOK c repo f := by
  unfold valuesForFields at h
  cases hg : valuesForFields.go c repo fields [] with
  | error e => simp [hg] at h
  | ok o =>
    simp only [hg] at h
    split at h
    · rename_i hm
      simp only [Except.ok.injEq] at h
      subst h
      obtain ⟨s, l, n⟩ := go_ok hg sortedK_nil
      have hm' := mandatory_all.1 hm
      refine ⟨sortedK_ext s (sortedK_base c repo) (fun f => ?_), hm', n⟩
      rw [l, lookup_base]
      by_cases hf : fieldValue c repo f = none
      · simp [hf]
      · rw [if_pos ⟨hm' f ((fieldValue_ne_none_iff c repo f).1 hf), hf⟩]
    · cases h

theorem vff_of {c : CommandStep} {repo : String} {fields : List String}
    (hm : ∀ m ∈ mandatoryFields, m ∈ fields) (hf : ∀ f ∈ fields, FieldOK c repo f) :
    valuesForFields c repo fields = .ok (umapOf (signedFields c repo)) := by
  obtain ⟨o, ho⟩ := go_of (c := c) (repo := repo) [] hf
  have h : valuesForFields c repo fields = .ok o := by
    unfold valuesForFields
    simp only [ho, mandatory_all.2 hm, if_true]
  rw [h, (vff_ok h).1]

/-! ## The shadowing set and `signValues` -/

theorem shadow_set (c : CommandStep) (repo : String) :
    objEnvNames (Marshal.umapOf (signedFields c repo)) c =
      (match c.env with | some (e :: es) => (e :: es).map (·.1) | _ => []) := by
  unfold objEnvNames
  rw [lookup_base, fieldValue_eq]
  simp only [if_true, String.reduceEq, if_false]
  cases he : c.env with
  | none => simp [envField]
  | some l =>
    cases l with
    | nil => simp [envField]
    | cons e es => simp [envField]

theorem shadow_eq (c : CommandStep) (repo : String) :
    objEnvNames (Marshal.umapOf (signedFields c repo)) c = (c.env.getD []).map (·.1) := by
  rw [shadow_set]
  cases he : c.env with
  | none => rfl
  | some l => cases l <;> rfl

theorem fieldValue_env_none (c : CommandStep) (repo name : String) :
    fieldValue c repo (envNamespacePrefix ++ name) = none := by
  cases h : fieldValue c repo (envNamespacePrefix ++ name) with
  | none => rfl
  | some v =>
    exact absurd ((fieldValue_ne_none_iff c repo _).1 (by simp [h])) (env_namespace name).1

theorem signValues_eq (c : CommandStep) (repo : String) (env : List (String × String)) :
    signValues c repo env = addEnv (umapOf (signedFields c repo)) ((c.env.getD []).map (·.1)) env := by
  unfold signValues
  simp only [shadow_eq]

theorem sortedK_signValues (c : CommandStep) (repo : String) (env : List (String × String)) :
    SortedK (signValues c repo env) := by
  rw [signValues_eq]; exact sortedK_addEnv _ _ _ (sortedK_base c repo)

theorem signValues_lookup_field (c : CommandStep) (repo : String) (env : List (String × String)) {f : String}
    (hf : f ∈ mandatoryFields) : (signValues c repo env).lookup f = fieldValue c repo f := by
  rw [signValues_eq, addEnv_lookup_other, lookup_base]
  intro name v _ _ e
  exact (env_namespace name).1 (e ▸ hf)

theorem signValues_lookup_env (c : CommandStep) (repo : String) (env : List (String × String)) {name v : String}
    (hn : (env.map (·.1)).Nodup) (hm : (name, v) ∈ env) (hs : name ∉ (c.env.getD []).map (·.1)) :
    (signValues c repo env).lookup (envNamespacePrefix ++ name) = some (.str v) := by
  rw [signValues_eq]; exact addEnv_lookup_env _ _ _ hn hm hs

theorem signValues_lookup_inv (c : CommandStep) (repo : String) (env : List (String × String)) {f : String} {x : Val}
    (h : (signValues c repo env).lookup f = some x) :
    (f ∈ mandatoryFields ∧ fieldValue c repo f = some x) ∨
      ∃ name v, (name, v) ∈ env ∧ name ∉ (c.env.getD []).map (·.1) ∧ f = envNamespacePrefix ++ name ∧ x = .str v := by
  rw [signValues_eq] at h
  rcases addEnv_lookup_inv _ _ _ h with h | h
  · rw [lookup_base] at h
    exact .inl ⟨(fieldValue_ne_none_iff c repo f).1 (by simp [h]), h⟩
  · exact .inr h

theorem field_list (c : CommandStep) (repo : String) (penv : List (String × String)) (f : String) :
    f ∈ (signValues c repo penv).map (·.1) ↔
      f ∈ mandatoryFields ∨ ∃ name v, (name, v) ∈ penv ∧ name ∉ objEnvNames (Marshal.umapOf (signedFields c repo)) c ∧
        f = envNamespacePrefix ++ name := by
  unfold signValues
  simp only
  rw [addEnv_keys, ← lookup_ne_none_iff, lookup_base, fieldValue_ne_none_iff]

/-! ## `verifyRequired` -/

/-- Well-formedness of what is signed / presented: number literals inside plugin configs and the
    matrix are number tokens, and no value map has two members of the same name. -/
def ValuesOK (v : List (String × Val)) : Prop :=
  WFMembers (valJKVs v) ∧ KeysDistinct (.obj (valJKVs v))

/-- The `required` map of `Verify`: `verifyPayload` is `payload r.algorithm` of it. -/
def verifyRequired (S : SigScheme) (r : Record S) (c : CommandStep) (repo : String)
    (env : List (String × String)) : Except VErr (List (String × Val)) :=
  if r.signedFields.isEmpty then .error .noFields
  else
    match valuesForFields c repo r.signedFields with
    | .error e => .error e
    | .ok values =>
      let values := addEnv values (objEnvNames values c) env
      match requireKeys values r.signedFields with
      | .error e => .error e
      | .ok required => .ok required

theorem verifyPayload_eq (S : SigScheme) (r : Record S) (c : CommandStep) (repo : String)
    (env : List (String × String)) :
    verifyPayload S r c repo env = (verifyRequired S r c repo env).map (payload r.algorithm) := by
  unfold verifyPayload verifyRequired
  by_cases h : r.signedFields.isEmpty = true
  · simp only [h, if_true]; rfl
  · simp only [h]
    cases valuesForFields c repo r.signedFields with
    | error e => rfl
    | ok vals =>
      simp only
      cases requireKeys (addEnv vals (objEnvNames vals c) env) r.signedFields with
      | error e => rfl
      | ok req => rfl

theorem verifyRequired_ok {S : SigScheme} {r : Record S} {c : CommandStep} {repo : String}
    {env : List (String × String)} {req : List (String × Val)} (h : verifyRequired S r c repo env = .ok req) :
    r.signedFields ≠ [] ∧ (∀ m ∈ mandatoryFields, m ∈ r.signedFields) ∧
      (∀ f ∈ r.signedFields, FieldOK c repo f) ∧ requireKeys (signValues c repo env) r.signedFields = .ok req := by
  unfold verifyRequired at h
  split at h
  · cases h
  · rename_i hne
    cases hv : valuesForFields c repo r.signedFields with
    | error e => simp [hv] at h
    | ok vals =>
      obtain ⟨rfl, hm, hf⟩ := vff_ok hv
      simp only [hv] at h
      refine ⟨by simpa using hne, hm, hf, ?_⟩
      unfold signValues
      simp only
      split at h
      · cases h
      · rename_i h'
        rw [h', h]

theorem verifyRequired_of {S : SigScheme} {r : Record S} {c : CommandStep} {repo : String}
    {env : List (String × String)} {req : List (String × Val)}
    (hne : r.signedFields ≠ []) (hm : ∀ m ∈ mandatoryFields, m ∈ r.signedFields)
    (hf : ∀ f ∈ r.signedFields, FieldOK c repo f)
    (hr : requireKeys (signValues c repo env) r.signedFields = .ok req) :
    verifyRequired S r c repo env = .ok req := by
  unfold verifyRequired
  have : r.signedFields.isEmpty = false := by simpa using hne
  unfold signValues at hr
  simp only at hr
  simp only [this, vff_of hm hf, hr]
  rfl

/-! ## C01 -/

section C01
variable (S : SigScheme)

theorem verify_ok {r : Record S} {pub : S.Pub} {c : CommandStep} {repo : String} {env : List (String × String)}
    (h : verify S r pub c repo env = .ok ()) :
    ∃ p, verifyPayload S r c repo env = .ok p ∧ S.verify pub p r.value = true := by
  unfold verify at h
  cases hp : verifyPayload S r c repo env with
  | error e => simp [hp] at h
  | ok p =>
    simp only [hp] at h
    refine ⟨p, rfl, ?_⟩
    cases hv : S.verify pub p r.value with
    | true => rfl
    | false => simp [hv] at h

theorem verify_of {r : Record S} {pub : S.Pub} {c : CommandStep} {repo : String} {env : List (String × String)}
    {p : List Char} (hp : verifyPayload S r c repo env = .ok p) (hv : S.verify pub p r.value = true) :
    verify S r pub c repo env = .ok () := by
  unfold verify
  simp [hp, hv]

theorem verify_binds_payload (k : S.Key) (alg : String) (c₀ : CommandStep) (repo₀ : String)
    (penv₀ : List (String × String)) (r' : Record S) (hval : r'.value = (sign S k alg c₀ repo₀ penv₀).value)
    (pub : S.Pub) (c₁ : CommandStep) (repo₁ : String) (env₁ : List (String × String))
    (hv : verify S r' pub c₁ repo₁ env₁ = .ok ()) :
    pub = S.pubOf k ∧ verifyPayload S r' c₁ repo₁ env₁ = .ok (payload alg (signValues c₀ repo₀ penv₀)) := by
  obtain ⟨p, hp, hs⟩ := verify_ok S hv
  rw [hval] at hs
  simp only [sign] at hs
  have hpub : pub = S.pubOf k := by
    apply Classical.byContradiction
    intro hne
    rw [S.a2 k pub _ p hne] at hs
    cases hs
  subst hpub
  have := S.a1 k _ p hs
  subst this
  exact ⟨rfl, hp⟩

theorem other_key_fails (k : S.Key) (alg : String) (c₀ : CommandStep) (repo₀ : String)
    (penv₀ : List (String × String)) (r' : Record S) (hval : r'.value = (sign S k alg c₀ repo₀ penv₀).value)
    (pub : S.Pub) (hne : pub ≠ S.pubOf k) (c₁ : CommandStep) (repo₁ : String) (env₁ : List (String × String)) :
    verify S r' pub c₁ repo₁ env₁ ≠ .ok () := fun hv =>
  hne (verify_binds_payload S k alg c₀ repo₀ penv₀ r' hval pub c₁ repo₁ env₁ hv).1

theorem verify_required {r : Record S} {pub : S.Pub} {c : CommandStep} {repo : String} {env : List (String × String)}
    (h : verify S r pub c repo env = .ok ()) :
    ∃ req, verifyRequired S r c repo env = .ok req ∧ S.verify pub (payload r.algorithm req) r.value = true := by
  obtain ⟨p, hp, hs⟩ := verify_ok S h
  rw [verifyPayload_eq] at hp
  cases hr : verifyRequired S r c repo env with
  | error e => simp [hr, Except.map] at hp
  | ok req =>
    simp only [hr, Except.map, Except.ok.injEq] at hp
    subst hp
    exact ⟨req, rfl, hs⟩

theorem mandatory_field_dropped (r : Record S) (pub : S.Pub) (c : CommandStep) (repo : String)
    (env : List (String × String)) (f : String) (hf : f ∈ mandatoryFields) (hn : f ∉ r.signedFields) :
    verify S r pub c repo env ≠ .ok () := by
  intro h
  obtain ⟨req, hr, _⟩ := verify_required S h
  exact hn ((verifyRequired_ok hr).2.1 f hf)

theorem garbage_field (r : Record S) (pub : S.Pub) (c : CommandStep) (repo : String)
    (env : List (String × String)) (f : String) (hf : f ∈ r.signedFields)
    (hk : fieldValue c repo f = none) (hp : f.startsWith envNamespacePrefix = false) :
    verify S r pub c repo env ≠ .ok () := by
  intro h
  obtain ⟨req, hr, _⟩ := verify_required S h
  rcases (verifyRequired_ok hr).2.2.1 f hf with h' | h'
  · exact h' hk
  · rw [hp] at h'; cases h'

theorem no_fields (r : Record S) (pub : S.Pub) (c : CommandStep) (repo : String)
    (env : List (String × String)) (h : r.signedFields = []) : verify S r pub c repo env ≠ .ok () := by
  intro hv
  obtain ⟨req, hr, _⟩ := verify_required S hv
  exact (verifyRequired_ok hr).1 h

theorem field_list_order_irrelevant (r r' : Record S) (pub : S.Pub) (c : CommandStep) (repo : String)
    (env : List (String × String)) (ha : r'.algorithm = r.algorithm) (hv : r'.value = r.value)
    (hset : ∀ f, f ∈ r'.signedFields ↔ f ∈ r.signedFields)
    (h : verify S r pub c repo env = .ok ()) : verify S r' pub c repo env = .ok () := by
  obtain ⟨req, hr, hs⟩ := verify_required S h
  obtain ⟨hne, hm, hf, hk⟩ := verifyRequired_ok hr
  obtain ⟨s, l, n⟩ := requireKeys_ok hk
  obtain ⟨req', hk'⟩ := requireKeys_of (values := signValues c repo env) (fields := r'.signedFields)
    (fun f hf' => n f ((hset f).1 hf'))
  obtain ⟨s', l', _⟩ := requireKeys_ok hk'
  have e : req' = req := sortedK_ext s' s (fun f => by rw [l, l']; simp only [hset])
  subst e
  have hne' : r'.signedFields ≠ [] := by
    intro e
    cases hl : r.signedFields with
    | nil => exact hne hl
    | cons a t =>
      have := (hset a).2 (by rw [hl]; exact List.mem_cons_self)
      rw [e] at this; cases this
  have hr' : verifyRequired S r' c repo env = .ok req' :=
    verifyRequired_of hne' (fun m hm' => (hset m).2 (hm m hm')) (fun f hf' => hf f ((hset f).1 hf')) hk'
  refine verify_of S (p := payload r'.algorithm req') ?_ ?_
  · rw [verifyPayload_eq, hr']; rfl
  · rw [ha, hv]; exact hs

theorem startsWith_env (name : String) : (envNamespacePrefix ++ name).startsWith envNamespacePrefix = true := by
  rw [String.startsWith_string_iff, String.toList_append]
  exact List.prefix_append _ _

theorem mem_of_lookup {β : Type} {k : String} {v : β} : {l : List (String × β)} → l.lookup k = some v → (k, v) ∈ l
  | [], h => by simp at h
  | (k0, v0) :: r, h => by
    rw [lookup_cons_if] at h
    split at h
    · rename_i e
      simp only [Option.some.injEq] at h
      rw [e, h]; exact List.mem_cons_self
    · exact List.mem_cons_of_mem _ (mem_of_lookup h)

theorem lookup_of_mem_nodup {β : Type} {k : String} {v : β} : {l : List (String × β)} → (l.map (·.1)).Nodup →
    (k, v) ∈ l → l.lookup k = some v
  | [], _, h => by cases h
  | (k0, v0) :: r, hn, h => by
    simp only [List.map_cons, List.nodup_cons] at hn
    rw [lookup_cons_if]
    rcases List.mem_cons.1 h with e | h'
    · simp only [Prod.mk.injEq] at e
      simp [e.1, e.2]
    · have : k ≠ k0 := fun e => hn.1 (e ▸ List.mem_map.2 ⟨_, h', rfl⟩)
      rw [if_neg this]
      exact lookup_of_mem_nodup hn.2 h'

theorem mem_insertStr {s f : String} : {l : List String} → (f ∈ insertStr s l ↔ f = s ∨ f ∈ l)
  | [] => by simp [insertStr]
  | t :: r => by
    unfold insertStr
    split
    · simp
    · simp only [List.mem_cons, mem_insertStr (l := r)]
      constructor
      · rintro (h | h | h)
        · exact .inr (.inl h)
        · exact .inl h
        · exact .inr (.inr h)
      · rintro (h | h | h)
        · exact .inr (.inl h)
        · exact .inl h
        · exact .inr (.inr h)

theorem mem_sortStrs {f : String} : {l : List String} → (f ∈ sortStrs l ↔ f ∈ l)
  | [] => by simp [sortStrs]
  | s :: r => by simp [sortStrs, mem_insertStr, mem_sortStrs (l := r)]

theorem complete (k : S.Key) (alg : String) (c : CommandStep) (repo : String)
    (penv env₁ : List (String × String)) (hp : (penv.map (·.1)).Nodup) (hp₁ : (env₁.map (·.1)).Nodup)
    (hsub : ∀ name v, (name, v) ∈ penv → name ∉ (c.env.getD []).map (·.1) → env₁.lookup name = some v) :
    verify S (sign S k alg c repo penv) (S.pubOf k) c repo env₁ = .ok () := by
  have hfl := field_list c repo penv
  simp only [shadow_eq] at hfl
  -- the presented values agree with the signed ones on every signed key
  have agree : ∀ f, f ∈ (signValues c repo penv).map (·.1) →
      (signValues c repo env₁).lookup f = (signValues c repo penv).lookup f := by
    intro f hf
    rcases (hfl f).1 hf with hm | ⟨name, v, hmem, hs, rfl⟩
    · rw [signValues_lookup_field _ _ _ hm, signValues_lookup_field _ _ _ hm]
    · rw [signValues_lookup_env c repo penv hp hmem hs]
      exact signValues_lookup_env c repo env₁ hp₁ (mem_of_lookup (hsub name v hmem hs)) hs
  have hsf : (sign S k alg c repo penv).signedFields = sortStrs ((signValues c repo penv).map (·.1)) := rfl
  have hmem : ∀ f, f ∈ (sign S k alg c repo penv).signedFields ↔ f ∈ (signValues c repo penv).map (·.1) := by
    intro f; rw [hsf, mem_sortStrs]
  have hm : ∀ m ∈ mandatoryFields, m ∈ (sign S k alg c repo penv).signedFields :=
    fun m hm => (hmem m).2 ((hfl m).2 (.inl hm))
  have hne : (sign S k alg c repo penv).signedFields ≠ [] := by
    intro e
    have := hm "command" (by simp [mandatoryFields])
    rw [e] at this; cases this
  have hf : ∀ f ∈ (sign S k alg c repo penv).signedFields, FieldOK c repo f := by
    intro f hf
    rcases (hfl f).1 ((hmem f).1 hf) with hm | ⟨name, v, _, _, rfl⟩
    · exact .inl ((fieldValue_ne_none_iff c repo f).2 hm)
    · exact .inr (startsWith_env name)
  obtain ⟨req, hk⟩ := requireKeys_of (values := signValues c repo env₁)
    (fields := (sign S k alg c repo penv).signedFields)
    (fun f hf => by rw [agree f ((hmem f).1 hf), lookup_ne_none_iff]; exact (hmem f).1 hf)
  obtain ⟨s, l, _⟩ := requireKeys_ok hk
  have e : req = signValues c repo penv := by
    refine sortedK_ext s (sortedK_signValues c repo penv) (fun f => ?_)
    rw [l]
    by_cases hf' : f ∈ (sign S k alg c repo penv).signedFields
    · rw [if_pos hf', agree f ((hmem f).1 hf')]
    · rw [if_neg hf']
      cases hl : (signValues c repo penv).lookup f with
      | none => rfl
      | some x =>
        exact absurd ((hmem f).2 (lookup_ne_none_iff.1 (by simp [hl]))) hf'
  subst e
  have hr := verifyRequired_of (S := S) hne hm hf hk
  refine verify_of S (p := payload alg (signValues c repo penv)) ?_ (S.correct k _)
  rw [verifyPayload_eq, hr]; rfl
theorem sound (k : S.Key) (alg : String) (c₀ : CommandStep) (repo₀ : String)
    (penv₀ : List (String × String)) (r' : Record S) (hval : r'.value = (sign S k alg c₀ repo₀ penv₀).value)
    (pub : S.Pub) (c₁ : CommandStep) (repo₁ : String) (env₁ : List (String × String))
    (hv : verify S r' pub c₁ repo₁ env₁ = .ok ())
    (hp₀ : (penv₀.map (·.1)).Nodup) (hp₁ : (env₁.map (·.1)).Nodup)
    (hok₀ : ValuesOK (signValues c₀ repo₀ penv₀))
    (hok₁ : ∀ req, verifyRequired S r' c₁ repo₁ env₁ = .ok req → ValuesOK req) :
    r'.algorithm = alg ∧
    c₁.command = c₀.command ∧ repo₁ = repo₀ ∧
    Equiv (valJ (envField c₁.env)) (valJ (envField c₀.env)) ∧
    Equiv (valJ (pluginsField c₁.plugins)) (valJ (pluginsField c₀.plugins)) ∧
    Equiv (valJ (matrixField c₁.matrix)) (valJ (matrixField c₀.matrix)) ∧
    (∀ f, f ∈ r'.signedFields ↔ f ∈ (signValues c₀ repo₀ penv₀).map (·.1)) ∧
    (∀ name v, (name, v) ∈ penv₀ → name ∉ (c₀.env.getD []).map (·.1) →
        env₁.lookup name = some v ∧ name ∉ (c₁.env.getD []).map (·.1)) := by
  obtain ⟨_, hpay⟩ := verify_binds_payload S k alg c₀ repo₀ penv₀ r' hval pub c₁ repo₁ env₁ hv
  rw [verifyPayload_eq] at hpay
  cases hr : verifyRequired S r' c₁ repo₁ env₁ with
  | error e => simp [hr, Except.map] at hpay
  | ok req =>
    simp only [hr, Except.map, Except.ok.injEq] at hpay
    have hok := hok₁ req hr
    obtain ⟨halg, hfld⟩ := payload_injective _ _ _ _ hok.1 hok₀.1 hok.2 hok₀.2 hpay
    obtain ⟨hne, hm, hf, hk⟩ := verifyRequired_ok hr
    obtain ⟨_, l, n⟩ := requireKeys_ok hk
    -- a mandatory field: presented and signed values are equivalent
    have mand : ∀ f x₁ x₀, f ∈ mandatoryFields → fieldValue c₁ repo₁ f = some x₁ → fieldValue c₀ repo₀ f = some x₀ →
        Equiv (valJ x₁) (valJ x₀) := by
      intro f x₁ x₀ hfm h₁ h₀
      have e₁ : req.lookup f = some x₁ := by
        rw [l, if_pos (hm f hfm), signValues_lookup_field _ _ _ hfm, h₁]
      have e₀ : (signValues c₀ repo₀ penv₀).lookup f = some x₀ := by
        rw [signValues_lookup_field _ _ _ hfm, h₀]
      have := hfld f
      rw [e₁, e₀] at this
      exact this
    have keys : ∀ f, f ∈ r'.signedFields ↔ f ∈ (signValues c₀ repo₀ penv₀).map (·.1) := by
      intro f
      rw [← lookup_ne_none_iff]
      have := hfld f
      constructor
      · intro hf'
        have h1 : req.lookup f ≠ none := by rw [l, if_pos hf']; exact n f hf'
        cases e₁ : req.lookup f with
        | none => exact absurd e₁ h1
        | some x =>
          cases e₀ : (signValues c₀ repo₀ penv₀).lookup f with
          | none => rw [e₁, e₀] at this; exact this.elim
          | some y => simp
      · intro h0
        cases e₀ : (signValues c₀ repo₀ penv₀).lookup f with
        | none => exact absurd e₀ h0
        | some y =>
          cases e₁ : req.lookup f with
          | none => rw [e₁, e₀] at this; exact this.elim
          | some x =>
            rw [l] at e₁
            by_cases hf' : f ∈ r'.signedFields
            · exact hf'
            · rw [if_neg hf'] at e₁; cases e₁
    refine ⟨halg, ?_, ?_, ?_, ?_, ?_, keys, ?_⟩
    · exact str_field _ _ (mand "command" _ _ (by simp [mandatoryFields]) rfl rfl)
    · exact str_field _ _ (mand "repository_url" _ _ (by simp [mandatoryFields]) rfl rfl)
    · exact mand "env" _ _ (by simp [mandatoryFields]) rfl rfl
    · exact mand "plugins" _ _ (by simp [mandatoryFields]) rfl rfl
    · exact mand "matrix" _ _ (by simp [mandatoryFields]) rfl rfl
    · intro name v hmem hs
      have e₀ := signValues_lookup_env c₀ repo₀ penv₀ hp₀ hmem hs
      have hin : envNamespacePrefix ++ name ∈ r'.signedFields :=
        (keys _).2 (lookup_ne_none_iff.1 (by simp [e₀]))
      have := hfld (envNamespacePrefix ++ name)
      rw [e₀, l, if_pos hin] at this
      cases e₁ : (signValues c₁ repo₁ env₁).lookup (envNamespacePrefix ++ name) with
      | none => rw [e₁] at this; exact this.elim
      | some x =>
        rw [e₁] at this
        rcases signValues_lookup_inv _ _ _ e₁ with ⟨hmf, _⟩ | ⟨name', v', hmem', hs', hf', rfl⟩
        · exact absurd hmf (env_namespace name).1
        · have := str_field _ _ this
          subst this
          have := (env_namespace name).2 name' hf'
          subst this
          exact ⟨lookup_of_mem_nodup hp₁ hmem', hs'⟩
end C01

/-! ## C06 -/

section C06
variable (S : SigScheme) (render : S.Sig → String)

theorem signStep_command (key : S.Key) (alg repo : String) (penv : List (String × String)) (c : CommandStep) :
    signStep S render key alg repo penv (.command c) = .ok (.command (attach S render (sign S key alg c repo penv) c)) := by
  simp [signStep]
theorem signStep_group_none (key : S.Key) (alg repo : String) (penv : List (String × String)) (k g r) :
    signStep S render key alg repo penv (.group k g none r) = .ok (.group k g none r) := by
  simp [signStep]
theorem signStep_group_some (key : S.Key) (alg repo : String) (penv : List (String × String)) (k g l r) :
    signStep S render key alg repo penv (.group k g (some l) r) =
      (signSteps S render key alg repo penv l).map (fun l' => .group k g (some l') r) := by
  simp [signStep]
theorem signStep_unknown (key : S.Key) (alg repo : String) (penv : List (String × String)) (v) :
    signStep S render key alg repo penv (.unknown v) = .error .unknownStep := by
  simp [signStep]
theorem signStep_wait (key : S.Key) (alg repo : String) (penv : List (String × String)) (a b) :
    signStep S render key alg repo penv (.wait a b) = .ok (.wait a b) := by
  simp [signStep]
theorem signStep_input (key : S.Key) (alg repo : String) (penv : List (String × String)) (a b) :
    signStep S render key alg repo penv (.input a b) = .ok (.input a b) := by
  simp [signStep]
theorem signStep_trigger (key : S.Key) (alg repo : String) (penv : List (String × String)) (a) :
    signStep S render key alg repo penv (.trigger a) = .ok (.trigger a) := by
  simp [signStep]
theorem signSteps_nil (key : S.Key) (alg repo : String) (penv : List (String × String)) :
    signSteps S render key alg repo penv [] = .ok [] := by simp [signSteps]
theorem signSteps_cons (key : S.Key) (alg repo : String) (penv : List (String × String)) (s r) :
    signSteps S render key alg repo penv (s :: r) =
      match signStep S render key alg repo penv s with
      | .error e => .error e
      | .ok s' =>
        match signSteps S render key alg repo penv r with
        | .error e => .error e
        | .ok r' => .ok (s' :: r') := by
  rw [signSteps]; rfl
theorem map_ok_iff {ε α β : Type} {f : α → β} {x : Except ε α} {b : β} :
    x.map f = .ok b ↔ ∃ a, x = .ok a ∧ b = f a := by
  cases x with
  | error e => simp [Except.map]
  | ok a =>
    simp only [Except.map, Except.ok.injEq, exists_eq_left']
    exact ⟨fun h => h.symm, fun h => h.symm⟩

theorem signSteps_cons_ok {key : S.Key} {alg repo : String} {penv : List (String × String)} {s : Step}
    {r l' : List Step} :
    signSteps S render key alg repo penv (s :: r) = .ok l' ↔
      ∃ s' r', signStep S render key alg repo penv s = .ok s' ∧
        signSteps S render key alg repo penv r = .ok r' ∧ l' = s' :: r' := by
  rw [signSteps_cons]
  cases signStep S render key alg repo penv s with
  | error e => simp
  | ok s' =>
    cases signSteps S render key alg repo penv r with
    | error e => simp
    | ok r' =>
      simp only [Except.ok.injEq, exists_and_left, exists_eq_left']
      exact ⟨fun h => h.symm, fun h => h.symm⟩

mutual
  theorem refuses_step (key : S.Key) (alg repo : String) (penv : List (String × String)) : (s : Step) →
      ((∃ s', signStep S render key alg repo penv s = .ok s') ↔ hasUnknown s = false)
    | .command c => by simp [signStep_command, hasUnknown]
    | .wait a b => by simp [signStep_wait, hasUnknown]
    | .input a b => by simp [signStep_input, hasUnknown]
    | .trigger a => by simp [signStep_trigger, hasUnknown]
    | .unknown v => by simp [signStep_unknown, hasUnknown]
    | .group k g none r => by simp [signStep_group_none, hasUnknown]
    | .group k g (some l) r => by
      have ih := refuses_list key alg repo penv l
      simp only [signStep_group_some, hasUnknown, ← ih, map_ok_iff]
      constructor
      · rintro ⟨_, l', h, _⟩; exact ⟨l', h⟩
      · rintro ⟨l', h⟩; exact ⟨_, l', h, rfl⟩
  theorem refuses_list (key : S.Key) (alg repo : String) (penv : List (String × String)) : (l : List Step) →
      ((∃ l', signSteps S render key alg repo penv l = .ok l') ↔ hasUnknownList l = false)
    | [] => by simp [signSteps_nil, hasUnknownList]
    | s :: r => by
      have ih₁ := refuses_step key alg repo penv s
      have ih₂ := refuses_list key alg repo penv r
      simp only [hasUnknownList, Bool.or_eq_false_iff, ← ih₁, ← ih₂, signSteps_cons_ok]
      constructor
      · rintro ⟨_, s', r', h₁, h₂, _⟩; exact ⟨⟨s', h₁⟩, ⟨r', h₂⟩⟩
      · rintro ⟨⟨s', h₁⟩, ⟨r', h₂⟩⟩; exact ⟨_, s', r', h₁, h₂, rfl⟩
end

theorem refuses_iff_unknown (key : S.Key) (alg repo : String) (penv : List (String × String)) (l : List Step) :
    (∃ l', signSteps S render key alg repo penv l = .ok l') ↔ hasUnknownList l = false :=
  refuses_list S render key alg repo penv l

mutual
  theorem erase_step (key : S.Key) (alg repo : String) (penv : List (String × String)) : (s s' : Step) →
      signStep S render key alg repo penv s = .ok s' → eraseSig s' = eraseSig s
    | .command c, s', h => by
      simp only [signStep_command, Except.ok.injEq] at h
      subst h
      simp [eraseSig, attach]
    | .wait a b, s', h => by simp only [signStep_wait, Except.ok.injEq] at h; rw [h]
    | .input a b, s', h => by simp only [signStep_input, Except.ok.injEq] at h; rw [h]
    | .trigger a, s', h => by simp only [signStep_trigger, Except.ok.injEq] at h; rw [h]
    | .unknown v, s', h => by simp [signStep_unknown] at h
    | .group k g none r, s', h => by simp only [signStep_group_none, Except.ok.injEq] at h; rw [h]
    | .group k g (some l) r, s', h => by
      rw [signStep_group_some, map_ok_iff] at h
      obtain ⟨l', hl, rfl⟩ := h
      simp only [eraseSig, erase_list key alg repo penv l l' hl]
  theorem erase_list (key : S.Key) (alg repo : String) (penv : List (String × String)) : (l l' : List Step) →
      signSteps S render key alg repo penv l = .ok l' → eraseSigs l' = eraseSigs l
    | [], l', h => by simp only [signSteps_nil, Except.ok.injEq] at h; rw [← h]
    | s :: r, l', h => by
      rw [signSteps_cons_ok] at h
      obtain ⟨s', r', h₁, h₂, rfl⟩ := h
      simp only [eraseSigs, erase_step key alg repo penv s s' h₁, erase_list key alg repo penv r r' h₂]
end

theorem only_signatures_change (key : S.Key) (alg repo : String) (penv : List (String × String))
    (l l' : List Step) (h : signSteps S render key alg repo penv l = .ok l') :
    eraseSigs l' = eraseSigs l := erase_list S render key alg repo penv l l' h

theorem forall₂_append {α β : Type} {R : α → β → Prop} {xs₁ xs₂ : List α} {ys₁ ys₂ : List β}
    (h₁ : List.Forall₂ R xs₁ ys₁) (h₂ : List.Forall₂ R xs₂ ys₂) : List.Forall₂ R (xs₁ ++ xs₂) (ys₁ ++ ys₂) := by
  induction h₁ with
  | nil => exact h₂
  | cons h _ ih => exact .cons h ih

/-- What `C06_every_command_signed` says of one command step and its signed image. -/
def SignedAs (key : S.Key) (alg repo : String) (penv : List (String × String)) (c c' : CommandStep) : Prop :=
  c' = attach S render (sign S key alg c repo penv) c ∧
    (∃ s, c'.signature = some s ∧ s.algorithm = alg ∧
          s.signedFields = some (sortStrs ((signValues c repo penv).map (·.1))))

mutual
  theorem signed_step (key : S.Key) (alg repo : String) (penv : List (String × String)) : (s s' : Step) →
      signStep S render key alg repo penv s = .ok s' →
      List.Forall₂ (SignedAs S render key alg repo penv) (commandsOf s) (commandsOf s')
    | .command c, s', h => by
      simp only [signStep_command, Except.ok.injEq] at h
      subst h
      simp only [commandsOf]
      exact .cons ⟨rfl, _, rfl, rfl, rfl⟩ .nil
    | .wait a b, s', h => by
      simp only [signStep_wait, Except.ok.injEq] at h; subst h; simp only [commandsOf]; exact .nil
    | .input a b, s', h => by
      simp only [signStep_input, Except.ok.injEq] at h; subst h; simp only [commandsOf]; exact .nil
    | .trigger a, s', h => by
      simp only [signStep_trigger, Except.ok.injEq] at h; subst h; simp only [commandsOf]; exact .nil
    | .unknown v, s', h => by simp [signStep_unknown] at h
    | .group k g none r, s', h => by
      simp only [signStep_group_none, Except.ok.injEq] at h; subst h; simp only [commandsOf]; exact .nil
    | .group k g (some l) r, s', h => by
      rw [signStep_group_some, map_ok_iff] at h
      obtain ⟨l', hl, rfl⟩ := h
      simp only [commandsOf]
      exact signed_list key alg repo penv l l' hl
  theorem signed_list (key : S.Key) (alg repo : String) (penv : List (String × String)) : (l l' : List Step) →
      signSteps S render key alg repo penv l = .ok l' →
      List.Forall₂ (SignedAs S render key alg repo penv) (commandsOfList l) (commandsOfList l')
    | [], l', h => by
      simp only [signSteps_nil, Except.ok.injEq] at h; subst h; simp only [commandsOfList]; exact .nil
    | s :: r, l', h => by
      rw [signSteps_cons_ok] at h
      obtain ⟨s', r', h₁, h₂, rfl⟩ := h
      simp only [commandsOfList]
      exact forall₂_append (signed_step key alg repo penv s s' h₁) (signed_list key alg repo penv r r' h₂)
end

theorem every_command_signed (key : S.Key) (alg repo : String) (penv : List (String × String))
    (l l' : List Step) (h : signSteps S render key alg repo penv l = .ok l') :
    List.Forall₂ (fun c c' =>
        c' = attach S render (sign S key alg c repo penv) c ∧
        (∃ s, c'.signature = some s ∧ s.algorithm = alg ∧
              s.signedFields = some (sortStrs ((signValues c repo penv).map (·.1)))))
      (commandsOfList l) (commandsOfList l') := signed_list S render key alg repo penv l l' h

theorem other_kinds_untouched (key : S.Key) (alg repo : String) (penv : List (String × String)) (s : Step)
    (h : ∀ c, s ≠ .command c) (hg : ∀ k g ss r, s ≠ .group k g ss r) (hu : ∀ v, s ≠ .unknown v) :
    signStep S render key alg repo penv s = .ok s := by
  cases s with
  | command c => exact absurd rfl (h c)
  | wait a b => exact signStep_wait S render key alg repo penv a b
  | input a b => exact signStep_input S render key alg repo penv a b
  | trigger a => exact signStep_trigger S render key alg repo penv a
  | group k g ss r => exact absurd rfl (hg k g ss r)
  | unknown v => exact absurd rfl (hu v)
end C06
end GoPipeline.Signing
