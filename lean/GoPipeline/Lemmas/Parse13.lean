/-
  C13 — lemmas about the parse model (`Model/Parse.lean`) and its composition with the JSON
  marshalling model (`Model/Marshal.lean`).

  Architecture.  `parseStep`/`parseSteps`/`parseGroup` are compiled by well-founded recursion (the
  fuel does not decrease in the `parseSteps → parseStep` call), so everything goes through the
  generated equation lemmas `parseStep.eq_1 … eq_4`, `parseSteps.eq_1/2`, `parseGroup.eq_1`.

  * `fieldOf_taken_skip/hit`: the value `fieldOf (taken m fs) name` finds for a field without aliases
    is `m.lookup key`; instantiated at the `Steps` field of `Gen.struct_Pipeline` and
    `Gen.struct_GroupStep` (both regenerated from the source).
  * `selOf_*`: the selection never yields `.hardError`; its only error is a non-string `type`.
  * `parseGroup_ok`: a successful group parse returns a `.group` whose step list is the parse of the
    `steps` entry, with no warning.
  * `parseStep_shape`: a successful `parseStep` returns a non-unknown step with no warning, or
    `.unknown` of the input itself with exactly one warning.
  * `parseSteps_forall₂`, `parseSteps_mem`: `parseSteps` is `parseStep` elementwise.
  * `parsePipeline_ok`: a successful `parsePipeline` returns as steps the `parseSteps` of `entries v`.
  * `parseStep_marshal`: by induction on the fuel, every parsed step marshals.
-/
import GoPipeline.Model.Parse
import GoPipeline.Model.Marshal
import GoPipeline.Props.C15
import Batteries.Data.List.Basic   -- `List.Forall₂`
set_option linter.unusedSimpArgs false
set_option linter.unusedVariables false
namespace GoPipeline.Parse
open GoPipeline GoPipeline.Pipe GoPipeline.Unm

/-- The step sequence of a decoded document: a bare list, or the `steps` key of a mapping
    (`null`/absent ⇒ no entries). -/
def entries : Val → Option (List Val)
  | .seq xs => some xs
  | .omap m =>
    match m.lookup "steps" with
    | none => some []
    | some .null => some []
    | some (.seq xs) => some xs
    | some _ => none
  | _ => none

def isUnknown : Step → Bool
  | .unknown _ => true
  | _ => false

/-! ## `fieldOf ∘ taken` -/

theorem fieldOf_cons (x : String × String × Val) (t : List (String × String × Val)) (name : String) :
    fieldOf (x :: t) name = if x.1 == name then some x.2.2 else fieldOf t name := by
  unfold fieldOf
  rw [List.find?_cons]
  cases h : (x.1 == name) <;> simp

/-- A field with another name does not matter. -/
theorem fieldOf_taken_skip (m : Entries) (f : Field) (r : List Field) (name : String) (hne : f.name ≠ name) :
    fieldOf (taken m (f :: r)) name = fieldOf (taken m r) name := by
  rw [taken]
  split
  · split
    · rw [fieldOf_cons]; simp [hne]
    · rfl
  · rfl

theorem firstAlias_empty (m : Entries) : firstAlias m [""] = none := by
  simp [firstAlias]

/-- An ordinary field without aliases, whose name does not occur later, finds `m.lookup key`. -/
theorem fieldOf_taken_hit (m : Entries) (f : Field) (r : List Field) (name : String)
    (hn : f.name = name) (hr : f.role = .normal) (hal : f.aliases = [""])
    (hrest : fieldOf (taken m r) name = none) :
    fieldOf (taken m (f :: r)) name = m.lookup f.key := by
  rw [taken, hr]
  simp only [fieldTake, hal, firstAlias_empty]
  cases h : m.lookup f.key with
  | none => simpa using hrest
  | some v => simp [fieldOf_cons, hn]

theorem fieldOf_pipeline_steps (m : Entries) :
    fieldOf (taken m Gen.struct_Pipeline) "Steps" = m.lookup "steps" := by
  unfold Gen.struct_Pipeline
  rw [fieldOf_taken_hit m _ _ "Steps" rfl rfl rfl]
  · rfl
  · rw [fieldOf_taken_skip _ _ _ _ (by decide), fieldOf_taken_skip _ _ _ _ (by decide)]; rfl

theorem fieldOf_group_steps (m : Entries) :
    fieldOf (taken m Gen.struct_GroupStep) "Steps" = m.lookup "steps" := by
  unfold Gen.struct_GroupStep
  rw [fieldOf_taken_skip _ _ _ _ (by decide), fieldOf_taken_skip _ _ _ _ (by decide),
    fieldOf_taken_hit m _ _ "Steps" rfl rfl rfl]
  · rfl
  · rw [fieldOf_taken_skip _ _ _ _ (by decide)]; rfl

/-! ## Selection -/

theorem select_str_ne_hard (has : String → Bool) (s : String) :
    StepKind.select Gen.typeTable Gen.inferTable has (.str s) ≠ .hardError := by
  simp only [StepKind.select]
  split <;> simp

theorem select_absent_ne_hard (has : String → Bool) :
    StepKind.select Gen.typeTable Gen.inferTable has .absent ≠ .hardError := by
  simp only [StepKind.select]
  split <;> simp

theorem selOf_ne_hardError {m : Entries} {sel : StepKind.Sel} (h : selOf m = .ok sel) : sel ≠ .hardError := by
  simp only [selOf] at h
  split at h
  · injection h with h; subst h; exact select_absent_ne_hard _
  · injection h with h; subst h; exact select_str_ne_hard _ _
  · cases h

theorem selOf_error {m : Entries} {e : Hard} (h : selOf m = .error e) :
    ∃ t, m.lookup "type" = some t ∧ ∀ s, t ≠ .str s := by
  simp only [selOf] at h
  split at h
  · cases h
  · cases h
  · rename_i t hns ht
    exact ⟨t, ht, fun s hs => hns s hs⟩

theorem selOf_total {m : Entries} (h : ∀ t, m.lookup "type" = some t → ∃ s, t = .str s) :
    ∃ sel, selOf m = .ok sel := by
  simp only [selOf]
  split
  · exact ⟨_, rfl⟩
  · exact ⟨_, rfl⟩
  · rename_i t hns ht
    obtain ⟨s, hs⟩ := h _ ht
    exact absurd hs (hns s)

/-- An empty mapping has no `type` and no kind key. -/
theorem selOf_nil : selOf [] = .ok .inferFail := rfl

/-- The fuel constant as a successor, for the `parseStep (f + 1)` equation lemmas. -/
theorem stepFuel_succ : stepFuel = 9999 + 1 := rfl

/-! ## Groups -/

theorem parseGroup_ok {f : Nat} {m : Entries} {g : Step} (h : parseGroup f m = .ok g) :
    ∃ key grp ss, g = .group key grp (some ss) (remMap (remainder m Gen.struct_GroupStep)) ∧
      (((m.lookup "steps" = none ∨ m.lookup "steps" = some .null) ∧ ss = []) ∨
        ∃ xs, m.lookup "steps" = some (.seq xs) ∧ parseSteps f xs = .ok (ss, [])) := by
  rw [parseGroup.eq_1, fieldOf_group_steps] at h
  split at h
  · cases h
  · rename_i key _
    split at h
    · cases h
    · rename_i grp _
      split at h
      · cases h
      · rename_i ss ws hst
        split at h
        · rename_i hws
          have hws : ws = [] := by simpa using hws
          subst hws
          injection h with h
          refine ⟨key, grp, ss, h.symm, ?_⟩
          split at hst
          · rename_i hl
            injection hst with hst; injection hst with h1 h2
            exact .inl ⟨.inl hl, h1.symm⟩
          · rename_i hl
            injection hst with hst; injection hst with h1 h2
            exact .inl ⟨.inr hl, h1.symm⟩
          · rename_i xs hl
            exact .inr ⟨xs, hl, hst⟩
          · cases hst
        · cases h

/-! ## Shape of a parsed step -/

theorem parseStep_shape {f : Nat} {x : Val} {s : Step} {w : List Warn} (h : parseStep f x = .ok (s, w)) :
    (isUnknown s = false ∧ w = []) ∨ (s = .unknown x ∧ ∃ a, w = [a]) := by
  cases f with
  | zero => rw [parseStep.eq_1] at h; cases h
  | succ f =>
    cases x with
    | str t =>
      rw [parseStep.eq_2] at h
      split at h <;>
        (simp only [Except.ok.injEq, Prod.mk.injEq] at h; obtain ⟨rfl, rfl⟩ := h; simp [isUnknown])
    | omap m =>
      rw [parseStep.eq_3] at h
      split at h
      · cases h
      · split at h
        · cases h
        · simp only [Except.ok.injEq, Prod.mk.injEq] at h; obtain ⟨rfl, rfl⟩ := h; simp [isUnknown]
        · simp only [Except.ok.injEq, Prod.mk.injEq] at h; obtain ⟨rfl, rfl⟩ := h; simp [isUnknown]
        · split at h <;>
            (simp only [Except.ok.injEq, Prod.mk.injEq] at h; obtain ⟨rfl, rfl⟩ := h; simp [isUnknown])
        · simp only [Except.ok.injEq, Prod.mk.injEq] at h; obtain ⟨rfl, rfl⟩ := h; simp [isUnknown]
        · simp only [Except.ok.injEq, Prod.mk.injEq] at h; obtain ⟨rfl, rfl⟩ := h; simp [isUnknown]
        · simp only [Except.ok.injEq, Prod.mk.injEq] at h; obtain ⟨rfl, rfl⟩ := h; simp [isUnknown]
        · split at h
          · rename_i g hg
            simp only [Except.ok.injEq, Prod.mk.injEq] at h; obtain ⟨rfl, rfl⟩ := h
            obtain ⟨key, grp, ss, rfl, _⟩ := parseGroup_ok hg
            simp [isUnknown]
          · simp only [Except.ok.injEq, Prod.mk.injEq] at h; obtain ⟨rfl, rfl⟩ := h; simp [isUnknown]
        · simp only [Except.ok.injEq, Prod.mk.injEq] at h; obtain ⟨rfl, rfl⟩ := h; simp [isUnknown]
    | null | bool _ | int _ | float _ | time _ | seq _ | umap _ =>
      rw [parseStep.eq_4 _ _ (by intro s h; cases h) (by intro m h; cases h)] at h; cases h

theorem unknown_verbatim (f : Nat) (x c : Val) (w : List Warn)
    (h : parseStep f x = .ok (.unknown c, w)) : c = x ∧ w ≠ [] := by
  rcases parseStep_shape h with ⟨hu, _⟩ | ⟨hs, a, rfl⟩
  · simp [isUnknown] at hu
  · injection hs with hs
    exact ⟨hs, by simp⟩

theorem known_no_warning (f : Nat) (x : Val) (s : Step) (w : List Warn)
    (h : parseStep f x = .ok (s, w)) (hk : isUnknown s = false) : w = [] := by
  rcases parseStep_shape h with ⟨_, hw⟩ | ⟨rfl, _⟩
  · exact hw
  · simp [isUnknown] at hk

/-! ## Step lists -/

theorem parseSteps_cons_ok {f : Nat} {v : Val} {r : List Val} {ss : List Step} {ws : List Warn}
    (h : parseSteps f (v :: r) = .ok (ss, ws)) :
    ∃ s w ss' ws', parseStep f v = .ok (s, w) ∧ parseSteps f r = .ok (ss', ws') ∧ ss = s :: ss' ∧ ws = w ++ ws' := by
  rw [parseSteps.eq_2] at h
  split at h
  · cases h
  · rename_i s w hs
    split at h
    · cases h
    · rename_i ss' ws' hss
      simp only [Except.ok.injEq, Prod.mk.injEq] at h
      exact ⟨s, w, ss', ws', hs, hss, h.1.symm, h.2.symm⟩

theorem parseSteps_forall₂ {f : Nat} : ∀ {xs : List Val} {ss : List Step} {ws : List Warn},
    parseSteps f xs = .ok (ss, ws) → List.Forall₂ (fun x s => ∃ w, parseStep f x = .ok (s, w)) xs ss
  | [], ss, ws, h => by
    rw [parseSteps.eq_1] at h
    simp only [Except.ok.injEq, Prod.mk.injEq] at h
    rw [← h.1]; exact .nil
  | v :: r, ss, ws, h => by
    obtain ⟨s, w, ss', ws', hs, hss, rfl, rfl⟩ := parseSteps_cons_ok h
    exact .cons ⟨w, hs⟩ (parseSteps_forall₂ hss)

theorem parseSteps_mem {f : Nat} : ∀ {xs : List Val} {ss : List Step} {ws : List Warn},
    parseSteps f xs = .ok (ss, ws) → ∀ s ∈ ss, ∃ x w, parseStep f x = .ok (s, w)
  | [], ss, ws, h, s, hs => by
    rw [parseSteps.eq_1] at h
    simp only [Except.ok.injEq, Prod.mk.injEq] at h
    rw [← h.1] at hs; cases hs
  | v :: r, ss, ws, h, s, hs => by
    obtain ⟨s0, w, ss', ws', hs0, hss, rfl, rfl⟩ := parseSteps_cons_ok h
    rcases List.mem_cons.1 hs with rfl | hs
    · exact ⟨v, w, hs0⟩
    · exact parseSteps_mem hss s hs

theorem warning_count (f : Nat) : ∀ (xs : List Val) (ss : List Step) (ws : List Warn),
    parseSteps f xs = .ok (ss, ws) → ws.length = (ss.filter isUnknown).length
  | [], ss, ws, h => by
    rw [parseSteps.eq_1] at h
    simp only [Except.ok.injEq, Prod.mk.injEq] at h
    rw [← h.1, ← h.2]; rfl
  | v :: r, ss, ws, h => by
    obtain ⟨s, w, ss', ws', hs, hss, rfl, rfl⟩ := parseSteps_cons_ok h
    have ih := warning_count f r ss' ws' hss
    rcases parseStep_shape hs with ⟨hu, rfl⟩ | ⟨rfl, a, rfl⟩
    · simp [List.filter_cons, hu, ih]
    · simp [List.filter_cons, isUnknown, ih]

/-! ## Hard errors -/

theorem parseStep_omap_total {f : Nat} {m : Entries} {sel : StepKind.Sel} (hsel : selOf m = .ok sel) :
    ∃ s w, parseStep (f + 1) (.omap m) = .ok (s, w) := by
  have hne := selOf_ne_hardError hsel
  rw [parseStep.eq_3, hsel]
  dsimp only
  split
  · exact absurd rfl hne
  · exact ⟨_, _, rfl⟩
  · exact ⟨_, _, rfl⟩
  · split <;> exact ⟨_, _, rfl⟩
  · exact ⟨_, _, rfl⟩
  · exact ⟨_, _, rfl⟩
  · exact ⟨_, _, rfl⟩
  · split <;> exact ⟨_, _, rfl⟩
  · exact ⟨_, _, rfl⟩

theorem malformed_falls_back (f : Nat) (m : Entries) (h : ∀ t, m.lookup "type" = some t → ∃ s, t = .str s) :
    ∃ s w, parseStep (f + 1) (.omap m) = .ok (s, w) := by
  obtain ⟨sel, hsel⟩ := selOf_total h
  exact parseStep_omap_total hsel

theorem parseStep_str_total (f : Nat) (t : String) : ∃ s w, parseStep (f + 1) (.str t) = .ok (s, w) := by
  rw [parseStep.eq_2]
  split <;> exact ⟨_, _, rfl⟩

theorem parseStep_error {f : Nat} {x : Val} {e : Hard} (h : parseStep (f + 1) x = .error e) :
    ((∀ s, x ≠ .str s) ∧ (∀ m, x ≠ .omap m)) ∨
      (∃ m t, x = .omap m ∧ m.lookup "type" = some t ∧ ∀ s, t ≠ .str s) := by
  cases x with
  | str t =>
    obtain ⟨s, w, hs⟩ := parseStep_str_total f t
    rw [hs] at h; cases h
  | omap m =>
    cases hsel : selOf m with
    | error e' =>
      obtain ⟨t, ht, hns⟩ := selOf_error hsel
      exact .inr ⟨m, t, rfl, ht, hns⟩
    | ok sel =>
      obtain ⟨s, w, hs⟩ := parseStep_omap_total (f := f) hsel
      rw [hs] at h; cases h
  | null | bool _ | int _ | float _ | time _ | seq _ | umap _ =>
    exact .inl ⟨(by intro s h; cases h), (by intro m h; cases h)⟩

theorem hard_error_causes (f : Nat) : ∀ (xs : List Val) (e : Hard), parseSteps (f + 1) xs = .error e →
    ∃ x ∈ xs, ((∀ s, x ≠ .str s) ∧ (∀ m, x ≠ .omap m)) ∨
              (∃ m t, x = .omap m ∧ m.lookup "type" = some t ∧ ∀ s, t ≠ .str s)
  | [], e, h => by rw [parseSteps.eq_1] at h; cases h
  | v :: r, e, h => by
    rw [parseSteps.eq_2] at h
    split at h
    · rename_i e' he
      exact ⟨v, List.mem_cons_self, parseStep_error he⟩
    · split at h
      · rename_i e' he
        obtain ⟨x, hx, hc⟩ := hard_error_causes f r e' he
        exact ⟨x, List.mem_cons_of_mem _ hx, hc⟩
      · cases h

/-! ## The pipeline level -/

theorem parsePipeline_ok {v : Val} {p : Pipeline} {ws : List Warn} (h : parsePipeline v = .ok (p, ws)) :
    ∃ xs l ws', entries v = some xs ∧ p.steps = some l ∧ parseSteps stepFuel xs = .ok (l, ws') := by
  unfold parsePipeline at h
  simp only [fieldOf_pipeline_steps] at h
  split at h
  · rename_i m
    split at h
    · cases h
    · rename_i steps ws1 hst
      split at h
      · cases h
      · rename_i env _
        split at hst
        · rename_i hl
          simp only [Except.ok.injEq, Prod.mk.injEq] at hst
          obtain ⟨rfl, rfl⟩ := hst
          simp only [Except.ok.injEq, Prod.mk.injEq] at h
          obtain ⟨rfl, _⟩ := h
          exact ⟨[], [], [], by simp [entries, hl], rfl, parseSteps.eq_1 _⟩
        · rename_i hl
          simp only [Except.ok.injEq, Prod.mk.injEq] at hst
          obtain ⟨rfl, rfl⟩ := hst
          simp only [Except.ok.injEq, Prod.mk.injEq] at h
          obtain ⟨rfl, _⟩ := h
          exact ⟨[], [], [], by simp [entries, hl], rfl, parseSteps.eq_1 _⟩
        · rename_i xs hl
          cases hps : parseSteps stepFuel xs with
          | error e => rw [hps] at hst; cases hst
          | ok r =>
            obtain ⟨l, ws'⟩ := r
            rw [hps] at hst
            simp only [Except.map, Except.ok.injEq, Prod.mk.injEq] at hst
            obtain ⟨rfl, rfl⟩ := hst
            simp only [Except.ok.injEq, Prod.mk.injEq] at h
            obtain ⟨rfl, _⟩ := h
            exact ⟨xs, l, ws', by simp [entries, hl], rfl, hps⟩
        · cases hst
  · rename_i xs
    split at h
    · cases h
    · rename_i ss ws1 hps
      simp only [Except.ok.injEq, Prod.mk.injEq] at h
      obtain ⟨rfl, _⟩ := h
      exact ⟨xs, ss, ws1, rfl, rfl, hps⟩
  · cases h

theorem steps_non_nil (v : Val) (p : Pipeline) (ws : List Warn) (h : parsePipeline v = .ok (p, ws)) :
    ∃ l, p.steps = some l := by
  obtain ⟨_, l, _, _, hl, _⟩ := parsePipeline_ok h
  exact ⟨l, hl⟩

theorem one_step_per_entry (v : Val) (p : Pipeline) (ws : List Warn) (h : parsePipeline v = .ok (p, ws)) :
    ∃ xs l, entries v = some xs ∧ p.steps = some l ∧
      List.Forall₂ (fun x s => ∃ w, parseStep stepFuel x = .ok (s, w)) xs l := by
  obtain ⟨xs, l, ws', he, hl, hps⟩ := parsePipeline_ok h
  exact ⟨xs, l, he, hl, parseSteps_forall₂ hps⟩

theorem group_complete (f : Nat) (m : Entries) (k : String) (g : Option String) (ss : Option (List Step))
    (r : UMap Val) (w : List Warn) (h : parseStep (f + 1) (.omap m) = .ok (.group k g ss r, w)) :
    ∃ xs l, entries (.omap m) = some xs ∧ ss = some l ∧
      List.Forall₂ (fun x s => ∃ w', parseStep f x = .ok (s, w')) xs l := by
  have key : ∀ g', parseGroup f m = .ok g' → g' = .group k g ss r →
      ∃ xs l, entries (.omap m) = some xs ∧ ss = some l ∧
        List.Forall₂ (fun x s => ∃ w', parseStep f x = .ok (s, w')) xs l := by
    intro g' hg heq
    obtain ⟨key, grp, l, hg', hl⟩ := parseGroup_ok hg
    rw [hg'] at heq
    injection heq with _ _ hss _
    rcases hl with ⟨hl | hl, rfl⟩ | ⟨xs, hl, hps⟩
    · exact ⟨[], [], by simp [entries, hl], hss.symm, .nil⟩
    · exact ⟨[], [], by simp [entries, hl], hss.symm, .nil⟩
    · exact ⟨xs, l, by simp [entries, hl], hss.symm, parseSteps_forall₂ hps⟩
  rw [parseStep.eq_3] at h
  split at h
  · cases h
  · split at h
    · cases h
    · simp only [Except.ok.injEq, Prod.mk.injEq] at h; cases h.1
    · simp only [Except.ok.injEq, Prod.mk.injEq] at h; cases h.1
    · split at h <;> (simp only [Except.ok.injEq, Prod.mk.injEq] at h; cases h.1)
    · simp only [Except.ok.injEq, Prod.mk.injEq] at h; cases h.1
    · simp only [Except.ok.injEq, Prod.mk.injEq] at h; cases h.1
    · simp only [Except.ok.injEq, Prod.mk.injEq] at h; cases h.1
    · split at h
      · rename_i g' hg
        simp only [Except.ok.injEq, Prod.mk.injEq] at h
        exact key g' hg h.1
      · simp only [Except.ok.injEq, Prod.mk.injEq] at h; cases h.1
    · simp only [Except.ok.injEq, Prod.mk.injEq] at h; cases h.1

/-! ## Marshalling a parsed pipeline -/

theorem umapInsert_ne_nil {α : Type} (k : String) (v : α) (l : List (String × α)) : Parse.umapInsert k v l ≠ [] := by
  cases l with
  | nil => simp [Parse.umapInsert]
  | cons p r =>
    obtain ⟨k', v'⟩ := p
    unfold Parse.umapInsert
    split
    · simp
    · split <;> simp

theorem foldl_umapInsert_ne_nil {α : Type} : ∀ (r acc : List (String × α)), acc ≠ [] →
    r.foldl (fun acc p => Parse.umapInsert p.1 p.2 acc) acc ≠ []
  | [], acc, h => h
  | p :: r, acc, _ => by
    rw [List.foldl_cons]
    exact foldl_umapInsert_ne_nil r _ (umapInsert_ne_nil _ _ _)

theorem umapOf_ne_nil {α : Type} {l : List (String × α)} (h : l ≠ []) : Parse.umapOf l ≠ [] := by
  cases l with
  | nil => exact absurd rfl h
  | cons p r =>
    unfold Parse.umapOf
    rw [List.foldl_cons]
    exact foldl_umapInsert_ne_nil r _ (umapInsert_ne_nil _ _ _)

/-! Manual equation lemmas for `mStep`/`mSteps` (structural recursion over the nested inductive
    `Step`; the automatic equation lemmas are not generated for the group case). -/

theorem mStep_command (c : CommandStep) : Marshal.mStep (.command c) = .ok (Marshal.mCommand c) := rfl
theorem mStep_wait (s : String) (c : UMap Val) :
    Marshal.mStep (.wait s c) =
      .ok (if s != "" then .str s else if Marshal.lenUMap c == 0 then .str "wait" else Marshal.umapV c) := rfl
theorem mStep_input (s : String) (c : UMap Val) :
    Marshal.mStep (.input s c) =
      if s != "" then .ok (.str s) else if Marshal.lenUMap c == 0 then .error .emptyInputStep else .ok (Marshal.umapV c) := rfl
theorem mStep_trigger (c : UMap Val) : Marshal.mStep (.trigger c) = .ok (Marshal.umapV c) := rfl
theorem mStep_unknown (v : Val) : Marshal.mStep (.unknown v) = .ok v := rfl
theorem mStep_group_some (k : String) (g : Option String) (l : List Step) (r : UMap Val) :
    Marshal.mStep (.group k g (some l) r) =
      match ((Marshal.mSteps l).map .seq : Except Marshal.MErr Val) with
      | .error e => .error e
      | .ok sv =>
        .ok (Marshal.inlineFriendly ((if k == "" then [] else [("key", .str k)]) ++
              [("group", match g with | none => .null | some s => .str s), ("steps", sv)]) r) := rfl
theorem mSteps_nil : Marshal.mSteps [] = .ok [] := rfl
theorem mSteps_cons (s : Step) (r : List Step) :
    Marshal.mSteps (s :: r) =
      match Marshal.mStep s with
      | .error e => .error e
      | .ok v =>
        match Marshal.mSteps r with
        | .error e => .error e
        | .ok vs => .ok (v :: vs) := rfl

theorem mSteps_of_forall : ∀ {l : List Step}, (∀ s ∈ l, ∃ j, Marshal.mStep s = .ok j) →
    ∃ js, Marshal.mSteps l = .ok js
  | [], _ => ⟨[], mSteps_nil⟩
  | s :: r, h => by
    obtain ⟨j, hj⟩ := h s List.mem_cons_self
    obtain ⟨js, hjs⟩ := mSteps_of_forall (l := r) (fun s' hs' => h s' (List.mem_cons_of_mem _ hs'))
    exact ⟨j :: js, by rw [mSteps_cons, hj, hjs]⟩

theorem mStep_group_ok (k : String) (g : Option String) (ss : List Step) (r : UMap Val) {js : List Val}
    (h : Marshal.mSteps ss = .ok js) : ∃ j, Marshal.mStep (.group k g (some ss) r) = .ok j := by
  rw [mStep_group_some, h]
  exact ⟨_, rfl⟩

theorem parseStep_marshal : ∀ (f : Nat) (x : Val) (s : Step) (w : List Warn),
    parseStep f x = .ok (s, w) → ∃ j, Marshal.mStep s = .ok j
  | 0, x, s, w, h => by rw [parseStep.eq_1] at h; cases h
  | f + 1, x, s, w, h => by
    have ih := parseStep_marshal f
    cases x with
    | str t =>
      rw [parseStep.eq_2] at h
      split at h
      · simp only [Except.ok.injEq, Prod.mk.injEq] at h; obtain ⟨rfl, rfl⟩ := h
        exact ⟨_, by first | exact mStep_command _ | exact mStep_wait _ _ | exact mStep_trigger _ | exact mStep_unknown _⟩
      · rename_i hsel
        simp only [Except.ok.injEq, Prod.mk.injEq] at h; obtain ⟨rfl, rfl⟩ := h
        have hne : t ≠ "" := by
          intro ht; subst ht
          have : StepKind.selectScalar Gen.scalarTable "" = .unknownType := by decide
          rw [this] at hsel; cases hsel
        have hb : (t != "") = true := by simpa using hne
        exact ⟨_, by rw [mStep_input, if_pos hb]⟩
      · simp only [Except.ok.injEq, Prod.mk.injEq] at h; obtain ⟨rfl, rfl⟩ := h
        exact ⟨_, by first | exact mStep_command _ | exact mStep_wait _ _ | exact mStep_trigger _ | exact mStep_unknown _⟩
    | omap m =>
      rw [parseStep.eq_3] at h
      split at h
      · cases h
      · rename_i sel hsel
        split at h
        · cases h
        · simp only [Except.ok.injEq, Prod.mk.injEq] at h; obtain ⟨rfl, rfl⟩ := h
          exact ⟨_, by first | exact mStep_command _ | exact mStep_wait _ _ | exact mStep_trigger _ | exact mStep_unknown _⟩
        · simp only [Except.ok.injEq, Prod.mk.injEq] at h; obtain ⟨rfl, rfl⟩ := h
          exact ⟨_, by first | exact mStep_command _ | exact mStep_wait _ _ | exact mStep_trigger _ | exact mStep_unknown _⟩
        · split at h <;>
            (simp only [Except.ok.injEq, Prod.mk.injEq] at h; obtain ⟨rfl, rfl⟩ := h
             exact ⟨_, by first | exact mStep_command _ | exact mStep_wait _ _ | exact mStep_trigger _ | exact mStep_unknown _⟩)
        · simp only [Except.ok.injEq, Prod.mk.injEq] at h; obtain ⟨rfl, rfl⟩ := h
          exact ⟨_, by first | exact mStep_command _ | exact mStep_wait _ _ | exact mStep_trigger _ | exact mStep_unknown _⟩
        · simp only [Except.ok.injEq, Prod.mk.injEq] at h; obtain ⟨rfl, rfl⟩ := h
          have hm : m ≠ [] := by
            intro hm; subst hm
            rw [selOf_nil] at hsel; cases hsel
          have hlen : (Marshal.lenUMap (some (Parse.umapOf m)) == 0) = false := by
            have := umapOf_ne_nil hm
            cases hu : Parse.umapOf m with
            | nil => exact absurd hu this
            | cons a b => simp [Marshal.lenUMap]
          refine ⟨Marshal.umapV (some (Parse.umapOf m)), ?_⟩
          rw [mStep_input, hlen]
          rfl
        · simp only [Except.ok.injEq, Prod.mk.injEq] at h; obtain ⟨rfl, rfl⟩ := h
          exact ⟨_, by first | exact mStep_command _ | exact mStep_wait _ _ | exact mStep_trigger _ | exact mStep_unknown _⟩
        · split at h
          · rename_i g hg
            simp only [Except.ok.injEq, Prod.mk.injEq] at h; obtain ⟨rfl, rfl⟩ := h
            obtain ⟨key, grp, ss, rfl, hl⟩ := parseGroup_ok hg
            have hss : ∃ js, Marshal.mSteps ss = .ok js := by
              rcases hl with ⟨_, rfl⟩ | ⟨xs, _, hps⟩
              · exact ⟨[], mSteps_nil⟩
              · apply mSteps_of_forall
                intro s' hs'
                obtain ⟨x', w', hx'⟩ := parseSteps_mem hps s' hs'
                exact ih x' s' w' hx'
            obtain ⟨js, hjs⟩ := hss
            exact mStep_group_ok _ _ _ _ hjs
          · simp only [Except.ok.injEq, Prod.mk.injEq] at h; obtain ⟨rfl, rfl⟩ := h
            exact ⟨_, by first | exact mStep_command _ | exact mStep_wait _ _ | exact mStep_trigger _ | exact mStep_unknown _⟩
        · simp only [Except.ok.injEq, Prod.mk.injEq] at h; obtain ⟨rfl, rfl⟩ := h
          exact ⟨_, by first | exact mStep_command _ | exact mStep_wait _ _ | exact mStep_trigger _ | exact mStep_unknown _⟩
    | null | bool _ | int _ | float _ | time _ | seq _ | umap _ =>
      rw [parseStep.eq_4 _ _ (by intro s h; cases h) (by intro m h; cases h)] at h; cases h

theorem marshal_succeeds (v : Val) (p : Pipeline) (ws : List Warn) (h : parsePipeline v = .ok (p, ws)) :
    ∃ j, Marshal.mPipeline p = .ok j := by
  obtain ⟨xs, l, ws', _, hl, hps⟩ := parsePipeline_ok h
  obtain ⟨js, hjs⟩ := mSteps_of_forall (l := l) (fun s hs => by
    obtain ⟨x, w, hx⟩ := parseSteps_mem hps s hs
    exact parseStep_marshal _ x s w hx)
  unfold Marshal.mPipeline
  rw [hl]
  simp only [hjs, Except.map]
  exact ⟨_, rfl⟩

end GoPipeline.Parse
