/-
  C03, YAML leg — lemmas behind `Props/C03Y.lean`: the value tree handed to `yaml.Marshal`
  (`Model/MarshalY.lean`) for a parsed pipeline is the document's data in the same normal form as the
  JSON leg's (`Lemmas/Parse03.lean`), except at the places listed in the header of `Model/MarshalY.lean`.

  This file sits on the `Lemmas/Parse03.lean` side of the import graph (through `Lemmas/OrderY.lean`); it
  reuses `Order.Free`, `yStruct_inv`, `yStruct_of_free`, `yCommand_inv`, `yCommand_of`, `free_remMap`, …

  Architecture.
  * Struct encoders: on an inline map that is free of declared keys (always the case for parsed input,
    `Order.free_remMap`) and an outline made of declared keys, `yStruct` and `inlineFriendly` are the same
    Go map (`yStruct_eq_json`); a declared key reads back the outline entry (`lookup_struct_declared`).
  * `cmdOutlineG`: the outline of a command step with the signature / matrix / cache entries as parameters,
    so that both legs are instances of it (`yCmdOutline_eq`, `mCommand_eq`); `cmdOutlineG_lookups` reads
    every declared key.
  * Leg equalities bottom-up: `yAdjustment_eq`, `yAdjustments_eq`, `yMatrix_eq`, `yCache_eq`, `ySignature_eq`
    and `legs_same_normal_form_command`; the exact YAML shapes where the legs differ
    (`adjustment_fields_yaml`, `cache_disabled_only`, `signature_nil_fields`, `trigger_empty`, nil step lists).
  * The C03 statements on the YAML value tree.
-/
import GoPipeline.Lemmas.OrderY
namespace GoPipeline.Parse
open GoPipeline GoPipeline.Pipe GoPipeline.Marshal GoPipeline.Unm GoPipeline.Roundtrip GoPipeline.Order
open GoPipeline.MarshalY

local notation "outerD" => Gen.struct_CommandStep_UnmarshalOrdered_local0
local notation "csD" => Gen.struct_CommandStep
local notation "adjD" => Gen.struct_MatrixAdjustment
local notation "mxD" => Gen.struct_Matrix
local notation "cacheD" => Gen.struct_Cache
local notation "pipeD" => Gen.struct_Pipeline
local notation "grpD" => Gen.struct_GroupStep

/-! ## The two struct encoders -/

theorem declaredKeys_cs : declaredKeys csD =
    ["key", "label", "command", "plugins", "env", "signature", "matrix", "cache"] := by decide
theorem declaredKeys_adj : declaredKeys adjD = ["with", "skip"] := by decide
theorem declaredKeys_mx : declaredKeys mxD = ["setup", "adjustments"] := by decide
theorem declaredKeys_cache : declaredKeys cacheD = ["disabled", "name", "paths", "size"] := by decide
theorem declaredKeys_grp : declaredKeys grpD = ["key", "group", "steps"] := by decide

/-- `inlineFriendlyMarshalJSON` on an inline map without declared keys, the outline being made of declared
    keys: nothing is filtered out. -/
theorem inlineFriendly_of_free {d : List Field} {outline : List (String × Val)} {inline : UMap Val}
    (hf : Free d inline) (ho : ∀ k ∈ outline.map (·.1), k ∈ declaredKeys d) :
    inlineFriendly outline inline = .umap (Marshal.umapOf (inline.getD [] ++ outline)) := by
  unfold inlineFriendly
  have hfil : (inline.getD []).filter (fun p => !(outline.map (·.1)).contains p.1) = inline.getD [] := by
    rw [List.filter_eq_self]
    intro p hp
    have hn : p.1 ∉ outline.map (·.1) := fun hm => hf p hp (ho _ hm)
    simpa using hn
  simp only [hfil]

/-- Under the same conditions yaml.v3's struct encoding succeeds and is the very value of the JSON leg. -/
theorem yStruct_eq_json {d : List Field} {outline : List (String × Val)} {inline : UMap Val}
    (hf : Free d inline) (ho : ∀ k ∈ outline.map (·.1), k ∈ declaredKeys d) :
    yStruct d outline inline = .ok (inlineFriendly outline inline) := by
  rw [yStruct_of_free outline hf, inlineFriendly_of_free hf ho]

/-- A declared key reads back the outline entry (absent from the outline ⇒ absent from the value: no inline
    key can stand in). -/
theorem lookup_struct_declared {d : List Field} {outline : List (String × Val)} {inline : UMap Val}
    (hf : Free d inline) (hnd : (outline.map (·.1)).Nodup) {k : String} (hk : k ∈ declaredKeys d) :
    (Marshal.umapOf (inline.getD [] ++ outline)).lookup k = outline.lookup k := by
  have hnone : (Marshal.umapOf (inline.getD [])).lookup k = none := by
    apply lookup_umapOf_none
    intro hmem
    obtain ⟨q, hq, hqk⟩ := List.mem_map.1 hmem
    exact hf q hq (hqk ▸ hk)
  rw [marshal_umapOf_eq] at hnone ⊢
  unfold Parse.umapOf at hnone ⊢
  rw [List.foldl_append, lookup_foldl_nodup outline _ hnd, hnone]
  cases outline.lookup k <;> rfl

/-- A key outside the outline reads back the inline entry. -/
theorem lookup_struct_inline {outline : List (String × Val)} {inline : UMap Val}
    (hn : ((inline.getD []).map (·.1)).Nodup) {k : String} (hk : k ∉ outline.map (·.1)) :
    (Marshal.umapOf (inline.getD [] ++ outline)).lookup k = (inline.getD []).lookup k := by
  rw [lookup_umapOf_append_of_not_mem _ _ _ hk, marshal_umapOf_eq, lookup_umapOf_nodup hn]

/-! ## Step equations of the YAML leg (`yStep` is structurally recursive through `List Step`; the equations
    are stated here, by `rfl`) -/

theorem yStep_command (c : CommandStep) : yStep (.command c) = yCommand c := rfl
theorem yStep_wait (s : String) (c : UMap Val) :
    yStep (.wait s c) = .ok (if s != "" then .str s else if lenUMap c == 0 then .str "wait" else umapV c) := rfl
theorem yStep_input (s : String) (c : UMap Val) :
    yStep (.input s c) =
      if s != "" then .ok (.str s) else if lenUMap c == 0 then .error .emptyInputStep else .ok (umapV c) := rfl
theorem yStep_trigger (c : UMap Val) : yStep (.trigger c) = .ok (.umap (c.getD [])) := rfl
theorem yStep_unknown (v : Val) : yStep (.unknown v) = .ok v := rfl
theorem yStep_group_some (k : String) (g : Option String) (l : List Step) (r : UMap Val) :
    yStep (.group k g (some l) r) =
      match ySteps l with
      | .error e => .error e
      | .ok svs =>
        yStruct grpD ((if k == "" then [] else [("key", .str k)]) ++
          [("group", match g with | none => .null | some s => .str s), ("steps", .seq svs)]) r := rfl
theorem yStep_group_none (k : String) (g : Option String) (r : UMap Val) :
    yStep (.group k g none r) =
      yStruct grpD ((if k == "" then [] else [("key", .str k)]) ++
        [("group", match g with | none => .null | some s => .str s), ("steps", .seq [])]) r := rfl
theorem ySteps_nil : ySteps [] = .ok [] := rfl
theorem ySteps_cons (s : Step) (r : List Step) :
    ySteps (s :: r) =
      match yStep s with
      | .error e => .error e
      | .ok v =>
        match ySteps r with
        | .error e => .error e
        | .ok vs => .ok (v :: vs) := rfl

theorem ySteps_length : (ss : List Step) → (js : List Val) → ySteps ss = .ok js → js.length = ss.length
  | [], js, h => by
    rw [ySteps_nil] at h
    simp only [Except.ok.injEq] at h
    rw [← h]; rfl
  | s :: r, js, h => by
    rw [ySteps_cons] at h
    split at h
    · cases h
    · split at h
      · cases h
      · rename_i vs hr
        simp only [Except.ok.injEq] at h
        rw [← h, List.length_cons, List.length_cons, ySteps_length r vs hr]

/-! ## The outline of a command step, both legs -/

/-- The outline entries of a command step, the signature / matrix / cache entries being given. -/
def cmdOutlineG (c : CommandStep) (sg mv cv : List (String × Val)) : List (String × Val) :=
  (if c.key == "" then [] else [("key", .str c.key)]) ++
  (if c.label == "" then [] else [("label", .str c.label)]) ++
  [("command", .str c.command)] ++
  (if (c.plugins.getD []).isEmpty then [] else [("plugins", mPlugins (c.plugins.getD []))]) ++
  (if lenUMap c.env == 0 then [] else [("env", envV c.env)]) ++
  sg ++ mv ++ cv

def ySigEntry (c : CommandStep) : List (String × Val) :=
  match c.signature with | none => [] | some s => [("signature", ySignature s)]
def mSigEntry (c : CommandStep) : List (String × Val) :=
  match c.signature with | none => [] | some s => [("signature", mSignature s)]
def mMatrixEntry (c : CommandStep) : List (String × Val) :=
  match c.matrix with | none => [] | some m => [("matrix", mMatrix m)]
def mCacheEntry (c : CommandStep) : List (String × Val) :=
  match c.cache with | none => [] | some k => [("cache", mCache k)]

theorem yCmdOutline_eq (c : CommandStep) (mv cv : List (String × Val)) :
    yCmdOutline c mv cv = cmdOutlineG c (ySigEntry c) mv cv := rfl

theorem mCommand_eq (c : CommandStep) :
    mCommand c = inlineFriendly (cmdOutlineG c (mSigEntry c) (mMatrixEntry c) (mCacheEntry c)) c.rem := by
  rfl

/-- "At most one entry, under key `k`". -/
def AtMost (k : String) (l : List (String × Val)) : Prop := List.Sublist (l.map (·.1)) [k]

theorem atMost_nil (k : String) : AtMost k [] := by simp [AtMost]
theorem atMost_one (k : String) (v : Val) : AtMost k [(k, v)] := by simp [AtMost]

theorem ySigEntry_atMost (c : CommandStep) : AtMost "signature" (ySigEntry c) := by
  unfold ySigEntry; split
  · exact atMost_nil _
  · exact atMost_one _ _
theorem mSigEntry_atMost (c : CommandStep) : AtMost "signature" (mSigEntry c) := by
  unfold mSigEntry; split
  · exact atMost_nil _
  · exact atMost_one _ _
theorem mMatrixEntry_atMost (c : CommandStep) : AtMost "matrix" (mMatrixEntry c) := by
  unfold mMatrixEntry; split
  · exact atMost_nil _
  · exact atMost_one _ _
theorem mCacheEntry_atMost (c : CommandStep) : AtMost "cache" (mCacheEntry c) := by
  unfold mCacheEntry; split
  · exact atMost_nil _
  · exact atMost_one _ _
theorem yMatrixEntry_atMost {c : CommandStep} {mv : List (String × Val)} (h : yMatrixEntry c = .ok mv) :
    AtMost "matrix" mv := by
  unfold yMatrixEntry at h
  split at h
  · simp only [Except.ok.injEq] at h
    subst h; exact atMost_nil _
  · rw [map_ok_iff] at h
    obtain ⟨v, _, rfl⟩ := h
    exact atMost_one _ _
theorem yCacheEntry_atMost {c : CommandStep} {cv : List (String × Val)} (h : yCacheEntry c = .ok cv) :
    AtMost "cache" cv := by
  unfold yCacheEntry at h
  split at h
  · simp only [Except.ok.injEq] at h
    subst h; exact atMost_nil _
  · rw [map_ok_iff] at h
    obtain ⟨v, _, rfl⟩ := h
    exact atMost_one _ _

theorem lookup_none_of_atMost {k0 : String} {l : List (String × Val)} (h : AtMost k0 l) {k : String}
    (hk : k ≠ k0) : l.lookup k = none :=
  lookup_none_of_not_mem (fun hm => hk (by simpa using h.subset hm))

/-- The keys of the outline, in declaration order. -/
theorem cmdOutlineG_keys_sublist (c : CommandStep) {sg mv cv : List (String × Val)}
    (h1 : AtMost "signature" sg) (h2 : AtMost "matrix" mv) (h3 : AtMost "cache" cv) :
    List.Sublist ((cmdOutlineG c sg mv cv).map (·.1))
      ["key", "label", "command", "plugins", "env", "signature", "matrix", "cache"] := by
  have e : ["key", "label", "command", "plugins", "env", "signature", "matrix", "cache"] =
      ["key"] ++ ["label"] ++ ["command"] ++ ["plugins"] ++ ["env"] ++ ["signature"] ++ ["matrix"] ++ ["cache"] := rfl
  rw [e]
  unfold cmdOutlineG
  simp only [List.map_append]
  refine List.Sublist.append (List.Sublist.append (List.Sublist.append (List.Sublist.append (List.Sublist.append
    (List.Sublist.append (List.Sublist.append ?_ ?_) ?_) ?_) ?_) h1) h2) h3
  · split <;> simp
  · split <;> simp
  · simp
  · split <;> simp
  · split <;> simp

theorem cmdOutlineG_nodup (c : CommandStep) {sg mv cv : List (String × Val)}
    (h1 : AtMost "signature" sg) (h2 : AtMost "matrix" mv) (h3 : AtMost "cache" cv) :
    ((cmdOutlineG c sg mv cv).map (·.1)).Nodup :=
  List.Nodup.sublist (cmdOutlineG_keys_sublist c h1 h2 h3) (by decide)

theorem cmdOutlineG_declared (c : CommandStep) {sg mv cv : List (String × Val)}
    (h1 : AtMost "signature" sg) (h2 : AtMost "matrix" mv) (h3 : AtMost "cache" cv) :
    ∀ k ∈ (cmdOutlineG c sg mv cv).map (·.1), k ∈ declaredKeys csD := by
  intro k hk
  rw [declaredKeys_cs]
  exact (cmdOutlineG_keys_sublist c h1 h2 h3).subset hk

/-- What every declared key of a command step reads in the outline. -/
theorem cmdOutlineG_lookups (c : CommandStep) {sg mv cv : List (String × Val)}
    (h1 : AtMost "signature" sg) (h2 : AtMost "matrix" mv) (h3 : AtMost "cache" cv) :
    (cmdOutlineG c sg mv cv).lookup "key" = (if c.key = "" then none else some (.str c.key)) ∧
    (cmdOutlineG c sg mv cv).lookup "label" = (if c.label = "" then none else some (.str c.label)) ∧
    (cmdOutlineG c sg mv cv).lookup "command" = some (.str c.command) ∧
    (cmdOutlineG c sg mv cv).lookup "plugins" =
      (if (c.plugins.getD []).isEmpty then none else some (mPlugins (c.plugins.getD []))) ∧
    (cmdOutlineG c sg mv cv).lookup "env" = (if lenUMap c.env = 0 then none else some (envV c.env)) ∧
    (cmdOutlineG c sg mv cv).lookup "signature" = sg.lookup "signature" ∧
    (cmdOutlineG c sg mv cv).lookup "matrix" = mv.lookup "matrix" ∧
    (cmdOutlineG c sg mv cv).lookup "cache" = cv.lookup "cache" := by
  have s1 : ∀ k, k ≠ "signature" → sg.lookup k = none := fun k hk => lookup_none_of_atMost h1 hk
  have s2 : ∀ k, k ≠ "matrix" → mv.lookup k = none := fun k hk => lookup_none_of_atMost h2 hk
  have s3 : ∀ k, k ≠ "cache" → cv.lookup k = none := fun k hk => lookup_none_of_atMost h3 hk
  unfold cmdOutlineG
  simp only [List.lookup_append]
  refine ⟨?_, ?_, ?_, ?_, ?_, ?_, ?_, ?_⟩
  · by_cases a : c.key = "" <;> simp [a, s1, s2, s3, List.lookup]
  · by_cases a : c.key = "" <;> by_cases b : c.label = "" <;> simp [a, b, s1, s2, s3, List.lookup]
  · by_cases a : c.key = "" <;> by_cases b : c.label = "" <;> simp [a, b, s1, s2, s3, List.lookup]
  · by_cases a : c.key = "" <;> by_cases b : c.label = "" <;> by_cases d : (c.plugins.getD []).isEmpty = true <;>
      simp [a, b, d, s1, s2, s3, List.lookup]
  · by_cases a : c.key = "" <;> by_cases b : c.label = "" <;> by_cases d : (c.plugins.getD []).isEmpty = true <;>
      by_cases e : lenUMap c.env = 0 <;> simp [a, b, d, e, s1, s2, s3, List.lookup]
  · by_cases a : c.key = "" <;> by_cases b : c.label = "" <;> by_cases d : (c.plugins.getD []).isEmpty = true <;>
      by_cases e : lenUMap c.env = 0 <;> simp [a, b, d, e, s2, s3, List.lookup]
  · by_cases a : c.key = "" <;> by_cases b : c.label = "" <;> by_cases d : (c.plugins.getD []).isEmpty = true <;>
      by_cases e : lenUMap c.env = 0 <;> simp [a, b, d, e, s1, s3, List.lookup]
  · by_cases a : c.key = "" <;> by_cases b : c.label = "" <;> by_cases d : (c.plugins.getD []).isEmpty = true <;>
      by_cases e : lenUMap c.env = 0 <;> simp [a, b, d, e, s1, s2, List.lookup]

/-! ## Where the legs agree and where they do not: adjustments, matrix, cache, signature -/

/-- No adjustment of the matrix carries a `skip` that `encoding/json`-style `omitempty` would drop
    (finding F11; `Roundtrip.emptyishSkip`). -/
def NoEmptyishSkip (mx : Matrix) : Prop :=
  ∀ l, mx.adjustments = some l → ∀ a, some a ∈ l → emptyishSkip a.skip = false

/-- A cache that is only disabled: `(*Cache).MarshalJSON` writes `false` for it. -/
def disabledOnly (k : Cache) : Bool :=
  k.disabled && k.name == "" && (k.paths.getD []).isEmpty && k.size == "" && (k.rem.getD []).isEmpty

/-- The three places where the two legs write different values for a parsed command step. -/
def SameLegs (c : CommandStep) : Prop :=
  (∀ mx, c.matrix = some mx → NoEmptyishSkip mx) ∧
  (∀ k, c.cache = some k → disabledOnly k = false) ∧
  (∀ s, c.signature = some s → s.signedFields ≠ none)

theorem noEmptyishSkip_of_stable {mx : Matrix} (h : StableMatrix mx) : NoEmptyishSkip mx :=
  fun l hl a ha => (h.1 l hl a ha).1

/-- Off the empty-ish values the two `omitempty` tests agree. -/
theorem isEmptyAny_eq_yIsZeroAny {v : Val} (h : emptyishSkip v = false) : isEmptyAny v = yIsZeroAny v := by
  cases v <;> simp_all [emptyishSkip, yIsZeroAny, isEmptyAny]

/-- On the empty-ish values they do not. -/
theorem isEmptyAny_ne_yIsZeroAny {v : Val} (h : emptyishSkip v = true) : isEmptyAny v = true ∧ yIsZeroAny v = false := by
  cases v <;> simp_all [emptyishSkip, yIsZeroAny, isEmptyAny]

theorem adjOutline_declared (w s : Val) (b : Bool) :
    ∀ k ∈ ([("with", w)] ++ (if b then [] else [("skip", s)])).map (·.1), k ∈ declaredKeys adjD := by
  intro k hk
  rw [declaredKeys_adj]
  cases b <;> simp at hk <;> simp [hk]

theorem yAdjustment_eq (a : Adjustment) (hf : Free adjD a.rem) (hs : emptyishSkip a.skip = false) :
    yAdjustment a = .ok (mAdjustment a) := by
  unfold yAdjustment mAdjustment
  rw [isEmptyAny_eq_yIsZeroAny hs]
  exact yStruct_eq_json hf (adjOutline_declared _ _ _)

/-- Every adjustment's inline map is free of declared keys. -/
def AdjFree (l : List (Option Adjustment)) : Prop := ∀ a, some a ∈ l → Free adjD a.rem

theorem yAdjustments_eq : (l : List (Option Adjustment)) → AdjFree l →
    (∀ a, some a ∈ l → emptyishSkip a.skip = false) →
    yAdjustments l = .ok (l.map fun | none => .null | some a => mAdjustment a)
  | [], _, _ => rfl
  | none :: r, hf, hs => by
    have ih := yAdjustments_eq r (fun a ha => hf a (List.mem_cons_of_mem _ ha)) (fun a ha => hs a (List.mem_cons_of_mem _ ha))
    simp only [yAdjustments, ih, Except.map, List.map_cons]
  | some a :: r, hf, hs => by
    have ih := yAdjustments_eq r (fun a ha => hf a (List.mem_cons_of_mem _ ha)) (fun a ha => hs a (List.mem_cons_of_mem _ ha))
    simp only [yAdjustments, yAdjustment_eq a (hf a List.mem_cons_self) (hs a List.mem_cons_self), ih, Except.map,
      List.map_cons]

theorem mxOutline_declared (s a : Val) (b : Bool) :
    ∀ k ∈ ([("setup", s)] ++ (if b then [] else [("adjustments", a)])).map (·.1), k ∈ declaredKeys mxD := by
  intro k hk
  rw [declaredKeys_mx]
  cases b <;> simp at hk <;> simp [hk]

theorem yMatrix_eq (mx : Matrix) (hf : Free mxD mx.rem) (haf : ∀ l, mx.adjustments = some l → AdjFree l)
    (hs : NoEmptyishSkip mx) : yMatrix mx = .ok (mMatrix mx) := by
  unfold yMatrix mMatrix
  split
  · rfl
  · have ha : yAdjustments (mx.adjustments.getD []) =
        .ok ((mx.adjustments.getD []).map fun | none => .null | some a => mAdjustment a) := by
      cases hx : mx.adjustments with
      | none => rfl
      | some l => exact yAdjustments_eq l (haf l hx) (hs l hx)
    simp only [ha]
    exact yStruct_eq_json hf (mxOutline_declared _ _ _)

theorem cacheOutline_declared (k : Cache) :
    ∀ x ∈ (((if k.disabled then [("disabled", .bool true)] else []) ++
        (if k.name == "" then [] else [("name", .str k.name)]) ++
        (if (k.paths.getD []).isEmpty then [] else [("paths", strsV (k.paths.getD []))]) ++
        (if k.size == "" then [] else [("size", .str k.size)]) : List (String × Val))).map (·.1),
      x ∈ declaredKeys cacheD := by
  intro x hx
  rw [declaredKeys_cache]
  simp only [List.map_append, List.mem_append] at hx
  rcases hx with ((hx | hx) | hx) | hx <;> split at hx <;> simp at hx <;> simp [hx]

theorem yCache_eq (k : Cache) (hf : Free cacheD k.rem) (hd : disabledOnly k = false) : yCache k = .ok (mCache k) := by
  unfold yCache mCache
  unfold disabledOnly at hd
  simp only [hd, Bool.false_eq_true, if_false]
  exact yStruct_eq_json hf (cacheOutline_declared k)

/-- The cache that is only disabled: `{disabled: true}` on the YAML leg, `false` on the JSON leg. -/
theorem cache_disabled_only (k : Cache) (hd : disabledOnly k = true) :
    yCache k = .ok (.umap [("disabled", .bool true)]) ∧ mCache k = .bool false := by
  unfold disabledOnly at hd
  simp only [Bool.and_eq_true, beq_iff_eq, List.isEmpty_iff] at hd
  obtain ⟨⟨⟨⟨h1, h2⟩, h3⟩, h4⟩, h5⟩ := hd
  constructor
  · unfold yCache
    simp [h1, h2, h3, h4, yStruct, h5, Marshal.umapOf, Marshal.umapInsert]
  · unfold mCache
    simp [h1, h2, h3, h4, h5]

theorem ySignature_eq (s : Signature) (h : s.signedFields ≠ none) : ySignature s = mSignature s := by
  unfold ySignature mSignature
  cases hs : s.signedFields with
  | none => exact absurd hs h
  | some l => rfl

/-- A signature with nil `signed_fields`: `[]` on the YAML leg, `null` on the JSON leg. -/
theorem signature_nil_fields (s : Signature) (h : s.signedFields = none) :
    ySignature s = .umap [("algorithm", .str s.algorithm), ("signed_fields", .seq []), ("value", .str s.value)] ∧
    mSignature s = .umap [("algorithm", .str s.algorithm), ("signed_fields", .null), ("value", .str s.value)] := by
  unfold ySignature mSignature
  rw [h]
  exact ⟨rfl, rfl⟩

/-- An adjustment on the YAML leg: `with` in its canonical shape, `skip` kept unless nil. -/
theorem adjustment_fields_yaml (a : Adjustment) (j : Val) (h : yAdjustment a = .ok j) :
    ∃ kvs, j = .umap kvs ∧ kvs.lookup "with" = some (mWith a.with_) ∧
      kvs.lookup "skip" = (match a.skip with | .null => none | v => some v) := by
  unfold yAdjustment at h
  obtain ⟨hf, rfl⟩ := yStruct_inv h
  refine ⟨_, rfl, ?_, ?_⟩
  · rw [lookup_struct_declared hf (by cases a.skip <;> simp [yIsZeroAny]) (by rw [declaredKeys_adj]; simp)]
    simp
  · rw [lookup_struct_declared hf (by cases a.skip <;> simp [yIsZeroAny]) (by rw [declaredKeys_adj]; simp)]
    cases a.skip <;> simp [yIsZeroAny, List.lookup]

/-- The JSON leg drops an empty-ish `skip` (finding F11), the YAML leg keeps it. -/
theorem adjustment_skip_legs_differ (a : Adjustment) (hf : Free adjD a.rem) (hs : emptyishSkip a.skip = true) :
    ∃ kj ky, mAdjustment a = .umap kj ∧ yAdjustment a = .ok (.umap ky) ∧
      kj.lookup "skip" = none ∧ ky.lookup "skip" = some a.skip := by
  obtain ⟨h1, h2⟩ := isEmptyAny_ne_yIsZeroAny hs
  have e1 : ∃ kj, mAdjustment a = .umap kj ∧ kj.lookup "skip" = none := by
    unfold mAdjustment
    rw [h1, inlineFriendly_of_free hf (adjOutline_declared _ _ true)]
    refine ⟨_, rfl, ?_⟩
    · rw [lookup_struct_declared hf (by simp) (by rw [declaredKeys_adj]; simp)]
      simp [List.lookup]
  have e2 : ∃ ky, yAdjustment a = .ok (.umap ky) ∧ ky.lookup "skip" = some a.skip := by
    unfold yAdjustment
    rw [h2, yStruct_of_free _ hf]
    refine ⟨_, rfl, ?_⟩
    · rw [lookup_struct_declared hf (by simp) (by rw [declaredKeys_adj]; simp)]
      simp [List.lookup]
  obtain ⟨kj, a1, a2⟩ := e1
  obtain ⟨ky, b1, b2⟩ := e2
  exact ⟨kj, ky, a1, b1, a2, b2⟩

/-! ## What the parser guarantees -/

theorem adjustmentsElems_free : (xs : List Val) → (l : List (Option Adjustment)) →
    adjustmentsElems xs = .ok l → AdjFree l
  | [], l, h => by
    simp only [adjustmentsElems, Except.ok.injEq] at h
    subst h
    intro a ha
    simp at ha
  | .null :: r, l, h => by
    rw [adjustmentsElems, map_ok_iff] at h
    obtain ⟨l', hr, rfl⟩ := h
    intro a ha
    rcases List.mem_cons.1 ha with ha | ha
    · cases ha
    · exact adjustmentsElems_free r l' hr a ha
  | .omap m :: r, l, h => by
    rw [adjustmentsElems] at h
    split at h
    · cases h
    · rename_i a0 hpa
      rw [map_ok_iff] at h
      obtain ⟨l', hr, rfl⟩ := h
      intro a ha
      rcases List.mem_cons.1 ha with ha | ha
      · simp only [Option.some.injEq] at ha
        subst ha
        rw [parseAdjustment_rem hpa]
        exact free_remMap _ _
      · exact adjustmentsElems_free r l' hr a ha
  | .bool _ :: _, _, h | .int _ :: _, _, h | .float _ :: _, _, h | .time _ :: _, _, h | .str _ :: _, _, h
  | .seq _ :: _, _, h | .umap _ :: _, _, h => by
    simp [adjustmentsElems] at h

/-- A parsed matrix: neither its inline map nor that of any adjustment holds a declared key. -/
theorem parseMatrix_free {v : Val} {mx : Matrix} (h : parseMatrix v = .ok (some mx)) :
    Free mxD mx.rem ∧ ∀ l, mx.adjustments = some l → AdjFree l := by
  cases v with
  | seq xs =>
    rw [parseMatrix, map_ok_iff] at h
    obtain ⟨l, _, hx⟩ := h
    simp only [Option.some.injEq] at hx
    subst hx
    exact ⟨free_none _, by intro l hl; cases hl⟩
  | omap m =>
    rw [parseMatrix] at h
    split at h
    · cases h
    · split at h
      · cases h
      · rename_i adjs hadjs
        simp only [Except.ok.injEq, Option.some.injEq] at h
        subst h
        refine ⟨free_remMap _ _, ?_⟩
        intro l hl
        simp only at hl
        subst hl
        split at hadjs
        · cases hadjs
        · rename_i w _
          cases w with
          | seq xs =>
            rw [parseAdjustments, map_ok_iff] at hadjs
            obtain ⟨l', hl', hx⟩ := hadjs
            simp only [Option.some.injEq] at hx
            subst hx
            exact adjustmentsElems_free xs _ hl'
          | null | bool _ | int _ | float _ | time _ | str _ | omap _ | umap _ => simp [parseAdjustments] at hadjs
  | null | bool _ | int _ | float _ | time _ | str _ | umap _ => simp [parseMatrix] at h

/-- Everything the legs' comparison needs from a successful `parseCommand`. -/
theorem parseCommand_free {m : Entries} {c : CommandStep} (h : parseCommand m = .ok c) :
    Free csD c.rem ∧
    (∀ mx, c.matrix = some mx → Free mxD mx.rem ∧ ∀ l, mx.adjustments = some l → AdjFree l) ∧
    (∀ k, c.cache = some k → Free cacheD k.rem) := by
  obtain ⟨hmx, hca, hrem⟩ := parseCommand_ok_mx h
  refine ⟨by rw [hrem]; exact free_remMap _ _, ?_, ?_⟩
  · intro mx hx
    rw [hx] at hmx
    obtain ⟨v, hv⟩ := optField_some_inv hmx
    exact parseMatrix_free hv
  · intro k hx
    rw [hx] at hca
    obtain ⟨v, hv⟩ := optField_some_inv hca
    exact parseCache_free hv

/-! ## The two legs of a command step -/

/-- The model-level statement: inline maps free of declared keys and the three side conditions. -/
theorem yCommand_eq_json (c : CommandStep) (hf : Free csD c.rem)
    (hmx : ∀ mx, c.matrix = some mx → Free mxD mx.rem ∧ ∀ l, mx.adjustments = some l → AdjFree l)
    (hca : ∀ k, c.cache = some k → Free cacheD k.rem) (hs : SameLegs c) :
    yCommand c = .ok (mCommand c) := by
  obtain ⟨hs1, hs2, hs3⟩ := hs
  have h1 : yMatrixEntry c = .ok (mMatrixEntry c) := by
    unfold yMatrixEntry mMatrixEntry
    cases hx : c.matrix with
    | none => rfl
    | some mx =>
      simp only [yMatrix_eq mx (hmx mx hx).1 (hmx mx hx).2 (hs1 mx hx), Except.map]
  have h2 : yCacheEntry c = .ok (mCacheEntry c) := by
    unfold yCacheEntry mCacheEntry
    cases hx : c.cache with
    | none => rfl
    | some k =>
      simp only [yCache_eq k (hca k hx) (hs2 k hx), Except.map]
  have h3 : ySigEntry c = mSigEntry c := by
    unfold ySigEntry mSigEntry
    cases hx : c.signature with
    | none => rfl
    | some s => simp only [ySignature_eq s (hs3 s hx)]
  rw [yCommand_of h1 h2, yCmdOutline_eq, h3, mCommand_eq]
  exact yStruct_eq_json hf
    (cmdOutlineG_declared c (mSigEntry_atMost c) (mMatrixEntry_atMost c) (mCacheEntry_atMost c))

/-- For a parsed command step, outside the three listed differences, `yaml.Marshal` and `json.Marshal` are
    handed the identical value tree. -/
theorem legs_same_normal_form_command (m : Entries) (c : CommandStep) (h : parseCommand m = .ok c)
    (hs : SameLegs c) : yCommand c = .ok (mCommand c) := by
  obtain ⟨hf, hmx, hca⟩ := parseCommand_free h
  exact yCommand_eq_json c hf hmx hca hs

/-- Every declared key of the YAML value tree of a command step. -/
theorem yCommand_fields (c : CommandStep) (j : Val) (h : yCommand c = .ok j) :
    ∃ kvs mv cv, j = .umap kvs ∧ yMatrixEntry c = .ok mv ∧ yCacheEntry c = .ok cv ∧
      kvs.lookup "key" = (if c.key = "" then none else some (.str c.key)) ∧
      kvs.lookup "label" = (if c.label = "" then none else some (.str c.label)) ∧
      kvs.lookup "command" = some (.str c.command) ∧
      kvs.lookup "plugins" =
        (if (c.plugins.getD []).isEmpty then none else some (mPlugins (c.plugins.getD []))) ∧
      kvs.lookup "env" = (if lenUMap c.env = 0 then none else some (envV c.env)) ∧
      kvs.lookup "signature" = c.signature.map ySignature ∧
      kvs.lookup "matrix" = mv.lookup "matrix" ∧
      kvs.lookup "cache" = cv.lookup "cache" := by
  obtain ⟨mv, cv, hmv, hcv, hst⟩ := yCommand_inv h
  obtain ⟨hf, rfl⟩ := yStruct_inv hst
  rw [yCmdOutline_eq]
  have a1 := ySigEntry_atMost c
  have a2 := yMatrixEntry_atMost hmv
  have a3 := yCacheEntry_atMost hcv
  have hnd := cmdOutlineG_nodup c a1 a2 a3
  obtain ⟨l1, l2, l3, l4, l5, l6, l7, l8⟩ := cmdOutlineG_lookups c a1 a2 a3
  have hsig : (ySigEntry c).lookup "signature" = c.signature.map ySignature := by
    unfold ySigEntry
    cases c.signature <;> simp [List.lookup]
  refine ⟨_, mv, cv, rfl, hmv, hcv, ?_, ?_, ?_, ?_, ?_, ?_, ?_, ?_⟩
  · rw [lookup_struct_declared hf hnd (by rw [declaredKeys_cs]; simp), l1]
  · rw [lookup_struct_declared hf hnd (by rw [declaredKeys_cs]; simp), l2]
  · rw [lookup_struct_declared hf hnd (by rw [declaredKeys_cs]; simp), l3]
  · rw [lookup_struct_declared hf hnd (by rw [declaredKeys_cs]; simp), l4]
  · rw [lookup_struct_declared hf hnd (by rw [declaredKeys_cs]; simp), l5]
  · rw [lookup_struct_declared hf hnd (by rw [declaredKeys_cs]; simp), l6, hsig]
  · rw [lookup_struct_declared hf hnd (by rw [declaredKeys_cs]; simp), l7]
  · rw [lookup_struct_declared hf hnd (by rw [declaredKeys_cs]; simp), l8]

/-- The same keys on the JSON leg, for a step whose inline map holds no declared key (parsed input). -/
theorem mCommand_fields (c : CommandStep) (hf : Free csD c.rem) :
    ∃ kvs, mCommand c = .umap kvs ∧
      kvs.lookup "key" = (if c.key = "" then none else some (.str c.key)) ∧
      kvs.lookup "label" = (if c.label = "" then none else some (.str c.label)) ∧
      kvs.lookup "command" = some (.str c.command) ∧
      kvs.lookup "plugins" =
        (if (c.plugins.getD []).isEmpty then none else some (mPlugins (c.plugins.getD []))) ∧
      kvs.lookup "env" = (if lenUMap c.env = 0 then none else some (envV c.env)) := by
  have a1 := mSigEntry_atMost c
  have a2 := mMatrixEntry_atMost c
  have a3 := mCacheEntry_atMost c
  have hnd := cmdOutlineG_nodup c a1 a2 a3
  obtain ⟨l1, l2, l3, l4, l5, _, _, _⟩ := cmdOutlineG_lookups c a1 a2 a3
  refine ⟨_, by rw [mCommand_eq, inlineFriendly_of_free hf (cmdOutlineG_declared c a1 a2 a3)], ?_, ?_, ?_, ?_, ?_⟩
  · rw [lookup_struct_declared hf hnd (by rw [declaredKeys_cs]; simp), l1]
  · rw [lookup_struct_declared hf hnd (by rw [declaredKeys_cs]; simp), l2]
  · rw [lookup_struct_declared hf hnd (by rw [declaredKeys_cs]; simp), l3]
  · rw [lookup_struct_declared hf hnd (by rw [declaredKeys_cs]; simp), l4]
  · rw [lookup_struct_declared hf hnd (by rw [declaredKeys_cs]; simp), l5]

/-! ## The C03 statements on the YAML value tree: command steps -/

/-- A parsed command step has a YAML value tree, and it is a Go map. -/
theorem yCommand_parsed (m : Entries) (c : CommandStep) (h : parseCommand m = .ok c) :
    ∃ kvs, yCommand c = .ok (.umap kvs) := by
  obtain ⟨j, hj⟩ := yCommand_total_of_parse m c h
  obtain ⟨kvs, _, _, rfl, _⟩ := yCommand_fields c j hj
  exact ⟨kvs, hj⟩

theorem command_join_yaml (m : Entries) (c : CommandStep) (h : parseCommand m = .ok c) (v : Val)
    (hv : m.lookup "commands" = some v ∨ (m.lookup "commands" = none ∧ m.lookup "command" = some v)) :
    ∃ l kvs, strsOf v = .ok l ∧ yCommand c = .ok (.umap kvs) ∧
      kvs.lookup "command" = some (.str (joinLines (l.getD []))) := by
  obtain ⟨l, hl, hc⟩ := command_join m c h v hv
  obtain ⟨j, hj⟩ := yCommand_total_of_parse m c h
  obtain ⟨kvs, _, _, rfl, _, _, _, _, h3, _⟩ := yCommand_fields c j hj
  exact ⟨l, kvs, hl, hj, by rw [h3, hc]⟩

theorem no_command_key_yaml (m : Entries) (c : CommandStep) (h : parseCommand m = .ok c)
    (h1 : m.lookup "commands" = none) (h2 : m.lookup "command" = none) :
    ∃ kvs, yCommand c = .ok (.umap kvs) ∧ kvs.lookup "command" = some (.str "") := by
  have hc := no_command_key m c h h1 h2
  obtain ⟨j, hj⟩ := yCommand_total_of_parse m c h
  obtain ⟨kvs, _, _, rfl, _, _, _, _, h3, _⟩ := yCommand_fields c j hj
  exact ⟨kvs, hj, by rw [h3, hc]⟩

theorem label_from_name_yaml (m : Entries) (c : CommandStep) (h : parseCommand m = .ok c) (v : Val)
    (hl : m.lookup "label" = none) (hn : m.lookup "name" = some v) :
    ∃ s kvs, strOf v = .ok s ∧ yCommand c = .ok (.umap kvs) ∧
      kvs.lookup "label" = (if s = "" then none else some (.str s)) := by
  have hc := label_from_name m c h v hl hn
  obtain ⟨j, hj⟩ := yCommand_total_of_parse m c h
  obtain ⟨kvs, _, _, rfl, _, _, _, h2, _⟩ := yCommand_fields c j hj
  exact ⟨c.label, kvs, hc, hj, h2⟩

theorem label_primary_yaml (m : Entries) (c : CommandStep) (h : parseCommand m = .ok c) (v : Val)
    (hl : m.lookup "label" = some v) (hm : (keysOf m).Nodup) :
    ∃ s kvs, strOf v = .ok s ∧ yCommand c = .ok (.umap kvs) ∧
      kvs.lookup "label" = (if s = "" then none else some (.str s)) ∧
      kvs.lookup "name" = m.lookup "name" := by
  obtain ⟨hc, hname⟩ := label_primary m c h v hl hm
  obtain ⟨_, _, _, _, _, hrem⟩ := parseCommand_ok h
  obtain ⟨j, hj⟩ := yCommand_total_of_parse m c h
  obtain ⟨mv, cv, hmv, hcv, hst⟩ := yCommand_inv hj
  obtain ⟨kvs, _, _, rfl, _, _, _, h2, _⟩ := yCommand_fields c j hj
  refine ⟨c.label, kvs, hc, hj, h2, ?_⟩
  obtain ⟨_, hj'⟩ := yStruct_inv hst
  simp only [Val.umap.injEq] at hj'
  rw [hj', ← hname]
  apply lookup_struct_inline (by rw [hrem]; exact nodup_keys_remMap _)
  intro hx
  have := yCmdOutline_keys (yMatrixEntry_keys hmv) (yCacheEntry_keys hcv) _ hx
  simp at this

theorem key_from_aliases_yaml (m : Entries) (c : CommandStep) (h : parseCommand m = .ok c)
    (hk : m.lookup "key" = none) :
    ∃ s kvs, yCommand c = .ok (.umap kvs) ∧ kvs.lookup "key" = (if s = "" then none else some (.str s)) ∧
      (∀ v, m.lookup "id" = some v → strOf v = .ok s) ∧
      (∀ v, m.lookup "id" = none → m.lookup "identifier" = some v → strOf v = .ok s) ∧
      (m.lookup "id" = none → m.lookup "identifier" = none → s = "") := by
  obtain ⟨a1, a2, a3⟩ := key_from_aliases m c h hk
  obtain ⟨j, hj⟩ := yCommand_total_of_parse m c h
  obtain ⟨kvs, _, _, rfl, _, _, h1, _⟩ := yCommand_fields c j hj
  exact ⟨c.key, kvs, hj, h1, a1, a2, a3⟩

theorem command_other_keys_preserved_yaml' (m : Entries) (c : CommandStep) (h : parseCommand m = .ok c)
    (hm : (keysOf m).Nodup) (k : String) (hk : k ∉ commandKeys) :
    ∃ kvs, yCommand c = .ok (.umap kvs) ∧ kvs.lookup k = m.lookup k ∧ (kvs.map (·.1)).Nodup := by
  obtain ⟨j, hj⟩ := yCommand_total_of_parse m c h
  obtain ⟨kvs, rfl, h2, h3⟩ := command_other_keys_preserved_yaml m c j h hj hm k hk
  exact ⟨kvs, hj, h2, h3⟩

/-- The scalar fields and the plugin / env values are the same on both legs, with no side condition. -/
theorem legs_same_simple_fields (m : Entries) (c : CommandStep) (h : parseCommand m = .ok c) (k : String)
    (hk : k ∈ ["key", "label", "command", "plugins", "env"]) :
    ∃ kj ky, mCommand c = .umap kj ∧ yCommand c = .ok (.umap ky) ∧ kj.lookup k = ky.lookup k := by
  obtain ⟨hf, _, _⟩ := parseCommand_free h
  obtain ⟨kj, hkj, j1, j2, j3, j4, j5⟩ := mCommand_fields c hf
  obtain ⟨j, hj⟩ := yCommand_total_of_parse m c h
  obtain ⟨ky, _, _, rfl, _, _, y1, y2, y3, y4, y5, _⟩ := yCommand_fields c j hj
  refine ⟨kj, ky, hkj, hj, ?_⟩
  simp only [List.mem_cons, List.not_mem_nil, or_false] at hk
  rcases hk with rfl | rfl | rfl | rfl | rfl
  · rw [j1, y1]
  · rw [j2, y2]
  · rw [j3, y3]
  · rw [j4, y4]
  · rw [j5, y5]

/-! ## Plugins and step env -/

theorem fieldOf_plugins (r : Entries) : fieldOf (taken r csD) "Plugins" = r.lookup "plugins" := by
  unfold Gen.struct_CommandStep
  rw [fieldOf_taken_cons_ne (by simp [Field.name]), fieldOf_taken_cons_ne (by simp [Field.name]),
    fieldOf_taken_cons_ne (by simp [Field.name]),
    fieldOf_taken_cons_eq (n := "Plugins") rfl rfl (by simp [Field.name])]
  simp only [fieldTake, firstAlias, Field.key, Field.aliases]
  cases r.lookup "plugins" <;> simp

theorem fieldOf_env (r : Entries) : fieldOf (taken r csD) "Env" = r.lookup "env" := by
  unfold Gen.struct_CommandStep
  rw [fieldOf_taken_cons_ne (by simp [Field.name]), fieldOf_taken_cons_ne (by simp [Field.name]),
    fieldOf_taken_cons_ne (by simp [Field.name]), fieldOf_taken_cons_ne (by simp [Field.name]),
    fieldOf_taken_cons_eq (n := "Env") rfl rfl (by simp [Field.name])]
  simp only [fieldTake, firstAlias, Field.key, Field.aliases]
  cases r.lookup "env" <;> simp

/-- Inversion of a successful `parseCommand`: plugins, env, signature. -/
theorem parseCommand_ok_pes {m : Entries} {c : CommandStep} (h : parseCommand m = .ok c) :
    optField (taken (remainder m outerD) csD) "Plugins" none parsePlugins = .ok c.plugins ∧
    optField (taken (remainder m outerD) csD) "Env" none parseEnvMap = .ok c.env ∧
    optField (taken (remainder m outerD) csD) "Signature" none parseSignature = .ok c.signature := by
  unfold parseCommand at h
  simp only at h
  split at h
  · cases h
  · split at h
    · rename_i key label _ plugins env sig matrix cache _ _ _ hpl henv hsig _ _
      simp only [Except.ok.injEq] at h
      subst h
      exact ⟨hpl, henv, hsig⟩
    · cases h

theorem parsePlugins_ne_nil {v : Val} {l : List (Option Plugin)} (h : parsePlugins v = .ok (some l)) : l ≠ [] := by
  cases v <;> try (solve | simp [parsePlugins] at h)
  case seq xs =>
    simp only [parsePlugins, map_ok_iff] at h
    obtain ⟨l', _, h⟩ := h
    split at h
    · cases h
    · rename_i hne
      simp only [Option.some.injEq] at h
      subst h
      intro e; rw [e] at hne; simp at hne
  case omap kvs =>
    simp only [parsePlugins, Except.ok.injEq] at h
    split at h
    · cases h
    · rename_i hne
      simp only [Option.some.injEq] at h
      subst h
      intro e
      cases kvs with
      | nil => simp at hne
      | cons a t => simp [pluginsOfMap] at e

/-- The plugin list of a parsed command step, on both legs: the ordered list of single-entry objects keyed by
    canonical source, empty configs as null. -/
theorem plugins_normal_form_yaml (m : Entries) (c : CommandStep) (h : parseCommand m = .ok c) (v : Val)
    (l : List (Option Plugin)) (hv : m.lookup "plugins" = some v) (hl : parsePlugins v = .ok (some l)) :
    ∃ ky kj, yCommand c = .ok (.umap ky) ∧ mCommand c = .umap kj ∧
      ky.lookup "plugins" = some (.seq (l.map fun
        | some p => Val.umap [(fullSource p.source,
            match p.config with | .umap [] => Val.null | .seq [] => .null | c => c)]
        | none => .null)) ∧
      kj.lookup "plugins" = ky.lookup "plugins" ∧ ∀ p ∈ l, p ≠ none := by
  obtain ⟨hpl, _, _⟩ := parseCommand_ok_pes h
  have hf : fieldOf (taken (remainder m outerD) csD) "Plugins" = some v := by
    rw [fieldOf_plugins, lookup_rest (by simp), hv]
  rw [optField_some hf, hl] at hpl
  have hcp : c.plugins = some l := (Except.ok.inj hpl).symm
  obtain ⟨hnf, hnn⟩ := plugins_normal_form v l hl
  have hemp : ((c.plugins.getD []).isEmpty) = false := by
    rw [hcp]
    have := parsePlugins_ne_nil hl
    cases l with
    | nil => exact absurd rfl this
    | cons a t => rfl
  obtain ⟨hfree, _, _⟩ := parseCommand_free h
  obtain ⟨kj, hkj, _, _, _, j4, _⟩ := mCommand_fields c hfree
  obtain ⟨j, hj⟩ := yCommand_total_of_parse m c h
  obtain ⟨ky, _, _, rfl, _, _, _, _, _, y4, _⟩ := yCommand_fields c j hj
  refine ⟨ky, kj, hj, hkj, ?_, by rw [j4, y4], hnn⟩
  rw [y4, hemp, hcp]
  simp only [Bool.false_eq_true, if_false, Option.getD_some, hnf]
  rfl

theorem plugins_order_from_mapping_yaml (m : Entries) (c : CommandStep) (h : parseCommand m = .ok c)
    (kvs : List (String × Val)) (hv : m.lookup "plugins" = some (.omap kvs)) (hne : kvs ≠ []) :
    ∃ ky, yCommand c = .ok (.umap ky) ∧
      ky.lookup "plugins" = some (.seq (kvs.map fun (k, v) =>
        Val.umap [(fullSource k, match toMapRec v with | .umap [] => Val.null | .seq [] => .null | c => c)])) := by
  obtain ⟨ky, _, hy, _, hp, _, _⟩ := plugins_normal_form_yaml m c h _ _ hv (plugins_from_mapping kvs hne)
  refine ⟨ky, hy, ?_⟩
  rw [hp, List.map_map]
  rfl

theorem umapOf_eq_nil_iff {α : Type} (l : List (String × α)) : umapOf l = [] ↔ l = [] := by
  constructor
  · intro h
    cases l with
    | nil => rfl
    | cons a t => exact absurd h (umapOf_ne_nil (by simp))
  · intro h; subst h; rfl

/-- The env block of a parsed command step, on both legs: scalars become strings, the block is a Go map
    (sorted by key), and an empty block is omitted. -/
theorem step_env_yaml (m : Entries) (c : CommandStep) (h : parseCommand m = .ok c)
    (kvs : List (String × Val)) (hv : m.lookup "env" = some (.omap kvs)) :
    ∃ l ky kj, List.Forall₂ (fun kv e => e.1 = kv.1 ∧ strOf kv.2 = .ok e.2) kvs l ∧
      yCommand c = .ok (.umap ky) ∧ mCommand c = .umap kj ∧
      ky.lookup "env" = (if l = [] then none else some (.umap ((umapOf l).map fun (k, v) => (k, .str v)))) ∧
      kj.lookup "env" = ky.lookup "env" := by
  obtain ⟨_, henv, _⟩ := parseCommand_ok_pes h
  have hf : fieldOf (taken (remainder m outerD) csD) "Env" = some (.omap kvs) := by
    rw [fieldOf_env, lookup_rest (by simp), hv]
  rw [optField_some hf] at henv
  simp only [parseEnvMap, map_ok_iff] at henv
  obtain ⟨l, hl, hce⟩ := henv
  obtain ⟨hfree, _, _⟩ := parseCommand_free h
  obtain ⟨kj, hkj, _, _, _, _, j5⟩ := mCommand_fields c hfree
  obtain ⟨j, hj⟩ := yCommand_total_of_parse m c h
  obtain ⟨ky, _, _, rfl, _, _, _, _, _, _, y5, _⟩ := yCommand_fields c j hj
  refine ⟨l, ky, kj, ssElems_forall₂ kvs l hl, hj, hkj, ?_, by rw [j5, y5]⟩
  rw [y5, hce]
  by_cases e : l = []
  · subst e; rfl
  · have : (umapOf l).length ≠ 0 := fun hz => e ((umapOf_eq_nil_iff l).1 (List.length_eq_zero_iff.1 hz))
    simp [lenUMap, envV, this, e]

/-! ## Steps -/

theorem contents_steps_preserved_yaml (m : Entries) (hm : (keysOf m).Nodup) (hne : m ≠ []) (k : String) :
    (∃ kvs, yStep (.wait "" (some (umapOf m))) = .ok (.umap kvs) ∧ kvs.lookup k = m.lookup k) ∧
    (∃ kvs, yStep (.input "" (some (umapOf m))) = .ok (.umap kvs) ∧ kvs.lookup k = m.lookup k) ∧
    (∃ kvs, yStep (.trigger (some (umapOf m))) = .ok (.umap kvs) ∧ kvs.lookup k = m.lookup k) := by
  have hl : (umapOf m).length ≠ 0 := by
    intro e
    exact umapOf_ne_nil hne (List.length_eq_zero_iff.1 e)
  have hk := lookup_umapOf_nodup hm k
  refine ⟨⟨umapOf m, ?_, hk⟩, ⟨umapOf m, ?_, hk⟩, ⟨umapOf m, ?_, hk⟩⟩
  · simp [yStep_wait, lenUMap, hl, umapV]
  · simp [yStep_input, lenUMap, hl, umapV]
  · simp [yStep_trigger]

/-- Scalar-step shorthands and unknown steps are handed over verbatim, on both legs. -/
theorem scalar_and_unknown_verbatim_yaml (s : String) (v : Val) (hs : s ≠ "") :
    yStep (.wait s none) = .ok (.str s) ∧ yStep (.input s none) = .ok (.str s) ∧ yStep (.unknown v) = .ok v ∧
    mStep (.wait s none) = .ok (.str s) ∧ mStep (.input s none) = .ok (.str s) ∧ mStep (.unknown v) = .ok v := by
  simp [yStep_wait, yStep_input, yStep_unknown, mStep_wait, mStep_input, mStep_unknown, hs]

/-- Wait, input and unknown steps, and triggers with contents: the two legs write the same value (and fail
    together: the input step without prompt and contents). -/
theorem legs_same_simple_steps (s : String) (c : UMap Val) (kvs : List (String × Val)) (v j : Val) :
    (yStep (.wait s c) = .ok j ↔ mStep (.wait s c) = .ok j) ∧
    (yStep (.input s c) = .ok j ↔ mStep (.input s c) = .ok j) ∧
    (yStep (.trigger (some kvs)) = .ok j ↔ mStep (.trigger (some kvs)) = .ok j) ∧
    (yStep (.unknown v) = .ok j ↔ mStep (.unknown v) = .ok j) := by
  refine ⟨?_, ?_, ?_, ?_⟩
  · rw [yStep_wait, mStep_wait]
    simp
  · rw [yStep_input, mStep_input]
    by_cases h1 : s = "" <;> by_cases h2 : lenUMap c = 0 <;> simp [h1, h2]
  · rw [yStep_trigger, mStep_trigger]
    simp [umapV]
  · rw [yStep_unknown, mStep_unknown]
    simp

/-- A trigger step without contents: `{}` on the YAML leg, `null` on the JSON leg. (The parser never yields
    one: a trigger step written as a mapping has non-nil contents.) -/
theorem trigger_empty : yStep (.trigger none) = .ok (.umap []) ∧ mStep (.trigger none) = .ok .null := ⟨rfl, rfl⟩

/-- A group step with a nil step list: `steps: []` on the YAML leg. -/
theorem group_nil_steps_yaml (k : String) (g : Option String) (r : UMap Val) (j : Val)
    (h : yStep (.group k g none r) = .ok j) : ∃ kvs, j = .umap kvs ∧ kvs.lookup "steps" = some (.seq []) := by
  rw [yStep_group_none] at h
  obtain ⟨hf, rfl⟩ := yStruct_inv h
  refine ⟨_, rfl, ?_⟩
  rw [lookup_struct_declared hf (by by_cases e : k = "" <;> simp [e]) (by rw [declaredKeys_grp]; simp)]
  by_cases e : k = "" <;> simp [e, List.lookup]

/-! ## Pipeline -/

theorem bare_list_becomes_steps_yaml (xs : List Val) (p : Pipeline) (ws : List Warn) (j : Val)
    (h : parsePipeline (.seq xs) = .ok (p, ws)) (hj : yPipeline p = .ok j) :
    ∃ js, j = .umap [("steps", .seq js)] ∧ js.length = xs.length := by
  unfold parsePipeline at h
  simp only at h
  cases hp : parseSteps stepFuel xs with
  | error e => simp [hp] at h
  | ok r =>
    obtain ⟨ss, ws'⟩ := r
    simp only [hp, Except.ok.injEq, Prod.mk.injEq] at h
    obtain ⟨rfl, _⟩ := h
    unfold yPipeline at hj
    simp only at hj
    cases hm : ySteps ss with
    | error e => simp [hm] at hj
    | ok js =>
      simp only [hm] at hj
      refine ⟨js, ?_, ?_⟩
      · simp only [yStruct, Option.getD_none, List.find?_nil, List.nil_append, List.append_nil,
          Except.ok.injEq] at hj
        rw [← hj]
        simp [Marshal.umapOf, Marshal.umapInsert]
      · rw [ySteps_length ss js hm, parseSteps_length _ xs ss ws' hp]

/-- The parser never leaves the step list nil. -/
theorem parsePipeline_steps_some (v : Val) (p : Pipeline) (ws : List Warn) (h : parsePipeline v = .ok (p, ws)) :
    p.steps ≠ none := by
  unfold parsePipeline at h
  simp only at h
  split at h
  · split at h
    · cases h
    · rename_i steps _ _
      split at h
      · cases h
      · cases steps <;> (simp only [Except.ok.injEq, Prod.mk.injEq] at h; rw [← h.1]; simp)
  · split at h
    · cases h
    · simp only [Except.ok.injEq, Prod.mk.injEq] at h
      rw [← h.1]; simp
  · cases h

/-- A nil step list is written `steps: []` on the YAML leg (`null` on the JSON leg). -/
theorem nil_steps_yaml (p : Pipeline) (j : Val) (hs : p.steps = none) (h : yPipeline p = .ok j) :
    ∃ kvs, j = .umap kvs ∧ kvs.lookup "steps" = some (.seq []) := by
  unfold yPipeline at h
  rw [hs] at h
  simp only at h
  rcases hpe : p.env with _ | (_ | ⟨a, t⟩) <;> rw [hpe] at h <;> simp only at h <;>
    (obtain ⟨hf, rfl⟩ := yStruct_inv h
     refine ⟨_, rfl, ?_⟩
     rw [lookup_struct_declared hf (by simp) (by rw [declaredKeys_pipeline]; simp)]
     simp)

theorem nil_steps_json (p : Pipeline) (hs : p.steps = none) (hr : p.rem = none) :
    ∃ kvs, mPipeline p = .ok (.umap kvs) ∧ kvs.lookup "steps" = some .null := by
  unfold mPipeline
  rw [hs, hr]
  simp only [inlineFriendly, Option.getD_none, List.filter_nil, List.nil_append]
  refine ⟨_, rfl, ?_⟩
  cases p.env <;> simp [Marshal.umapOf, Marshal.umapInsert, List.lookup]

/-- The pipeline env block of a document on the YAML leg: scalars become strings, document order kept. -/
theorem env_scalars_become_strings_yaml (m : Entries) (kvs : List (String × Val)) (p : Pipeline) (ws : List Warn)
    (j : Val) (henv : m.lookup "env" = some (.omap kvs)) (hne : kvs ≠ [])
    (hp : parsePipeline (.omap m) = .ok (p, ws)) (hj : yPipeline p = .ok j) :
    ∃ l out, List.Forall₂ (fun kv e => e.1 = kv.1 ∧ strOf kv.2 = .ok e.2) kvs l ∧
      j = .umap out ∧ out.lookup "env" = some (.omap (l.map fun (k, v) => (k, .str v))) := by
  have hf : fieldOf (taken m pipeD) "Env" = some (.omap kvs) := by
    rw [fieldOf_pipeline_env, henv]
  have he := parsePipeline_env hp
  rw [optField_some hf] at he
  cases hpe : p.env with
  | none =>
    rw [hpe] at he
    simp only [parseEnvOrdered, map_ok_iff] at he
    obtain ⟨_, _, hx⟩ := he
    cases hx
  | some l =>
    rw [hpe] at he
    have hfa := env_scalars_strings kvs l he
    have hl : l ≠ [] := by
      intro hnil
      subst hnil
      cases hfa
      exact hne rfl
    obtain ⟨out, h1, h2⟩ := env_marshal_order_yaml p l j hpe hl hj
    exact ⟨l, out, hfa, h1, h2⟩

/-! ## Matrix and cache shapes -/

theorem matrix_list_shorthand_yaml (xs : List Val) (m : Matrix) (h : parseMatrix (.seq xs) = .ok (some m))
    (hne : xs ≠ []) : ∃ l, strsOfSeq xs = .ok l ∧ yMatrix m = .ok (strsV l) ∧ mMatrix m = strsV l := by
  simp only [parseMatrix, map_ok_iff, Option.some.injEq] at h
  obtain ⟨l, hl, rfl⟩ := h
  refine ⟨l, hl, ?_⟩
  have hlen := strsElems_length xs l hl
  cases l with
  | nil =>
    exfalso
    exact hne (List.length_eq_zero_iff.1 hlen.symm)
  | cons a t => simp [yMatrix, mMatrix, isSimple, lenUMap, mSetup]

/-- The matrix on the YAML leg: the simple matrix is its setup (`MatrixSetup.MarshalYAML`, the same value as
    on the JSON leg); otherwise a mapping whose `setup` is that same value and whose `adjustments`, when there
    are any, is the list of encoded adjustments. -/
theorem matrix_fields_yaml (mx : Matrix) (j : Val) (h : yMatrix mx = .ok j) :
    (isSimple mx = true → j = mSetup mx.setup ∧ mMatrix mx = mSetup mx.setup) ∧
    (isSimple mx = false → ∃ kvs avs, j = .umap kvs ∧ yAdjustments (mx.adjustments.getD []) = .ok avs ∧
      kvs.lookup "setup" = some (mSetup mx.setup) ∧
      kvs.lookup "adjustments" = (if (mx.adjustments.getD []).isEmpty then none else some (.seq avs))) := by
  unfold yMatrix at h
  constructor
  · intro hs
    rw [if_pos hs] at h
    exact ⟨(Except.ok.inj h).symm, by unfold mMatrix; rw [if_pos hs]⟩
  · intro hs
    rw [if_neg (by rw [hs]; simp)] at h
    simp only at h
    split at h
    · cases h
    · rename_i avs ha
      obtain ⟨hf, rfl⟩ := yStruct_inv h
      refine ⟨_, avs, rfl, ha, ?_, ?_⟩
      · rw [lookup_struct_declared hf (by split <;> simp) (by rw [declaredKeys_mx]; simp)]
        simp
      · rw [lookup_struct_declared hf (by split <;> simp) (by rw [declaredKeys_mx]; simp)]
        split <;> simp [List.lookup]

/-- `setup` of a matrix written as a mapping is the same value on the JSON leg. -/
theorem matrix_setup_json (mx : Matrix) (hf : Free mxD mx.rem) (hs : isSimple mx = false) :
    ∃ kvs, mMatrix mx = .umap kvs ∧ kvs.lookup "setup" = some (mSetup mx.setup) := by
  unfold mMatrix
  rw [if_neg (by rw [hs]; simp)]
  simp only
  rw [inlineFriendly_of_free hf (mxOutline_declared _ _ _)]
  refine ⟨_, rfl, ?_⟩
  rw [lookup_struct_declared hf (by split <;> simp) (by rw [declaredKeys_mx]; simp)]
  simp

theorem cacheOutline_sublist (k : Cache) :
    List.Sublist ((((if k.disabled then [("disabled", .bool true)] else []) ++
        (if k.name == "" then [] else [("name", .str k.name)]) ++
        (if (k.paths.getD []).isEmpty then [] else [("paths", strsV (k.paths.getD []))]) ++
        (if k.size == "" then [] else [("size", .str k.size)]) : List (String × Val))).map (·.1))
      ["disabled", "name", "paths", "size"] := by
  have e : ["disabled", "name", "paths", "size"] = ["disabled"] ++ ["name"] ++ ["paths"] ++ ["size"] := rfl
  rw [e]
  simp only [List.map_append]
  refine List.Sublist.append (List.Sublist.append (List.Sublist.append ?_ ?_) ?_) ?_ <;> split <;> simp

/-- The cache on the YAML leg is always a mapping of its non-empty fields (there is no `MarshalYAML`). -/
theorem cache_fields_yaml (k : Cache) (j : Val) (h : yCache k = .ok j) :
    ∃ kvs, j = .umap kvs ∧
      kvs.lookup "disabled" = (if k.disabled then some (.bool true) else none) ∧
      kvs.lookup "name" = (if k.name = "" then none else some (.str k.name)) ∧
      kvs.lookup "paths" = (if (k.paths.getD []).isEmpty then none else some (strsV (k.paths.getD []))) ∧
      kvs.lookup "size" = (if k.size = "" then none else some (.str k.size)) := by
  unfold yCache at h
  obtain ⟨hf, rfl⟩ := yStruct_inv h
  have hnd := List.Nodup.sublist (cacheOutline_sublist k) (by decide)
  refine ⟨_, rfl, ?_, ?_, ?_, ?_⟩
  · rw [lookup_struct_declared hf hnd (by rw [declaredKeys_cache]; simp)]
    simp only [List.lookup_append]
    cases k.disabled <;> by_cases b : k.name = "" <;> by_cases d : (k.paths.getD []).isEmpty = true <;>
      by_cases e : k.size = "" <;> simp [b, d, e, List.lookup]
  · rw [lookup_struct_declared hf hnd (by rw [declaredKeys_cache]; simp)]
    simp only [List.lookup_append]
    cases k.disabled <;> by_cases b : k.name = "" <;> by_cases d : (k.paths.getD []).isEmpty = true <;>
      by_cases e : k.size = "" <;> simp [b, d, e, List.lookup]
  · rw [lookup_struct_declared hf hnd (by rw [declaredKeys_cache]; simp)]
    simp only [List.lookup_append]
    cases k.disabled <;> by_cases b : k.name = "" <;> by_cases d : (k.paths.getD []).isEmpty = true <;>
      by_cases e : k.size = "" <;> simp [b, d, e, List.lookup]
  · rw [lookup_struct_declared hf hnd (by rw [declaredKeys_cache]; simp)]
    simp only [List.lookup_append]
    cases k.disabled <;> by_cases b : k.name = "" <;> by_cases d : (k.paths.getD []).isEmpty = true <;>
      by_cases e : k.size = "" <;> simp [b, d, e, List.lookup]

theorem cache_shorthands_yaml (s : String) (xs : List Val) :
    (∃ c, parseCache (.str s) = .ok (some c) ∧ yCache c = .ok (.umap [("paths", strsV [s])]) ∧
      mCache c = .umap [("paths", strsV [s])]) ∧
    (∃ c, parseCache (.bool false) = .ok (some c) ∧ yCache c = .ok (.umap [("disabled", .bool true)]) ∧
      mCache c = .bool false) ∧
    (∃ c, parseCache (.bool true) = .ok (some c) ∧ yCache c = .ok (.umap []) ∧ mCache c = .umap []) ∧
    (∀ l, strsOfSeq xs = .ok l → l ≠ [] → ∃ c, parseCache (.seq xs) = .ok (some c) ∧
      yCache c = .ok (.umap [("paths", strsV l)]) ∧ mCache c = .umap [("paths", strsV l)]) := by
  refine ⟨⟨_, rfl, ?_, ?_⟩, ⟨_, rfl, ?_, ?_⟩, ⟨_, rfl, ?_, ?_⟩, fun l hl hne => ?_⟩
  · simp [yCache, yStruct, Marshal.umapOf, Marshal.umapInsert]
  · simp [mCache, inlineFriendly, Marshal.umapOf, Marshal.umapInsert]
  · simp [yCache, yStruct, Marshal.umapOf, Marshal.umapInsert]
  · simp [mCache]
  · simp [yCache, yStruct, Marshal.umapOf]
  · simp [mCache, inlineFriendly, Marshal.umapOf]
  · refine ⟨{ disabled := false, name := "", paths := some l, size := "", rem := none }, ?_, ?_, ?_⟩
    · simp only [parseCache, hl]; rfl
    · have : l.isEmpty = false := by simpa using hne
      simp [yCache, yStruct, Marshal.umapOf, Marshal.umapInsert, this]
    · have : l.isEmpty = false := by simpa using hne
      simp [mCache, inlineFriendly, Marshal.umapOf, Marshal.umapInsert, this]

/-! ## The three side conditions are necessary: outside them the legs do differ -/

theorem matrix_fields_json (mx : Matrix) (hf : Free mxD mx.rem) (hs : isSimple mx = false) :
    ∃ kvs, mMatrix mx = .umap kvs ∧ kvs.lookup "setup" = some (mSetup mx.setup) ∧
      kvs.lookup "adjustments" = (if (mx.adjustments.getD []).isEmpty then none
        else some (.seq ((mx.adjustments.getD []).map fun | none => .null | some a => mAdjustment a))) := by
  unfold mMatrix
  rw [if_neg (by rw [hs]; simp)]
  simp only
  rw [inlineFriendly_of_free hf (mxOutline_declared _ _ _)]
  refine ⟨_, rfl, ?_, ?_⟩
  · rw [lookup_struct_declared hf (by split <;> simp) (by rw [declaredKeys_mx]; simp)]
    simp
  · rw [lookup_struct_declared hf (by split <;> simp) (by rw [declaredKeys_mx]; simp)]
    split <;> simp [List.lookup] <;> (intros; rfl)

/-- One adjustment with an empty-ish `skip` makes the two encoded adjustment lists differ. -/
theorem yAdjustments_ne : (l : List (Option Adjustment)) → (avs : List Val) → AdjFree l →
    yAdjustments l = .ok avs → (a : Adjustment) → some a ∈ l → emptyishSkip a.skip = true →
    avs ≠ l.map fun | none => .null | some a => mAdjustment a
  | [], _, _, _, a, ha, _ => by simp at ha
  | none :: r, avs, hf, h, a, ha, hs => by
    simp only [yAdjustments, map_ok_iff] at h
    obtain ⟨avs', hr, rfl⟩ := h
    have ha' : some a ∈ r := by
      rcases List.mem_cons.1 ha with e | e
      · cases e
      · exact e
    intro heq
    simp only [List.map_cons, List.cons.injEq, true_and] at heq
    exact yAdjustments_ne r avs' (fun b hb => hf b (List.mem_cons_of_mem _ hb)) hr a ha' hs heq
  | some b :: r, avs, hf, h, a, ha, hs => by
    simp only [yAdjustments] at h
    split at h
    · cases h
    · rename_i v hv
      rw [map_ok_iff] at h
      obtain ⟨avs', hr, rfl⟩ := h
      intro heq
      simp only [List.map_cons, List.cons.injEq] at heq
      obtain ⟨hv', htl⟩ := heq
      rcases List.mem_cons.1 ha with e | e
      · simp only [Option.some.injEq] at e
        subst e
        obtain ⟨kj, ky, e1, e2, n1, n2⟩ := adjustment_skip_legs_differ a (hf a List.mem_cons_self) hs
        rw [e2] at hv
        have : Val.umap ky = Val.umap kj := by rw [← e1, ← hv']; exact (Except.ok.inj hv)
        rw [Val.umap.inj this, n1] at n2
        cases n2
      · exact yAdjustments_ne r avs' (fun b hb => hf b (List.mem_cons_of_mem _ hb)) hr a e hs htl

theorem yMatrix_ne (mx : Matrix) (hf : Free mxD mx.rem) (haf : ∀ l, mx.adjustments = some l → AdjFree l)
    (l : List (Option Adjustment)) (hl : mx.adjustments = some l) (a : Adjustment) (ha : some a ∈ l)
    (hs : emptyishSkip a.skip = true) : yMatrix mx ≠ .ok (mMatrix mx) := by
  intro heq
  have hne : ((mx.adjustments.getD []).isEmpty) = false := by
    rw [hl]
    cases l with
    | nil => simp at ha
    | cons x t => rfl
  have hsimple : isSimple mx = false := by
    unfold isSimple
    rw [hne]
    simp
  obtain ⟨ky, avs, e1, e2, _, e4⟩ := (matrix_fields_yaml mx _ heq).2 hsimple
  obtain ⟨kj, f1, _, f3⟩ := matrix_fields_json mx hf hsimple
  have hk : kj = ky := by rw [f1] at e1; exact Val.umap.inj e1
  rw [← hk, f3, hne] at e4
  simp only [Bool.false_eq_true, if_false, Option.some.injEq, Val.seq.injEq] at e4
  rw [hl] at e2 e4
  exact yAdjustments_ne l avs (haf l hl) e2 a ha hs e4.symm

theorem mCommand_fields_smc (c : CommandStep) (hf : Free csD c.rem) :
    ∃ kvs, mCommand c = .umap kvs ∧ kvs.lookup "signature" = c.signature.map mSignature ∧
      kvs.lookup "matrix" = c.matrix.map mMatrix ∧ kvs.lookup "cache" = c.cache.map mCache := by
  have a1 := mSigEntry_atMost c
  have a2 := mMatrixEntry_atMost c
  have a3 := mCacheEntry_atMost c
  have hnd := cmdOutlineG_nodup c a1 a2 a3
  obtain ⟨_, _, _, _, _, l6, l7, l8⟩ := cmdOutlineG_lookups c a1 a2 a3
  refine ⟨_, by rw [mCommand_eq, inlineFriendly_of_free hf (cmdOutlineG_declared c a1 a2 a3)], ?_, ?_, ?_⟩
  · rw [lookup_struct_declared hf hnd (by rw [declaredKeys_cs]; simp), l6]
    unfold mSigEntry
    cases c.signature <;> simp [List.lookup]
  · rw [lookup_struct_declared hf hnd (by rw [declaredKeys_cs]; simp), l7]
    unfold mMatrixEntry
    cases c.matrix <;> simp [List.lookup]
  · rw [lookup_struct_declared hf hnd (by rw [declaredKeys_cs]; simp), l8]
    unfold mCacheEntry
    cases c.cache <;> simp [List.lookup]

/-- If the two legs hand over the same value tree for a command step, they do so field by field. -/
theorem legs_eq_fields (c : CommandStep) (hf : Free csD c.rem) (heq : yCommand c = .ok (mCommand c)) :
    (∀ s, c.signature = some s → ySignature s = mSignature s) ∧
    (∀ mx, c.matrix = some mx → yMatrix mx = .ok (mMatrix mx)) ∧
    (∀ k, c.cache = some k → yCache k = .ok (mCache k)) := by
  obtain ⟨kj, hkj, s1, s2, s3⟩ := mCommand_fields_smc c hf
  obtain ⟨ky, mv, cv, hjy, hmv, hcv, _, _, _, _, _, y6, y7, y8⟩ := yCommand_fields c _ heq
  have hk : kj = ky := by rw [hkj] at hjy; exact Val.umap.inj hjy
  subst hk
  refine ⟨?_, ?_, ?_⟩
  · intro s hx
    rw [hx] at s1 y6
    rw [s1] at y6
    simpa using y6.symm
  · intro mx hx
    unfold yMatrixEntry at hmv
    rw [hx] at hmv s2
    simp only [map_ok_iff] at hmv
    obtain ⟨v, hv, rfl⟩ := hmv
    rw [s2] at y7
    simp only [List.lookup, beq_self_eq_true, Option.map_some, Option.some.injEq] at y7
    rw [hv, y7]
  · intro k hx
    unfold yCacheEntry at hcv
    rw [hx] at hcv s3
    simp only [map_ok_iff] at hcv
    obtain ⟨v, hv, rfl⟩ := hcv
    rw [s3] at y8
    simp only [List.lookup, beq_self_eq_true, Option.map_some, Option.some.injEq] at y8
    rw [hv, y8]

/-- For a parsed command step the two legs hand over the identical value tree exactly when none of the three
    listed differences is met. -/
theorem legs_same_iff (m : Entries) (c : CommandStep) (h : parseCommand m = .ok c) :
    yCommand c = .ok (mCommand c) ↔ SameLegs c := by
  constructor
  · intro heq
    obtain ⟨hf, hmx, hca⟩ := parseCommand_free h
    obtain ⟨e1, e2, e3⟩ := legs_eq_fields c hf heq
    refine ⟨?_, ?_, ?_⟩
    · intro mx hx l hl a ha
      cases hs : emptyishSkip a.skip with
      | false => rfl
      | true => exact absurd (e2 mx hx) (yMatrix_ne mx (hmx mx hx).1 (hmx mx hx).2 l hl a ha hs)
    · intro k hx
      cases hd : disabledOnly k with
      | false => rfl
      | true =>
        obtain ⟨d1, d2⟩ := cache_disabled_only k hd
        have := e3 k hx
        rw [d1, d2] at this
        simp at this
    · intro s hx hnone
      obtain ⟨d1, d2⟩ := signature_nil_fields s hnone
      have := e1 s hx
      rw [d1, d2] at this
      simp at this
  · exact legs_same_normal_form_command m c h

end GoPipeline.Parse
