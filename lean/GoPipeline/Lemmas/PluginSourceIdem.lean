/-
  C17/C09/C14 — canonicalisation of plugin sources is idempotent for EVERY string (since fix 3ced888,
  finding F17: `FullSource` concatenates instead of calling `path.Join`).

  `fullSource_idem : Marshal.fullSource (Marshal.fullSource s) = Marshal.fullSource s`, no hypothesis.

  Architecture: `PluginSrc.fullSource` and `PluginSrc.fullSourceQ` share everything after their guards;
  `core cut` is that common part (`cut = id` resp. `cutQuery`), tied to the two models by `rfl`
  (`fullSource_cons`, `fullSourceQ_cons`). `core_cases` reads the branches backwards: a result is the
  input or a canonical form `canon x y frag = github.com/x/y-buildkite-plugin[#frag]` whose pieces `x`,
  `y` are free of `/`, `#`, `?`, `%` and control bytes (`Piece`); `core_canon` shows that such a canonical
  form is a three-segment path without scheme and is therefore returned as written. A `?` can survive
  in the fragment only; then the second pass goes through `fullSourceQ` again.
-/
import GoPipeline.Model.Marshal
import GoPipeline.Lemmas.PluginSource
namespace GoPipeline.PluginSrc

/-! ## The common part of `fullSource` and `fullSourceQ` -/

/-- Everything after the guards; `cut` is what `url.Parse` does to the query (`id`: there is none). -/
def core (cut : Str → Str) (s : Str) : Option Str :=
  let (u, frag) := cutHash s
  if hasCTL u then some s
  else if u == ['*'] then some (githubCom ++ '/' :: bkPlugins ++ '/' :: lastSegment u frag)
  else
    match getScheme u with
    | .err => some s
    | .some_ _ _ => some s
    | .none_ =>
      let rest := cut u
      let seg0 := (splitOn '/' rest).headD []
      if seg0.contains ':' then some s
      else
        match splitOn '/' rest with
        | [p0] => some (githubCom ++ '/' :: bkPlugins ++ '/' :: lastSegment p0 frag)
        | [p0, p1] => some (githubCom ++ '/' :: p0 ++ '/' :: lastSegment p1 frag)
        | _ => some s

theorem fullSource_cons (c0 : Char) (t : Str) :
    fullSource (c0 :: t) =
      if c0 == '/' || c0 == '.' || c0 == '\\' then some (c0 :: t)
      else if (c0 :: t).contains '%' || (c0 :: t).contains '?' then none
      else core id (c0 :: t) := rfl

theorem fullSourceQ_cons (c0 : Char) (t : Str) :
    fullSourceQ (c0 :: t) =
      if c0 == '/' || c0 == '.' || c0 == '\\' then some (c0 :: t)
      else if (c0 :: t).contains '%' then none
      else core cutQuery (c0 :: t) := rfl

/-! ## Canonical forms -/

/-- `github.com/x/y-buildkite-plugin[#frag]`. -/
def canon (x y frag : Str) : Str := githubCom ++ '/' :: x ++ '/' :: lastSegment y frag

/-- The part of a canonical form before the fragment. -/
def pre (x y : Str) : Str := githubCom ++ '/' :: x ++ '/' :: (y ++ suffix)

/-- What the org and name pieces of a canonical form produced by the code look like. -/
structure Piece (x : Str) : Prop where
  slash : '/' ∉ x
  hash : '#' ∉ x
  query : '?' ∉ x
  pct : '%' ∉ x
  ctl : hasCTL x = false

theorem hasCTL_false_iff {s : Str} :
    hasCTL s = false ↔ ∀ c ∈ s, ¬ ((decide (c.toNat < 0x20) || c.toNat == 0x7f) = true) := by
  simp only [hasCTL, List.any_eq_false]

theorem hasCTL_of_sub {u x : Str} (h : ∀ c ∈ x, c ∈ u) (hu : hasCTL u = false) : hasCTL x = false := by
  rw [hasCTL_false_iff] at hu ⊢
  exact fun c hc => hu c (h c hc)

theorem piece_bkPlugins : Piece bkPlugins := ⟨by decide, by decide, by decide, by decide, by decide⟩
theorem piece_star : Piece ['*'] := ⟨by decide, by decide, by decide, by decide, by decide⟩

theorem piece_of_mem_splitOn {u v x : Str} (hx : x ∈ splitOn '/' v) (hv : ∀ c ∈ v, c ∈ u)
    (hh : '#' ∉ u) (hq : '?' ∉ v) (hp : '%' ∉ u) (hctl : hasCTL u = false) : Piece x := by
  have hsub : ∀ c ∈ x, c ∈ v := mem_of_mem_splitOn hx
  exact ⟨not_mem_of_mem_splitOn hx, fun hm => hh (hv _ (hsub _ hm)), fun hm => hq (hsub _ hm),
    fun hm => hp (hv _ (hsub _ hm)), hasCTL_of_sub (fun c hc => hv c (hsub c hc)) hctl⟩

theorem canon_eq (x y frag : Str) : canon x y frag = pre x y ++ hashTail frag := by
  unfold canon pre
  rw [lastSegment_eq]
  simp

theorem canon_cons (x y frag : Str) : ∃ t, canon x y frag = 'g' :: t := ⟨_, rfl⟩

theorem not_mem_pre {x y : Str} {d : Char} (hg : d ∉ githubCom) (hs : d ≠ '/') (hx : d ∉ x)
    (hy : d ∉ y) (hsf : d ∉ suffix) : d ∉ pre x y := by
  simp only [pre, List.mem_append, List.mem_cons, not_or]
  exact ⟨⟨hg, hs, hx⟩, hs, hy, hsf⟩

theorem hasCTL_pre {x y : Str} (hx : hasCTL x = false) (hy : hasCTL y = false) :
    hasCTL (pre x y) = false := by
  rw [hasCTL_false_iff] at hx hy ⊢
  have hg : ∀ c ∈ githubCom, ¬ ((decide (c.toNat < 0x20) || c.toNat == 0x7f) = true) := by decide
  have hsf : ∀ c ∈ suffix, ¬ ((decide (c.toNat < 0x20) || c.toNat == 0x7f) = true) := by decide
  intro c hc
  simp only [pre, List.mem_append, List.mem_cons] at hc
  rcases hc with (hc | hc | hc) | hc | hc | hc
  · exact hg c hc
  · subst hc; decide
  · exact hx c hc
  · subst hc; decide
  · exact hy c hc
  · exact hsf c hc

theorem cutHash_canon {x y : Str} (frag : Str) (hx : '#' ∉ x) (hy : '#' ∉ y) :
    cutHash (canon x y frag) = (pre x y, frag) := by
  have hn : '#' ∉ pre x y :=
    not_mem_pre hash_not_mem_githubCom (by decide) hx hy hash_not_mem_suffix
  rw [canon_eq]
  unfold hashTail
  by_cases hf : frag = []
  · simp only [hf, ↓reduceIte, List.append_nil]
    exact cutHash_of_not_mem hn
  · simp only [hf, ↓reduceIte]
    exact cutHash_append_hash _ hn

theorem splitOn_pre {x y : Str} (hx : '/' ∉ x) (hy : '/' ∉ y) :
    splitOn '/' (pre x y) = [githubCom, x, y ++ suffix] := by
  have e : pre x y = githubCom ++ '/' :: (x ++ '/' :: (y ++ suffix)) := by simp [pre]
  have hys : '/' ∉ y ++ suffix := by
    simp only [List.mem_append, not_or]; exact ⟨hy, slash_not_mem_suffix⟩
  rw [e, splitOn_append_sep _ slash_not_mem_githubCom, splitOn_append_sep _ hx,
    splitOn_of_not_mem hys]

theorem getScheme_pre (x y : Str) : getScheme (pre x y) = .none_ := by
  have e : pre x y = githubCom ++ '/' :: (x ++ '/' :: (y ++ suffix)) := by simp [pre]
  rw [e, getScheme]
  exact getSchemeFrom_stop _ _ _ _ _ (by decide) (by decide) (by decide) (by decide)

theorem pre_ne_star (x y : Str) : pre x y ≠ ['*'] := by
  intro e
  have : '/' ∈ pre x y := by simp [pre]
  rw [e] at this
  exact absurd this (by decide)

/-- A canonical form is a three-segment path without a scheme: it is returned as written. -/
theorem core_canon (cut : Str → Str) {x y : Str} (frag : Str) (hx : Piece x) (hy : Piece y)
    (hcut : cut (pre x y) = pre x y) : core cut (canon x y frag) = some (canon x y frag) := by
  unfold core
  rw [cutHash_canon frag hx.hash hy.hash]
  have hstar : (pre x y == ['*']) = false := by simpa using pre_ne_star x y
  have hcolon : (githubCom.contains ':') = false := by decide
  simp only [hasCTL_pre hx.ctl hy.ctl, hstar, getScheme_pre, hcut, splitOn_pre hx.slash hy.slash,
    List.headD_cons, hcolon, Bool.false_eq_true, ↓reduceIte]

/-- The branches of `core`, backwards. -/
theorem core_cases (cut : Str → Str) (s r : Str) (h : core cut s = some r) :
    r = s ∨ (hasCTL (cutHash s).1 = false ∧
      ∃ x y, (x = bkPlugins ∨ x ∈ splitOn '/' (cut (cutHash s).1)) ∧
        (y = ['*'] ∨ y ∈ splitOn '/' (cut (cutHash s).1)) ∧ r = canon x y (cutHash s).2) := by
  unfold core at h
  generalize cutHash s = p at h ⊢
  obtain ⟨u, frag⟩ := p
  simp only at h ⊢
  split at h
  · left; exact (Option.some.inj h).symm
  rename_i hctl
  have hctl' : hasCTL u = false := by simpa using hctl
  split at h
  · rename_i hstar
    right
    exact ⟨hctl', bkPlugins, u, Or.inl rfl, Or.inl (by simpa using hstar), (Option.some.inj h).symm⟩
  split at h
  · left; exact (Option.some.inj h).symm
  · left; exact (Option.some.inj h).symm
  · split at h
    · left; exact (Option.some.inj h).symm
    · split at h
      · rename_i p0 hsp
        right
        exact ⟨hctl', bkPlugins, p0, Or.inl rfl, Or.inr (by rw [hsp]; simp),
          (Option.some.inj h).symm⟩
      · rename_i p0 p1 hsp
        right
        exact ⟨hctl', p0, p1, Or.inr (by rw [hsp]; simp), Or.inr (by rw [hsp]; simp),
          (Option.some.inj h).symm⟩
      · left; exact (Option.some.inj h).symm

/-! ## `cutQuery` -/

theorem cutQuery_of_not_mem {a : Str} (ha : '?' ∉ a) : cutQuery a = a := by
  induction a with
  | nil => rfl
  | cons c r ih =>
    simp only [List.mem_cons, not_or] at ha
    have hc : (c == '?') = false := by simpa using Ne.symm ha.1
    rw [cutQuery]; simp [hc, ih ha.2]

theorem mem_of_mem_cutQuery (u : Str) : ∀ c ∈ cutQuery u, c ∈ u := by
  induction u with
  | nil => simp [cutQuery]
  | cons d r ih =>
    intro c hc
    rw [cutQuery] at hc
    split at hc
    · simp at hc
    · rcases List.mem_cons.1 hc with hc | hc
      · subst hc; exact List.mem_cons_self
      · exact List.mem_cons_of_mem _ (ih c hc)

theorem query_not_mem_cutQuery (u : Str) : '?' ∉ cutQuery u := by
  induction u with
  | nil => simp [cutQuery]
  | cons d r ih =>
    rw [cutQuery]
    split
    · simp
    · rename_i hd
      simp only [List.mem_cons, not_or]
      exact ⟨fun e => hd (by simp [← e]), ih⟩

/-! ## The two models, backwards and on canonical forms -/

theorem contains_false {s : Str} {d : Char} : s.contains d = false ↔ d ∉ s := by simp

/-- A result of `fullSource` is the input or a canonical form (and then there is no `%`, `?`). -/
theorem fullSource_cases_gen (s r : Str) (h : fullSource s = some r) :
    r = s ∨ ∃ x y, Piece x ∧ Piece y ∧ '%' ∉ (cutHash s).2 ∧ '?' ∉ (cutHash s).2 ∧
      r = canon x y (cutHash s).2 := by
  cases s with
  | nil => left; simpa [fullSource] using h.symm
  | cons c0 t =>
    rw [fullSource_cons] at h
    split at h
    · left; exact (Option.some.inj h).symm
    split at h
    · exact absurd h (by simp)
    rename_i _ hpq
    simp only [Bool.or_eq_true, not_or, Bool.not_eq_true, contains_false] at hpq
    obtain ⟨hp, hq⟩ := hpq
    rcases core_cases id _ _ h with e | ⟨hctl, x, y, hx, hy, e⟩
    · left; exact e
    right
    have hh := hash_not_mem_cutHash_fst (c0 :: t)
    have hsub := mem_of_mem_cutHash_fst (c0 :: t)
    have hp' : '%' ∉ (cutHash (c0 :: t)).1 := fun hm => hp (hsub _ hm)
    have hq' : '?' ∉ (cutHash (c0 :: t)).1 := fun hm => hq (hsub _ hm)
    have hpiece : ∀ z ∈ splitOn '/' (id (cutHash (c0 :: t)).1), Piece z := fun z hz =>
      piece_of_mem_splitOn hz (fun c hc => hc) hh hq' hp' hctl
    refine ⟨x, y, ?_, ?_, fun hm => hp (mem_of_mem_cutHash_snd _ _ hm),
      fun hm => hq (mem_of_mem_cutHash_snd _ _ hm), e⟩
    · rcases hx with hx | hx
      · rw [hx]; exact piece_bkPlugins
      · exact hpiece x hx
    · rcases hy with hy | hy
      · rw [hy]; exact piece_star
      · exact hpiece y hy

/-- A result of `fullSourceQ` is the input or a canonical form (a `?` can survive in the fragment). -/
theorem fullSourceQ_cases_gen (s r : Str) (h : fullSourceQ s = some r) :
    r = s ∨ ∃ x y, Piece x ∧ Piece y ∧ '%' ∉ (cutHash s).2 ∧ r = canon x y (cutHash s).2 := by
  cases s with
  | nil => left; simpa [fullSourceQ] using h.symm
  | cons c0 t =>
    rw [fullSourceQ_cons] at h
    split at h
    · left; exact (Option.some.inj h).symm
    split at h
    · exact absurd h (by simp)
    rename_i _ hp
    simp only [Bool.not_eq_true, contains_false] at hp
    rcases core_cases cutQuery _ _ h with e | ⟨hctl, x, y, hx, hy, e⟩
    · left; exact e
    right
    have hh := hash_not_mem_cutHash_fst (c0 :: t)
    have hsub := mem_of_mem_cutHash_fst (c0 :: t)
    have hp' : '%' ∉ (cutHash (c0 :: t)).1 := fun hm => hp (hsub _ hm)
    have hpiece : ∀ z ∈ splitOn '/' (cutQuery (cutHash (c0 :: t)).1), Piece z := fun z hz =>
      piece_of_mem_splitOn hz (mem_of_mem_cutQuery _) hh (query_not_mem_cutQuery _) hp' hctl
    refine ⟨x, y, ?_, ?_, fun hm => hp (mem_of_mem_cutHash_snd _ _ hm), e⟩
    · rcases hx with hx | hx
      · rw [hx]; exact piece_bkPlugins
      · exact hpiece x hx
    · rcases hy with hy | hy
      · rw [hy]; exact piece_star
      · exact hpiece y hy

theorem not_mem_canon {x y frag : Str} {d : Char} (hg : d ∉ githubCom) (hs : d ≠ '/') (hx : d ∉ x)
    (hy : d ∉ y) (hsf : d ∉ suffix) (hh : d ≠ '#') (hf : d ∉ frag) : d ∉ canon x y frag := by
  rw [canon_eq]
  simp only [List.mem_append, not_or]
  refine ⟨not_mem_pre hg hs hx hy hsf, ?_⟩
  unfold hashTail
  split
  · simp
  · simp only [List.mem_cons, not_or]; exact ⟨hh, hf⟩

theorem pct_not_mem_canon {x y frag : Str} (hx : Piece x) (hy : Piece y) (hf : '%' ∉ frag) :
    '%' ∉ canon x y frag :=
  not_mem_canon (by decide) (by decide) hx.pct hy.pct (by decide) (by decide) hf

theorem query_not_mem_pre {x y : Str} (hx : Piece x) (hy : Piece y) : '?' ∉ pre x y :=
  not_mem_pre (by decide) (by decide) hx.query hy.query (by decide)

/-- `fullSourceQ` returns canonical forms as written. -/
theorem fullSourceQ_canon {x y frag : Str} (hx : Piece x) (hy : Piece y) (hf : '%' ∉ frag) :
    fullSourceQ (canon x y frag) = some (canon x y frag) := by
  obtain ⟨t, ht⟩ := canon_cons x y frag
  have hp : (canon x y frag).contains '%' = false := contains_false.2 (pct_not_mem_canon hx hy hf)
  have h := fullSourceQ_cons 'g' t
  rw [← ht] at h
  rw [h, hp]
  simp only [show ('g' == '/' || 'g' == '.' || 'g' == '\\') = false by decide, Bool.false_eq_true,
    ↓reduceIte]
  exact core_canon cutQuery frag hx hy (cutQuery_of_not_mem (query_not_mem_pre hx hy))

/-- `fullSource` returns canonical forms without `?` as written … -/
theorem fullSource_canon {x y frag : Str} (hx : Piece x) (hy : Piece y) (hf : '%' ∉ frag)
    (hq : '?' ∉ frag) : fullSource (canon x y frag) = some (canon x y frag) := by
  obtain ⟨t, ht⟩ := canon_cons x y frag
  have hp : (canon x y frag).contains '%' = false := contains_false.2 (pct_not_mem_canon hx hy hf)
  have hq' : (canon x y frag).contains '?' = false := contains_false.2
    (not_mem_canon (by decide) (by decide) hx.query hy.query (by decide) (by decide) hq)
  have h := fullSource_cons 'g' t
  rw [← ht] at h
  rw [h, hp, hq']
  simp only [show ('g' == '/' || 'g' == '.' || 'g' == '\\') = false by decide, Bool.or_self,
    Bool.false_eq_true, ↓reduceIte]
  exact core_canon id frag hx hy rfl

/-- … and does not model those with a `?` in the fragment. -/
theorem fullSource_canon_query {x y frag : Str} (hq : '?' ∈ frag) :
    fullSource (canon x y frag) = none := by
  obtain ⟨t, ht⟩ := canon_cons x y frag
  have hq' : (canon x y frag).contains '?' = true := by
    rw [List.contains_iff_mem, canon_eq]
    refine List.mem_append_right _ ?_
    unfold hashTail
    split
    · rename_i e; rw [e] at hq; simp at hq
    · exact List.mem_cons_of_mem _ hq
  have h := fullSource_cons 'g' t
  rw [← ht] at h
  rw [h, hq']
  simp only [show ('g' == '/' || 'g' == '.' || 'g' == '\\') = false by decide, Bool.or_true,
    Bool.false_eq_true, ↓reduceIte]

/-- `fullSource` is idempotent wherever it is defined (no domain hypothesis). -/
theorem fullSource_idem_list (s r : Str) (h : fullSource s = some r) : fullSource r = some r := by
  rcases fullSource_cases_gen s r h with e | ⟨x, y, hx, hy, hp, hq, e⟩
  · rw [e]; rw [e] at h; exact h
  · rw [e]; exact fullSource_canon hx hy hp hq

/-- `fullSourceQ` is idempotent wherever it is defined. -/
theorem fullSourceQ_idem_list (s r : Str) (h : fullSourceQ s = some r) : fullSourceQ r = some r := by
  rcases fullSourceQ_cases_gen s r h with e | ⟨x, y, hx, hy, hp, e⟩
  · rw [e]; rw [e] at h; exact h
  · rw [e]; exact fullSourceQ_canon hx hy hp

/-! ## The marshalling-level function -/

/-- `Marshal.fullSource` on character lists. -/
def canonL (l : Str) : Str :=
  match fullSource l with
  | some r => r
  | none =>
    match fullSourceQ l with
    | some r => r
    | none => l

theorem canonL_idem (l : Str) : canonL (canonL l) = canonL l := by
  cases hF : fullSource l with
  | some r =>
    have e : canonL l = r := by simp [canonL, hF]
    rw [e]
    simp [canonL, fullSource_idem_list l r hF]
  | none =>
    cases hQ : fullSourceQ l with
    | none =>
      have e : canonL l = l := by simp [canonL, hF, hQ]
      rw [e, e]
    | some r =>
      have e : canonL l = r := by simp [canonL, hF, hQ]
      rw [e]
      rcases fullSourceQ_cases_gen l r hQ with e' | ⟨x, y, hx, hy, hp, e'⟩
      · rw [e']; rw [e'] at e; exact e
      · rw [e']
        by_cases hq : '?' ∈ (cutHash l).2
        · simp [canonL, fullSource_canon_query hq, fullSourceQ_canon hx hy hp]
        · simp [canonL, fullSource_canon hx hy hp hq]

end GoPipeline.PluginSrc

namespace GoPipeline.Marshal

theorem fullSource_eq_canonL (s : String) :
    fullSource s = String.ofList (PluginSrc.canonL s.toList) := by
  unfold fullSource PluginSrc.canonL
  cases PluginSrc.fullSource s.toList with
  | some r => rfl
  | none =>
    cases PluginSrc.fullSourceQ s.toList with
    | some r => rfl
    | none => simp

/-- Canonicalising a plugin source twice is the same as canonicalising it once — for every string
    (finding F17 fixed in 3ced888; before, `path.Join` made this false outside the documented forms). -/
theorem fullSource_idem (s : String) : fullSource (fullSource s) = fullSource s := by
  rw [fullSource_eq_canonL (fullSource s), fullSource_eq_canonL s, String.toList_ofList,
    PluginSrc.canonL_idem]

end GoPipeline.Marshal
