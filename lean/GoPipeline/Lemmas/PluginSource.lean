/-
  C17 — helper lemmas: `fullSource` (the mirror of `(*Plugin).FullSource`) expands the documented
  short forms, leaves the other documented forms as written, and is idempotent on its domain.

  Architecture: `splitOn`/`joinWith`/`cutHash` get shape lemmas over separator-free prefixes; the
  branch structure of `fullSource` is captured once forwards (`fullSource_unchanged`,
  `fullSource_expand`) and once backwards (`fullSource_cases`), and every property is read off from
  those. (Since fix 3ced888 the expansions are plain concatenations: the lemmas about
  `cleanRel`/`pathJoin` that used to live here are gone, and the side condition on ref components in
  `idempotent`/`result_in_dom`/`total_on_dom` is kept for the statements in `Props/C17.lean` only; it is
  not used. The unconditional idempotence is in `Lemmas/PluginSourceIdem.lean`.)
-/
import GoPipeline.Model.PluginSource
namespace GoPipeline.PluginSrc

/-! ## Character facts -/

theorem nameChar_ne {c d : Char} (h : isNameChar c = true) (hd : isNameChar d = false) : c ≠ d := by
  rintro rfl; simp [h] at hd

theorem domChar_ne {c d : Char} (h : isDomChar c = true) (hd : isDomChar d = false) : c ≠ d := by
  rintro rfl; simp [h] at hd

theorem alpha_ne {c d : Char} (h : isAlpha c = true) (hd : isAlpha d = false) : c ≠ d := by
  rintro rfl; simp [h] at hd

theorem schemeTail_ne {c d : Char} (h : isSchemeTail c = true) (hd : isSchemeTail d = false) :
    c ≠ d := by
  rintro rfl; simp [h] at hd

theorem nameChar_dom {c : Char} (h : isNameChar c = true) : isDomChar c = true := by
  simp [isDomChar, h]

theorem alpha_nameChar {c : Char} (h : isAlpha c = true) : isNameChar c = true := by
  simp only [isAlpha, Bool.or_eq_true] at h
  simp only [isNameChar, Bool.or_eq_true]
  rcases h with h | h <;> simp [h]

theorem nameChar_not_ctl {c : Char} (h : isNameChar c = true) :
    (decide (c.toNat < 0x20) || c.toNat == 0x7f) = false := by
  simp only [isNameChar, Bool.or_eq_true, Bool.and_eq_true, decide_eq_true_eq, beq_iff_eq] at h
  simp only [Char.le_def, UInt32.le_iff_toNat_le] at h
  have e : c.toNat = c.val.toNat := rfl
  have ea : 'a'.val.toNat = 97 := rfl
  have ez : 'z'.val.toNat = 122 := rfl
  have eA : 'A'.val.toNat = 65 := rfl
  have eZ : 'Z'.val.toNat = 90 := rfl
  have e0 : '0'.val.toNat = 48 := rfl
  have e9 : '9'.val.toNat = 57 := rfl
  rw [ea, ez, eA, eZ, e0, e9] at h
  rcases h with ((((h | h) | h) | h) | h) | h
  · rw [e]; generalize c.val.toNat = n at h; simp; omega
  · rw [e]; generalize c.val.toNat = n at h; simp; omega
  · rw [e]; generalize c.val.toNat = n at h; simp; omega
  · subst h; decide
  · subst h; decide
  · subst h; decide

theorem domChar_not_ctl {c : Char} (h : isDomChar c = true) :
    (decide (c.toNat < 0x20) || c.toNat == 0x7f) = false := by
  simp only [isDomChar, Bool.or_eq_true, beq_iff_eq] at h
  rcases h with ((((h | h) | h) | h) | h) | h
  · exact nameChar_not_ctl h
  all_goals subst h; decide

theorem hasCTL_false_of_dom {s : Str} (h : ∀ c ∈ s, isDomChar c = true) : hasCTL s = false := by
  simp only [hasCTL, List.any_eq_false]
  intro c hc
  simpa using domChar_not_ctl (h c hc)

/-! ## `splitOn` / `joinWith` -/

theorem splitOn_ne_nil (sep : Char) (s : Str) : splitOn sep s ≠ [] := by
  induction s with
  | nil => simp [splitOn]
  | cons c r ih =>
    unfold splitOn
    split
    · simp
    · split
      · simp
      · simp

theorem splitOn_cons_ne {sep c : Char} {r h : Str} {t : List Str} (hc : c ≠ sep)
    (hr : splitOn sep r = h :: t) : splitOn sep (c :: r) = (c :: h) :: t := by
  rw [splitOn]
  simp [hc, hr]

theorem splitOn_cons_sep (sep : Char) (r : Str) : splitOn sep (sep :: r) = [] :: splitOn sep r := by
  rw [splitOn]; simp

/-- A separator-free prefix is prepended to the first component. -/
theorem splitOn_append {sep : Char} {a b h : Str} {t : List Str} (ha : sep ∉ a)
    (hb : splitOn sep b = h :: t) : splitOn sep (a ++ b) = (a ++ h) :: t := by
  induction a with
  | nil => simpa using hb
  | cons c r ih =>
    simp only [List.mem_cons, not_or] at ha
    have := ih ha.2
    rw [List.cons_append, splitOn_cons_ne (Ne.symm ha.1) this]
    rfl

theorem splitOn_append_sep {sep : Char} {a : Str} (b : Str) (ha : sep ∉ a) :
    splitOn sep (a ++ sep :: b) = a :: splitOn sep b := by
  have := splitOn_append (b := sep :: b) ha (splitOn_cons_sep sep b)
  simpa using this

theorem splitOn_of_not_mem {sep : Char} {a : Str} (ha : sep ∉ a) : splitOn sep a = [a] := by
  have := splitOn_append (sep := sep) (b := []) (h := []) (t := []) ha rfl
  simpa using this

theorem joinWith_cons (sep : Char) (x : Str) {l : List Str} (hl : l ≠ []) :
    joinWith sep (x :: l) = x ++ sep :: joinWith sep l := by
  cases l with
  | nil => exact absurd rfl hl
  | cons y r => rfl

theorem joinWith_splitOn (sep : Char) (s : Str) : joinWith sep (splitOn sep s) = s := by
  induction s with
  | nil => rfl
  | cons c r ih =>
    by_cases hc : c = sep
    · subst hc
      rw [splitOn_cons_sep, joinWith_cons _ _ (splitOn_ne_nil _ _), ih]; rfl
    · cases hr : splitOn sep r with
      | nil => exact absurd hr (splitOn_ne_nil _ _)
      | cons h t =>
        rw [splitOn_cons_ne hc hr]
        rw [hr] at ih
        cases t with
        | nil => simp only [joinWith] at ih ⊢; rw [ih]
        | cons y t' => simp only [joinWith] at ih ⊢; rw [← ih]; rfl

/-- No component of a split contains the separator. -/
theorem not_mem_of_mem_splitOn {sep : Char} {s comp : Str} (h : comp ∈ splitOn sep s) :
    sep ∉ comp := by
  induction s generalizing comp with
  | nil => simp [splitOn] at h; subst h; simp
  | cons c r ih =>
    by_cases hc : c = sep
    · subst hc
      rw [splitOn_cons_sep] at h
      rcases List.mem_cons.1 h with h | h
      · subst h; simp
      · exact ih h
    · cases hr : splitOn sep r with
      | nil => exact absurd hr (splitOn_ne_nil _ _)
      | cons x t =>
        rw [splitOn_cons_ne hc hr] at h
        rw [hr] at ih
        rcases List.mem_cons.1 h with h | h
        · subst h
          have := ih (List.mem_cons_self)
          simp only [List.mem_cons, not_or]
          exact ⟨Ne.symm hc, this⟩
        · exact ih (List.mem_cons_of_mem _ h)

/-- Characters of components are characters of the string. -/
theorem mem_of_mem_splitOn {sep : Char} {s comp : Str} (h : comp ∈ splitOn sep s) :
    ∀ c ∈ comp, c ∈ s := by
  induction s generalizing comp with
  | nil => simp [splitOn] at h; subst h; simp
  | cons c r ih =>
    by_cases hc : c = sep
    · subst hc
      rw [splitOn_cons_sep] at h
      rcases List.mem_cons.1 h with h | h
      · subst h; simp
      · intro d hd; exact List.mem_cons_of_mem _ (ih h d hd)
    · cases hr : splitOn sep r with
      | nil => exact absurd hr (splitOn_ne_nil _ _)
      | cons x t =>
        rw [splitOn_cons_ne hc hr] at h
        rw [hr] at ih
        rcases List.mem_cons.1 h with h | h
        · subst h
          intro d hd
          rcases List.mem_cons.1 hd with hd | hd
          · subst hd; exact List.mem_cons_self
          · exact List.mem_cons_of_mem _ (ih List.mem_cons_self d hd)
        · intro d hd; exact List.mem_cons_of_mem _ (ih (List.mem_cons_of_mem _ h) d hd)

/-- The first component of a string that starts with a non-separator starts with it. -/
theorem splitOn_head_cons {sep c : Char} (r : Str) (hc : c ≠ sep) :
    ∃ h t, splitOn sep (c :: r) = (c :: h) :: t := by
  cases hr : splitOn sep r with
  | nil => exact absurd hr (splitOn_ne_nil _ _)
  | cons h t => exact ⟨h, t, splitOn_cons_ne hc hr⟩

/-! ## `cutHash` -/

theorem cutHash_cons_ne {c : Char} (r : Str) (hc : c ≠ '#') :
    cutHash (c :: r) = (c :: (cutHash r).1, (cutHash r).2) := by
  rw [cutHash]; simp [hc]

theorem cutHash_cons_hash (r : Str) : cutHash ('#' :: r) = ([], r) := by
  rw [cutHash]; simp

theorem cutHash_append {a : Str} (b : Str) (ha : '#' ∉ a) :
    cutHash (a ++ b) = (a ++ (cutHash b).1, (cutHash b).2) := by
  induction a with
  | nil => simp
  | cons c r ih =>
    simp only [List.mem_cons, not_or] at ha
    rw [List.cons_append, cutHash_cons_ne _ (Ne.symm ha.1), ih ha.2]
    rfl

theorem cutHash_append_hash {a : Str} (b : Str) (ha : '#' ∉ a) :
    cutHash (a ++ '#' :: b) = (a, b) := by
  rw [cutHash_append _ ha, cutHash_cons_hash]; simp

theorem cutHash_of_not_mem {a : Str} (ha : '#' ∉ a) : cutHash a = (a, []) := by
  have := cutHash_append [] ha
  simpa [cutHash] using this

theorem mem_of_mem_cutHash_fst (s : Str) : ∀ c ∈ (cutHash s).1, c ∈ s := by
  induction s with
  | nil => simp [cutHash]
  | cons c r ih =>
    by_cases hc : c = '#'
    · subst hc; rw [cutHash_cons_hash]; simp
    · rw [cutHash_cons_ne _ hc]
      intro d hd
      rcases List.mem_cons.1 hd with hd | hd
      · subst hd; exact List.mem_cons_self
      · exact List.mem_cons_of_mem _ (ih d hd)

theorem mem_of_mem_cutHash_snd (s : Str) : ∀ c ∈ (cutHash s).2, c ∈ s := by
  induction s with
  | nil => simp [cutHash]
  | cons c r ih =>
    by_cases hc : c = '#'
    · subst hc; rw [cutHash_cons_hash]
      intro d hd; exact List.mem_cons_of_mem _ hd
    · rw [cutHash_cons_ne _ hc]
      intro d hd
      exact List.mem_cons_of_mem _ (ih d hd)

theorem hash_not_mem_cutHash_fst (s : Str) : '#' ∉ (cutHash s).1 := by
  induction s with
  | nil => simp [cutHash]
  | cons c r ih =>
    by_cases hc : c = '#'
    · subst hc; rw [cutHash_cons_hash]; simp
    · rw [cutHash_cons_ne _ hc]
      simp only [List.mem_cons, not_or]
      exact ⟨Ne.symm hc, ih⟩

/-! ## Constants, `lastSegment` -/

theorem suffix_length : suffix.length = 17 := by decide

theorem slash_not_mem_suffix : '/' ∉ suffix := by decide
theorem hash_not_mem_suffix : '#' ∉ suffix := by decide
theorem slash_not_mem_githubCom : '/' ∉ githubCom := by decide
theorem hash_not_mem_githubCom : '#' ∉ githubCom := by decide
theorem githubCom_dom : ∀ c ∈ githubCom, isDomChar c = true := by decide
theorem bkPlugins_dom : ∀ c ∈ bkPlugins, isDomChar c = true := by decide
theorem suffix_dom : ∀ c ∈ suffix, isDomChar c = true := by decide
theorem slash_not_mem_bkPlugins : '/' ∉ bkPlugins := by decide
theorem hash_not_mem_bkPlugins : '#' ∉ bkPlugins := by decide

/-- The optional `#frag` tail appended by `lastSegment`. -/
def hashTail (frag : Str) : Str := if frag = [] then [] else '#' :: frag

theorem lastSegment_eq (y frag : Str) : lastSegment y frag = y ++ suffix ++ hashTail frag := by
  unfold lastSegment hashTail
  by_cases h : frag = []
  · simp [h]
  · simp [h]

theorem lastSegment_ne_nil (y frag : Str) : lastSegment y frag ≠ [] := by
  intro h
  have := congrArg List.length h
  rw [lastSegment_eq] at this
  simp [suffix_length] at this

/-! ## `getScheme` -/

theorem getSchemeFrom_no_colon (first : Bool) (acc a : Str) (ha : ':' ∉ a) :
    getSchemeFrom first acc a = .none_ := by
  induction a generalizing first acc with
  | nil => rfl
  | cons c r ih =>
    simp only [List.mem_cons, not_or] at ha
    rw [getSchemeFrom]
    have hc : (c == ':') = false := by simpa using Ne.symm ha.1
    simp only [ih _ _ ha.2, hc]
    split
    · rfl
    · split
      · split <;> rfl
      · rfl

/-- A colon-free prefix followed by a character that ends the scan. -/
theorem getSchemeFrom_stop (first : Bool) (acc a : Str) (d : Char) (t : Str) (ha : ':' ∉ a)
    (hd1 : isAlpha d = false) (hd2 : isSchemeTail d = false) (hd3 : d ≠ ':') :
    getSchemeFrom first acc (a ++ d :: t) = .none_ := by
  induction a generalizing first acc with
  | nil =>
    rw [List.nil_append, getSchemeFrom]
    have hc : (d == ':') = false := by simpa using hd3
    simp [hd1, hd2, hc]
  | cons c r ih =>
    simp only [List.mem_cons, not_or] at ha
    rw [List.cons_append, getSchemeFrom]
    have hc : (c == ':') = false := by simpa using Ne.symm ha.1
    simp only [ih _ _ ha.2, hc]
    split
    · rfl
    · split
      · split <;> rfl
      · rfl

theorem getSchemeFrom_scheme (acc sch rest : Str)
    (hs : ∀ c ∈ sch, isAlpha c = true ∨ isSchemeTail c = true) :
    getSchemeFrom false acc (sch ++ ':' :: rest) = .some_ (acc ++ sch) rest := by
  induction sch generalizing acc with
  | nil =>
    rw [List.nil_append, getSchemeFrom]
    have h1 : isAlpha ':' = false := by decide
    have h2 : isSchemeTail ':' = false := by decide
    simp [h1, h2]
  | cons c r ih =>
    have hr : ∀ c ∈ r, isAlpha c = true ∨ isSchemeTail c = true :=
      fun x hx => hs x (List.mem_cons_of_mem _ hx)
    rw [List.cons_append, getSchemeFrom, ih _ hr]
    rcases hs c List.mem_cons_self with h | h
    · simp [h]
    · cases ha : isAlpha c <;> simp [h]

/-! ## Branch structure of `fullSource` -/

theorem dom_no_pct {s : Str} (h : ∀ c ∈ s, isDomChar c = true) :
    (s.contains '%' || s.contains '?') = false := by
  have h1 : '%' ∉ s := fun hm => domChar_ne (h _ hm) (by decide) rfl
  have h2 : '?' ∉ s := fun hm => domChar_ne (h _ hm) (by decide) rfl
  simp [h1, h2]

theorem dom_cut_ne_star {s : Str} (h : ∀ c ∈ s, isDomChar c = true) : (cutHash s).1 ≠ ['*'] := by
  intro e
  have : '*' ∈ (cutHash s).1 := by rw [e]; simp
  exact domChar_ne (h _ (mem_of_mem_cutHash_fst s _ this)) (by decide) rfl

theorem dom_cut_ctl {s : Str} (h : ∀ c ∈ s, isDomChar c = true) : hasCTL (cutHash s).1 = false :=
  hasCTL_false_of_dom fun c hc => h c (mem_of_mem_cutHash_fst s c hc)

/-- Every way of being left as written. -/
theorem fullSource_unchanged (s : Str) (hd : ∀ c ∈ s, isDomChar c = true)
    (hcase : getScheme (cutHash s).1 ≠ .none_ ∨
      ((splitOn '/' (cutHash s).1).headD []).contains ':' = true ∨
      3 ≤ (splitOn '/' (cutHash s).1).length) : fullSource s = some s := by
  cases s with
  | nil => rfl
  | cons c0 t =>
    have hstar := dom_cut_ne_star hd
    unfold fullSource
    simp only [dom_no_pct hd]
    generalize cutHash (c0 :: t) = p at hcase hstar
    obtain ⟨u, frag⟩ := p
    simp only at hcase hstar
    have hs : (u == ['*']) = false := by simpa using hstar
    simp only [hs, Bool.false_eq_true, ↓reduceIte]
    split
    · rfl
    split
    · rfl
    split
    · rfl
    · rfl
    · rename_i hsch
      rcases hcase with hcase | hcase | hcase
      · exact absurd hsch hcase
      · simp only [hcase, ↓reduceIte]
      · split
        · rfl
        · split
          · rename_i h1; rw [h1] at hcase; simp at hcase
          · rename_i h1; rw [h1] at hcase; simp at hcase
          · rfl

/-- The expanding branches, forwards. -/
theorem fullSource_expand (c0 : Char) (t : Str) (hd : ∀ c ∈ c0 :: t, isDomChar c = true)
    (h0 : c0 ≠ '/' ∧ c0 ≠ '.' ∧ c0 ≠ '\\')
    (hsch : getScheme (cutHash (c0 :: t)).1 = .none_)
    (hseg : ':' ∉ (splitOn '/' (cutHash (c0 :: t)).1).headD []) :
    fullSource (c0 :: t) =
      match splitOn '/' (cutHash (c0 :: t)).1 with
      | [p0] => some (githubCom ++ '/' :: bkPlugins ++ '/' :: lastSegment p0 (cutHash (c0 :: t)).2)
      | [p0, p1] => some (githubCom ++ '/' :: p0 ++ '/' :: lastSegment p1 (cutHash (c0 :: t)).2)
      | _ => some (c0 :: t) := by
  have hstar := dom_cut_ne_star hd
  have hctl := dom_cut_ctl hd
  unfold fullSource
  simp only [dom_no_pct hd]
  generalize cutHash (c0 :: t) = p at hsch hseg hstar hctl
  obtain ⟨u, frag⟩ := p
  simp only at hsch hseg hstar hctl
  have hs : (u == ['*']) = false := by simpa using hstar
  have h1 : (c0 == '/') = false := by simpa using h0.1
  have h2 : (c0 == '.') = false := by simpa using h0.2.1
  have h3 : (c0 == '\\') = false := by simpa using h0.2.2
  have h4 : ((splitOn '/' u).headD []).contains ':' = false := by simpa using hseg
  simp only [hs, h1, h2, h3, h4, hctl, hsch, Bool.or_self, Bool.false_eq_true, ↓reduceIte]
  rfl

/-- The branches, backwards: a result is the input or one of the two expansions. -/
theorem fullSource_cases (s r : Str) (hd : ∀ c ∈ s, isDomChar c = true)
    (h : fullSource s = some r) :
    r = s ∨ ∃ x y, '/' ∉ x ∧ '#' ∉ x ∧
      (∀ c ∈ x, isDomChar c = true) ∧ '/' ∉ y ∧ '#' ∉ y ∧ (∀ c ∈ y, isDomChar c = true) ∧
      r = githubCom ++ '/' :: x ++ '/' :: lastSegment y (cutHash s).2 := by
  cases s with
  | nil => left; simpa [fullSource] using h.symm
  | cons c0 t =>
    by_cases h0 : c0 = '/' ∨ c0 = '.' ∨ c0 = '\\'
    · left
      have : fullSource (c0 :: t) = some (c0 :: t) := by
        unfold fullSource
        rcases h0 with h0 | h0 | h0 <;> simp [h0]
      rw [this] at h; exact (Option.some.inj h).symm
    simp only [not_or] at h0
    by_cases hsch : getScheme (cutHash (c0 :: t)).1 ≠ .none_
    · left
      rw [fullSource_unchanged _ hd (Or.inl hsch)] at h; exact (Option.some.inj h).symm
    have hsch := Classical.not_not.1 hsch
    by_cases hseg : ':' ∈ (splitOn '/' (cutHash (c0 :: t)).1).headD []
    · left
      rw [fullSource_unchanged _ hd (Or.inr (Or.inl (by simpa using hseg)))] at h
      exact (Option.some.inj h).symm
    rw [fullSource_expand c0 t hd h0 hsch hseg] at h
    have hu_dom : ∀ c ∈ (cutHash (c0 :: t)).1, isDomChar c = true :=
      fun c hc => hd c (mem_of_mem_cutHash_fst _ c hc)
    have hu_hash := hash_not_mem_cutHash_fst (c0 :: t)
    have hcomp : ∀ comp ∈ splitOn '/' (cutHash (c0 :: t)).1,
        '/' ∉ comp ∧ '#' ∉ comp ∧ ∀ c ∈ comp, isDomChar c = true := fun comp hc =>
      ⟨not_mem_of_mem_splitOn hc, fun hm => hu_hash (mem_of_mem_splitOn hc _ hm),
        fun c hm => hu_dom c (mem_of_mem_splitOn hc c hm)⟩
    generalize hsp : splitOn '/' (cutHash (c0 :: t)).1 = comps at h hcomp
    match comps, h, hcomp with
    | [], _, _ => exact absurd hsp (splitOn_ne_nil _ _)
    | [p0], h, hcomp =>
      right
      obtain ⟨a1, a2, a3⟩ := hcomp p0 List.mem_cons_self
      exact ⟨bkPlugins, p0, slash_not_mem_bkPlugins, hash_not_mem_bkPlugins,
        bkPlugins_dom, a1, a2, a3, (Option.some.inj h).symm⟩
    | [p0, p1], h, hcomp =>
      right
      obtain ⟨a1, a2, a3⟩ := hcomp p0 List.mem_cons_self
      obtain ⟨b1, b2, b3⟩ := hcomp p1 (List.mem_cons_of_mem _ List.mem_cons_self)
      exact ⟨p0, p1, a1, a2, a3, b1, b2, b3, (Option.some.inj h).symm⟩
    | _ :: _ :: _ :: _, h, _ =>
      left; exact (Option.some.inj h).symm

/-- The canonical form is left as written (three or more segments, first one `github.com`-like). -/
theorem three_seg_gen (a b rest : Str) (ha1 : '/' ∉ a) (ha2 : '#' ∉ a) (hb1 : '/' ∉ b)
    (hb2 : '#' ∉ b) (hd : ∀ c ∈ a ++ '/' :: b ++ '/' :: rest, isDomChar c = true) :
    fullSource (a ++ '/' :: b ++ '/' :: rest) = some (a ++ '/' :: b ++ '/' :: rest) := by
  apply fullSource_unchanged _ hd
  right; right
  have e : a ++ '/' :: b ++ '/' :: rest = (a ++ '/' :: b ++ ['/']) ++ rest := by simp
  have hn : '#' ∉ a ++ '/' :: b ++ ['/'] := by
    simp only [List.mem_append, List.mem_cons, not_or]
    exact ⟨⟨ha2, by decide, hb2⟩, by decide, by simp⟩
  rw [e, cutHash_append _ hn]
  have e2 : a ++ '/' :: b ++ ['/'] ++ (cutHash rest).1 = a ++ '/' :: (b ++ '/' :: (cutHash rest).1) := by
    simp
  simp only [e2]
  rw [splitOn_append_sep _ ha1, splitOn_append_sep _ hb1]
  cases hs : splitOn '/' (cutHash rest).1 with
  | nil => exact absurd hs (splitOn_ne_nil _ _)
  | cons x t => simp

/-! ## The documented short forms -/

theorem name_not_mem {n : Str} (h : ∀ c ∈ n, isNameChar c = true) {d : Char}
    (hd : isNameChar d = false) : d ∉ n := fun hm => nameChar_ne (h d hm) hd rfl

theorem nameOrSlash_not_mem {n : Str} (h : ∀ c ∈ n, isNameChar c = true ∨ c = '/') {d : Char}
    (hd : isNameChar d = false) (hd' : d ≠ '/') : d ∉ n := fun hm =>
  (h d hm).elim (fun h1 => nameChar_ne h1 hd rfl) hd'

theorem nameOrSlash_dom {c : Char} (h : isNameChar c = true ∨ c = '/') : isDomChar c = true := by
  rcases h with h | h
  · exact nameChar_dom h
  · subst h; decide

theorem withRef_cons (c0 : Char) (t : Str) (ref : Option Str) :
    withRef (c0 :: t) ref = c0 :: withRef t ref := by
  cases ref <;> rfl

theorem cutHash_withRef {u : Str} (ref : Option Str) (hu : '#' ∉ u) :
    cutHash (withRef u ref) = (u, ref.getD []) := by
  cases ref with
  | none => exact cutHash_of_not_mem hu
  | some r => exact cutHash_append_hash r hu

theorem withRef_dom {u : Str} {ref : Option Str} (hu : ∀ c ∈ u, isNameChar c = true ∨ c = '/')
    (hr : RefOptOK ref) : ∀ c ∈ withRef u ref, isDomChar c = true := by
  cases ref with
  | none => exact fun c hc => nameOrSlash_dom (hu c hc)
  | some r =>
    intro c hc
    simp only [withRef, List.mem_append, List.mem_cons] at hc
    rcases hc with hc | hc | hc
    · exact nameOrSlash_dom (hu c hc)
    · subst hc; decide
    · exact nameOrSlash_dom (hr.2.1 c hc)

theorem lastSegment_withRef (base y : Str) {ref : Option Str} (hr : RefOptOK ref) :
    base ++ '/' :: lastSegment y (ref.getD []) = withRef (base ++ '/' :: y ++ suffix) ref := by
  cases ref with
  | none => simp [lastSegment, withRef]
  | some r =>
    have : r ≠ [] := hr.1
    simp [lastSegment, withRef, this]

/-- A source over name characters and `/` that starts with a name character other than `.`
    takes one of the expanding branches (or the three-segment one). -/
theorem short_form (c0 : Char) (t : Str) (ref : Option Str) (hc0 : isNameChar c0 = true)
    (hdot : c0 ≠ '.') (hu : ∀ c ∈ c0 :: t, isNameChar c = true ∨ c = '/') (hr : RefOptOK ref) :
    fullSource (withRef (c0 :: t) ref) =
      match splitOn '/' (c0 :: t) with
      | [p0] => some (githubCom ++ '/' :: bkPlugins ++ '/' :: lastSegment p0 (ref.getD []))
      | [p0, p1] => some (githubCom ++ '/' :: p0 ++ '/' :: lastSegment p1 (ref.getD []))
      | _ => some (withRef (c0 :: t) ref) := by
  have hcut : cutHash (c0 :: withRef t ref) = (c0 :: t, ref.getD []) := by
    rw [← withRef_cons]
    exact cutHash_withRef ref (nameOrSlash_not_mem hu (by decide) (by decide))
  have hd := withRef_dom hu hr
  have hcolon : ':' ∉ c0 :: t := nameOrSlash_not_mem hu (by decide) (by decide)
  rw [withRef_cons] at hd ⊢
  rw [fullSource_expand c0 (withRef t ref) hd
    ⟨nameChar_ne hc0 (by decide), hdot, nameChar_ne hc0 (by decide)⟩]
  · rw [hcut]
  · rw [hcut]; exact getSchemeFrom_no_colon _ _ _ hcolon
  · rw [hcut]
    cases hs : splitOn '/' (c0 :: t) with
    | nil => exact absurd hs (splitOn_ne_nil _ _)
    | cons x l =>
      have hx : x ∈ splitOn '/' (c0 :: t) := by rw [hs]; exact List.mem_cons_self
      exact fun hm => hcolon (mem_of_mem_splitOn hx _ hm)

theorem bare_name (n : Str) (hn : NameOK n) (ref : Option Str) (hr : RefOptOK ref) :
    fullSource (withRef n ref) =
      some (withRef (githubCom ++ '/' :: bkPlugins ++ '/' :: n ++ suffix) ref) := by
  obtain ⟨hne, hchars, hhead⟩ := hn
  cases n with
  | nil => exact absurd rfl hne
  | cons c0 t =>
    have hdot : c0 ≠ '.' := by intro e; apply hhead; simp [e]
    have hs : '/' ∉ c0 :: t := name_not_mem hchars (by decide)
    rw [short_form c0 t ref (hchars _ List.mem_cons_self) hdot (fun c hc => Or.inl (hchars c hc)) hr,
      splitOn_of_not_mem hs]
    simp only
    rw [lastSegment_withRef _ _ hr]

theorem org_name (o n : Str) (ho : NameOK o) (hn : NameOK n) (ref : Option Str)
    (hr : RefOptOK ref) :
    fullSource (withRef (o ++ '/' :: n) ref) =
      some (withRef (githubCom ++ '/' :: o ++ '/' :: n ++ suffix) ref) := by
  obtain ⟨hne, hchars, hhead⟩ := ho
  cases o with
  | nil => exact absurd rfl hne
  | cons c0 t =>
    have hdot : c0 ≠ '.' := by intro e; apply hhead; simp [e]
    have hso : '/' ∉ c0 :: t := name_not_mem hchars (by decide)
    have hsn : '/' ∉ n := name_not_mem hn.2.1 (by decide)
    have hu : ∀ c ∈ c0 :: (t ++ '/' :: n), isNameChar c = true ∨ c = '/' := by
      intro c hc
      have hc' : c ∈ (c0 :: t) ++ '/' :: n := hc
      rcases List.mem_append.1 hc' with hc | hc
      · exact Or.inl (hchars c hc)
      · rcases List.mem_cons.1 hc with hc | hc
        · exact Or.inr hc
        · exact Or.inl (hn.2.1 c hc)
    rw [List.cons_append, short_form c0 (t ++ '/' :: n) ref (hchars _ List.mem_cons_self) hdot hu hr,
      ← List.cons_append, splitOn_append_sep _ hso, splitOn_of_not_mem hsn]
    simp only
    rw [lastSegment_withRef _ _ hr]

/-! ## Forms left as written -/

theorem paths_unchanged (c : Char) (r : Str) (hc : c = '/' ∨ c = '.' ∨ c = '\\') :
    fullSource (c :: r) = some (c :: r) := by
  unfold fullSource
  rcases hc with hc | hc | hc <;> simp [hc]

theorem scheme_unchanged (a : Char) (sch rest : Str) (ha : isAlpha a = true)
    (hs : ∀ c ∈ sch, isAlpha c = true ∨ isSchemeTail c = true)
    (hdom : ∀ c ∈ a :: sch ++ ':' :: rest, isDomChar c = true) :
    fullSource (a :: sch ++ ':' :: rest) = some (a :: sch ++ ':' :: rest) := by
  apply fullSource_unchanged _ hdom
  left
  have hn : '#' ∉ a :: sch := by
    intro hm
    rcases List.mem_cons.1 hm with hm | hm
    · exact alpha_ne ha (by decide) hm.symm
    · rcases hs _ hm with h | h
      · exact alpha_ne h (by decide) rfl
      · exact schemeTail_ne h (by decide) rfl
  rw [cutHash_append _ hn, cutHash_cons_ne _ (by decide)]
  simp only [List.cons_append]
  rw [getScheme, getSchemeFrom]
  simp only [ha, ↓reduceIte]
  rw [getSchemeFrom_scheme _ _ _ hs]
  simp

theorem scp_unchanged (user host path : Str) (hu : NameOK user)
    (hh : ∀ c ∈ host, isNameChar c = true) (hdom : ∀ c ∈ path, isDomChar c = true) :
    fullSource (user ++ '@' :: host ++ ':' :: path) = some (user ++ '@' :: host ++ ':' :: path) := by
  have hd : ∀ c ∈ user ++ '@' :: host ++ ':' :: path, isDomChar c = true := by
    intro c hc
    simp only [List.mem_append, List.mem_cons] at hc
    rcases hc with (hc | hc | hc) | hc | hc
    · exact nameChar_dom (hu.2.1 c hc)
    · subst hc; decide
    · exact nameChar_dom (hh c hc)
    · subst hc; decide
    · exact hdom c hc
  apply fullSource_unchanged _ hd
  right; left
  have e : user ++ '@' :: host ++ ':' :: path = (user ++ '@' :: host ++ [':']) ++ path := by simp
  have hn : '#' ∉ user ++ '@' :: host ++ [':'] := by
    simp only [List.mem_append, List.mem_cons, not_or]
    exact ⟨⟨name_not_mem hu.2.1 (by decide), by decide, name_not_mem hh (by decide)⟩,
      by decide, by simp⟩
  have hs : '/' ∉ user ++ '@' :: host ++ [':'] := by
    simp only [List.mem_append, List.mem_cons, not_or]
    exact ⟨⟨name_not_mem hu.2.1 (by decide), by decide, name_not_mem hh (by decide)⟩,
      by decide, by simp⟩
  rw [e, cutHash_append _ hn]
  cases hsp : splitOn '/' (cutHash path).1 with
  | nil => exact absurd hsp (splitOn_ne_nil _ _)
  | cons x t =>
    simp only
    rw [splitOn_append hs hsp]
    simp

theorem three_segments_unchanged (a b rest : Str) (ha : NameOK a)
    (hb : ∀ c ∈ b, isNameChar c = true) (hrest : ∀ c ∈ rest, isDomChar c = true)
    (_hnh : '#' ∉ a ++ '/' :: b) :
    fullSource (a ++ '/' :: b ++ '/' :: rest) = some (a ++ '/' :: b ++ '/' :: rest) := by
  apply three_seg_gen a b rest (name_not_mem ha.2.1 (by decide)) (name_not_mem ha.2.1 (by decide))
    (name_not_mem hb (by decide)) (name_not_mem hb (by decide))
  intro c hc
  simp only [List.mem_append, List.mem_cons] at hc
  rcases hc with (hc | hc | hc) | hc | hc
  · exact nameChar_dom (ha.2.1 c hc)
  · subst hc; decide
  · exact nameChar_dom (hb c hc)
  · subst hc; decide
  · exact hrest c hc

/-! ## On the domain: totality, idempotence, closure -/

theorem total_on_dom (s : Str)
    (hd : (∀ c ∈ s, isDomChar c = true) ∧ ((cutHash s).2 = [] ∨
      ∀ comp ∈ splitOn '/' (cutHash s).2, comp ≠ [] ∧ comp ≠ ['.'] ∧ comp ≠ ['.', '.'])) :
    ∃ r, fullSource s = some r := by
  cases s with
  | nil => exact ⟨[], rfl⟩
  | cons c0 t =>
    unfold fullSource
    simp only [dom_no_pct hd.1, Bool.false_eq_true, ↓reduceIte]
    repeat' split
    all_goals exact ⟨_, rfl⟩

theorem canon_dom {x y frag : Str} (hx : ∀ c ∈ x, isDomChar c = true)
    (hy : ∀ c ∈ y, isDomChar c = true) (hf : ∀ c ∈ frag, isDomChar c = true) :
    ∀ c ∈ githubCom ++ '/' :: x ++ '/' :: lastSegment y frag, isDomChar c = true := by
  intro c hc
  rw [lastSegment_eq] at hc
  simp only [List.mem_append, List.mem_cons] at hc
  rcases hc with (hc | hc | hc) | hc | (hc | hc) | hc
  · exact githubCom_dom c hc
  · subst hc; decide
  · exact hx c hc
  · subst hc; decide
  · exact hy c hc
  · exact suffix_dom c hc
  · unfold hashTail at hc
    split at hc
    · simp at hc
    · rcases List.mem_cons.1 hc with hc | hc
      · subst hc; decide
      · exact hf c hc

theorem idempotent (s r : Str)
    (hd : (∀ c ∈ s, isDomChar c = true) ∧ ((cutHash s).2 = [] ∨
      ∀ comp ∈ splitOn '/' (cutHash s).2, comp ≠ [] ∧ comp ≠ ['.'] ∧ comp ≠ ['.', '.']))
    (h : fullSource s = some r) : fullSource r = some r := by
  rcases fullSource_cases s r hd.1 h with e | ⟨x, y, hx1, hx2, hx4, hy1, _, hy3, e⟩
  · rw [e]; rw [e] at h; exact h
  · rw [e]
    exact three_seg_gen _ _ _ slash_not_mem_githubCom hash_not_mem_githubCom hx1 hx2
      (canon_dom hx4 hy3 fun c hc => hd.1 c (mem_of_mem_cutHash_snd s c hc))

theorem result_in_dom (s r : Str)
    (hd : (∀ c ∈ s, isDomChar c = true) ∧ ((cutHash s).2 = [] ∨
      ∀ comp ∈ splitOn '/' (cutHash s).2, comp ≠ [] ∧ comp ≠ ['.'] ∧ comp ≠ ['.', '.']))
    (h : fullSource s = some r) :
    (∀ c ∈ r, isDomChar c = true) ∧ ((cutHash r).2 = [] ∨
      ∀ comp ∈ splitOn '/' (cutHash r).2, comp ≠ [] ∧ comp ≠ ['.'] ∧ comp ≠ ['.', '.']) := by
  rcases fullSource_cases s r hd.1 h with e | ⟨x, y, _, hx2, hx4, _, hy2, hy3, e⟩
  · rw [e]; exact hd
  · subst e
    refine ⟨canon_dom hx4 hy3 fun c hc => hd.1 c (mem_of_mem_cutHash_snd s c hc), ?_⟩
    have hn : '#' ∉ githubCom ++ '/' :: x ++ '/' :: (y ++ suffix) := by
      simp only [List.mem_append, List.mem_cons, not_or]
      exact ⟨⟨hash_not_mem_githubCom, by decide, hx2⟩, by decide, hy2, hash_not_mem_suffix⟩
    have e : githubCom ++ '/' :: x ++ '/' :: lastSegment y (cutHash s).2 =
        (githubCom ++ '/' :: x ++ '/' :: (y ++ suffix)) ++ hashTail (cutHash s).2 := by
      rw [lastSegment_eq]; simp
    rw [e]
    unfold hashTail
    by_cases hf : (cutHash s).2 = []
    · left
      simp only [hf, ↓reduceIte, List.append_nil]
      rw [cutHash_of_not_mem hn]
    · simp only [hf, ↓reduceIte]
      rw [cutHash_append_hash _ hn]
      exact hd.2

end GoPipeline.PluginSrc
