/-
  C02 on structurally well-formed step TREES under env interpolation.

  `Lemmas/StepOK.lean` bridges env interpolation for command steps only (`interpCommand_stepOK`).  Here the
  bridge is extended to every step kind and to step lists (the pipeline's steps):

  * Part A: `TreeFixed tf s` / `TreesFixed tf l`, the condition on the transformer, by structural recursion on
    the step tree; `MapsNodup s` / `MapsNodupList l`, the Go-map invariant "the contents of a wait / input /
    trigger step have pairwise distinct keys" that the model's list representation of Go maps does not enforce
    by typing.
  * Part B: one Go-map walk with fixed top-level keys keeps every lookup (`interpUMapV_lookup`), hence the kind
    the contents select (`selOf_interp`, `selOf_interp_cons`).
  * Part C: `interpStep_stepOK` / `interpSteps_stepsOK`: interpolation keeps `StepOK` and the depth.
    `interpStep_mapsNodup`: the result always has distinct keys (no hypothesis).
  * Part D: the parser's image has distinct keys (`parseStep_mapsNodup`, `parseSteps_mapsNodup`).
  * Part E: parse, interpolate, `SignSteps`, marshal, re-read, re-parse, verify for a step list
    (`interp_then_sign_list`).

  Why `MapsNodup` is needed (not in the task statement, the statement without it is FALSE in the model):
  `StepOK (.wait "" c)` only says that `c` SELECTS the wait kind, and `List.lookup` reads the FIRST entry of a
  key, while a Go-map walk stores entries in turn and the LAST one wins.  On the ill-formed representation
  `[("type", "wait"), ("type", "command")]` the identity transformer turns a `StepOK` wait step into one whose
  contents select the command kind (`wait_dup_counterexample`).  No real Go map has duplicate keys, and the
  parser only produces sorted contents (`parseStep_mapsNodup`), so the composed theorem needs no such hypothesis.
-/
import GoPipeline.Lemmas.StepOK
set_option linter.unusedSimpArgs false
set_option linter.unusedVariables false
namespace GoPipeline.SignedRT
open GoPipeline GoPipeline.Pipe GoPipeline.Parse GoPipeline.Marshal GoPipeline.Signing GoPipeline.Roundtrip
  GoPipeline.Unm

section TreeInterp
open GoPipeline.Interp
variable {E : Type}

/-! ## Part A: the conditions -/

/-- If the Go map `c` has a `type` entry holding a string, the transformer fixes that string. -/
def TypeFixed (tf : String → Except E String) (c : UMap Val) : Prop :=
  ∀ s, (c.getD []).lookup "type" = some (.str s) → tf s = .ok s

mutual
  /-- The transformer leaves the kind-relevant part of the step tree alone:
      * command: `KeysFixed` (top-level keys of the step's four kinds of inline remainder) and the string value
        of the unknown field `type`;
      * wait / input / trigger: every top-level key of the contents and the string value of a `type` entry
        (the scalar form is NOT interpolated by `Step.interpolate`, so nothing is asked of it);
      * group: every top-level key of the unknown fields, the string value of an unknown `type` field, and the
        nested steps recursively (key and label of the group are interpolated, but `StepOK` does not depend
        on them, so nothing is asked);
      * unknown: nothing.
      Values (other than the `type` string), nested keys, env names, plugin configs etc. may change freely. -/
  def TreeFixed (tf : String → Except E String) : Step → Prop
    | .command c => KeysFixed tf c ∧ TypeFixed tf c.rem
    | .wait _ c => RemFixed tf c ∧ TypeFixed tf c
    | .input _ c => RemFixed tf c ∧ TypeFixed tf c
    | .trigger c => RemFixed tf c ∧ TypeFixed tf c
    | .group _ _ ss r =>
      RemFixed tf r ∧ TypeFixed tf r ∧ (match ss with | none => True | some l => TreesFixed tf l)
    | .unknown _ => True
  def TreesFixed (tf : String → Except E String) : List Step → Prop
    | [] => True
    | s :: r => TreeFixed tf s ∧ TreesFixed tf r
end

mutual
  /-- The Go-map contents of wait / input / trigger steps have pairwise distinct keys (true of every Go map;
      the list representation does not enforce it). -/
  def MapsNodup : Step → Prop
    | .command _ => True
    | .wait _ c => ((c.getD []).map (·.1)).Nodup
    | .input _ c => ((c.getD []).map (·.1)).Nodup
    | .trigger c => ((c.getD []).map (·.1)).Nodup
    | .group _ _ ss _ => (match ss with | none => True | some l => MapsNodupList l)
    | .unknown _ => True
  def MapsNodupList : List Step → Prop
    | [] => True
    | s :: r => MapsNodup s ∧ MapsNodupList r
end

theorem treeFixed_group_some (tf : String → Except E String) (k : String) (g : Option String) (l : List Step)
    (r : UMap Val) :
    TreeFixed tf (.group k g (some l) r) = (RemFixed tf r ∧ TypeFixed tf r ∧ TreesFixed tf l) := by
  simp [TreeFixed]

theorem mapsNodup_group_some (k : String) (g : Option String) (l : List Step) (r : UMap Val) :
    MapsNodup (.group k g (some l) r) = MapsNodupList l := by
  simp [MapsNodup]

theorem typeFixed_of_none {tf : String → Except E String} {c : UMap Val}
    (h : (c.getD []).lookup "type" = none) : TypeFixed tf c := by
  intro s hs
  rw [h] at hs
  cases hs

/-- A transformer that fixes every string satisfies every `TypeFixed` condition. -/
theorem typeFixed_of_id {tf : String → Except E String} (hid : ∀ s, tf s = .ok s) (c : UMap Val) :
    TypeFixed tf c :=
  fun s _ => hid s

/-! ## Part B: a Go-map walk with fixed top-level keys keeps lookups and kind selection -/

theorem interpUMapV_sorted (tf : String → Except E String) (c c' : UMap Val) (h : interpUMapV tf c = .ok c') :
    Roundtrip.SortedK (c'.getD []) := by
  cases c with
  | none =>
    simp only [interpUMapV, Except.ok.injEq] at h; subst h
    exact List.Pairwise.nil
  | some kvs =>
    rw [interpUMapV] at h
    obtain ⟨r, hr, rfl⟩ := map_eq_ok h
    exact (interpUMap_inv tf (fun _ => True) kvs (fun _ _ _ _ => trivial) [] r hr List.Pairwise.nil
      (fun _ _ => trivial)).1

theorem interpUMapV_nil (tf : String → Except E String) (c c' : UMap Val) (h : interpUMapV tf c = .ok c')
    (hnil : c.getD [] = []) : c'.getD [] = [] := by
  cases c with
  | none =>
    simp only [interpUMapV, Except.ok.injEq] at h; subst h
    rfl
  | some kvs =>
    simp only [Option.getD_some] at hnil
    subst hnil
    simp only [interpUMapV, interpUMap, Except.map, Except.ok.injEq] at h
    subst h
    rfl

/-- With distinct and fixed top-level keys, every lookup of the walked map is the walked value of the same
    lookup of the original (no hypothesis on the values). -/
theorem interpUMapV_lookup (tf : String → Except E String) (c c' : UMap Val)
    (hnd : ((c.getD []).map (·.1)).Nodup) (hfix : RemFixed tf c) (h : interpUMapV tf c = .ok c') (k : String) :
    match (c.getD []).lookup k with
    | none => (c'.getD []).lookup k = none
    | some v => ∃ v', interpVal tf v = .ok v' ∧ (c'.getD []).lookup k = some v' := by
  cases hl : (c.getD []).lookup k with
  | none =>
    simp only
    rw [lookup_none_iff]
    intro hk
    cases c with
    | none =>
      simp only [interpUMapV, Except.ok.injEq] at h; subst h
      simp at hk
    | some kvs =>
      rw [interpUMapV] at h
      obtain ⟨r, hr, rfl⟩ := map_eq_ok h
      obtain ⟨_, _, h3⟩ := interpUMap_inv tf (fun _ => True) kvs (fun _ _ _ _ => trivial) [] r hr
        List.Pairwise.nil (fun _ _ => trivial)
      rcases h3 k hk with h' | ⟨k0, hk0, hk0'⟩
      · simp at h'
      · rw [hfix k0 hk0] at hk0'
        injection hk0' with e
        subst e
        exact lookup_none_iff.1 hl hk0
  | some v =>
    simp only
    cases c with
    | none => simp at hl
    | some kvs =>
      rw [interpUMapV] at h
      obtain ⟨r, hr, rfl⟩ := map_eq_ok h
      simp only [Option.getD_some] at hl hnd hfix ⊢
      exact (interpUMap_lookup_fixed tf kvs hfix [] r hr).2 hnd k v (Roundtrip.mem_of_lookup hl)

/-- A mapping that selects some kind has no non-string `type`. -/
theorem type_str_of_selOf {m : Entries} {sel : StepKind.Sel} (h : selOf m = .ok sel) :
    ∀ v, m.lookup "type" = some v → ∃ s, v = .str s := by
  intro v hv
  unfold selOf at h
  rw [hv] at h
  cases v with
  | str s => exact ⟨s, rfl⟩
  | _ => simp at h

theorem interp_lookups (tf : String → Except E String) (c c' : UMap Val)
    (hnd : ((c.getD []).map (·.1)).Nodup) (hfix : RemFixed tf c) (htype : TypeFixed tf c)
    (h : interpUMapV tf c = .ok c')
    (hstr : ∀ v, (c.getD []).lookup "type" = some v → ∃ s, v = .str s) :
    (c'.getD []).lookup "type" = (c.getD []).lookup "type" ∧
      ∀ k, ((c'.getD []).lookup k).isSome = ((c.getD []).lookup k).isSome := by
  refine ⟨?_, fun k => ?_⟩
  · have hlt := interpUMapV_lookup tf c c' hnd hfix h "type"
    cases hl : (c.getD []).lookup "type" with
    | none => rw [hl] at hlt; exact hlt
    | some v =>
      rw [hl] at hlt
      obtain ⟨v', hv', hlv'⟩ := hlt
      obtain ⟨s, rfl⟩ := hstr v hl
      rw [interpVal, htype s hl] at hv'
      simp only [Except.map, Except.ok.injEq] at hv'
      subst hv'
      exact hlv'
  · have hlt := interpUMapV_lookup tf c c' hnd hfix h k
    cases hl : (c.getD []).lookup k with
    | none => rw [hl] at hlt; rw [show (c'.getD []).lookup k = none from hlt]
    | some v =>
      rw [hl] at hlt
      obtain ⟨v', _, hlv'⟩ := hlt
      rw [hlv']
      rfl

/-- The walked contents select the same kind. -/
theorem selOf_interp (tf : String → Except E String) (c c' : UMap Val)
    (hnd : ((c.getD []).map (·.1)).Nodup) (hfix : RemFixed tf c) (htype : TypeFixed tf c)
    (h : interpUMapV tf c = .ok c') {sel : StepKind.Sel} (hsel : selOf (c.getD []) = .ok sel) :
    selOf (c'.getD []) = .ok sel := by
  obtain ⟨h1, h2⟩ := interp_lookups tf c c' hnd hfix htype h (type_str_of_selOf hsel)
  rw [← hsel]
  exact selOf_eq_of h1 (fun _ k _ => h2 k)

/-- The same below one descriptor entry (`("group", null)` for a group step's unknown fields). -/
theorem selOf_interp_cons (tf : String → Except E String) (c c' : UMap Val)
    (hnd : ((c.getD []).map (·.1)).Nodup) (hfix : RemFixed tf c) (htype : TypeFixed tf c)
    (h : interpUMapV tf c = .ok c') (k0 : String) (v0 : Val) (hk0 : "type" ≠ k0) {sel : StepKind.Sel}
    (hsel : selOf ((k0, v0) :: c.getD []) = .ok sel) : selOf ((k0, v0) :: c'.getD []) = .ok sel := by
  have hstr : ∀ v, (c.getD []).lookup "type" = some v → ∃ s, v = .str s := by
    intro v hv
    apply type_str_of_selOf hsel v
    rw [lookup_cons_ne _ _ hk0]
    exact hv
  obtain ⟨h1, h2⟩ := interp_lookups tf c c' hnd hfix htype h hstr
  rw [← hsel]
  apply selOf_eq_of
  · rw [lookup_cons_ne _ _ hk0, lookup_cons_ne _ _ hk0]
    exact h1
  · intro _ k _
    rw [Roundtrip.lookup_cons_if, Roundtrip.lookup_cons_if]
    split
    · rfl
    · exact h2 k

/-! ## Part C: interpolation keeps a step tree well-formed -/

mutual
  theorem interpStep_stepOK_aux (tf : String → Except E String) : (s s₁ : Step) → StepOK s → MapsNodup s →
      interpStep .env tf s = .ok s₁ → TreeFixed tf s → StepOK s₁ ∧ stepDepth s₁ = stepDepth s
    | .command c, s₁, hok, _, h, hfix => by
      rw [interpStep_command] at h
      obtain ⟨c₁, hc, rfl⟩ := map_eq_ok h
      rw [TreeFixed] at hfix
      exact ⟨interpCommand_stepOK tf c c₁ hok hc hfix.1 hfix.2, by simp [stepDepth]⟩
    | .wait sc c, s₁, hok, hnd, h, hfix => by
      rw [interpStep_wait] at h
      obtain ⟨c₁, hc, rfl⟩ := map_eq_ok h
      rw [TreeFixed] at hfix
      rw [MapsNodup] at hnd
      refine ⟨?_, by simp [stepDepth]⟩
      rw [StepOK] at hok ⊢
      by_cases hsc : sc = ""
      · rw [if_pos hsc] at hok ⊢
        rcases hok with hnil | hsel
        · exact .inl (interpUMapV_nil tf c c₁ hc hnil)
        · exact .inr (selOf_interp tf c c₁ hnd hfix.1 hfix.2 hc hsel)
      · rw [if_neg hsc] at hok ⊢
        exact hok
    | .input sc c, s₁, hok, hnd, h, hfix => by
      rw [interpStep_input] at h
      obtain ⟨c₁, hc, rfl⟩ := map_eq_ok h
      rw [TreeFixed] at hfix
      rw [MapsNodup] at hnd
      refine ⟨?_, by simp [stepDepth]⟩
      rw [StepOK] at hok ⊢
      by_cases hsc : sc = ""
      · rw [if_pos hsc] at hok ⊢
        exact selOf_interp tf c c₁ hnd hfix.1 hfix.2 hc hok
      · rw [if_neg hsc] at hok ⊢
        exact hok
    | .trigger c, s₁, hok, hnd, h, hfix => by
      rw [interpStep_trigger] at h
      obtain ⟨c₁, hc, rfl⟩ := map_eq_ok h
      rw [TreeFixed] at hfix
      rw [MapsNodup] at hnd
      refine ⟨?_, by simp [stepDepth]⟩
      rw [StepOK] at hok ⊢
      exact selOf_interp tf c c₁ hnd hfix.1 hfix.2 hc hok
    | .group k g none r, s₁, hok, _, _, _ => absurd hok (stepOK_group_none k g r)
    | .group k g (some l) r, s₁, hok, hnd, h, hfix => by
      rw [stepOK_group_some] at hok
      obtain ⟨hR, hsel, hl⟩ := hok
      rw [treeFixed_group_some] at hfix
      obtain ⟨hf1, hf2, hf3⟩ := hfix
      rw [mapsNodup_group_some] at hnd
      rw [interpStep_group_some] at h
      cases hk : tf k with
      | error e => simp [hk] at h
      | ok k' =>
        simp only [hk] at h
        cases hg : optM tf g with
        | error e => simp [hg] at h
        | ok g' =>
          simp only [hg] at h
          cases hl' : interpSteps .env tf l with
          | error e => simp [hl'] at h
          | ok l₁ =>
            simp only [hl'] at h
            cases hr : interpUMapV tf r with
            | error e => simp [hr] at h
            | ok r' =>
              simp only [hr, Except.ok.injEq] at h
              subst h
              obtain ⟨ih1, ih2⟩ := interpSteps_stepsOK_aux tf l l₁ hl hnd hl' hf3
              rw [stepOK_group_some, stepDepth_group_some, stepDepth_group_some, ih2]
              refine ⟨⟨remOK_interp tf _ r r' hR (remSafe_of_fixed hf1 (fun k hk => hR.prim' hk)) hr, ?_, ih1⟩, rfl⟩
              exact selOf_interp_cons tf r r' (nodup_keys_of_sortedK hR.sorted) hf1 hf2 hr "group" .null
                (by decide) hsel
    | .unknown v, s₁, hok, _, h, _ => by
      rw [interpStep_unknown] at h
      obtain ⟨v₁, hv, rfl⟩ := map_eq_ok h
      rw [StepOK] at hok
      exact ⟨stepOK_unknown (interpVal_noUMap tf v hok v₁ hv), by simp [stepDepth]⟩

  theorem interpSteps_stepsOK_aux (tf : String → Except E String) : (l l₁ : List Step) → StepsOK l →
      MapsNodupList l → interpSteps .env tf l = .ok l₁ → TreesFixed tf l →
      StepsOK l₁ ∧ stepsDepth l₁ = stepsDepth l
    | [], l₁, _, _, h, _ => by
      rw [interpSteps_nil] at h
      injection h with h
      subst h
      exact ⟨by simp [StepsOK], rfl⟩
    | s :: r, l₁, hok, hnd, h, hfix => by
      rw [StepsOK] at hok
      rw [MapsNodupList] at hnd
      rw [TreesFixed] at hfix
      rw [interpSteps_cons] at h
      cases hs : interpStep .env tf s with
      | error e => simp [hs] at h
      | ok s₁ =>
        simp only [hs] at h
        cases hr : interpSteps .env tf r with
        | error e => simp [hr] at h
        | ok r₁ =>
          simp only [hr, Except.ok.injEq] at h
          subst h
          obtain ⟨a1, a2⟩ := interpStep_stepOK_aux tf s s₁ hok.1 hnd.1 hs hfix.1
          obtain ⟨b1, b2⟩ := interpSteps_stepsOK_aux tf r r₁ hok.2 hnd.2 hr hfix.2
          refine ⟨by rw [StepsOK]; exact ⟨a1, b1⟩, ?_⟩
          rw [stepsDepth, stepsDepth, a2, b2]
end

/-- (b) Env interpolation keeps a step tree well-formed and its depth, as long as the transformer fixes the
    kind-relevant keys and the `type` strings (`TreeFixed`), on trees whose Go-map contents have distinct
    keys (`MapsNodup`, see the header). -/
theorem interpStep_stepOK (tf : String → Except E String) (s s₁ : Step) (hok : StepOK s) (hnd : MapsNodup s)
    (h : interpStep .env tf s = .ok s₁) (hfix : TreeFixed tf s) : StepOK s₁ ∧ stepDepth s₁ = stepDepth s :=
  interpStep_stepOK_aux tf s s₁ hok hnd h hfix

theorem interpSteps_stepsOK (tf : String → Except E String) (l l₁ : List Step) (hok : StepsOK l)
    (hnd : MapsNodupList l) (h : interpSteps .env tf l = .ok l₁) (hfix : TreesFixed tf l) :
    StepsOK l₁ ∧ stepsDepth l₁ = stepsDepth l :=
  interpSteps_stepsOK_aux tf l l₁ hok hnd h hfix

/-! ### The result of an interpolation always has distinct keys (so the theorem can be iterated) -/

mutual
  theorem interpStep_mapsNodup (kind : TfKind) (tf : String → Except E String) : (s s₁ : Step) →
      interpStep kind tf s = .ok s₁ → MapsNodup s₁
    | .command c, s₁, h => by
      rw [interpStep_command] at h
      obtain ⟨c₁, _, rfl⟩ := map_eq_ok h
      simp [MapsNodup]
    | .wait sc c, s₁, h => by
      rw [interpStep_wait] at h
      obtain ⟨c₁, hc, rfl⟩ := map_eq_ok h
      rw [MapsNodup]
      exact nodup_keys_of_sortedK (interpUMapV_sorted tf c c₁ hc)
    | .input sc c, s₁, h => by
      rw [interpStep_input] at h
      obtain ⟨c₁, hc, rfl⟩ := map_eq_ok h
      rw [MapsNodup]
      exact nodup_keys_of_sortedK (interpUMapV_sorted tf c c₁ hc)
    | .trigger c, s₁, h => by
      rw [interpStep_trigger] at h
      obtain ⟨c₁, hc, rfl⟩ := map_eq_ok h
      rw [MapsNodup]
      exact nodup_keys_of_sortedK (interpUMapV_sorted tf c c₁ hc)
    | .group k g none r, s₁, h => by
      rw [interpStep_group_none] at h
      repeat' split at h
      all_goals first | (cases h; simp [MapsNodup]) | cases h
    | .group k g (some l) r, s₁, h => by
      rw [interpStep_group_some] at h
      cases hk : tf k with
      | error e => simp [hk] at h
      | ok k' =>
        simp only [hk] at h
        cases hg : optM tf g with
        | error e => simp [hg] at h
        | ok g' =>
          simp only [hg] at h
          cases hl' : interpSteps kind tf l with
          | error e => simp [hl'] at h
          | ok l₁ =>
            simp only [hl'] at h
            cases hr : interpUMapV tf r with
            | error e => simp [hr] at h
            | ok r' =>
              simp only [hr, Except.ok.injEq] at h
              subst h
              rw [mapsNodup_group_some]
              exact interpSteps_mapsNodup kind tf l l₁ hl'
    | .unknown v, s₁, h => by
      rw [interpStep_unknown] at h
      obtain ⟨v₁, _, rfl⟩ := map_eq_ok h
      simp [MapsNodup]

  theorem interpSteps_mapsNodup (kind : TfKind) (tf : String → Except E String) : (l l₁ : List Step) →
      interpSteps kind tf l = .ok l₁ → MapsNodupList l₁
    | [], l₁, h => by
      rw [interpSteps_nil] at h
      injection h with h
      subst h
      simp [MapsNodupList]
    | s :: r, l₁, h => by
      rw [interpSteps_cons] at h
      cases hs : interpStep kind tf s with
      | error e => simp [hs] at h
      | ok s₁ =>
        simp only [hs] at h
        cases hr : interpSteps kind tf r with
        | error e => simp [hr] at h
        | ok r₁ =>
          simp only [hr, Except.ok.injEq] at h
          subst h
          rw [MapsNodupList]
          exact ⟨interpStep_mapsNodup kind tf s s₁ hs, interpSteps_mapsNodup kind tf r r₁ hr⟩
end

end TreeInterp

/-! ## Part D: the parser's image has distinct keys -/

def ParsedND (f : Nat) : Prop :=
  ∀ (x : Val) (s : Step) (w : List Warn), parseStep f x = .ok (s, w) → MapsNodup s

theorem parsedND_list_of (f : Nat) (ih : ParsedND f) : (xs : List Val) → (ss : List Step) → (ws : List Warn) →
    parseSteps f xs = .ok (ss, ws) → MapsNodupList ss
  | [], ss, ws, h => by
    rw [parseSteps.eq_1] at h
    simp only [Except.ok.injEq, Prod.mk.injEq] at h
    obtain ⟨rfl, rfl⟩ := h
    simp [MapsNodupList]
  | v :: r, ss, ws, h => by
    obtain ⟨s, w, ss', ws', hs1, hss, rfl, rfl⟩ := parseSteps_cons_ok h
    rw [MapsNodupList]
    exact ⟨ih v s w hs1, parsedND_list_of f ih r ss' ws' hss⟩

theorem parsedND_all : ∀ f, ParsedND f
  | 0 => by
    intro x s w h
    rw [parseStep.eq_1] at h; cases h
  | f + 1 => by
    have ih := parsedND_all f
    intro x s w h
    cases x with
    | str t =>
      rw [parseStep.eq_2] at h
      split at h <;>
        (simp only [Except.ok.injEq, Prod.mk.injEq] at h; obtain ⟨rfl, rfl⟩ := h; simp [MapsNodup])
    | omap m =>
      have hsrt : ((((some (Parse.umapOf m) : UMap Val)).getD []).map (·.1)).Nodup := by
        simp only [Option.getD_some]
        exact nodup_keys_of_sortedK (sortedK_umapOf m)
      rw [parseStep.eq_3] at h
      split at h
      · cases h
      · rename_i sel hsel
        split at h
        · cases h
        · simp only [Except.ok.injEq, Prod.mk.injEq] at h; obtain ⟨rfl, rfl⟩ := h
          simp [MapsNodup]
        · simp only [Except.ok.injEq, Prod.mk.injEq] at h; obtain ⟨rfl, rfl⟩ := h
          simp [MapsNodup]
        · split at h <;>
            (simp only [Except.ok.injEq, Prod.mk.injEq] at h; obtain ⟨rfl, rfl⟩ := h; simp [MapsNodup])
        · simp only [Except.ok.injEq, Prod.mk.injEq] at h; obtain ⟨rfl, rfl⟩ := h
          rw [MapsNodup]; exact hsrt
        · simp only [Except.ok.injEq, Prod.mk.injEq] at h; obtain ⟨rfl, rfl⟩ := h
          rw [MapsNodup]; exact hsrt
        · simp only [Except.ok.injEq, Prod.mk.injEq] at h; obtain ⟨rfl, rfl⟩ := h
          rw [MapsNodup]; exact hsrt
        · split at h
          · rename_i g hg
            simp only [Except.ok.injEq, Prod.mk.injEq] at h; obtain ⟨rfl, rfl⟩ := h
            obtain ⟨key, grp, ss, rfl, hsteps⟩ := parseGroup_ok hg
            rw [mapsNodup_group_some]
            rcases hsteps with ⟨_, rfl⟩ | ⟨xs, _, hps⟩
            · simp [MapsNodupList]
            · exact parsedND_list_of f ih xs ss [] hps
          · simp only [Except.ok.injEq, Prod.mk.injEq] at h; obtain ⟨rfl, rfl⟩ := h
            simp [MapsNodup]
        · simp only [Except.ok.injEq, Prod.mk.injEq] at h; obtain ⟨rfl, rfl⟩ := h
          simp [MapsNodup]
    | null | bool _ | int _ | float _ | time _ | seq _ | umap _ =>
      rw [parseStep.eq_4 _ _ (by intro s h; cases h) (by intro m h; cases h)] at h; cases h

/-- Every step the parser produces holds Go-map contents with distinct (indeed sorted) keys; no hypothesis on
    the document. -/
theorem parseStep_mapsNodup (f : Nat) (x : Val) (s : Step) (w : List Warn) (h : parseStep f x = .ok (s, w)) :
    MapsNodup s :=
  parsedND_all f x s w h

theorem parseSteps_mapsNodup (f : Nat) (xs : List Val) (ss : List Step) (ws : List Warn)
    (h : parseSteps f xs = .ok (ss, ws)) : MapsNodupList ss :=
  parsedND_list_of f (parsedND_all f) xs ss ws h

/-! ## Part E: parse, interpolate, sign, marshal, re-read, re-parse, verify (a step list) -/

/-- A parsed step tree stays well-formed under env interpolation with a `TreeFixed` transformer (the
    `MapsNodup` hypothesis is discharged by the parser). -/
theorem parse_then_interp_step {E : Type} (f : Nat) (x : Val) (s s₁ : Step) (w : List Warn) (hx : NoUMap x)
    (hd : KeysNodup x) (h : parseStep f x = .ok (s, w)) (tf : String → Except E String)
    (hi : Interp.interpStep .env tf s = .ok s₁) (hfix : TreeFixed tf s) : StepOK s₁ ∧ stepDepth s₁ ≤ f := by
  obtain ⟨hok, hdep⟩ := parseStep_stepOK f x s w hx hd h
  obtain ⟨h1, h2⟩ := interpStep_stepOK tf s s₁ hok (parseStep_mapsNodup f x s w h) hi hfix
  exact ⟨h1, by rw [h2]; exact hdep⟩

theorem parse_then_interp_list {E : Type} (f : Nat) (xs : List Val) (l l₁ : List Step) (ws : List Warn)
    (hx : NoUMapList xs) (hd : KeysNodupList xs) (h : parseSteps f xs = .ok (l, ws))
    (tf : String → Except E String) (hi : Interp.interpSteps .env tf l = .ok l₁) (hfix : TreesFixed tf l) :
    StepsOK l₁ ∧ stepsDepth l₁ ≤ f := by
  obtain ⟨hok, hdep⟩ := parseSteps_stepsOK f xs l ws hx hd h
  obtain ⟨h1, h2⟩ := interpSteps_stepsOK tf l l₁ hok (parseSteps_mapsNodup f xs l ws h) hi hfix
  exact ⟨h1, by rw [h2]; exact hdep⟩

/-- (c) The pipeline's steps: parsed, interpolated with a `TreeFixed` transformer, signed by `SignSteps`,
    marshalled, re-read and re-parsed with the same fuel: every command step of the result carries a
    verifying signature. -/
theorem interp_then_sign_list {E : Type} (S : SigScheme) (render : S.Sig → String)
    (parseSig : String → Option S.Sig) (hrender : ∀ s, parseSig (render s) = some s)
    (f : Nat) (xs : List Val) (l l₁ : List Step) (ws : List Warn) (hx : NoUMapList xs) (hd : KeysNodupList xs)
    (h : parseSteps f xs = .ok (l, ws))
    (tf : String → Except E String) (hi : Interp.interpSteps .env tf l = .ok l₁) (hfix : TreesFixed tf l)
    (hs : StableSteps l₁)
    (k : S.Key) (alg repo : String) (penv env₁ : List (String × String)) (henv : EnvExtends penv env₁)
    (signed : List Step) (hsign : signSteps S render k alg repo penv l₁ = .ok signed) :
    ∃ js ss' ws', mSteps signed = .ok js ∧ parseSteps f (rereadJList js) = .ok (ss', ws') ∧
      VerifiesAllList S parseSig (S.pubOf k) repo env₁ ss' := by
  obtain ⟨hok₁, hdep₁⟩ := parse_then_interp_list f xs l l₁ ws hx hd h tf hi hfix
  exact signed_list_roundtrip_ok S render parseSig k alg repo penv env₁ hrender l₁ hok₁ hs f hdep₁ henv signed hsign

/-- The same for the typed pipeline: `(*Pipeline).Interpolate` (the part after the env block) on a pipeline
    whose steps were parsed from `xs`. -/
theorem interp_then_sign_pipeline {E : Type} (S : SigScheme) (render : S.Sig → String)
    (parseSig : String → Option S.Sig) (hrender : ∀ s, parseSig (render s) = some s)
    (f : Nat) (xs : List Val) (l : List Step) (ws : List Warn) (hx : NoUMapList xs) (hd : KeysNodupList xs)
    (h : parseSteps f xs = .ok (l, ws))
    (tf : String → Except E String) (p p₁ : Pipeline) (hp : p.steps = some l)
    (hi : Interp.interpPipelineRest tf p = .ok p₁) (hfix : TreesFixed tf l) :
    ∃ l₁, p₁.steps = some l₁ ∧ StepsOK l₁ ∧ stepsDepth l₁ ≤ f ∧
      (StableSteps l₁ → ∀ (k : S.Key) (alg repo : String) (penv env₁ : List (String × String)),
        EnvExtends penv env₁ → ∀ signed, signSteps S render k alg repo penv l₁ = .ok signed →
        ∃ js ss' ws', mSteps signed = .ok js ∧ parseSteps f (rereadJList js) = .ok (ss', ws') ∧
          VerifiesAllList S parseSig (S.pubOf k) repo env₁ ss') := by
  unfold Interp.interpPipelineRest at hi
  rw [hp] at hi
  cases hl : Interp.interpSteps .env tf l with
  | error e => simp [Interp.optM, hl, Except.map] at hi
  | ok l₁ =>
    simp only [Interp.optM, hl, Except.map] at hi
    cases hr : Interp.interpUMapV tf p.rem with
    | error e => simp [hr] at hi
    | ok rem =>
      simp only [hr, Except.ok.injEq] at hi
      subst hi
      obtain ⟨hok₁, hdep₁⟩ := parse_then_interp_list f xs l l₁ ws hx hd h tf hl hfix
      refine ⟨l₁, rfl, hok₁, hdep₁, fun hs k alg repo penv env₁ henv signed hsign => ?_⟩
      exact signed_list_roundtrip_ok S render parseSig k alg repo penv env₁ hrender l₁ hok₁ hs f hdep₁ henv
        signed hsign

/-! ## The `MapsNodup` hypothesis of `interpStep_stepOK` cannot be dropped -/

/-- A `StepOK` wait step on an ill-formed Go-map representation (two `type` entries): the IDENTITY transformer
    (which is `TreeFixed` for every tree) yields contents that select the command kind. -/
theorem wait_dup_counterexample :
    let tf : String → Except Unit String := fun s => .ok s
    let s : Step := .wait "" (some [("type", .str "wait"), ("type", .str "command")])
    let s₁ : Step := .wait "" (some [("type", .str "command")])
    StepOK s ∧ TreeFixed tf s ∧ ¬ MapsNodup s ∧ Interp.interpStep .env tf s = .ok s₁ ∧ ¬ StepOK s₁ := by
  intro tf s s₁
  have h1 : selOf [("type", Val.str "wait"), ("type", .str "command")] = .ok (.known .wait) := by rfl
  have h2 : selOf [("type", Val.str "command")] = .ok (.known .command) := by rfl
  refine ⟨?_, ?_, ?_, ?_, ?_⟩
  · simp only [s, StepOK, if_pos, Option.getD_some]
    exact .inr h1
  · simp only [s, TreeFixed]
    exact ⟨fun _ _ => rfl, fun _ _ => rfl⟩
  · simp [s, MapsNodup]
  · rfl
  · simp only [s₁, StepOK, if_pos, Option.getD_some]
    rw [h2]
    simp

end GoPipeline.SignedRT
