/-
  C08 — lemmas behind `Props/C08.lean`: order-significant mappings keep document order.

  * `specPairs_plain`, `plain_mapping_document_order`: on a mapping without merge keys the walk yields the
    written pairs in written order.
  * `specMergeAll_appends`, `specPairs_appends`: the merge walk only ever appends to what it has yielded.
  * `ssElems_keys`, `env_parse_order`, `env_marshal_order`, `env_block_order`: the pipeline `env` block.
  * `plugins_mapping_order`: plugins written as one mapping.
  * `reread_keeps_keys`, `reread_id`: an ordered tree survives encode-then-decode.
-/
import GoPipeline.Lemmas.Yaml
import GoPipeline.Lemmas.Parse03
import GoPipeline.Model.Roundtrip
namespace GoPipeline.Order
open GoPipeline GoPipeline.Pipe GoPipeline.Parse GoPipeline.Marshal GoPipeline.Unm GoPipeline.Roundtrip

/-! ## (2) the merge walk -/

/-- Without merge keys `specPairs` appends exactly one pair per written pair, with the written value node. -/
theorem specPairs_plain (s : Yaml.Store) : ∀ (ps : List (Nat × Nat)) (f : Nat) (have_ : List String)
    (out : List (String × Nat)) (r : List String × List (String × Nat)),
    (∀ p ∈ ps, ∀ kn, s[p.1]? = some kn → kn.isMerge = false) →
    Yaml.specPairs s f have_ out ps = .ok r → r.2.map (·.2) = out.map (·.2) ++ ps.map (·.2) := by
  intro ps
  induction ps with
  | nil =>
    intro f have_ out r _ h
    cases f with
    | zero => simp [Yaml.specPairs] at h
    | succ f =>
      simp only [Yaml.specPairs, Except.ok.injEq] at h
      subst h
      simp
  | cons p rest ih =>
    obtain ⟨k, v⟩ := p
    intro f have_ out r hp h
    cases f with
    | zero => simp [Yaml.specPairs] at h
    | succ f =>
      simp only [Yaml.specPairs] at h
      cases hs : s[k]? with
      | none => simp [hs] at h
      | some kn =>
        have hm : kn.isMerge = false := hp (k, v) List.mem_cons_self kn hs
        simp only [hs, hm, Bool.false_eq_true, ↓reduceIte] at h
        cases hck : Yaml.canonicalKey s (f + 1) k with
        | error e => simp [hck] at h
        | ok ck =>
          simp only [hck] at h
          rw [ih f have_ _ r (fun q hq => hp q (List.mem_cons_of_mem _ hq)) h]
          simp

theorem plain_mapping_document_order (s : Yaml.Store) (f : Nat) (ps : List (Nat × Nat))
    (hplain : ∀ p ∈ ps, ∀ kn, s[p.1]? = some kn → kn.isMerge = false)
    (out : List String × List (String × Nat))
    (h : Yaml.specPairs s f [] [] ps = .ok out) :
    out.2.map (·.2) = ps.map (·.2) := by
  have := specPairs_plain s ps f [] [] out hplain h
  simpa using this

theorem specMergeAll_appends (s : Yaml.Store) : ∀ (srcs : List Nat) (f : Nat) (have_ : List String)
    (out : List (String × Nat)) (r : List String × List (String × Nat)),
    Yaml.specMergeAll s f have_ out srcs = .ok r → ∃ added, r.2 = out ++ added := by
  intro srcs
  induction srcs with
  | nil =>
    intro f have_ out r h
    cases f with
    | zero => simp [Yaml.specMergeAll] at h
    | succ f =>
      simp only [Yaml.specMergeAll, Except.ok.injEq] at h
      subst h
      exact ⟨[], by simp⟩
  | cons src rest ih =>
    intro f have_ out r h
    cases f with
    | zero => simp [Yaml.specMergeAll] at h
    | succ f =>
      simp only [Yaml.specMergeAll] at h
      cases hc : Yaml.specContent s f src with
      | error e => simp [hc] at h
      | ok ps =>
        simp only [hc, Yaml.mergeInto_eq] at h
        obtain ⟨added, ha⟩ := ih f _ _ r h
        exact ⟨Yaml.fresh have_ ps ++ added, by rw [ha, List.append_assoc]⟩

theorem specPairs_appends (s : Yaml.Store) (f : Nat) (have_ : List String)
    (out : List (String × Nat)) (ps : List (Nat × Nat)) (r : List String × List (String × Nat))
    (h : Yaml.specPairs s f have_ out ps = .ok r) : ∃ added, r.2 = out ++ added := by
  induction ps generalizing f have_ out with
  | nil =>
    cases f with
    | zero => simp [Yaml.specPairs] at h
    | succ f =>
      simp only [Yaml.specPairs, Except.ok.injEq] at h
      subst h
      exact ⟨[], by simp⟩
  | cons p rest ih =>
    obtain ⟨k, v⟩ := p
    cases f with
    | zero => simp [Yaml.specPairs] at h
    | succ f =>
      simp only [Yaml.specPairs] at h
      cases hs : s[k]? with
      | none => simp [hs] at h
      | some kn =>
        simp only [hs] at h
        cases hm : kn.isMerge <;> simp only [hm, Bool.false_eq_true, ↓reduceIte] at h
        case true =>
          cases hsrc : Yaml.specSources s (f + 1) (some v) with
          | error e => simp [hsrc] at h
          | ok srcs =>
            simp only [hsrc] at h
            cases hma : Yaml.specMergeAll s f have_ out srcs with
            | error e => simp [hma] at h
            | ok mid =>
              obtain ⟨have', out'⟩ := mid
              simp only [hma] at h
              obtain ⟨a1, h1⟩ := specMergeAll_appends s srcs f have_ out _ hma
              obtain ⟨a2, h2⟩ := ih f have' out' h
              simp only at h1
              exact ⟨a1 ++ a2, by rw [h2, h1, List.append_assoc]⟩
        case false =>
          cases hck : Yaml.canonicalKey s (f + 1) k with
          | error e => simp [hck] at h
          | ok ck =>
            simp only [hck] at h
            obtain ⟨a2, h2⟩ := ih f have_ _ h
            exact ⟨(ck, v) :: a2, by rw [h2]; simp⟩

/-! ## (3) the pipeline env block -/

theorem ssElems_keys : (kvs : List (String × Val)) → (l : List (String × String)) → ssElems kvs = .ok l →
    l.map (·.1) = kvs.map (·.1)
  | [], l, h => by
    simp only [ssElems, Except.ok.injEq] at h
    subst h; rfl
  | (k, v) :: r, l, h => by
    unfold ssElems at h
    cases hs : strOf v with
    | error e => simp [hs] at h
    | ok s =>
      simp only [hs, map_ok_iff] at h
      obtain ⟨l', hr, rfl⟩ := h
      simp [ssElems_keys r l' hr]

theorem env_parse_order (kvs : List (String × Val)) (l : List (String × String))
    (h : parseEnvOrdered (.omap kvs) = .ok (some l)) : l.map (·.1) = kvs.map (·.1) := by
  simp only [parseEnvOrdered, map_ok_iff, Option.some.injEq] at h
  obtain ⟨l', hr, rfl⟩ := h
  exact ssElems_keys kvs _ hr

/-- In a Go-map store built from a list, the last entry of the list reads back. -/
theorem lookup_umapOf_append_last (l : List (String × Val)) (k : String) (v : Val) :
    (Marshal.umapOf (l ++ [(k, v)])).lookup k = some v := by
  rw [marshal_umapOf_eq]
  unfold Parse.umapOf
  rw [List.foldl_append]
  simp only [List.foldl_cons, List.foldl_nil]
  rw [lookup_umapInsert, if_pos rfl]

theorem env_marshal_order (p : Pipeline) (l : List (String × String)) (j : Val)
    (he : p.env = some l) (h : mPipeline p = .ok j) :
    ∃ kvs, j = .umap kvs ∧ kvs.lookup "env" = some (.omap (l.map fun (k, v) => (k, .str v))) := by
  unfold mPipeline at h
  simp only [he] at h
  split at h
  · cases h
  · rename_i sv _
    simp only [Except.ok.injEq] at h
    subst h
    unfold inlineFriendly
    refine ⟨_, rfl, ?_⟩
    have : ∀ (a : List (String × Val)) (x y : String × Val), a ++ ([x] ++ [y]) = (a ++ [x]) ++ [y] := by
      intro a x y; simp
    rw [this]
    exact lookup_umapOf_append_last _ _ _

theorem fieldOf_pipeline_env (m : Entries) :
    fieldOf (taken m Gen.struct_Pipeline) "Env" = m.lookup "env" := by
  unfold Gen.struct_Pipeline
  rw [fieldOf_taken_cons_ne (by simp [Field.name]),
    fieldOf_taken_cons_eq (n := "Env") rfl rfl (by simp [Field.name])]
  simp only [fieldTake, firstAlias, Field.key, Field.aliases]
  cases m.lookup "env" <;> simp

/-- Inversion of a successful `parsePipeline` on a mapping: the env field. -/
theorem parsePipeline_env {m : Entries} {p : Pipeline} {ws : List Warn}
    (h : parsePipeline (.omap m) = .ok (p, ws)) :
    optField (taken m Gen.struct_Pipeline) "Env" none parseEnvOrdered = .ok p.env := by
  unfold parsePipeline at h
  simp only at h
  split at h
  · cases h
  · rename_i steps ws1 _
    split at h
    · cases h
    · rename_i env henv
      rw [henv]
      cases steps with
      | none =>
        simp only [Except.ok.injEq, Prod.mk.injEq] at h
        rw [← h.1]
      | some ss =>
        simp only [Except.ok.injEq, Prod.mk.injEq] at h
        rw [← h.1]

theorem env_block_order (m : Entries) (kvs : List (String × Val)) (p : Pipeline) (ws : List Warn) (j : Val)
    (_hm : (m.map (·.1)).Nodup) (henv : m.lookup "env" = some (.omap kvs))
    (hp : parsePipeline (.omap m) = .ok (p, ws)) (hj : mPipeline p = .ok j) :
    ∃ out kvs', j = .umap out ∧ out.lookup "env" = some (.omap kvs') ∧ kvs'.map (·.1) = kvs.map (·.1) := by
  have hf : fieldOf (taken m Gen.struct_Pipeline) "Env" = some (.omap kvs) := by
    rw [fieldOf_pipeline_env, henv]
  have he := parsePipeline_env hp
  rw [optField_some hf] at he
  cases hpe : p.env with
  | none =>
    rw [hpe] at he
    simp only [parseEnvOrdered, map_ok_iff] at he
    obtain ⟨_, _, hx⟩ := he
    cases hx
  | some l =>
    rw [hpe] at he
    obtain ⟨out, h1, h2⟩ := env_marshal_order p l j hpe hj
    refine ⟨out, _, h1, h2, ?_⟩
    rw [← env_parse_order kvs l he]
    simp [List.map_map, Function.comp_def]

/-! ## (4) plugins written as one mapping -/

theorem plugins_mapping_order (kvs : List (String × Val)) (hne : kvs ≠ []) :
    ∃ l, parsePlugins (.omap kvs) = .ok (some l) ∧
      l.map (fun p => p.map (·.source)) = kvs.map (fun kv => some kv.1) ∧
      ∃ js, mPlugins l = .seq js ∧ js.length = kvs.length := by
  refine ⟨_, plugins_from_mapping kvs hne, ?_, _, rfl, ?_⟩
  · simp [List.map_map, Function.comp_def]
  · simp

/-! ## (6) encode then decode -/

mutual
  theorem rereadJKVs_keys : (kvs : List (String × Val)) → (rereadJKVs kvs).map (·.1) = kvs.map (·.1)
    | [] => by simp [rereadJKVs]
    | (k, v) :: r => by simp [rereadJKVs, rereadJKVs_keys r]
end

theorem reread_keeps_keys (kvs : List (String × Val)) :
    (rereadJKVs kvs).map (·.1) = kvs.map (·.1) := rereadJKVs_keys kvs

mutual
  theorem reread_id : (v : Val) → NoUMap v → rereadJ v = v
    | .null, _ => by simp [rereadJ]
    | .bool _, _ => by simp [rereadJ]
    | .int _, _ => by simp [rereadJ]
    | .float _, _ => by simp [rereadJ]
    | .time _, _ => by simp [rereadJ]
    | .str _, _ => by simp [rereadJ]
    | .seq xs, h => by
      simp only [NoUMap] at h
      simp [rereadJ, rereadList_id xs h]
    | .omap kvs, h => by
      simp only [NoUMap] at h
      simp [rereadJ, rereadKVs_id kvs h]
    | .umap _, h => by simp [NoUMap] at h
  theorem rereadList_id : (xs : List Val) → NoUMapList xs → rereadJList xs = xs
    | [], _ => by simp [rereadJList]
    | x :: r, h => by
      simp only [NoUMapList] at h
      simp [rereadJList, reread_id x h.1, rereadList_id r h.2]
  theorem rereadKVs_id : (kvs : List (String × Val)) → NoUMapKVs kvs → rereadJKVs kvs = kvs
    | [], _ => by simp [rereadJKVs]
    | (k, v) :: r, h => by
      simp only [NoUMapKVs] at h
      simp [rereadJKVs, reread_id v h.1, rereadKVs_id r h.2]
end

end GoPipeline.Order
