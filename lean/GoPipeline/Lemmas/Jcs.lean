/-
  C14 — lemmas about the JSON model and the RFC 8785 serialiser (`Model/Jcs.lean`) and about the
  signing payload (`Model/Signing.lean`).

  1. Strings: the escape family `escChar` is prefix-free and never starts with `"`, so a quoted string
     followed by anything determines the string and the rest (`quote_inj`).
  2. Values: `ser` is injective on well-formed values, even when followed by a delimiter-initial rest
     (`ser_inj`, mutual structural recursion over the nested inductive `J`); `ser_injective`.
  3. `canon` preserves well-formedness and `a ≃ canon a`; `Equiv` is an equivalence; `jcs_injective`
     (its `KeysDistinct` hypotheses are not needed by the proof).
  4. `Equiv` values have equal canonical forms (`jcs_order_insensitive`): sorted permutations with
     distinct keys are unique because `keyLe` is a total order on key strings (`utf16s` is injective).
  5.–8. The payload lemmas used by `Props/C14.lean`.
-/
import Batteries.Data.List.Basic   -- `List.Forall₂`
import GoPipeline.Model.Signing
import GoPipeline.Lemmas.PluginSource
import GoPipeline.Lemmas.PluginSourceIdem   -- `Marshal.fullSource_idem`
namespace GoPipeline.Jcs

/-! ## 1. Strings -/

theorem hexDigit_inj : ∀ a < 16, ∀ b < 16, hexDigit a = hexDigit b → a = b := by decide

def unSimple (d : Char) : Char :=
  if d = '"' then '"' else if d = '\\' then '\\' else if d = 'b' then '\x08' else if d = 't' then '\t'
  else if d = 'n' then '\n' else if d = 'f' then '\x0c' else '\r'

theorem escChar_kind (c : Char) :
    (escChar c = [c] ∧ c ≠ '"' ∧ c ≠ '\\') ∨
    (∃ d, escChar c = ['\\', d] ∧ d ≠ 'u' ∧ c = unSimple d) ∨
    (escChar c = ['\\', 'u', '0', '0', hexDigit (c.toNat / 16), hexDigit (c.toNat % 16)] ∧ c.toNat < 32) := by
  unfold escChar
  split
  · subst_vars; exact .inr (.inl ⟨_, rfl, by decide, by decide⟩)
  split
  · subst_vars; exact .inr (.inl ⟨_, rfl, by decide, by decide⟩)
  split
  · subst_vars; exact .inr (.inl ⟨_, rfl, by decide, by decide⟩)
  split
  · subst_vars; exact .inr (.inl ⟨_, rfl, by decide, by decide⟩)
  split
  · subst_vars; exact .inr (.inl ⟨_, rfl, by decide, by decide⟩)
  split
  · subst_vars; exact .inr (.inl ⟨_, rfl, by decide, by decide⟩)
  split
  · subst_vars; exact .inr (.inl ⟨_, rfl, by decide, by decide⟩)
  split
  · exact .inr (.inr ⟨rfl, by assumption⟩)
  · exact .inl ⟨rfl, by assumption, by assumption⟩

theorem escChar_inj (c₁ c₂ : Char) (x₁ x₂ : List Char) (h : escChar c₁ ++ x₁ = escChar c₂ ++ x₂) :
    c₁ = c₂ ∧ x₁ = x₂ := by
  have key : c₁ = c₂ := by
    rcases escChar_kind c₁ with ⟨e₁, h₁, h₁'⟩ | ⟨d₁, e₁, h₁, h₁'⟩ | ⟨e₁, h₁⟩ <;>
    rcases escChar_kind c₂ with ⟨e₂, h₂, h₂'⟩ | ⟨d₂, e₂, h₂, h₂'⟩ | ⟨e₂, h₂⟩ <;>
    rw [e₁, e₂] at h <;> simp only [List.cons_append, List.nil_append, List.cons.injEq] at h
    · exact h.1
    · exact absurd h.1 h₁'
    · exact absurd h.1 h₁'
    · exact absurd h.1.symm h₂'
    · rw [h₁', h₂', h.2.1]
    · exact absurd h.2.1 h₁
    · exact absurd h.1.symm h₂'
    · exact absurd h.2.1.symm h₂
    · have a := hexDigit_inj _ (by omega) _ (by omega) h.2.2.2.2.1
      have b := hexDigit_inj _ (by omega) _ (by omega) h.2.2.2.2.2.1
      exact Char.toNat_inj.mp (by omega)
  subst key
  exact ⟨rfl, List.append_cancel_left h⟩

theorem escChar_ne_quote (c : Char) (x y : List Char) : escChar c ++ x ≠ '"' :: y := by
  intro h
  rcases escChar_kind c with ⟨e₁, h₁, h₁'⟩ | ⟨d₁, e₁, h₁, h₁'⟩ | ⟨e₁, h₁⟩ <;>
    rw [e₁] at h <;> simp only [List.cons_append, List.nil_append, List.cons.injEq] at h
  · exact h₁ h.1
  · exact absurd h.1 (by decide)
  · exact absurd h.1 (by decide)

theorem escStr_inj : ∀ (s₁ s₂ r₁ r₂ : List Char), escStr s₁ ++ '"' :: r₁ = escStr s₂ ++ '"' :: r₂ → s₁ = s₂ ∧ r₁ = r₂
  | [], [], r₁, r₂, h => by simpa [escStr] using h
  | [], c :: s, r₁, r₂, h => by
    simp only [escStr, List.nil_append, List.append_assoc] at h
    exact absurd h.symm (escChar_ne_quote _ _ _)
  | c :: s, [], r₁, r₂, h => by
    simp only [escStr, List.nil_append, List.append_assoc] at h
    exact absurd h (escChar_ne_quote _ _ _)
  | c₁ :: s₁, c₂ :: s₂, r₁, r₂, h => by
    simp only [escStr, List.append_assoc] at h
    obtain ⟨rfl, h'⟩ := escChar_inj _ _ _ _ h
    obtain ⟨rfl, rfl⟩ := escStr_inj s₁ s₂ r₁ r₂ h'
    exact ⟨rfl, rfl⟩

theorem quote_inj (s₁ s₂ r₁ r₂ : List Char) (h : quote s₁ ++ r₁ = quote s₂ ++ r₂) : s₁ = s₂ ∧ r₁ = r₂ := by
  simp only [quote, List.cons_append, List.append_assoc, List.cons.injEq, true_and, List.nil_append] at h
  exact escStr_inj _ _ _ _ h

/-! ## 2. Values -/

/-- The rest after a value is empty or starts with a delimiter. -/
def Delim (r : List Char) : Prop := ∀ c t, r = c :: t → isNumChar c = false

theorem delim_nil : Delim [] := by intro c t h; cases h
theorem delim_comma (t : List Char) : Delim (',' :: t) := by
  intro c t h; cases h; decide
theorem delim_rbracket (t : List Char) : Delim (']' :: t) := by
  intro c t h; cases h; decide
theorem delim_rbrace (t : List Char) : Delim ('}' :: t) := by
  intro c t h; cases h; decide

theorem numTok_inj : ∀ (l₁ l₂ r₁ r₂ : List Char), (∀ c ∈ l₁, isNumChar c = true) → (∀ c ∈ l₂, isNumChar c = true) →
    Delim r₁ → Delim r₂ → l₁ ++ r₁ = l₂ ++ r₂ → l₁ = l₂ ∧ r₁ = r₂
  | [], [], r₁, r₂, _, _, _, _, h => ⟨rfl, by simpa using h⟩
  | [], c :: l, r₁, r₂, _, h₂, d₁, _, h => by
    simp only [List.nil_append, List.cons_append] at h
    have := d₁ _ _ h
    simp [h₂ c (by simp)] at this
  | c :: l, [], r₁, r₂, h₁, _, _, d₂, h => by
    simp only [List.nil_append, List.cons_append] at h
    have := d₂ _ _ h.symm
    simp [h₁ c (by simp)] at this
  | c₁ :: l₁, c₂ :: l₂, r₁, r₂, h₁, h₂, d₁, d₂, h => by
    simp only [List.cons_append, List.cons.injEq] at h
    obtain ⟨rfl, rfl⟩ := numTok_inj l₁ l₂ r₁ r₂ (fun c hc => h₁ c (List.mem_cons_of_mem _ hc))
      (fun c hc => h₂ c (List.mem_cons_of_mem _ hc)) d₁ d₂ h.2
    exact ⟨by rw [h.1], rfl⟩

/-- How a number literal may start. -/
def NumStart (c : Char) : Prop := c = '-' ∨ ('0' ≤ c ∧ c ≤ '9')

instance (c : Char) : Decidable (NumStart c) := by unfold NumStart; infer_instance

theorem num_head {l : List Char} (h : NumOK l) : ∃ c t, l = c :: t ∧ NumStart c := by
  obtain ⟨h1, _, h3⟩ := h
  cases l with
  | nil => exact absurd rfl h1
  | cons c t => exact ⟨c, t, rfl, h3 c rfl⟩

theorem null_list : "null".toList = ['n','u','l','l'] := by decide
theorem true_list : "true".toList = ['t','r','u','e'] := by decide
theorem false_list : "false".toList = ['f','a','l','s','e'] := by decide

/-- Constructor tag, and the tag the first character of a serialisation stands for. -/
def tag : J → Nat
  | .null => 0 | .bool true => 1 | .bool false => 2 | .num _ => 3 | .str _ => 4 | .arr _ => 5 | .obj _ => 6

def classify (c : Char) : Nat :=
  if c = 'n' then 0 else if c = 't' then 1 else if c = 'f' then 2 else if c = '"' then 4
  else if c = '[' then 5 else if c = '{' then 6 else if NumStart c then 3 else 7

theorem classify_numStart {c : Char} (h : NumStart c) : classify c = 3 := by
  have h1 : c ≠ 'n' := by rintro rfl; revert h; decide
  have h2 : c ≠ 't' := by rintro rfl; revert h; decide
  have h3 : c ≠ 'f' := by rintro rfl; revert h; decide
  have h4 : c ≠ '"' := by rintro rfl; revert h; decide
  have h5 : c ≠ '[' := by rintro rfl; revert h; decide
  have h6 : c ≠ '{' := by rintro rfl; revert h; decide
  simp [classify, h1, h2, h3, h4, h5, h6, h]

theorem tag_of_head : (a : J) → WF a → (r t : List Char) → (c : Char) → ser a ++ r = c :: t → classify c = tag a
  | .null, _, r, t, c, h => by
    simp only [ser, null_list, List.cons_append, List.cons.injEq] at h; rw [← h.1]; rfl
  | .bool true, _, r, t, c, h => by
    simp only [ser, true_list, List.cons_append, List.cons.injEq] at h; rw [← h.1]; rfl
  | .bool false, _, r, t, c, h => by
    simp only [ser, false_list, List.cons_append, List.cons.injEq] at h; rw [← h.1]; rfl
  | .num l, hw, r, t, c, h => by
    obtain ⟨d, t', rfl, hd⟩ := num_head (by simpa [WF] using hw)
    simp only [ser, List.cons_append, List.cons.injEq] at h
    rw [← h.1]; exact classify_numStart hd
  | .str s, _, r, t, c, h => by
    simp only [ser, quote, List.cons_append, List.cons.injEq] at h; rw [← h.1]; rfl
  | .arr xs, _, r, t, c, h => by
    simp only [ser, List.cons_append, List.cons.injEq] at h; rw [← h.1]; rfl
  | .obj xs, _, r, t, c, h => by
    simp only [ser, List.cons_append, List.cons.injEq] at h; rw [← h.1]; rfl

theorem ser_ne_nil : (a : J) → WF a → ser a ≠ []
  | .null, _ => by simp [ser, null_list]
  | .bool true, _ => by simp [ser, true_list]
  | .bool false, _ => by simp [ser, false_list]
  | .num l, hw => by
    obtain ⟨d, t', rfl, hd⟩ := num_head (by simpa [WF] using hw)
    simp [ser]
  | .str s, _ => by simp [ser, quote]
  | .arr xs, _ => by simp [ser]
  | .obj xs, _ => by simp [ser]

theorem tag_eq {a b : J} {r₁ r₂ : List Char} (ha : WF a) (hb : WF b) (h : ser a ++ r₁ = ser b ++ r₂) :
    tag a = tag b := by
  cases e : ser a with
  | nil => exact absurd e (ser_ne_nil a ha)
  | cons c t =>
    rw [← tag_of_head a ha r₁ (t ++ r₁) c (by rw [e]; rfl), ← tag_of_head b hb r₂ (t ++ r₁) c (by rw [← h, e]; rfl)]

/-- A serialised value does not start with a closing bracket. -/
theorem ser_ne_close {a : J} (ha : WF a) {r t : List Char} {c : Char} (hc : classify c = 7)
    (h : ser a ++ r = c :: t) : False := by
  have := tag_of_head a ha r t c h
  rw [hc] at this
  cases a with
  | bool b => cases b <;> simp [tag] at this
  | _ => simp [tag] at this

/-- What follows an array element: `]` or `,` and the remaining elements. -/
def ltail (xs : List J) (r : List Char) : List Char :=
  match xs with
  | [] => ']' :: r
  | _ :: _ => ',' :: (serList xs ++ ']' :: r)

theorem serList_cons (x : J) (xs : List J) (r : List Char) :
    serList (x :: xs) ++ ']' :: r = ser x ++ ltail xs r := by
  cases xs <;> simp [serList, ltail]

theorem ltail_delim (xs : List J) (r : List Char) : Delim (ltail xs r) := by
  cases xs with
  | nil => exact delim_rbracket _
  | cons _ _ => exact delim_comma _

theorem ltail_eq {xs ys : List J} {r₁ r₂ : List Char} (h : ltail xs r₁ = ltail ys r₂) :
    serList xs ++ ']' :: r₁ = serList ys ++ ']' :: r₂ := by
  cases xs <;> cases ys <;> simp_all [ltail, serList]

/-- What follows an object member. -/
def mtail (m : List (List Char × J)) (r : List Char) : List Char :=
  match m with
  | [] => '}' :: r
  | _ :: _ => ',' :: (serMembers m ++ '}' :: r)

theorem serMembers_cons (k : List Char) (v : J) (m : List (List Char × J)) (r : List Char) :
    serMembers ((k, v) :: m) ++ '}' :: r = quote k ++ ':' :: (ser v ++ mtail m r) := by
  cases m <;> simp [serMembers, mtail]

theorem mtail_delim (m : List (List Char × J)) (r : List Char) : Delim (mtail m r) := by
  cases m with
  | nil => exact delim_rbrace _
  | cons _ _ => exact delim_comma _

theorem mtail_eq {xs ys : List (List Char × J)} {r₁ r₂ : List Char} (h : mtail xs r₁ = mtail ys r₂) :
    serMembers xs ++ '}' :: r₁ = serMembers ys ++ '}' :: r₂ := by
  cases xs <;> cases ys <;> simp_all [mtail, serMembers]

mutual
  theorem ser_inj : (a b : J) → (r₁ r₂ : List Char) → WF a → WF b → Delim r₁ → Delim r₂ →
      ser a ++ r₁ = ser b ++ r₂ → a = b ∧ r₁ = r₂
    | .null, b, r₁, r₂, ha, hb, _, _, h => by
      have ht := tag_eq ha hb h
      rcases b with _ | (_ | _) | l₂ | s₂ | ys | kvs₂ <;> try (simp [tag] at ht; done)
      exact ⟨rfl, List.append_cancel_left h⟩
    | .bool true, b, r₁, r₂, ha, hb, _, _, h => by
      have ht := tag_eq ha hb h
      rcases b with _ | (_ | _) | l₂ | s₂ | ys | kvs₂ <;> try (simp [tag] at ht; done)
      exact ⟨rfl, List.append_cancel_left h⟩
    | .bool false, b, r₁, r₂, ha, hb, _, _, h => by
      have ht := tag_eq ha hb h
      rcases b with _ | (_ | _) | l₂ | s₂ | ys | kvs₂ <;> try (simp [tag] at ht; done)
      exact ⟨rfl, List.append_cancel_left h⟩
    | .num l, b, r₁, r₂, ha, hb, d₁, d₂, h => by
      have ht := tag_eq ha hb h
      rcases b with _ | (_ | _) | l₂ | s₂ | ys | kvs₂ <;> try (simp [tag] at ht; done)
      have ha' : NumOK l := by simpa [WF] using ha
      have hb' : NumOK l₂ := by simpa [WF] using hb
      obtain ⟨rfl, rfl⟩ := numTok_inj l l₂ r₁ r₂ ha'.2.1 hb'.2.1 d₁ d₂ h
      exact ⟨rfl, rfl⟩
    | .str s, b, r₁, r₂, ha, hb, _, _, h => by
      have ht := tag_eq ha hb h
      rcases b with _ | (_ | _) | l₂ | s₂ | ys | kvs₂ <;> try (simp [tag] at ht; done)
      obtain ⟨rfl, rfl⟩ := quote_inj s s₂ r₁ r₂ h
      exact ⟨rfl, rfl⟩
    | .arr xs, b, r₁, r₂, ha, hb, _, _, h => by
      have ht := tag_eq ha hb h
      rcases b with _ | (_ | _) | l₂ | s₂ | ys | kvs₂ <;> try (simp [tag] at ht; done)
      simp only [ser, List.cons_append, List.append_assoc, List.cons.injEq, true_and, List.nil_append] at h
      obtain ⟨rfl, rfl⟩ := serList_inj xs ys r₁ r₂ (by simpa [WF] using ha) (by simpa [WF] using hb) h
      exact ⟨rfl, rfl⟩
    | .obj kvs, b, r₁, r₂, ha, hb, _, _, h => by
      have ht := tag_eq ha hb h
      rcases b with _ | (_ | _) | l₂ | s₂ | ys | kvs₂ <;> try (simp [tag] at ht; done)
      simp only [ser, List.cons_append, List.append_assoc, List.cons.injEq, true_and, List.nil_append] at h
      obtain ⟨rfl, rfl⟩ := serMembers_inj kvs kvs₂ r₁ r₂ (by simpa [WF] using ha) (by simpa [WF] using hb) h
      exact ⟨rfl, rfl⟩
  theorem serList_inj : (xs ys : List J) → (r₁ r₂ : List Char) → WFList xs → WFList ys →
      serList xs ++ ']' :: r₁ = serList ys ++ ']' :: r₂ → xs = ys ∧ r₁ = r₂
    | [], [], r₁, r₂, _, _, h => by simpa [serList] using h
    | [], y :: ys, r₁, r₂, _, hy, h => by
      rw [serList_cons] at h
      simp only [serList, List.nil_append] at h
      exact (ser_ne_close (by simp [WFList] at hy; exact hy.1) (by decide) h.symm).elim
    | x :: xs, [], r₁, r₂, hx, _, h => by
      rw [serList_cons] at h
      simp only [serList, List.nil_append] at h
      exact (ser_ne_close (by simp [WFList] at hx; exact hx.1) (by decide) h).elim
    | x :: xs, y :: ys, r₁, r₂, hx, hy, h => by
      rw [serList_cons, serList_cons] at h
      simp only [WFList] at hx hy
      obtain ⟨rfl, ht⟩ := ser_inj x y _ _ hx.1 hy.1 (ltail_delim _ _) (ltail_delim _ _) h
      obtain ⟨rfl, rfl⟩ := serList_inj xs ys r₁ r₂ hx.2 hy.2 (ltail_eq ht)
      exact ⟨rfl, rfl⟩
  theorem serMembers_inj : (xs ys : List (List Char × J)) → (r₁ r₂ : List Char) → WFMembers xs → WFMembers ys →
      serMembers xs ++ '}' :: r₁ = serMembers ys ++ '}' :: r₂ → xs = ys ∧ r₁ = r₂
    | [], [], r₁, r₂, _, _, h => by simpa [serMembers] using h
    | [], (k, y) :: ys, r₁, r₂, _, _, h => by
      rw [serMembers_cons] at h
      simp [serMembers, quote] at h
    | (k, x) :: xs, [], r₁, r₂, _, _, h => by
      rw [serMembers_cons] at h
      simp [serMembers, quote] at h
    | (k₁, x) :: xs, (k₂, y) :: ys, r₁, r₂, hx, hy, h => by
      rw [serMembers_cons, serMembers_cons] at h
      simp only [WFMembers] at hx hy
      obtain ⟨rfl, h'⟩ := quote_inj _ _ _ _ h
      simp only [List.cons.injEq, true_and] at h'
      obtain ⟨rfl, ht⟩ := ser_inj x y _ _ hx.1 hy.1 (mtail_delim _ _) (mtail_delim _ _) h'
      obtain ⟨rfl, rfl⟩ := serMembers_inj xs ys r₁ r₂ hx.2 hy.2 (mtail_eq ht)
      exact ⟨rfl, rfl⟩
end

theorem ser_injective (a b : J) (ha : WF a) (hb : WF b) (h : ser a = ser b) : a = b :=
  (ser_inj a b [] [] ha hb delim_nil delim_nil (by simpa using h)).1

/-! ## 3. `canon` and `Equiv` -/

theorem insertMember_perm (kv : List Char × J) : (l : List (List Char × J)) → (insertMember kv l).Perm (kv :: l)
  | [] => .refl _
  | m :: r => by
    unfold insertMember
    split
    · exact ((insertMember_perm kv r).cons m).trans (.swap _ _ _)
    · exact .refl _

theorem sortMembers_perm : (l : List (List Char × J)) → (sortMembers l).Perm l
  | [] => .refl _
  | kv :: r => (insertMember_perm kv _).trans ((sortMembers_perm r).cons kv)

theorem wfList_iff : (l : List J) → (WFList l ↔ ∀ x ∈ l, WF x)
  | [] => by simp [WFList]
  | x :: r => by simp [WFList, wfList_iff r]

theorem wfMembers_iff : (l : List (List Char × J)) → (WFMembers l ↔ ∀ p ∈ l, WF p.2)
  | [] => by simp [WFMembers]
  | (k, v) :: r => by simp [WFMembers, wfMembers_iff r]

theorem canonList_eq : (l : List J) → canonList l = l.map canon
  | [] => rfl
  | x :: r => by simp [canonList, canonList_eq r]

theorem canonMembers_eq : (l : List (List Char × J)) → canonMembers l = l.map (fun p => (p.1, canon p.2))
  | [] => rfl
  | (k, v) :: r => by simp [canonMembers, canonMembers_eq r]

mutual
  theorem canon_wf : (a : J) → WF a → WF (canon a)
    | .null, h => by simpa [canon] using h
    | .bool _, h => by simpa [canon] using h
    | .num _, h => by simpa [canon] using h
    | .str _, h => by simpa [canon] using h
    | .arr xs, h => by
      simp only [canon, WF] at h ⊢
      exact canonList_wf xs h
    | .obj kvs, h => by
      simp only [canon, WF] at h ⊢
      rw [wfMembers_iff]
      intro p hp
      exact (wfMembers_iff _).1 (canonMembers_wf kvs h) p ((sortMembers_perm _).mem_iff.1 hp)
  theorem canonList_wf : (xs : List J) → WFList xs → WFList (canonList xs)
    | [], _ => by simp [canonList, WFList]
    | x :: r, h => by
      simp only [canonList, WFList] at h ⊢
      exact ⟨canon_wf x h.1, canonList_wf r h.2⟩
  theorem canonMembers_wf : (kvs : List (List Char × J)) → WFMembers kvs → WFMembers (canonMembers kvs)
    | [], _ => by simp [canonMembers, WFMembers]
    | (k, v) :: r, h => by
      simp only [canonMembers, WFMembers] at h ⊢
      exact ⟨canon_wf v h.1, canonMembers_wf r h.2⟩
end

/-! ### `Forall₂` toolkit -/

section Forall₂
variable {α β γ : Type}
open List

theorem forall₂_perm_left {R : α → β → Prop} {xs xs' : List α} (hp : xs.Perm xs') :
    ∀ {ys : List β}, Forall₂ R xs ys → ∃ ys', ys.Perm ys' ∧ Forall₂ R xs' ys' := by
  induction hp with
  | nil => intro ys h; exact ⟨ys, .refl _, h⟩
  | cons x _ ih =>
    intro ys h
    cases h with
    | cons h1 h2 =>
      obtain ⟨ys', p, f⟩ := ih h2
      exact ⟨_ :: ys', p.cons _, .cons h1 f⟩
  | swap x y l =>
    intro ys h
    cases h with
    | cons h1 h2 =>
      cases h2 with
      | cons h3 h4 => exact ⟨_, .swap _ _ _, .cons h3 (.cons h1 h4)⟩
  | trans _ _ ih1 ih2 =>
    intro ys h
    obtain ⟨ys', p, f⟩ := ih1 h
    obtain ⟨ys'', p', f'⟩ := ih2 f
    exact ⟨ys'', p.trans p', f'⟩

theorem forall₂_flip {R : α → β → Prop} {xs : List α} {ys : List β} (h : Forall₂ R xs ys) :
    Forall₂ (fun b a => R a b) ys xs := by
  induction h with
  | nil => exact .nil
  | cons h1 _ ih => exact .cons h1 ih

theorem forall₂_perm_right {R : α → β → Prop} {xs : List α} {ys ys' : List β} (h : Forall₂ R xs ys)
    (hp : ys.Perm ys') : ∃ xs', xs.Perm xs' ∧ Forall₂ R xs' ys' := by
  obtain ⟨xs', p, f⟩ := forall₂_perm_left hp (forall₂_flip h)
  exact ⟨xs', p, forall₂_flip f⟩

theorem forall₂_mono {R S : α → β → Prop} {xs : List α} {ys : List β} (h : Forall₂ R xs ys)
    (hm : ∀ x ∈ xs, ∀ y, R x y → S x y) : Forall₂ S xs ys := by
  induction h with
  | nil => exact .nil
  | cons h1 _ ih =>
    exact .cons (hm _ (by simp) _ h1) (ih fun x hx => hm x (List.mem_cons_of_mem _ hx))

theorem forall₂_comp {R : α → β → Prop} {S : β → γ → Prop} {xs : List α} {ys : List β} (h : Forall₂ R xs ys) :
    ∀ {zs : List γ}, Forall₂ S ys zs → Forall₂ (fun a c => ∃ b, R a b ∧ S b c) xs zs := by
  induction h with
  | nil => intro zs h'; cases h'; exact .nil
  | cons h1 _ ih => intro zs h'; cases h' with | cons h3 h4 => exact .cons ⟨_, h1, h3⟩ (ih h4)

theorem forall₂_refl {R : α → α → Prop} : (xs : List α) → (∀ x ∈ xs, R x x) → Forall₂ R xs xs
  | [], _ => .nil
  | x :: r, h => .cons (h x (by simp)) (forall₂_refl r fun y hy => h y (List.mem_cons_of_mem _ hy))

theorem forall₂_mem_left {R : α → β → Prop} {xs : List α} {ys : List β} (h : Forall₂ R xs ys) :
    ∀ x ∈ xs, ∃ y ∈ ys, R x y := by
  induction h with
  | nil => intro x hx; cases hx
  | cons h1 _ ih =>
    intro x hx
    rcases List.mem_cons.1 hx with rfl | hx
    · exact ⟨_, by simp, h1⟩
    · obtain ⟨y, hy, r⟩ := ih x hx
      exact ⟨y, List.mem_cons_of_mem _ hy, r⟩

end Forall₂

/-- Same key, related values. -/
def MemRel (R : J → J → Prop) (p q : List Char × J) : Prop := p.1 = q.1 ∧ R p.2 q.2

theorem equivList_to : (xs ys : List J) → EquivList xs ys → List.Forall₂ Equiv xs ys
  | [], _, h => by cases h; exact .nil
  | x :: xs, _, h => by
    cases h with
    | cons h1 h2 => exact .cons h1 (equivList_to xs _ h2)

theorem equivList_of {xs ys : List J} (h : List.Forall₂ Equiv xs ys) : EquivList xs ys := by
  induction h with
  | nil => exact .nil
  | cons h1 _ ih => exact .cons h1 ih

theorem equivMembers_to : (xs ys : List (List Char × J)) → EquivMembers xs ys → List.Forall₂ (MemRel Equiv) xs ys
  | [], _, h => by cases h; exact .nil
  | x :: xs, _, h => by
    cases h with
    | cons h1 h2 => exact .cons ⟨rfl, h1⟩ (equivMembers_to xs _ h2)

theorem equivMembers_of {xs ys : List (List Char × J)} (h : List.Forall₂ (MemRel Equiv) xs ys) :
    EquivMembers xs ys := by
  induction h with
  | nil => exact .nil
  | @cons p q _ _ h1 _ ih =>
    obtain ⟨k, x⟩ := p
    obtain ⟨k', y⟩ := q
    obtain ⟨e, h1⟩ := h1
    simp only at e h1
    subst e
    exact .cons h1 ih

mutual
  theorem equiv_refl : (a : J) → Equiv a a
    | .null => .null
    | .bool _ => .bool _
    | .num _ => .num _
    | .str _ => .str _
    | .arr xs => .arr (equivList_refl xs)
    | .obj kvs => .obj (.refl _) (equivMembers_refl kvs)
  theorem equivList_refl : (xs : List J) → EquivList xs xs
    | [] => .nil
    | x :: r => .cons (equiv_refl x) (equivList_refl r)
  theorem equivMembers_refl : (kvs : List (List Char × J)) → EquivMembers kvs kvs
    | [] => .nil
    | (_, v) :: r => .cons (equiv_refl v) (equivMembers_refl r)
end

mutual
  theorem equiv_symm : (a b : J) → Equiv a b → Equiv b a
    | .null, _, h => by cases h; exact .null
    | .bool _, _, h => by cases h; exact .bool _
    | .num _, _, h => by cases h; exact .num _
    | .str _, _, h => by cases h; exact .str _
    | .arr xs, _, h => by
      cases h with
      | arr hl =>
        exact .arr (equivList_of (forall₂_flip (forall₂_mono (equivList_to _ _ hl) (equiv_symm_list xs))))
    | .obj kvs, _, h => by
      cases h with
      | obj hp hm =>
        have h2 := forall₂_flip (forall₂_mono (equivMembers_to _ _ hm)
          (S := fun p q => MemRel Equiv q p)
          (fun p hp' q hpq => ⟨hpq.1.symm, equiv_symm_members kvs p (hp.mem_iff.2 hp') q.2 hpq.2⟩))
        obtain ⟨m', hp', hm'⟩ := forall₂_perm_right h2 hp.symm
        exact .obj hp' (equivMembers_of hm')
  theorem equiv_symm_list : (xs : List J) → ∀ x ∈ xs, ∀ b, Equiv x b → Equiv b x
    | [], x, hx, _, _ => by cases hx
    | y :: ys, x, hx, b, h => by
      rcases List.mem_cons.1 hx with e | hx'
      · rw [e] at h ⊢; exact equiv_symm y b h
      · exact equiv_symm_list ys x hx' b h
  theorem equiv_symm_members : (kvs : List (List Char × J)) → ∀ p ∈ kvs, ∀ b, Equiv p.2 b → Equiv b p.2
    | [], p, hp, _, _ => by cases hp
    | (k, v) :: r, p, hp, b, h => by
      rcases List.mem_cons.1 hp with e | hp'
      · rw [e] at h ⊢; exact equiv_symm v b h
      · exact equiv_symm_members r p hp' b h
end

mutual
  theorem equiv_trans : (a b c : J) → Equiv a b → Equiv b c → Equiv a c
    | .null, _, _, h₁, h₂ => by cases h₁; exact h₂
    | .bool _, _, _, h₁, h₂ => by cases h₁; exact h₂
    | .num _, _, _, h₁, h₂ => by cases h₁; exact h₂
    | .str _, _, _, h₁, h₂ => by cases h₁; exact h₂
    | .arr xs, _, _, h₁, h₂ => by
      cases h₁ with
      | arr hl₁ =>
        cases h₂ with
        | arr hl₂ =>
          exact .arr (equivList_of (forall₂_mono (forall₂_comp (equivList_to _ _ hl₁) (equivList_to _ _ hl₂))
            (fun x hx z ⟨y, h1, h2⟩ => equiv_trans_list xs x hx y z h1 h2)))
    | .obj kvs, _, _, h₁, h₂ => by
      cases h₁ with
      | obj hp₁ hm₁ =>
        cases h₂ with
        | obj hp₂ hm₂ =>
          obtain ⟨m1', q, f⟩ := forall₂_perm_right (equivMembers_to _ _ hm₁) hp₂
          refine .obj (hp₁.trans q) (equivMembers_of (forall₂_mono (forall₂_comp f (equivMembers_to _ _ hm₂)) ?_))
          intro p hp r ⟨y, h1, h2⟩
          exact ⟨h1.1.trans h2.1, equiv_trans_members kvs p ((hp₁.trans q).mem_iff.2 hp) y.2 r.2 h1.2 h2.2⟩
  theorem equiv_trans_list : (xs : List J) → ∀ x ∈ xs, ∀ b c, Equiv x b → Equiv b c → Equiv x c
    | [], x, hx, _, _, _, _ => by cases hx
    | y :: ys, x, hx, b, c, h₁, h₂ => by
      rcases List.mem_cons.1 hx with e | hx'
      · rw [e] at h₁ ⊢; exact equiv_trans y b c h₁ h₂
      · exact equiv_trans_list ys x hx' b c h₁ h₂
  theorem equiv_trans_members : (kvs : List (List Char × J)) → ∀ p ∈ kvs, ∀ b c, Equiv p.2 b → Equiv b c → Equiv p.2 c
    | [], p, hp, _, _, _, _ => by cases hp
    | (k, v) :: r, p, hp, b, c, h₁, h₂ => by
      rcases List.mem_cons.1 hp with e | hp'
      · rw [e] at h₁ ⊢; exact equiv_trans v b c h₁ h₂
      · exact equiv_trans_members r p hp' b c h₁ h₂
end

mutual
  theorem equiv_canon : (a : J) → Equiv a (canon a)
    | .null => .null
    | .bool _ => .bool _
    | .num _ => .num _
    | .str _ => .str _
    | .arr xs => by rw [canon]; exact .arr (equivList_canon xs)
    | .obj kvs => by
      rw [canon]
      obtain ⟨mid, p, f⟩ := forall₂_perm_right (equivMembers_to _ _ (equivMembers_canon kvs))
        (sortMembers_perm (canonMembers kvs)).symm
      exact .obj p (equivMembers_of f)
  theorem equivList_canon : (xs : List J) → EquivList xs (canonList xs)
    | [] => .nil
    | x :: r => .cons (equiv_canon x) (equivList_canon r)
  theorem equivMembers_canon : (kvs : List (List Char × J)) → EquivMembers kvs (canonMembers kvs)
    | [] => .nil
    | (_, v) :: r => .cons (equiv_canon v) (equivMembers_canon r)
end

theorem jcs_injective (a b : J) (ha : WF a) (hb : WF b) (_hka : KeysDistinct a) (_hkb : KeysDistinct b)
    (h : jcs a = jcs b) : Equiv a b := by
  have hc : canon a = canon b := ser_injective _ _ (canon_wf a ha) (canon_wf b hb) h
  have h1 := equiv_canon a
  rw [hc] at h1
  exact equiv_trans _ _ _ h1 (equiv_symm _ _ (equiv_canon b))

/-! ## 4. Canonical order -/

theorem char_range (c : Char) : c.toNat < 55296 ∨ (57343 < c.toNat ∧ c.toNat < 1114112) := by
  have := c.valid
  unfold UInt32.isValidChar Nat.isValidChar at this
  exact this

theorem utf16_inj (c₁ c₂ : Char) (x₁ x₂ : List Nat) (h : utf16 c₁ ++ x₁ = utf16 c₂ ++ x₂) :
    c₁ = c₂ ∧ x₁ = x₂ := by
  have r₁ := char_range c₁
  have r₂ := char_range c₂
  have key : c₁ = c₂ := by
    apply Char.toNat_inj.mp
    unfold utf16 at h
    simp only at h
    split at h <;> split at h <;>
      simp only [List.cons_append, List.nil_append, List.cons.injEq] at h <;> omega
  subst key
  exact ⟨rfl, List.append_cancel_left h⟩

theorem utf16s_inj : (s₁ s₂ : List Char) → utf16s s₁ = utf16s s₂ → s₁ = s₂
  | [], [], _ => rfl
  | [], c :: s, h => by
    simp only [utf16s, List.flatMap_nil, List.flatMap_cons] at h
    unfold utf16 at h; simp only at h; split at h <;> simp at h
  | c :: s, [], h => by
    simp only [utf16s, List.flatMap_nil, List.flatMap_cons] at h
    unfold utf16 at h; simp only at h; split at h <;> simp at h
  | c₁ :: s₁, c₂ :: s₂, h => by
    simp only [utf16s, List.flatMap_cons] at h
    obtain ⟨rfl, h'⟩ := utf16_inj _ _ _ _ h
    rw [utf16s_inj s₁ s₂ h']

theorem natListLt_asymm : (a b : List Nat) → natListLt a b = true → natListLt b a = false
  | [], [], _ => by simp [natListLt]
  | [], _ :: _, _ => by simp [natListLt]
  | _ :: _, [], h => by simp [natListLt] at h
  | a :: as, b :: bs, h => by
    rw [natListLt] at h ⊢
    by_cases h1 : a < b
    · have : ¬ b < a := by omega
      simp [this, h1]
    · by_cases h2 : b < a
      · simp [h1, h2] at h
      · simp only [h1, h2, if_false] at h ⊢
        exact natListLt_asymm as bs h

theorem natListLt_connex : (a b : List Nat) → natListLt a b = false → natListLt b a = false → a = b
  | [], [], _, _ => rfl
  | [], _ :: _, h, _ => by simp [natListLt] at h
  | _ :: _, [], _, h => by simp [natListLt] at h
  | a :: as, b :: bs, h, h' => by
    rw [natListLt] at h h'
    by_cases h1 : a < b
    · simp [h1] at h
    · by_cases h2 : b < a
      · simp [h2] at h'
      · simp only [h1, h2, if_false] at h h'
        have : a = b := by omega
        rw [this, natListLt_connex as bs h h']

/-- `≤` on code-unit lists (as "not greater") is transitive. -/
theorem natListLe_trans : (a b c : List Nat) → natListLt b a = false → natListLt c b = false → natListLt c a = false
  | [], _, [], _, _ => by simp [natListLt]
  | [], _, _ :: _, _, _ => by simp [natListLt]
  | _ :: _, [], _, h, _ => by simp [natListLt] at h
  | _ :: _, _ :: _, [], _, h => by simp [natListLt] at h
  | x :: as, y :: bs, z :: cs, h₁, h₂ => by
    rw [natListLt] at h₁ h₂ ⊢
    by_cases hyx : y < x
    · simp [hyx] at h₁
    · by_cases hzy : z < y
      · simp [hzy] at h₂
      · by_cases hxy : x < y
        · have h1 : ¬ z < x := by omega
          have h2 : x < z := by omega
          simp [h1, h2]
        · by_cases hyz : y < z
          · have h1 : ¬ z < x := by omega
            have h2 : x < z := by omega
            simp [h1, h2]
          · have h1 : ¬ z < x := by omega
            have h2 : ¬ x < z := by omega
            simp only [hyx, hxy, hzy, hyz, h1, h2, if_false] at h₁ h₂ ⊢
            exact natListLe_trans as bs cs h₁ h₂

theorem keyLe_total {a b : List Char} (h : keyLe a b = false) : keyLe b a = true := by
  simp only [keyLe, Bool.not_eq_false', Bool.not_eq_true'] at h ⊢
  exact natListLt_asymm _ _ h

theorem keyLe_trans {a b c : List Char} (h₁ : keyLe a b = true) (h₂ : keyLe b c = true) : keyLe a c = true := by
  simp only [keyLe, Bool.not_eq_true'] at h₁ h₂ ⊢
  exact natListLe_trans _ _ _ h₁ h₂

theorem keyLe_antisymm {a b : List Char} (h₁ : keyLe a b = true) (h₂ : keyLe b a = true) : a = b := by
  simp only [keyLe, Bool.not_eq_true'] at h₁ h₂
  exact utf16s_inj _ _ (natListLt_connex _ _ h₂ h₁)

/-- Sorted by key. -/
def SortedKeys (l : List (List Char × J)) : Prop := l.Pairwise (fun p q => keyLe p.1 q.1 = true)

theorem insertMember_sorted (kv : List Char × J) : (l : List (List Char × J)) → SortedKeys l →
    SortedKeys (insertMember kv l)
  | [], _ => by simp [insertMember, SortedKeys]
  | m :: r, h => by
    unfold SortedKeys at h
    rw [List.pairwise_cons] at h
    unfold insertMember
    split
    · rename_i hle
      unfold SortedKeys
      rw [List.pairwise_cons]
      refine ⟨fun q hq => ?_, insertMember_sorted kv r h.2⟩
      rcases List.mem_cons.1 ((insertMember_perm kv r).mem_iff.1 hq) with rfl | hq'
      · exact hle
      · exact h.1 q hq'
    · rename_i hle
      have hle' : keyLe kv.1 m.1 = true := keyLe_total (by simpa using hle)
      unfold SortedKeys
      rw [List.pairwise_cons, List.pairwise_cons]
      refine ⟨fun q hq => ?_, h⟩
      rcases List.mem_cons.1 hq with rfl | hq'
      · exact hle'
      · exact keyLe_trans hle' (h.1 q hq')

theorem sortMembers_sorted : (l : List (List Char × J)) → SortedKeys (sortMembers l)
  | [] => by simp [sortMembers, SortedKeys]
  | kv :: r => insertMember_sorted kv _ (sortMembers_sorted r)

theorem eq_of_key_eq {l : List (List Char × J)} (hn : (l.map (·.1)).Nodup) :
    ∀ {p q : List Char × J}, p ∈ l → q ∈ l → p.1 = q.1 → p = q := by
  induction l with
  | nil => intro p q hp; cases hp
  | cons m r ih =>
    simp only [List.map_cons, List.nodup_cons, List.mem_map, not_exists, not_and] at hn
    intro p q hp hq e
    rcases List.mem_cons.1 hp with rfl | hp' <;> rcases List.mem_cons.1 hq with rfl | hq'
    · rfl
    · exact absurd e.symm (hn.1 q hq')
    · exact absurd e (hn.1 p hp')
    · exact ih hn.2 hp' hq' e

/-- Permutations with pairwise distinct keys sort to the same list. -/
theorem sortMembers_eq_of_perm {l₁ l₂ : List (List Char × J)} (hp : l₁.Perm l₂) (hn : (l₁.map (·.1)).Nodup) :
    sortMembers l₁ = sortMembers l₂ := by
  have p : (sortMembers l₁).Perm (sortMembers l₂) :=
    (sortMembers_perm l₁).trans (hp.trans (sortMembers_perm l₂).symm)
  refine List.Perm.eq_of_pairwise ?_ (sortMembers_sorted l₁) (sortMembers_sorted l₂) p
  intro a b ha hb h1 h2
  have ha' : a ∈ l₁ := (sortMembers_perm l₁).mem_iff.1 ha
  have hb' : b ∈ l₁ := hp.mem_iff.2 ((sortMembers_perm l₂).mem_iff.1 hb)
  exact eq_of_key_eq hn ha' hb' (keyLe_antisymm h1 h2)

theorem keysDistinctList_iff : (l : List J) → (KeysDistinctList l ↔ ∀ x ∈ l, KeysDistinct x)
  | [] => by simp [KeysDistinctList]
  | x :: r => by simp [KeysDistinctList, keysDistinctList_iff r]

theorem keysDistinctMembers_iff : (l : List (List Char × J)) → (KeysDistinctMembers l ↔ ∀ p ∈ l, KeysDistinct p.2)
  | [] => by simp [KeysDistinctMembers]
  | (k, v) :: r => by simp [KeysDistinctMembers, keysDistinctMembers_iff r]

theorem canonMembers_keys (l : List (List Char × J)) : (canonMembers l).map (·.1) = l.map (·.1) := by
  rw [canonMembers_eq]; simp [Function.comp_def]

theorem map_eq_of_forall₂ {α β γ : Type} {R : α → β → Prop} {f : α → γ} {g : β → γ} {xs : List α} {ys : List β}
    (h : List.Forall₂ R xs ys) (hm : ∀ x ∈ xs, ∀ y, R x y → f x = g y) : xs.map f = ys.map g := by
  induction h with
  | nil => rfl
  | cons h1 _ ih =>
    simp only [List.map_cons]
    rw [hm _ (by simp) _ h1, ih fun x hx => hm x (List.mem_cons_of_mem _ hx)]

mutual
  theorem canon_congr : (a b : J) → KeysDistinct a → Equiv a b → canon a = canon b
    | .null, _, _, h => by cases h; rfl
    | .bool _, _, _, h => by cases h; rfl
    | .num _, _, _, h => by cases h; rfl
    | .str _, _, _, h => by cases h; rfl
    | .arr xs, _, hk, h => by
      cases h with
      | arr hl =>
        simp only [KeysDistinct] at hk
        rw [canon, canon, canonList_eq, canonList_eq]
        congr 1
        exact map_eq_of_forall₂ (equivList_to _ _ hl)
          (fun x hx y hxy => canon_congr_list xs x hx y ((keysDistinctList_iff xs).1 hk x hx) hxy)
    | .obj kvs, _, hk, h => by
      cases h with
      | @obj _ kvs' mid hp hm =>
        simp only [KeysDistinct] at hk
        rw [canon, canon]
        congr 1
        have e : canonMembers mid = canonMembers kvs' := by
          rw [canonMembers_eq, canonMembers_eq]
          refine map_eq_of_forall₂ (equivMembers_to _ _ hm) (fun p hp' q hpq => ?_)
          have hp'' := hp.mem_iff.2 hp'
          rw [hpq.1, canon_congr_members kvs p hp'' q.2 ((keysDistinctMembers_iff kvs).1 hk.2 p hp'') hpq.2]
        rw [← e]
        apply sortMembers_eq_of_perm
        · rw [canonMembers_eq, canonMembers_eq]; exact hp.map _
        · rw [canonMembers_keys]; exact hk.1
  theorem canon_congr_list : (xs : List J) → ∀ x ∈ xs, ∀ b, KeysDistinct x → Equiv x b → canon x = canon b
    | [], x, hx, _, _, _ => by cases hx
    | y :: ys, x, hx, b, hk, h => by
      rcases List.mem_cons.1 hx with e | hx'
      · rw [e] at h hk ⊢; exact canon_congr y b hk h
      · exact canon_congr_list ys x hx' b hk h
  theorem canon_congr_members : (kvs : List (List Char × J)) → ∀ p ∈ kvs, ∀ b, KeysDistinct p.2 → Equiv p.2 b →
      canon p.2 = canon b
    | [], p, hp, _, _, _ => by cases hp
    | (k, v) :: r, p, hp, b, hk, h => by
      rcases List.mem_cons.1 hp with e | hp'
      · rw [e] at h hk ⊢; exact canon_congr v b hk h
      · exact canon_congr_members r p hp' b hk h
end

theorem jcs_order_insensitive (a b : J) (hka : KeysDistinct a) (h : Equiv a b) : jcs a = jcs b := by
  unfold jcs; rw [canon_congr a b hka h]

/-! ### Inversion of `Equiv` -/

theorem equiv_str_inv {s t : List Char} (h : Equiv (.str s) (.str t)) : s = t := by
  cases h; rfl

theorem equiv_obj_inv {kvs kvs' : List (List Char × J)} (h : Equiv (.obj kvs) (.obj kvs')) :
    ∃ mid, kvs.Perm mid ∧ List.Forall₂ (MemRel Equiv) mid kvs' := by
  cases h with
  | obj hp hm => exact ⟨_, hp, equivMembers_to _ _ hm⟩

theorem equiv_obj_mem_left {kvs kvs' : List (List Char × J)} (h : Equiv (.obj kvs) (.obj kvs')) :
    ∀ p ∈ kvs, ∃ q ∈ kvs', p.1 = q.1 ∧ Equiv p.2 q.2 := by
  obtain ⟨mid, hp, hm⟩ := equiv_obj_inv h
  intro p hpm
  exact forall₂_mem_left hm p (hp.mem_iff.1 hpm)

theorem equiv_obj_mem_right {kvs kvs' : List (List Char × J)} (h : Equiv (.obj kvs) (.obj kvs')) :
    ∀ q ∈ kvs', ∃ p ∈ kvs, p.1 = q.1 ∧ Equiv p.2 q.2 := by
  intro q hq
  obtain ⟨p, hp, e, h'⟩ := equiv_obj_mem_left (equiv_symm _ _ h) q hq
  exact ⟨p, hp, e.symm, equiv_symm _ _ h'⟩

end GoPipeline.Jcs

namespace GoPipeline.Signing
open GoPipeline GoPipeline.Pipe GoPipeline.Marshal GoPipeline.Jcs

/-! ## 5.–8. The payload -/

theorem valJList_eq : (l : List Val) → valJList l = l.map valJ
  | [] => rfl
  | x :: r => by simp [valJList, valJList_eq r]

theorem valJKVs_eq : (l : List (String × Val)) → valJKVs l = l.map (fun p => (p.1.toList, valJ p.2))
  | [] => rfl
  | (k, v) :: r => by simp [valJKVs, valJKVs_eq r]

theorem lookup_some_mem {f : String} {x : Val} : {v : List (String × Val)} → v.lookup f = some x →
    (f.toList, valJ x) ∈ valJKVs v
  | [], h => by simp at h
  | (k, y) :: r, h => by
    rw [List.lookup_cons] at h
    by_cases hfk : f = k
    · subst hfk
      simp only [beq_self_eq_true, Option.some.injEq] at h
      subst h
      simp [valJKVs]
    · have : (f == k) = false := by simpa using hfk
      simp only [this] at h
      simp only [valJKVs, List.mem_cons]
      exact .inr (lookup_some_mem h)

theorem lookup_none_not_mem {f : String} : {v : List (String × Val)} → v.lookup f = none →
    ∀ p ∈ valJKVs v, p.1 ≠ f.toList
  | [], _ => by simp [valJKVs]
  | (k, y) :: r, h => by
    rw [List.lookup_cons] at h
    by_cases hfk : f = k
    · subst hfk
      simp at h
    · have : (f == k) = false := by simpa using hfk
      simp only [this] at h
      intro p hp
      simp only [valJKVs, List.mem_cons] at hp
      rcases hp with rfl | hp
      · exact fun e => hfk (String.toList_inj.1 e).symm
      · exact lookup_none_not_mem h p hp

theorem alg_ne_values : "alg".toList ≠ "values".toList := by decide

theorem payload_injective (alg₁ alg₂ : String) (v₁ v₂ : List (String × Val))
    (hw₁ : WFMembers (valJKVs v₁)) (hw₂ : WFMembers (valJKVs v₂))
    (hk₁ : KeysDistinct (.obj (valJKVs v₁))) (hk₂ : KeysDistinct (.obj (valJKVs v₂)))
    (h : payload alg₁ v₁ = payload alg₂ v₂) :
    alg₁ = alg₂ ∧ ∀ f : String,
      (match v₁.lookup f, v₂.lookup f with
       | some x, some y => Equiv (valJ x) (valJ y)
       | none, none => True
       | _, _ => False) := by
  have wf : ∀ (alg : String) (v : List (String × Val)), WFMembers (valJKVs v) →
      WF (.obj [("alg".toList, .str alg.toList), ("values".toList, .obj (valJKVs v))]) := by
    intro alg v hw; simp [WF, WFMembers, hw]
  have kd : ∀ (alg : String) (v : List (String × Val)), KeysDistinct (.obj (valJKVs v)) →
      KeysDistinct (.obj [("alg".toList, .str alg.toList), ("values".toList, .obj (valJKVs v))]) := by
    intro alg v hk
    simp only [KeysDistinct, KeysDistinctMembers, List.map_cons, List.map_nil, List.nodup_cons, List.mem_cons,
      List.not_mem_nil, or_false, not_false_eq_true, List.nodup_nil, and_true, true_and] at hk ⊢
    exact ⟨alg_ne_values, hk⟩
  have E := jcs_injective _ _ (wf alg₁ v₁ hw₁) (wf alg₂ v₂ hw₂) (kd alg₁ v₁ hk₁) (kd alg₂ v₂ hk₂) h
  have Eal : alg₁ = alg₂ := by
    obtain ⟨q, hq, e, h'⟩ := equiv_obj_mem_left E ("alg".toList, .str alg₁.toList) (by simp)
    simp only [List.mem_cons, List.not_mem_nil, or_false] at hq
    rcases hq with rfl | rfl
    · exact String.toList_inj.1 (equiv_str_inv h')
    · exact absurd e alg_ne_values
  have Ev : Equiv (.obj (valJKVs v₁)) (.obj (valJKVs v₂)) := by
    obtain ⟨q, hq, e, h'⟩ := equiv_obj_mem_left E ("values".toList, .obj (valJKVs v₁)) (by simp)
    simp only [List.mem_cons, List.not_mem_nil, or_false] at hq
    rcases hq with rfl | rfl
    · exact absurd e.symm alg_ne_values
    · exact h'
  refine ⟨Eal, fun f => ?_⟩
  simp only [KeysDistinct] at hk₁ hk₂
  cases h1 : v₁.lookup f with
  | none =>
    cases h2 : v₂.lookup f with
    | none => trivial
    | some y =>
      obtain ⟨p, hp, e, _⟩ := equiv_obj_mem_right Ev _ (lookup_some_mem h2)
      exact lookup_none_not_mem h1 p hp e
  | some x =>
    obtain ⟨q, hq, e, h'⟩ := equiv_obj_mem_left Ev _ (lookup_some_mem h1)
    cases h2 : v₂.lookup f with
    | none => exact lookup_none_not_mem h2 q hq e.symm
    | some y =>
      have := eq_of_key_eq hk₂.1 hq (lookup_some_mem h2) e.symm
      subst this
      exact h'

theorem payload_perm (alg : String) (v₁ v₂ : List (String × Val))
    (hk : KeysDistinct (.obj (valJKVs v₁))) (hp : v₁.Perm v₂) : payload alg v₁ = payload alg v₂ := by
  unfold payload
  apply jcs_order_insensitive
  · simp only [KeysDistinct, KeysDistinctMembers, List.map_cons, List.map_nil, List.nodup_cons, List.mem_cons,
      List.not_mem_nil, or_false, not_false_eq_true, List.nodup_nil, and_true, true_and] at hk ⊢
    exact ⟨alg_ne_values, hk⟩
  · refine .obj (.refl _) (.cons (equiv_refl _) (.cons ?_ .nil))
    refine .obj ?_ (equivMembers_refl _)
    rw [valJKVs_eq, valJKVs_eq]
    exact hp.map _

theorem str_field (a b : String) (h : Equiv (valJ (.str a)) (valJ (.str b))) : a = b := by
  simp only [valJ] at h
  exact String.toList_inj.1 (equiv_str_inv h)

theorem arr_field (xs ys : List Val) (h : Equiv (valJ (.seq xs)) (valJ (.seq ys))) :
    List.Forall₂ (fun x y => Equiv (valJ x) (valJ y)) xs ys := by
  simp only [valJ] at h
  cases h with
  | arr hl =>
    have := equivList_to _ _ hl
    rw [valJList_eq, valJList_eq] at this
    clear hl
    induction xs generalizing ys with
    | nil =>
      cases ys with
      | nil => exact .nil
      | cons _ _ => cases this
    | cons x r ih =>
      cases ys with
      | nil => cases this
      | cons y s =>
        cases this with
        | cons h1 h2 => exact .cons h1 (ih s h2)

theorem nil_vs_empty :
    envField none = envField (some []) ∧ pluginsField none = pluginsField (some []) ∧
    ∀ m : Matrix, matrixIsEmpty m = true → matrixField (some m) = matrixField none := by
  refine ⟨rfl, rfl, fun m hm => ?_⟩
  simp [matrixField, hm]

/-- For every source (canonicalisation is idempotent for every string since fix 3ced888, F17). -/
theorem source_spelling_any (p : Plugin) :
    mPlugin { p with source := fullSource p.source } = mPlugin p := by
  simp only [mPlugin, fullSource_idem p.source]

/-- The statement on the documented domain (kept for `C14_source_spelling`; the hypothesis is not
    needed any more). -/
theorem source_spelling (p : Plugin)
    (_hd : (∀ c ∈ p.source.toList, PluginSrc.isDomChar c = true) ∧
          ((PluginSrc.cutHash p.source.toList).2 = [] ∨
           ∀ comp ∈ PluginSrc.splitOn '/' (PluginSrc.cutHash p.source.toList).2, comp ≠ [] ∧ comp ≠ ['.'] ∧ comp ≠ ['.', '.'])) :
    mPlugin { p with source := fullSource p.source } = mPlugin p := source_spelling_any p

theorem env_namespace (k : String) :
    (envNamespacePrefix ++ k) ∉ mandatoryFields ∧
    ∀ k', envNamespacePrefix ++ k = envNamespacePrefix ++ k' → k = k' := by
  have pre : ∀ s : String, (envNamespacePrefix ++ s).toList = 'e' :: 'n' :: 'v' :: ':' :: ':' :: s.toList := by
    intro s
    rw [String.toList_append]
    have : envNamespacePrefix.toList = ['e', 'n', 'v', ':', ':'] := by decide
    rw [this]; rfl
  constructor
  · intro hm
    simp only [mandatoryFields, List.mem_cons, List.not_mem_nil, or_false] at hm
    have c1 : "command".toList = ['c','o','m','m','a','n','d'] := by decide
    have c2 : "env".toList = ['e','n','v'] := by decide
    have c3 : "plugins".toList = ['p','l','u','g','i','n','s'] := by decide
    have c4 : "matrix".toList = ['m','a','t','r','i','x'] := by decide
    have c5 : "repository_url".toList = ['r','e','p','o','s','i','t','o','r','y','_','u','r','l'] := by decide
    rcases hm with e | e | e | e | e <;>
      (have e' := congrArg String.toList e
       rw [pre] at e'
       simp [c1, c2, c3, c4, c5] at e')
  · intro k' e
    have e' := congrArg String.toList e
    rw [pre, pre] at e'
    simp only [List.cons.injEq, true_and] at e'
    exact String.toList_inj.1 e'

end GoPipeline.Signing
