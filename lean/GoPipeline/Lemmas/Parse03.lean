/-
  C03 — lemmas about the parse model (`Model/Parse.lean`) composed with the JSON marshalling model
  (`Model/Marshal.lean`).

  Architecture.
  * Go map stores: `Parse.umapInsert`/`Parse.umapOf` (generic) and `Marshal.umapInsert`/`Marshal.umapOf`
    (on `Val`) are the same function (`marshal_umapOf_eq`); a store is strictly sorted by key
    (`sortedK_umapOf`), hence has distinct keys, and its lookups are those of the entry list it was
    built from when that list has distinct keys (`lookup_umapOf_nodup`).
  * Key bookkeeping: `lookup_remainder` (lookups in the inline remainder), `fieldOf_taken_*`
    (the value a named field receives, through `fieldTake`), and the concrete claim-key lists of the
    two command-step descriptors (`claimKeys_outer`, `claimKeys_cs`).
  * `parseCommand_ok` inverts a successful `parseCommand` once; every C03 command-step lemma is read
    off from it.
-/
import Batteries.Data.List.Basic   -- `List.Forall₂`
import GoPipeline.Model.Parse
import GoPipeline.Model.Marshal
import GoPipeline.Lemmas.Unmarshal
namespace GoPipeline.Parse
open GoPipeline GoPipeline.Pipe GoPipeline.Marshal GoPipeline.Unm

def keysOf (m : Entries) : List String := m.map (·.1)

/-- The keys a command step models (everything else is "any other key"). -/
def commandKeys : List String :=
  ["commands", "command", "key", "id", "identifier", "label", "name", "plugins", "env", "signature", "matrix", "cache"]

/-! ## Association lists -/

theorem lookup_cons_if {β : Type} (k f : String) (v : β) (r : List (String × β)) :
    ((k, v) :: r).lookup f = if f = k then some v else r.lookup f := by
  rw [List.lookup_cons]
  by_cases h : f = k
  · simp [h]
  · have : (f == k) = false := by simpa using h
    simp [h, this]

theorem lookup_none_of_not_mem {β : Type} {k : String} : {l : List (String × β)} →
    k ∉ l.map (·.1) → l.lookup k = none
  | [], _ => rfl
  | (k0, v0) :: r, h => by
    simp only [List.map_cons, List.mem_cons, not_or] at h
    rw [lookup_cons_if, if_neg h.1]
    exact lookup_none_of_not_mem h.2

theorem mem_keys_of_lookup {β : Type} {k : String} {v : β} : {l : List (String × β)} →
    l.lookup k = some v → k ∈ l.map (·.1)
  | [], h => by simp at h
  | (k0, v0) :: r, h => by
    rw [lookup_cons_if] at h
    by_cases e : k = k0
    · simp [e]
    · rw [if_neg e] at h
      simp [mem_keys_of_lookup h]

/-- Filtering by a predicate on the key does not disturb the lookups of the keys that pass. -/
theorem lookup_filter_key {β : Type} (p : String → Bool) (k : String) : (l : List (String × β)) →
    (l.filter (fun e => p e.1)).lookup k = if p k then l.lookup k else none
  | [] => by simp
  | (k0, v0) :: r => by
    have ih := lookup_filter_key p k r
    rw [List.filter_cons]
    by_cases hp : p k0 = true
    · rw [if_pos hp, lookup_cons_if, lookup_cons_if, ih]
      by_cases e : k = k0
      · simp [e, hp]
      · simp [e]
    · rw [if_neg hp, lookup_cons_if, ih]
      by_cases e : k = k0
      · subst e; simp [hp]
      · simp [e]

/-! ## Go map stores -/

theorem lookup_umapInsert {α : Type} (k : String) (v : α) (k' : String) (m : List (String × α)) :
    (umapInsert k v m).lookup k' = if k' = k then some v else m.lookup k' := by
  induction m with
  | nil => simp [umapInsert, lookup_cons_if]
  | cons p r ih =>
    obtain ⟨k0, v0⟩ := p
    unfold umapInsert
    split
    · rename_i h
      have h : k = k0 := by simpa using h
      subst h
      by_cases h : k' = k <;> simp [lookup_cons_if, h]
    · rename_i hne
      have hne : k ≠ k0 := by simpa using hne
      split
      · simp [lookup_cons_if]
      · simp only [lookup_cons_if, ih]
        by_cases h : k' = k
        · subst h; simp [hne]
        · simp [h]

theorem mem_umapInsert {α : Type} {k : String} {v : α} {p : String × α} : {m : List (String × α)} →
    p ∈ umapInsert k v m → p = (k, v) ∨ p ∈ m
  | [], h => by simpa [umapInsert] using h
  | (k0, v0) :: r, h => by
    unfold umapInsert at h
    split at h
    · rcases List.mem_cons.1 h with h | h
      · exact .inl h
      · exact .inr (List.mem_cons_of_mem _ h)
    · split at h
      · rcases List.mem_cons.1 h with h | h
        · exact .inl h
        · exact .inr h
      · rcases List.mem_cons.1 h with h | h
        · exact .inr (h ▸ List.mem_cons_self)
        · rcases mem_umapInsert h with h | h
          · exact .inl h
          · exact .inr (List.mem_cons_of_mem _ h)

/-- Sorted by key, strictly. -/
def SortedK {α : Type} (l : List (String × α)) : Prop := l.Pairwise (fun p q => p.1 < q.1)

theorem str_lt_of_not {a b : String} (h1 : a ≠ b) (h2 : ¬ a < b) : b < a := by
  rcases Classical.em (b < a) with h | h
  · exact h
  · exact absurd (String.le_antisymm (String.not_lt.1 h) (String.not_lt.1 h2)) h1

theorem sortedK_umapInsert {α : Type} (k : String) (v : α) : (m : List (String × α)) → SortedK m →
    SortedK (umapInsert k v m)
  | [], _ => by simp [umapInsert, SortedK]
  | (k0, v0) :: r, h => by
    unfold SortedK at h ⊢
    rw [List.pairwise_cons] at h
    unfold umapInsert
    split
    · rename_i e
      have e : k = k0 := by simpa using e
      subst e
      exact List.pairwise_cons.2 ⟨h.1, h.2⟩
    · rename_i hne
      have hne : k ≠ k0 := by simpa using hne
      split
      · rename_i hlt
        refine List.pairwise_cons.2 ⟨fun q hq => ?_, List.pairwise_cons.2 h⟩
        rcases List.mem_cons.1 hq with rfl | hq
        · exact hlt
        · exact String.lt_trans hlt (h.1 q hq)
      · rename_i hlt
        refine List.pairwise_cons.2 ⟨fun q hq => ?_, sortedK_umapInsert k v r h.2⟩
        rcases mem_umapInsert hq with rfl | hq
        · exact str_lt_of_not hne hlt
        · exact h.1 q hq

theorem sortedK_foldl {α : Type} : (l acc : List (String × α)) → SortedK acc →
    SortedK (l.foldl (fun acc p => umapInsert p.1 p.2 acc) acc)
  | [], _, h => h
  | p :: r, acc, h => by
    rw [List.foldl_cons]
    exact sortedK_foldl r _ (sortedK_umapInsert _ _ _ h)

theorem sortedK_umapOf {α : Type} (l : List (String × α)) : SortedK (umapOf l) :=
  sortedK_foldl l [] List.Pairwise.nil

theorem nodup_keys_of_sortedK {α : Type} {l : List (String × α)} (hs : SortedK l) : (l.map (·.1)).Nodup := by
  unfold SortedK at hs
  rw [List.Nodup, List.pairwise_map]
  exact hs.imp (fun {a b} h e => by rw [e] at h; exact String.lt_irrefl _ h)

theorem nodup_keys_umapOf {α : Type} (l : List (String × α)) : ((umapOf l).map (·.1)).Nodup :=
  nodup_keys_of_sortedK (sortedK_umapOf l)

/-- Entries whose key is not stored leave the lookup alone. -/
theorem lookup_foldl_not_mem {α : Type} {k : String} : (l acc : List (String × α)) → k ∉ l.map (·.1) →
    (l.foldl (fun acc p => umapInsert p.1 p.2 acc) acc).lookup k = acc.lookup k
  | [], _, _ => rfl
  | (k0, v0) :: r, acc, h => by
    simp only [List.map_cons, List.mem_cons, not_or] at h
    rw [List.foldl_cons, lookup_foldl_not_mem r _ h.2, lookup_umapInsert, if_neg h.1]

/-- Storing a duplicate-free entry list: each key reads back its entry. -/
theorem lookup_foldl_nodup {α : Type} {k : String} : (l acc : List (String × α)) → (l.map (·.1)).Nodup →
    (l.foldl (fun acc p => umapInsert p.1 p.2 acc) acc).lookup k =
      match l.lookup k with
      | some v => some v
      | none => acc.lookup k
  | [], _, _ => rfl
  | (k0, v0) :: r, acc, h => by
    simp only [List.map_cons, List.nodup_cons] at h
    rw [List.foldl_cons, lookup_foldl_nodup r _ h.2, lookup_cons_if, lookup_umapInsert]
    by_cases e : k = k0
    · subst e
      rw [lookup_none_of_not_mem h.1]
      simp
    · simp [e]

theorem lookup_umapOf_nodup {α : Type} {l : List (String × α)} (h : (l.map (·.1)).Nodup) (k : String) :
    (umapOf l).lookup k = l.lookup k := by
  unfold umapOf
  rw [lookup_foldl_nodup l [] h]
  cases l.lookup k <;> rfl

theorem umapInsert_ne_nil {α : Type} (k : String) (v : α) (m : List (String × α)) : umapInsert k v m ≠ [] := by
  cases m with
  | nil => simp [umapInsert]
  | cons p r =>
    obtain ⟨k0, v0⟩ := p
    unfold umapInsert
    split
    · simp
    · split <;> simp

theorem foldl_ne_nil {α : Type} : (l acc : List (String × α)) → (l ≠ [] ∨ acc ≠ []) →
    l.foldl (fun acc p => umapInsert p.1 p.2 acc) acc ≠ []
  | [], _, h => by
    rcases h with h | h
    · exact absurd rfl h
    · exact h
  | p :: r, acc, _ => by
    rw [List.foldl_cons]
    exact foldl_ne_nil r _ (.inr (umapInsert_ne_nil _ _ _))

theorem umapOf_ne_nil {α : Type} {l : List (String × α)} (h : l ≠ []) : umapOf l ≠ [] :=
  foldl_ne_nil l [] (.inl h)

/-- The two copies of the map-store insertion agree. -/
theorem marshal_umapInsert_eq (k : String) (v : Val) (m : List (String × Val)) :
    Marshal.umapInsert k v m = Parse.umapInsert k v m := by
  induction m with
  | nil => rfl
  | cons p r ih =>
    obtain ⟨k0, v0⟩ := p
    simp only [Marshal.umapInsert, Parse.umapInsert, ih]

theorem marshal_umapOf_eq (l : List (String × Val)) : Marshal.umapOf l = Parse.umapOf l := by
  unfold Marshal.umapOf Parse.umapOf
  congr 1
  funext acc p
  exact marshal_umapInsert_eq _ _ _

/-! ## Key bookkeeping -/

theorem lookup_remainder (m : Entries) (fs : List Field) (k : String) :
    (remainder m fs).lookup k = if k ∈ outlineKeys m fs then none else m.lookup k := by
  unfold remainder
  rw [lookup_filter_key (fun k => !(outlineKeys m fs).contains k)]
  by_cases h : k ∈ outlineKeys m fs <;> simp [h]

theorem lookup_remainder_of_not_claim {m : Entries} {fs : List Field} {k : String} (h : k ∉ claimKeys fs) :
    (remainder m fs).lookup k = m.lookup k := by
  rw [lookup_remainder, if_neg (fun hk => h ((outlineKeys_sublist m fs).subset hk))]

theorem nodup_keys_remainder {m : Entries} (fs : List Field) (hm : (m.map (·.1)).Nodup) :
    ((remainder m fs).map (·.1)).Nodup := by
  rw [keys_remainder]
  exact hm.sublist List.filter_sublist

theorem fieldOf_cons (n k : String) (v : Val) (t : List (String × String × Val)) (name : String) :
    fieldOf ((n, k, v) :: t) name = if n = name then some v else fieldOf t name := by
  unfold fieldOf
  rw [List.find?_cons]
  by_cases h : n = name
  · simp [h]
  · have : (n == name) = false := by simpa using h
    simp [h, this]

theorem fieldOf_taken_none {m : Entries} {n : String} : {fs : List Field} → n ∉ fs.map Field.name →
    fieldOf (taken m fs) n = none
  | [], _ => rfl
  | f :: r, h => by
    simp only [List.map_cons, List.mem_cons, not_or] at h
    have ih := fieldOf_taken_none (m := m) h.2
    unfold taken
    split
    · split
      · rw [fieldOf_cons, if_neg (fun e => h.1 e.symm), ih]
      · exact ih
    · exact ih

theorem fieldOf_taken_cons_ne {m : Entries} {f : Field} {r : List Field} {n : String} (h : f.name ≠ n) :
    fieldOf (taken m (f :: r)) n = fieldOf (taken m r) n := by
  by_cases hr : f.role = .normal
  · cases ht : fieldTake m f with
    | none => rw [taken_cons_none hr ht]
    | some p =>
      obtain ⟨k, v⟩ := p
      rw [taken_cons_some hr ht, fieldOf_cons, if_neg h]
  · rw [taken_cons_other hr]

theorem fieldOf_taken_cons_eq {m : Entries} {f : Field} {r : List Field} {n : String}
    (hr : f.role = .normal) (hn : f.name = n) (hnot : n ∉ r.map Field.name) :
    fieldOf (taken m (f :: r)) n = (fieldTake m f).map (·.2) := by
  cases ht : fieldTake m f with
  | none => rw [taken_cons_none hr ht, fieldOf_taken_none hnot]; rfl
  | some p =>
    obtain ⟨k, v⟩ := p
    rw [taken_cons_some hr ht, fieldOf_cons, if_pos hn]; rfl

theorem claimKeys_outer : claimKeys Gen.struct_CommandStep_UnmarshalOrdered_local0 = ["commands", "command"] := by
  simp [claimKeys, Gen.struct_CommandStep_UnmarshalOrdered_local0, Field.role, Field.key, Field.aliases]

theorem claimKeys_cs : claimKeys Gen.struct_CommandStep =
    ["key", "id", "identifier", "label", "name", "command", "plugins", "env", "signature", "matrix", "cache"] := by
  simp [claimKeys, Gen.struct_CommandStep, Field.role, Field.key, Field.aliases]

theorem fieldOf_commands (m : Entries) :
    fieldOf (taken m Gen.struct_CommandStep_UnmarshalOrdered_local0) "Commands" =
      match m.lookup "commands" with
      | some v => some v
      | none => m.lookup "command" := by
  unfold Gen.struct_CommandStep_UnmarshalOrdered_local0
  rw [fieldOf_taken_cons_eq (n := "Commands") rfl rfl (by simp [Field.name])]
  simp only [fieldTake, firstAlias, Field.key, Field.aliases]
  cases m.lookup "commands" <;> cases m.lookup "command" <;> simp

theorem fieldOf_key (r : Entries) :
    fieldOf (taken r Gen.struct_CommandStep) "Key" =
      match r.lookup "key" with
      | some v => some v
      | none => match r.lookup "id" with
        | some v => some v
        | none => r.lookup "identifier" := by
  unfold Gen.struct_CommandStep
  rw [fieldOf_taken_cons_eq (n := "Key") rfl rfl (by simp [Field.name])]
  simp only [fieldTake, firstAlias, Field.key, Field.aliases]
  cases r.lookup "key" <;> cases r.lookup "id" <;> cases r.lookup "identifier" <;> simp

theorem fieldOf_label (r : Entries) :
    fieldOf (taken r Gen.struct_CommandStep) "Label" =
      match r.lookup "label" with
      | some v => some v
      | none => r.lookup "name" := by
  unfold Gen.struct_CommandStep
  rw [fieldOf_taken_cons_ne (by simp [Field.name]),
    fieldOf_taken_cons_eq (n := "Label") rfl rfl (by simp [Field.name])]
  simp only [fieldTake, firstAlias, Field.key, Field.aliases]
  cases r.lookup "label" <;> cases r.lookup "name" <;> simp

/-- Inversion of a successful `parseCommand`. -/
theorem parseCommand_ok {m : Entries} {c : CommandStep} (h : parseCommand m = .ok c) :
    ∃ cmds, optField (taken m Gen.struct_CommandStep_UnmarshalOrdered_local0) "Commands" none strsOf = .ok cmds ∧
      optField (taken (remainder m Gen.struct_CommandStep_UnmarshalOrdered_local0) Gen.struct_CommandStep) "Key" "" strOf = .ok c.key ∧
      optField (taken (remainder m Gen.struct_CommandStep_UnmarshalOrdered_local0) Gen.struct_CommandStep) "Label" "" strOf = .ok c.label ∧
      c.command = joinLines (cmds.getD []) ∧
      c.rem = remMap (remainder (remainder m Gen.struct_CommandStep_UnmarshalOrdered_local0) Gen.struct_CommandStep) := by
  unfold parseCommand at h
  simp only at h
  split at h
  · cases h
  · rename_i cmds hc
    refine ⟨cmds, hc, ?_⟩
    split at h
    · rename_i key label _ plugins env sig matrix cache hk hl _ _ _ _ _ _
      simp only [Except.ok.injEq] at h
      subst h
      exact ⟨hk, hl, rfl, rfl⟩
    · cases h

/-! ## Command step -/

/-- Abbreviations for the two descriptors. -/
local notation "outerD" => Gen.struct_CommandStep_UnmarshalOrdered_local0
local notation "csD" => Gen.struct_CommandStep

theorem optField_some {α : Type} {t : List (String × String × Val)} {name : String} {dflt : α}
    {f : Val → Except Hard α} {v : Val} (h : fieldOf t name = some v) : optField t name dflt f = f v := by
  simp [optField, h]

theorem optField_none {α : Type} {t : List (String × String × Val)} {name : String} {dflt : α}
    {f : Val → Except Hard α} (h : fieldOf t name = none) : optField t name dflt f = .ok dflt := by
  simp [optField, h]

/-- Lookups in what the wrapper leaves for the command-step struct. -/
theorem lookup_rest {m : Entries} {k : String} (h : k ∉ ["commands", "command"]) :
    (remainder m outerD).lookup k = m.lookup k :=
  lookup_remainder_of_not_claim (by rw [claimKeys_outer]; exact h)

theorem lookup_rest_none {m : Entries} {k : String} (h : m.lookup k = none) :
    (remainder m outerD).lookup k = none := by
  rw [lookup_remainder]; split <;> simp [h]

theorem command_join (m : Entries) (c : CommandStep) (h : parseCommand m = .ok c) (v : Val)
    (hv : m.lookup "commands" = some v ∨ (m.lookup "commands" = none ∧ m.lookup "command" = some v)) :
    ∃ l, strsOf v = .ok l ∧ c.command = joinLines (l.getD []) := by
  obtain ⟨cmds, hc, _, _, hcmd, _⟩ := parseCommand_ok h
  have hf : fieldOf (taken m outerD) "Commands" = some v := by
    rw [fieldOf_commands]
    rcases hv with hv | ⟨h1, h2⟩
    · rw [hv]
    · rw [h1, h2]
  rw [optField_some hf] at hc
  exact ⟨cmds, hc, hcmd⟩

theorem no_command_key (m : Entries) (c : CommandStep) (h : parseCommand m = .ok c)
    (h1 : m.lookup "commands" = none) (h2 : m.lookup "command" = none) : c.command = "" := by
  obtain ⟨cmds, hc, _, _, hcmd, _⟩ := parseCommand_ok h
  have hf : fieldOf (taken m outerD) "Commands" = none := by
    rw [fieldOf_commands, h1, h2]
  rw [optField_none hf] at hc
  cases hc
  rw [hcmd]; rfl

theorem label_from_name (m : Entries) (c : CommandStep) (h : parseCommand m = .ok c) (v : Val)
    (hl : m.lookup "label" = none) (hn : m.lookup "name" = some v) : strOf v = .ok c.label := by
  obtain ⟨_, _, _, hlab, _, _⟩ := parseCommand_ok h
  have hf : fieldOf (taken (remainder m outerD) csD) "Label" = some v := by
    rw [fieldOf_label, lookup_rest_none hl, lookup_rest (by simp), hn]
  rw [optField_some hf] at hlab
  exact hlab

theorem key_from_aliases (m : Entries) (c : CommandStep) (h : parseCommand m = .ok c)
    (hk : m.lookup "key" = none) :
    (∀ v, m.lookup "id" = some v → strOf v = .ok c.key) ∧
    (∀ v, m.lookup "id" = none → m.lookup "identifier" = some v → strOf v = .ok c.key) ∧
    (m.lookup "id" = none → m.lookup "identifier" = none → c.key = "") := by
  obtain ⟨_, _, hkey, _, _, _⟩ := parseCommand_ok h
  have hf := fieldOf_key (remainder m outerD)
  rw [lookup_rest_none hk, lookup_rest (k := "id") (by simp), lookup_rest (k := "identifier") (by simp)] at hf
  refine ⟨fun v h1 => ?_, fun v h1 h2 => ?_, fun h1 h2 => ?_⟩
  · rw [h1] at hf
    rw [optField_some hf] at hkey
    exact hkey
  · rw [h1, h2] at hf
    rw [optField_some hf] at hkey
    exact hkey
  · rw [h1, h2] at hf
    rw [optField_none hf] at hkey
    exact (Except.ok.inj hkey).symm

theorem lookup_remMap {rest : Entries} (hn : (rest.map (·.1)).Nodup) (k : String) :
    ((remMap rest).getD []).lookup k = rest.lookup k := by
  unfold remMap
  cases rest with
  | nil => rfl
  | cons p r =>
    simp only [List.isEmpty_cons, Bool.false_eq_true, if_false, Option.getD_some]
    exact lookup_umapOf_nodup hn k

theorem nodup_keys_remMap (rest : Entries) : (((remMap rest).getD []).map (·.1)).Nodup := by
  unfold remMap
  split
  · simp
  · exact nodup_keys_umapOf rest

/-- With `label` present, `name` is not claimed by any command-step field. -/
theorem name_not_outline {r : Entries} {v : Val} (h : r.lookup "label" = some v) :
    "name" ∉ outlineKeys r csD := by
  intro hmem
  obtain ⟨f, hf, _, w, ht⟩ := mem_outlineKeys.1 hmem
  have hk := (fieldTake_some ht).1
  simp only [Gen.struct_CommandStep, List.mem_cons, List.not_mem_nil, or_false] at hf
  rcases hf with rfl | rfl | rfl | rfl | rfl | rfl | rfl | rfl | rfl <;>
    simp [Field.key, Field.aliases] at hk
  simp [fieldTake, Field.key, h] at ht

theorem label_primary (m : Entries) (c : CommandStep) (h : parseCommand m = .ok c) (v : Val)
    (hl : m.lookup "label" = some v) (hm : (keysOf m).Nodup) :
    strOf v = .ok c.label ∧ (c.rem.getD []).lookup "name" = m.lookup "name" := by
  obtain ⟨_, _, _, hlab, _, hrem⟩ := parseCommand_ok h
  have hl' : (remainder m outerD).lookup "label" = some v := by rw [lookup_rest (by simp), hl]
  have hf : fieldOf (taken (remainder m outerD) csD) "Label" = some v := by
    rw [fieldOf_label, hl']
  rw [optField_some hf] at hlab
  refine ⟨hlab, ?_⟩
  rw [hrem, lookup_remMap (nodup_keys_remainder _ (nodup_keys_remainder _ hm)), lookup_remainder,
    if_neg (name_not_outline hl'), lookup_rest (by simp)]

/-- `inlineFriendlyMarshalJSON`: a key that is not an outline key reads back the inline entry. -/
theorem inlineFriendly_lookup (outline : List (String × Val)) (inline : UMap Val) (k : String)
    (hk : k ∉ outline.map (·.1)) (hn : ((inline.getD []).map (·.1)).Nodup) :
    ∃ kvs, inlineFriendly outline inline = .umap kvs ∧ kvs.lookup k = (inline.getD []).lookup k ∧
      (kvs.map (·.1)).Nodup := by
  refine ⟨_, rfl, ?_, ?_⟩
  · rw [marshal_umapOf_eq]
    unfold Parse.umapOf
    rw [List.foldl_append, lookup_foldl_not_mem _ _ hk]
    have hn' : ((List.filter (fun p => !(outline.map (·.1)).contains p.1) (inline.getD [])).map (·.1)).Nodup :=
      hn.sublist (List.filter_sublist.map _)
    have hp : (!(outline.map (·.1)).contains k) = true := by simpa using hk
    have hl := lookup_filter_key (fun k => !(outline.map (·.1)).contains k) k (inline.getD [])
    rw [if_pos hp] at hl
    rw [lookup_foldl_nodup _ [] hn', hl]
    cases (inline.getD []).lookup k <;> rfl
  · rw [marshal_umapOf_eq]
    exact nodup_keys_umapOf _


theorem command_other_keys_preserved (m : Entries) (c : CommandStep) (h : parseCommand m = .ok c)
    (hm : (keysOf m).Nodup) (k : String) (hk : k ∉ commandKeys) :
    ∃ kvs, mCommand c = .umap kvs ∧ kvs.lookup k = m.lookup k ∧ (kvs.map (·.1)).Nodup := by
  obtain ⟨_, _, _, _, _, hrem⟩ := parseCommand_ok h
  simp only [commandKeys, List.mem_cons, List.not_mem_nil, or_false, not_or] at hk
  have hk1 : k ∉ ["commands", "command"] := by simp [hk]
  have hk2 : k ∉ claimKeys csD := by rw [claimKeys_cs]; simp [hk]
  have hkey : (c.rem.getD []).lookup k = m.lookup k := by
    rw [hrem, lookup_remMap (nodup_keys_remainder _ (nodup_keys_remainder _ hm)),
      lookup_remainder_of_not_claim hk2, lookup_rest hk1]
  rw [← hkey]
  unfold mCommand
  refine inlineFriendly_lookup _ c.rem k (fun hx => ?_) (by rw [hrem]; exact nodup_keys_remMap _)
  simp only [List.map_append, List.mem_append] at hx
  rcases hx with ((((((hx | hx) | hx) | hx) | hx) | hx) | hx) | hx
  all_goals (try split at hx) <;> simp at hx <;> simp [hx] at hk

theorem map_ok_iff {ε α β : Type} {f : α → β} {x : Except ε α} {b : β} :
    x.map f = .ok b ↔ ∃ a, x = .ok a ∧ b = f a := by
  cases x with
  | error e => simp [Except.map]
  | ok a =>
    simp only [Except.map, Except.ok.injEq, exists_eq_left']
    exact ⟨fun h => h.symm, fun h => h.symm⟩

/-! ## Marshalling of steps: equations (`mStep` is structurally recursive through `List Step`; the
    equation compiler's own lemmas are not available, so they are stated here, by `rfl`) -/

theorem mStep_command (c : CommandStep) : mStep (.command c) = .ok (mCommand c) := rfl
theorem mStep_wait (s : String) (c : UMap Val) :
    mStep (.wait s c) = .ok (if s != "" then .str s else if lenUMap c == 0 then .str "wait" else umapV c) := rfl
theorem mStep_input (s : String) (c : UMap Val) :
    mStep (.input s c) = if s != "" then .ok (.str s) else if lenUMap c == 0 then .error .emptyInputStep else .ok (umapV c) := rfl
theorem mStep_trigger (c : UMap Val) : mStep (.trigger c) = .ok (umapV c) := rfl
theorem mStep_unknown (v : Val) : mStep (.unknown v) = .ok v := rfl
theorem mSteps_nil : mSteps [] = .ok [] := rfl
theorem mSteps_cons (s : Step) (r : List Step) :
    mSteps (s :: r) =
      match mStep s with
      | .error e => .error e
      | .ok v =>
        match mSteps r with
        | .error e => .error e
        | .ok vs => .ok (v :: vs) := rfl

theorem contents_steps_preserved (m : Entries) (hm : (keysOf m).Nodup) (hne : m ≠ []) (k : String) :
    (∃ kvs, mStep (.wait "" (some (umapOf m))) = .ok (.umap kvs) ∧ kvs.lookup k = m.lookup k) ∧
    (∃ kvs, mStep (.input "" (some (umapOf m))) = .ok (.umap kvs) ∧ kvs.lookup k = m.lookup k) ∧
    (∃ kvs, mStep (.trigger (some (umapOf m))) = .ok (.umap kvs) ∧ kvs.lookup k = m.lookup k) := by
  have hl : (umapOf m).length ≠ 0 := by
    intro e
    exact umapOf_ne_nil hne (List.length_eq_zero_iff.1 e)
  have hk := lookup_umapOf_nodup hm k
  refine ⟨⟨umapOf m, ?_, hk⟩, ⟨umapOf m, ?_, hk⟩, ⟨umapOf m, ?_, hk⟩⟩
  · simp [mStep_wait, lenUMap, hl, umapV]
  · simp [mStep_input, lenUMap, hl, umapV]
  · simp [mStep_trigger, umapV]

/-! ## Plugins -/

theorem pluginsOfMap_ne_none (kvs : List (String × Val)) : ∀ p ∈ pluginsOfMap kvs, p ≠ none := by
  intro p hp
  unfold pluginsOfMap at hp
  obtain ⟨⟨k, v⟩, _, rfl⟩ := List.mem_map.1 hp
  simp

theorem pluginsElems_ne_none : (xs : List Val) → (l : List (Option Plugin)) → pluginsElems xs = .ok l →
    ∀ p ∈ l, p ≠ none
  | [], l, h => by
    simp only [pluginsElems, Except.ok.injEq] at h
    subst h; simp
  | x :: r, l, h => by
    cases x <;> try (solve | simp [pluginsElems] at h)
    case str s =>
      simp only [pluginsElems, map_ok_iff] at h
      obtain ⟨l', hr, rfl⟩ := h
      intro p hp
      rcases List.mem_cons.1 hp with hp | hp
      · simp [hp]
      · exact pluginsElems_ne_none r l' hr p hp
    case omap kvs =>
      simp only [pluginsElems, map_ok_iff] at h
      obtain ⟨l', hr, rfl⟩ := h
      intro p hp
      rcases List.mem_append.1 hp with hp | hp
      · exact pluginsOfMap_ne_none _ p hp
      · exact pluginsElems_ne_none r l' hr p hp

theorem mPlugins_eq (l : List (Option Plugin)) :
    mPlugins l = .seq (l.map fun
      | some p => Val.umap [(fullSource p.source,
          match p.config with | .umap [] => Val.null | .seq [] => .null | c => c)]
      | none => .null) := by
  unfold mPlugins
  congr 1
  apply List.map_congr_left
  intro p _
  cases p with
  | none => rfl
  | some p => rfl

theorem plugins_normal_form (v : Val) (l : List (Option Plugin)) (h : parsePlugins v = .ok (some l)) :
    mPlugins l = .seq (l.map fun
      | some p => Val.umap [(fullSource p.source,
          match p.config with | .umap [] => Val.null | .seq [] => .null | c => c)]
      | none => .null) ∧ ∀ p ∈ l, p ≠ none := by
  refine ⟨mPlugins_eq l, ?_⟩
  cases v <;> try (solve | simp [parsePlugins] at h)
  case seq xs =>
    simp only [parsePlugins, map_ok_iff] at h
    obtain ⟨l', hr, h⟩ := h
    split at h
    · cases h
    · simp only [Option.some.injEq] at h
      subst h
      exact pluginsElems_ne_none xs _ hr
  case omap kvs =>
    simp only [parsePlugins, Except.ok.injEq] at h
    split at h
    · cases h
    · simp only [Option.some.injEq] at h
      subst h
      exact pluginsOfMap_ne_none kvs

theorem plugins_from_mapping (kvs : List (String × Val)) (hne : kvs ≠ []) :
    parsePlugins (.omap kvs) = .ok (some (kvs.map fun (k, v) => some { source := k, config := toMapRec v })) := by
  unfold parsePlugins
  have : kvs.isEmpty = false := by simpa using hne
  simp only [this]
  rfl

/-! ## Env, matrix, cache -/

theorem ssElems_forall₂ : (kvs : List (String × Val)) → (l : List (String × String)) → ssElems kvs = .ok l →
    List.Forall₂ (fun kv e => e.1 = kv.1 ∧ strOf kv.2 = .ok e.2) kvs l
  | [], l, h => by
    simp only [ssElems, Except.ok.injEq] at h
    subst h; exact .nil
  | (k, v) :: r, l, h => by
    unfold ssElems at h
    cases hs : strOf v with
    | error e => simp [hs] at h
    | ok s =>
      simp only [hs, map_ok_iff] at h
      obtain ⟨l', hr, rfl⟩ := h
      exact .cons ⟨rfl, hs⟩ (ssElems_forall₂ r l' hr)

theorem env_scalars_strings (kvs : List (String × Val)) (l : List (String × String))
    (h : parseEnvOrdered (.omap kvs) = .ok (some l)) :
    List.Forall₂ (fun kv e => e.1 = kv.1 ∧ strOf kv.2 = .ok e.2) kvs l := by
  simp only [parseEnvOrdered, map_ok_iff, Option.some.injEq] at h
  obtain ⟨l', hr, rfl⟩ := h
  exact ssElems_forall₂ kvs _ hr

theorem strsElems_length : (xs : List Val) → (l : List String) → strsElems xs = .ok l → l.length = xs.length
  | [], l, h => by
    simp only [strsElems, Except.ok.injEq] at h
    subst h; rfl
  | v :: r, l, h => by
    unfold strsElems at h
    cases hs : strOf v with
    | error e => simp [hs] at h
    | ok s =>
      simp only [hs, map_ok_iff] at h
      obtain ⟨l', hr, rfl⟩ := h
      simp [strsElems_length r l' hr]

theorem matrix_list_shorthand (xs : List Val) (m : Matrix) (h : parseMatrix (.seq xs) = .ok (some m)) (hne : xs ≠ []) :
    ∃ l, strsOfSeq xs = .ok l ∧ mMatrix m = strsV l := by
  simp only [parseMatrix, map_ok_iff, Option.some.injEq] at h
  obtain ⟨l, hl, rfl⟩ := h
  refine ⟨l, hl, ?_⟩
  have hlen := strsElems_length xs l hl
  cases l with
  | nil =>
    exfalso
    exact hne (List.length_eq_zero_iff.1 hlen.symm)
  | cons a t => simp [mMatrix, isSimple, lenUMap, mSetup]

theorem cache_shorthands (s : String) (xs : List Val) :
    (∃ c, parseCache (.str s) = .ok (some c) ∧ mCache c = .umap [("paths", strsV [s])]) ∧
    (∃ c, parseCache (.bool false) = .ok (some c) ∧ mCache c = .bool false) ∧
    (∀ l, strsOfSeq xs = .ok l → l ≠ [] → ∃ c, parseCache (.seq xs) = .ok (some c) ∧ mCache c = .umap [("paths", strsV l)]) := by
  refine ⟨⟨_, rfl, ?_⟩, ⟨_, rfl, ?_⟩, fun l hl hne => ?_⟩
  · simp [mCache, inlineFriendly, Marshal.umapOf, Marshal.umapInsert]
  · simp [mCache]
  · refine ⟨{ disabled := false, name := "", paths := some l, size := "", rem := none }, ?_, ?_⟩
    · simp only [parseCache, hl]; rfl
    · have : l.isEmpty = false := by simpa using hne
      simp [mCache, inlineFriendly, Marshal.umapOf, Marshal.umapInsert, this]

/-! ## Bare step list -/

theorem parseSteps_nil (f : Nat) : parseSteps f [] = .ok ([], []) := by
  rw [parseSteps]

theorem parseSteps_cons (f : Nat) (v : Val) (r : List Val) :
    parseSteps f (v :: r) =
      match parseStep f v with
      | .error e => .error e
      | .ok (s, w) =>
        match parseSteps f r with
        | .error e => .error e
        | .ok (ss, ws) => .ok (s :: ss, w ++ ws) := by
  rw [parseSteps]
  rfl

theorem parseSteps_length (f : Nat) : (xs : List Val) → (ss : List Step) → (ws : List Warn) →
    parseSteps f xs = .ok (ss, ws) → ss.length = xs.length
  | [], ss, ws, h => by
    rw [parseSteps_nil] at h
    simp only [Except.ok.injEq, Prod.mk.injEq] at h
    rw [← h.1]; rfl
  | v :: r, ss, ws, h => by
    rw [parseSteps_cons] at h
    split at h
    · cases h
    · split at h
      · cases h
      · rename_i ss' ws' hr
        simp only [Except.ok.injEq, Prod.mk.injEq] at h
        rw [← h.1, List.length_cons, List.length_cons, parseSteps_length f r ss' ws' hr]

theorem mSteps_length : (ss : List Step) → (js : List Val) → mSteps ss = .ok js → js.length = ss.length
  | [], js, h => by
    rw [mSteps_nil] at h
    simp only [Except.ok.injEq] at h
    rw [← h]; rfl
  | s :: r, js, h => by
    rw [mSteps_cons] at h
    split at h
    · cases h
    · split at h
      · cases h
      · rename_i vs hr
        simp only [Except.ok.injEq] at h
        rw [← h, List.length_cons, List.length_cons, mSteps_length r vs hr]

theorem bare_list_becomes_steps (xs : List Val) (p : Pipeline) (ws : List Warn) (j : Val)
    (h : parsePipeline (.seq xs) = .ok (p, ws)) (hj : mPipeline p = .ok j) :
    ∃ js, j = .umap [("steps", .seq js)] ∧ js.length = xs.length := by
  unfold parsePipeline at h
  simp only at h
  cases hp : parseSteps stepFuel xs with
  | error e => simp [hp] at h
  | ok r =>
    obtain ⟨ss, ws'⟩ := r
    simp only [hp, Except.ok.injEq, Prod.mk.injEq] at h
    obtain ⟨rfl, _⟩ := h
    unfold mPipeline at hj
    simp only at hj
    cases hm : mSteps ss with
    | error e => simp [hm, Except.map] at hj
    | ok js =>
      simp only [hm, Except.map, Except.ok.injEq] at hj
      refine ⟨js, ?_, ?_⟩
      · rw [← hj]
        simp [inlineFriendly, Marshal.umapOf, Marshal.umapInsert]
      · rw [mSteps_length ss js hm, parseSteps_length _ xs ss ws' hp]

end GoPipeline.Parse
