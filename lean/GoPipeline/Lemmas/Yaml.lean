/-
  C07 / C08 — lemmas about the YAML graph decoding model (`Model/Yaml.lean`).
-/
import GoPipeline.Model.Yaml
namespace GoPipeline.Yaml
open GoPipeline

/-! ## Part 1: direct unfoldings -/

theorem cycle_detected (s : Store) (f : Nat) (seen : List Nat) (i : Nat) (h : i ∈ seen) :
    decode s (f + 1) seen (some i) = .error .recursion := by
  simp [decode, h]

theorem alias_is_copy (s : Store) (f : Nat) (seen : List Nat) (i t : Nat) (n : NodeRec)
    (hn : s[i]? = some n) (hk : n.kind = .alias) (ht : n.aliasTo = some t) (hi : i ∉ seen) :
    decode s (f + 2) seen (some i) = decode s (f + 1) (i :: seen) (some t) := by
  rw [decode]
  simp [hi, hn, hk, ht]

theorem merged_skipped (s : Store) (f : Nat) (levels : List (List String)) (st : RangeSt) (i : Nat)
    (h : i ∈ st.merged) : rangeImpl s (f + 1) levels st (some i) = .ok (levels, st) := by
  simp [rangeImpl, h]

theorem bad_key (s : Store) (f : Nat) (i : Nat) (n : NodeRec) (hn : s[i]? = some n)
    (h : (n.kind = .scalar ∧ n.keyStr = none) ∨ (n.kind ≠ .scalar ∧ n.kind ≠ .alias)) :
    ∃ e, canonicalKey s (f + 1) i = .error e := by
  rcases h with ⟨hk, hs⟩ | ⟨h1, h2⟩
  · exact ⟨.other, by simp [canonicalKey, hn, hk, hs]⟩
  · refine ⟨.other, ?_⟩
    simp only [canonicalKey, hn]

theorem explicit_beats_merged (have_ : List String) (out src : List (String × Nat)) (k : String)
    (hk : k ∈ have_) : ∀ p ∈ (mergeInto have_ out src).2, p ∈ out ∨ p.1 ≠ k := by
  induction src generalizing have_ out with
  | nil => intro p hp; exact .inl hp
  | cons a r ih =>
    obtain ⟨k', v⟩ := a
    intro p hp
    simp only [mergeInto] at hp
    split at hp
    · exact ih have_ out hk p hp
    · next hc =>
      rcases ih (k' :: have_) (out ++ [(k', v)]) (List.mem_cons_of_mem _ hk) p hp with h | h
      · rcases List.mem_append.mp h with h | h
        · exact .inl h
        · right
          simp only [List.mem_singleton] at h
          subst h
          intro he
          simp only at he
          subst he
          exact hc (by simpa using hk)
      · exact .inr h

theorem earlier_beats_later (have_ : List String) (out src : List (String × Nat)) :
    out <+: (mergeInto have_ out src).2 ∧ ∀ k ∈ have_, k ∈ (mergeInto have_ out src).1 := by
  induction src generalizing have_ out with
  | nil => exact ⟨List.prefix_refl _, fun _ h => h⟩
  | cons a r ih =>
    obtain ⟨k', v⟩ := a
    simp only [mergeInto]
    split
    · exact ih have_ out
    · obtain ⟨h1, h2⟩ := ih (k' :: have_) (out ++ [(k', v)])
      exact ⟨(List.prefix_append _ _).trans h1, fun k hk => h2 k (List.mem_cons_of_mem _ hk)⟩

/-! ### `decodePairs` and key order -/

theorem aset_keys (acc : List (String × Val)) (k : String) (x : Val) :
    (OMap.aset acc k x).map (·.1) =
      if k ∈ acc.map (·.1) then acc.map (·.1) else acc.map (·.1) ++ [k] := by
  unfold OMap.aset
  have hl : (acc.lookup k).isSome = true ↔ k ∈ acc.map (·.1) := by
    induction acc with
    | nil => simp
    | cons p r ih =>
      obtain ⟨a, b⟩ := p
      simp only [List.lookup, List.map_cons, List.mem_cons]
      by_cases hab : k = a
      · subst hab; simp
      · have : (k == a) = false := by simpa using hab
        simp [this, ih, hab]
  by_cases hm : k ∈ acc.map (·.1)
  · rw [if_pos (hl.mpr hm), if_pos hm, List.map_map]
    apply List.map_congr_left
    intro p _
    simp only [Function.comp]
    split
    · next h => simpa using (by simpa using h : p.1 = k).symm
    · rfl
  · rw [if_neg (fun h => hm (hl.mp h)), if_neg hm]
    simp

theorem decodePairs_keys_gen (s : Store) (f : Nat) (seen : List Nat) (ps : List (String × Nat))
    (acc0 acc : List (String × Val)) (hnd : (acc0.map (·.1)).eraseDups = acc0.map (·.1))
    (h : decodePairs s f seen ps acc0 = .ok acc) :
    acc.map (·.1) = (acc0.map (·.1) ++ ps.map (·.1)).eraseDups := by
  induction f generalizing ps acc0 with
  | zero => simp [decodePairs] at h
  | succ f ih =>
    cases ps with
    | nil =>
      simp only [decodePairs, Except.ok.injEq] at h
      subst h
      simp [hnd]
    | cons p rest =>
      obtain ⟨k, v⟩ := p
      simp only [decodePairs] at h
      split at h
      · simp at h
      · next x _ =>
        have hk := aset_keys acc0 k x
        by_cases hm : k ∈ acc0.map (·.1)
        · rw [if_pos hm] at hk
          have := ih rest (OMap.aset acc0 k x) (by rw [hk]; exact hnd) h
          rw [this, hk, List.eraseDups_append, List.eraseDups_append]
          congr 2
          simp only [List.map_cons, List.removeAll, List.filter_cons]
          simp [hm]
        · rw [if_neg hm] at hk
          have hnd' : (acc0.map (·.1) ++ [k]).eraseDups = acc0.map (·.1) ++ [k] := by
            rw [List.eraseDups_append, hnd]
            congr 1
            simp only [List.removeAll, List.filter_cons, List.filter_nil]
            simp [hm, List.eraseDups_cons]
          have := ih rest (OMap.aset acc0 k x) (by rw [hk]; exact hnd') h
          rw [this, hk]
          simp

theorem decoded_key_order (s : Store) (f : Nat) (seen : List Nat) (ps : List (String × Nat))
    (acc : List (String × Val)) (h : decodePairs s f seen ps [] = .ok acc) :
    acc.map (·.1) = (ps.map (·.1)).eraseDups := by
  simpa using decodePairs_keys_gen s f seen ps [] acc (by simp) h

/-! ## Part 2: the merge walk never reports `recursion` -/

theorem canonicalKey_no_recursion (s : Store) : ∀ f i, canonicalKey s f i ≠ .error .recursion := by
  intro f
  induction f with
  | zero => intro i; simp [canonicalKey]
  | succ f ih =>
    intro i
    unfold canonicalKey
    repeat' split
    all_goals first | exact ih _ | simp

theorem map_ne_error {α β : Type} {g : α → β} {x : Except Err α} {e : Err} (h : x ≠ .error e) :
    x.map g ≠ .error e := by
  cases x <;> simp_all [Except.map]

theorem range_no_recursion (s : Store) : ∀ f,
    (∀ lv st o, rangeImpl s f lv st o ≠ .error .recursion) ∧
    (∀ cur outer st ps, rangePairs s f cur outer st ps ≠ .error .recursion) ∧
    (∀ lv st l, rangeSeq s f lv st l ≠ .error .recursion) ∧
    (∀ ps, explicitKeys s f ps ≠ .error .recursion) := by
  intro f
  induction f with
  | zero => simp [rangeImpl, rangePairs, rangeSeq, explicitKeys]
  | succ f ih =>
    obtain ⟨ih1, ih2, ih3, ih4⟩ := ih
    refine ⟨?_, ?_, ?_, ?_⟩
    · intro lv st o
      cases o <;> simp only [rangeImpl]
      · simp
      repeat' split
      all_goals first
        | exact ih1 _ _ _
        | exact ih3 _ _ _
        | (intro h; cases h; first | exact ih4 _ ‹_› | exact ih2 _ _ _ _ ‹_›)
        | simp
    · intro cur outer st ps
      rcases ps with _ | ⟨⟨k, v⟩, rest⟩ <;> simp only [rangePairs]
      · simp
      repeat' split
      all_goals first
        | exact ih2 _ _ _ _
        | (intro h; cases h;
           first | exact ih1 _ _ _ ‹_› | exact canonicalKey_no_recursion s _ _ ‹_›)
        | simp
    · intro lv st l
      rcases l with _ | ⟨e, rest⟩ <;> simp only [rangeSeq]
      · simp
      repeat' split
      all_goals first
        | exact ih3 _ _ _
        | (intro h; cases h; exact ih1 _ _ _ ‹_›)
        | simp
    · intro ps
      rcases ps with _ | ⟨⟨k, v⟩, rest⟩ <;> simp only [explicitKeys]
      · simp
      repeat' split
      all_goals first
        | exact ih4 _
        | exact map_ne_error (ih4 _)
        | (intro h; cases h; exact canonicalKey_no_recursion s _ _ ‹_›)
        | simp

theorem rangeMap_no_recursion (s : Store) (f : Nat) (i : Nat) : rangeMap s f i ≠ .error .recursion :=
  map_ne_error ((range_no_recursion s f).1 _ _ _)

end GoPipeline.Yaml
