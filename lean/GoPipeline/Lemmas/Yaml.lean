/-
  C07 / C08 — lemmas about the YAML graph decoding model (`Model/Yaml.lean`).
-/
import GoPipeline.Model.Yaml
namespace GoPipeline.Yaml
open GoPipeline

/-! ## Part 1: direct unfoldings -/

theorem cycle_detected (s : Store) (f : Nat) (seen : List Nat) (i : Nat) (h : i ∈ seen) :
    decode s (f + 1) seen (some i) = .error .recursion := by
  simp [decode, h]

theorem alias_is_copy (s : Store) (f : Nat) (seen : List Nat) (i t : Nat) (n : NodeRec)
    (hn : s[i]? = some n) (hk : n.kind = .alias) (ht : n.aliasTo = some t) (hi : i ∉ seen) :
    decode s (f + 2) seen (some i) = decode s (f + 1) (i :: seen) (some t) := by
  rw [decode]
  simp [hi, hn, hk, ht]

theorem merged_skipped (s : Store) (f : Nat) (levels : List (List String)) (st : RangeSt) (i : Nat)
    (h : i ∈ st.merged) : rangeImpl s (f + 1) levels st (some i) = .ok (levels, st) := by
  simp [rangeImpl, h]

theorem bad_key (s : Store) (f : Nat) (i : Nat) (n : NodeRec) (hn : s[i]? = some n)
    (h : (n.kind = .scalar ∧ n.keyStr = none) ∨ (n.kind ≠ .scalar ∧ n.kind ≠ .alias)) :
    ∃ e, canonicalKey s (f + 1) i = .error e := by
  rcases h with ⟨hk, hs⟩ | ⟨h1, h2⟩
  · exact ⟨.other, by simp [canonicalKey, hn, hk, hs]⟩
  · refine ⟨.other, ?_⟩
    simp only [canonicalKey, hn]

theorem explicit_beats_merged (have_ : List String) (out src : List (String × Nat)) (k : String)
    (hk : k ∈ have_) : ∀ p ∈ (mergeInto have_ out src).2, p ∈ out ∨ p.1 ≠ k := by
  induction src generalizing have_ out with
  | nil => intro p hp; exact .inl hp
  | cons a r ih =>
    obtain ⟨k', v⟩ := a
    intro p hp
    simp only [mergeInto] at hp
    split at hp
    · exact ih have_ out hk p hp
    · next hc =>
      rcases ih (k' :: have_) (out ++ [(k', v)]) (List.mem_cons_of_mem _ hk) p hp with h | h
      · rcases List.mem_append.mp h with h | h
        · exact .inl h
        · right
          simp only [List.mem_singleton] at h
          subst h
          intro he
          simp only at he
          subst he
          exact hc (by simpa using hk)
      · exact .inr h

theorem earlier_beats_later (have_ : List String) (out src : List (String × Nat)) :
    out <+: (mergeInto have_ out src).2 ∧ ∀ k ∈ have_, k ∈ (mergeInto have_ out src).1 := by
  induction src generalizing have_ out with
  | nil => exact ⟨List.prefix_refl _, fun _ h => h⟩
  | cons a r ih =>
    obtain ⟨k', v⟩ := a
    simp only [mergeInto]
    split
    · exact ih have_ out
    · obtain ⟨h1, h2⟩ := ih (k' :: have_) (out ++ [(k', v)])
      exact ⟨(List.prefix_append _ _).trans h1, fun k hk => h2 k (List.mem_cons_of_mem _ hk)⟩

/-! ### `decodePairs` and key order -/

theorem aset_keys (acc : List (String × Val)) (k : String) (x : Val) :
    (OMap.aset acc k x).map (·.1) =
      if k ∈ acc.map (·.1) then acc.map (·.1) else acc.map (·.1) ++ [k] := by
  unfold OMap.aset
  have hl : (acc.lookup k).isSome = true ↔ k ∈ acc.map (·.1) := by
    induction acc with
    | nil => simp
    | cons p r ih =>
      obtain ⟨a, b⟩ := p
      simp only [List.lookup, List.map_cons, List.mem_cons]
      by_cases hab : k = a
      · subst hab; simp
      · have : (k == a) = false := by simpa using hab
        simp [this, ih, hab]
  by_cases hm : k ∈ acc.map (·.1)
  · rw [if_pos (hl.mpr hm), if_pos hm, List.map_map]
    apply List.map_congr_left
    intro p _
    simp only [Function.comp]
    split
    · next h => simpa using (by simpa using h : p.1 = k).symm
    · rfl
  · rw [if_neg (fun h => hm (hl.mp h)), if_neg hm]
    simp

theorem decodePairs_keys_gen (s : Store) (f : Nat) (seen : List Nat) (ps : List (String × Nat))
    (acc0 acc : List (String × Val)) (hnd : (acc0.map (·.1)).eraseDups = acc0.map (·.1))
    (h : decodePairs s f seen ps acc0 = .ok acc) :
    acc.map (·.1) = (acc0.map (·.1) ++ ps.map (·.1)).eraseDups := by
  induction f generalizing ps acc0 with
  | zero => simp [decodePairs] at h
  | succ f ih =>
    cases ps with
    | nil =>
      simp only [decodePairs, Except.ok.injEq] at h
      subst h
      simp [hnd]
    | cons p rest =>
      obtain ⟨k, v⟩ := p
      simp only [decodePairs] at h
      split at h
      · simp at h
      · next x _ =>
        have hk := aset_keys acc0 k x
        by_cases hm : k ∈ acc0.map (·.1)
        · rw [if_pos hm] at hk
          have := ih rest (OMap.aset acc0 k x) (by rw [hk]; exact hnd) h
          rw [this, hk, List.eraseDups_append, List.eraseDups_append]
          congr 2
          simp only [List.map_cons, List.removeAll, List.filter_cons]
          simp [hm]
        · rw [if_neg hm] at hk
          have hnd' : (acc0.map (·.1) ++ [k]).eraseDups = acc0.map (·.1) ++ [k] := by
            rw [List.eraseDups_append, hnd]
            congr 1
            simp only [List.removeAll, List.filter_cons, List.filter_nil]
            simp [hm, List.eraseDups_cons]
          have := ih rest (OMap.aset acc0 k x) (by rw [hk]; exact hnd') h
          rw [this, hk]
          simp

theorem decoded_key_order (s : Store) (f : Nat) (seen : List Nat) (ps : List (String × Nat))
    (acc : List (String × Val)) (h : decodePairs s f seen ps [] = .ok acc) :
    acc.map (·.1) = (ps.map (·.1)).eraseDups := by
  simpa using decodePairs_keys_gen s f seen ps [] acc (by simp) h

/-! ## Part 2: the merge walk never reports `recursion` -/

theorem canonicalKey_no_recursion (s : Store) : ∀ f i, canonicalKey s f i ≠ .error .recursion := by
  intro f
  induction f with
  | zero => intro i; simp [canonicalKey]
  | succ f ih =>
    intro i
    unfold canonicalKey
    repeat' split
    all_goals first | exact ih _ | simp

theorem map_ne_error {α β : Type} {g : α → β} {x : Except Err α} {e : Err} (h : x ≠ .error e) :
    x.map g ≠ .error e := by
  cases x <;> simp_all [Except.map]

theorem range_no_recursion (s : Store) : ∀ f,
    (∀ lv st o, rangeImpl s f lv st o ≠ .error .recursion) ∧
    (∀ cur outer st ps, rangePairs s f cur outer st ps ≠ .error .recursion) ∧
    (∀ lv st l, rangeSeq s f lv st l ≠ .error .recursion) ∧
    (∀ ps, explicitKeys s f ps ≠ .error .recursion) := by
  intro f
  induction f with
  | zero => simp [rangeImpl, rangePairs, rangeSeq, explicitKeys]
  | succ f ih =>
    obtain ⟨ih1, ih2, ih3, ih4⟩ := ih
    refine ⟨?_, ?_, ?_, ?_⟩
    · intro lv st o
      cases o <;> simp only [rangeImpl]
      · simp
      repeat' split
      all_goals first
        | exact ih1 _ _ _
        | exact ih3 _ _ _
        | (intro h; cases h; first | exact ih4 _ ‹_› | exact ih2 _ _ _ _ ‹_›)
        | simp
    · intro cur outer st ps
      rcases ps with _ | ⟨⟨k, v⟩, rest⟩ <;> simp only [rangePairs]
      · simp
      repeat' split
      all_goals first
        | exact ih2 _ _ _ _
        | (intro h; cases h;
           first | exact ih1 _ _ _ ‹_› | exact canonicalKey_no_recursion s _ _ ‹_›)
        | simp
    · intro lv st l
      rcases l with _ | ⟨e, rest⟩ <;> simp only [rangeSeq]
      · simp
      repeat' split
      all_goals first
        | exact ih3 _ _ _
        | (intro h; cases h; exact ih1 _ _ _ ‹_›)
        | simp
    · intro ps
      rcases ps with _ | ⟨⟨k, v⟩, rest⟩ <;> simp only [explicitKeys]
      · simp
      repeat' split
      all_goals first
        | exact ih4 _
        | exact map_ne_error (ih4 _)
        | (intro h; cases h; exact canonicalKey_no_recursion s _ _ ‹_›)
        | simp

theorem rangeMap_no_recursion (s : Store) (f : Nat) (i : Nat) : rangeMap s f i ≠ .error .recursion :=
  map_ne_error ((range_no_recursion s f).1 _ _ _)

/-! ## Part 3: fuel sufficiency (bounded recursion)

  Two facts about the model as first written made the unconditional statements false:

  * `canonicalKey` follows alias → alias chains with no cycle detection (as `canonicalMapKey` does in Go);
    on a hand-built graph with an alias key node that is its own target it runs out of any fuel
    (`aliasLoop_counterexample`).  yaml.v3 never builds such graphs: `Alias` always points at the
    anchored node, and an alias node cannot carry an anchor.  This is the hypothesis `AliasFlat`.
  * `decodePairs` consumes one unit of fuel per yielded pair and the yielded list of a mapping with
    merges is not bounded by one content list; `bound` was enlarged accordingly in the model
    (`oldBound_counterexample`).
-/

/-- yaml.v3 invariant: the target of an alias node is never an alias node. -/
def AliasFlat (s : Store) : Prop :=
  ∀ (i : Nat) (n : NodeRec) (t : Nat) (m : NodeRec),
    s[i]? = some n → n.kind = .alias → n.aliasTo = some t → s[t]? = some m → m.kind ≠ .alias

theorem canonicalKey_total (s : Store) (h : AliasFlat s) (f i : Nat) :
    canonicalKey s (f + 2) i ≠ .error .fuel := by
  rw [canonicalKey]
  cases hs : s[i]? with
  | none => simp
  | some n =>
    simp only []
    cases hk : n.kind <;> simp only []
    case scalar => split <;> simp
    case alias =>
      cases ha : n.aliasTo with
      | none => simp
      | some t =>
        simp only []
        rw [canonicalKey]
        cases ht : s[t]? with
        | none => simp
        | some m =>
          have := h i n t m hs hk ha ht
          simp only []
          cases hm : m.kind <;> simp only []
          case scalar => split <;> simp
          case alias => exact absurd hm this
          all_goals simp
    all_goals simp

/-- Number of store nodes not yet in the set `m`. -/
def rem (s : Store) (m : List Nat) : Nat := ((List.range s.length).filter (fun x => !m.contains x)).length

theorem rem_nil (s : Store) : rem s [] = s.length := by
  unfold rem
  rw [List.filter_eq_self.mpr (by simp)]
  simp

theorem filter_length_mono {α : Type} (p q : α → Bool) (l : List α)
    (hpq : ∀ x, p x = true → q x = true) : (l.filter p).length ≤ (l.filter q).length := by
  induction l with
  | nil => simp
  | cons b r ih =>
    simp only [List.filter_cons]
    cases hpb : p b
    · cases hqb : q b <;> simp <;> omega
    · simp [hpq b hpb]; omega

theorem rem_mono (s : Store) {m m' : List Nat} (h : ∀ x ∈ m, x ∈ m') : rem s m' ≤ rem s m := by
  unfold rem
  apply filter_length_mono
  intro x hx
  simp only [Bool.not_eq_true', List.contains_eq_mem, decide_eq_false_iff_not] at hx ⊢
  exact fun hm => hx (h x hm)

theorem filter_length_lt {α : Type} (p q : α → Bool) (l : List α) (a : α) (ha : a ∈ l)
    (hpq : ∀ x, p x = true → q x = true) (hq : q a = true) (hp : p a = false) :
    (l.filter p).length + 1 ≤ (l.filter q).length := by
  induction l with
  | nil => cases ha
  | cons b r ih =>
    rcases List.mem_cons.mp ha with rfl | ha'
    · have : (r.filter p).length ≤ (r.filter q).length := filter_length_mono p q r hpq
      simp only [List.filter_cons, hq, hp]
      simp
      omega
    · have := ih ha'
      simp only [List.filter_cons]
      cases hpb : p b
      · cases hqb : q b <;> simp <;> omega
      · simp [hpq b hpb]; omega

theorem rem_cons_lt (s : Store) {m : List Nat} {i : Nat} (hi : i < s.length) (hm : i ∉ m) :
    rem s (i :: m) + 1 ≤ rem s m := by
  unfold rem
  apply filter_length_lt _ _ _ i (List.mem_range.mpr hi)
  · intro x hx
    simp only [Bool.not_eq_true', List.contains_eq_mem, decide_eq_false_iff_not, List.mem_cons, not_or] at hx ⊢
    exact hx.2
  · simpa using hm
  · simp

theorem lt_of_getElem? {s : Store} {i : Nat} {n : NodeRec} (h : s[i]? = some n) : i < s.length := by
  rcases List.getElem?_eq_some_iff.mp h with ⟨hl, _⟩
  exact hl

theorem foldl_max_ge (l : List NodeRec) (init : Nat) :
    init ≤ l.foldl (fun m n => max m n.content.length) init ∧
    ∀ n ∈ l, n.content.length ≤ l.foldl (fun m n => max m n.content.length) init := by
  induction l generalizing init with
  | nil => simp
  | cons a r ih =>
    simp only [List.foldl_cons, List.mem_cons, forall_eq_or_imp]
    obtain ⟨h1, h2⟩ := ih (max init a.content.length)
    refine ⟨by omega, by omega, h2⟩

theorem content_le {s : Store} {i : Nat} {n : NodeRec} (h : s[i]? = some n) :
    n.content.length ≤ maxContent s :=
  (foldl_max_ge s 0).2 n (List.mem_of_getElem? h)

theorem pairsOf_length : ∀ (l : List Nat) (ps : List (Nat × Nat)), pairsOf l = some ps → 2 * ps.length = l.length
  | [], ps, h => by simp [pairsOf] at h; subst h; rfl
  | [_], ps, h => by simp [pairsOf] at h
  | k :: v :: r, ps, h => by
    simp only [pairsOf, Option.map_eq_some_iff] at h
    obtain ⟨ps', hps', rfl⟩ := h
    have := pairsOf_length r ps' hps'
    simp only [List.length_cons]
    omega

/-- Output budget: every node still outside `merged` may contribute one content list of pairs. -/
def pot (s : Store) (m : List Nat) : Nat := rem s m * maxContent s

theorem pot_mono (s : Store) {m m' : List Nat} (h : ∀ x ∈ m, x ∈ m') : pot s m' ≤ pot s m :=
  Nat.mul_le_mul_right _ (rem_mono s h)

theorem pot_cons (s : Store) {m : List Nat} {i : Nat} (hi : i < s.length) (hm : i ∉ m) :
    pot s (i :: m) + maxContent s ≤ pot s m := by
  have := Nat.mul_le_mul_right (maxContent s) (rem_cons_lt s hi hm)
  rw [Nat.add_mul, Nat.one_mul] at this
  exact this

/-- Fuel that suffices for `rangeImpl` when the `merged` set is `m`. -/
def need (s : Store) (m : List Nat) : Nat := rem s m * (maxContent s + 2) + 1

theorem need_pos (s : Store) (m : List Nat) : 1 ≤ need s m := by unfold need; omega

theorem need_mono (s : Store) {m m' : List Nat} (h : ∀ x ∈ m, x ∈ m') : need s m' ≤ need s m := by
  have := Nat.mul_le_mul_right (maxContent s + 2) (rem_mono s h)
  unfold need; omega

theorem need_cons (s : Store) {m : List Nat} {i : Nat} (hi : i < s.length) (hm : i ∉ m) :
    need s (i :: m) + maxContent s + 2 ≤ need s m := by
  have := Nat.mul_le_mul_right (maxContent s + 2) (rem_cons_lt s hi hm)
  rw [Nat.add_mul, Nat.one_mul] at this
  unfold need; omega

/-- What a successful walk does to the state: `merged` only grows, and the number of yielded pairs is paid
    for by the nodes that entered `merged`. -/
theorem range_inv (s : Store) : ∀ f,
    (∀ lv st o lv' st', rangeImpl s f lv st o = .ok (lv', st') →
      (∀ x ∈ st.merged, x ∈ st'.merged) ∧ st'.out.length + pot s st'.merged ≤ st.out.length + pot s st.merged) ∧
    (∀ cur outer st ps cur' outer' st', rangePairs s f cur outer st ps = .ok (cur', outer', st') →
      (∀ x ∈ st.merged, x ∈ st'.merged) ∧
      st'.out.length + pot s st'.merged ≤ st.out.length + pot s st.merged + ps.length) ∧
    (∀ lv st l lv' st', rangeSeq s f lv st l = .ok (lv', st') →
      (∀ x ∈ st.merged, x ∈ st'.merged) ∧ st'.out.length + pot s st'.merged ≤ st.out.length + pot s st.merged) := by
  intro f
  induction f with
  | zero => simp [rangeImpl, rangePairs, rangeSeq]
  | succ f ih =>
    obtain ⟨ih1, ih2, ih3⟩ := ih
    refine ⟨?_, ?_, ?_⟩
    · intro lv st o lv' st' h
      cases o with
      | none =>
        simp only [rangeImpl, Except.ok.injEq, Prod.mk.injEq] at h
        obtain ⟨_, rfl⟩ := h
        exact ⟨fun _ hx => hx, Nat.le_refl _⟩
      | some i =>
        simp only [rangeImpl] at h
        split at h
        · simp only [Except.ok.injEq, Prod.mk.injEq] at h
          obtain ⟨_, rfl⟩ := h
          exact ⟨fun _ hx => hx, Nat.le_refl _⟩
        · next hc =>
          have hc' : i ∉ st.merged := by simpa using hc
          cases hs : s[i]? with
          | none => simp [hs] at h
          | some n =>
            have hi := lt_of_getElem? hs
            have hpc := pot_cons s hi hc'
            have hcont := content_le hs
            simp only [hs] at h
            cases hk : n.kind <;> simp only [hk] at h <;> try (simp at h; done)
            · -- sequence
              obtain ⟨h1, h2⟩ := ih3 _ _ _ _ _ h
              exact ⟨fun x hx => h1 x (List.mem_cons_of_mem _ hx), by simp only [] at h2; omega⟩
            · -- mapping
              cases hp : pairsOf n.content with
              | none => simp [hp] at h
              | some ps =>
                have hlen := pairsOf_length _ _ hp
                simp only [hp] at h
                cases he : explicitKeys s f ps with
                | error e => simp [he] at h
                | ok ks =>
                  simp only [he] at h
                  cases hr : rangePairs s f ks lv { merged := i :: st.merged, out := st.out } ps with
                  | error e => simp [hr] at h
                  | ok r =>
                    obtain ⟨c', o', st''⟩ := r
                    simp only [hr, Except.ok.injEq, Prod.mk.injEq] at h
                    obtain ⟨_, rfl⟩ := h
                    obtain ⟨h1, h2⟩ := ih2 _ _ _ _ _ _ _ hr
                    exact ⟨fun x hx => h1 x (List.mem_cons_of_mem _ hx), by simp only [] at h2; omega⟩
            · -- alias
              obtain ⟨h1, h2⟩ := ih1 _ _ _ _ _ h
              exact ⟨fun x hx => h1 x (List.mem_cons_of_mem _ hx), by simp only [] at h2; omega⟩
    · intro cur outer st ps cur' outer' st' h
      rcases ps with _ | ⟨⟨k, v⟩, rest⟩
      · simp only [rangePairs, Except.ok.injEq, Prod.mk.injEq] at h
        obtain ⟨_, _, rfl⟩ := h
        exact ⟨fun _ hx => hx, by simp⟩
      · simp only [rangePairs] at h
        cases hs : s[k]? with
        | none => simp [hs] at h
        | some kn =>
          simp only [hs] at h
          split at h
          · cases hr : rangeImpl s f (cur :: outer) st (some v) with
            | error e => simp [hr] at h
            | ok r =>
              obtain ⟨lv1, st1⟩ := r
              obtain ⟨a1, a2⟩ := ih1 _ _ _ _ _ hr
              simp only [hr] at h
              cases lv1 with
              | nil =>
                obtain ⟨b1, b2⟩ := ih2 _ _ _ _ _ _ _ h
                exact ⟨fun x hx => b1 x (a1 x hx), by simp only [List.length_cons]; omega⟩
              | cons c1 o1 =>
                obtain ⟨b1, b2⟩ := ih2 _ _ _ _ _ _ _ h
                exact ⟨fun x hx => b1 x (a1 x hx), by simp only [List.length_cons]; omega⟩
          · cases hck : canonicalKey s (f + 1) k with
            | error e => simp [hck] at h
            | ok ck =>
              simp only [hck] at h
              split at h
              · obtain ⟨b1, b2⟩ := ih2 _ _ _ _ _ _ _ h
                exact ⟨b1, by simp only [List.length_cons]; omega⟩
              · obtain ⟨b1, b2⟩ := ih2 _ _ _ _ _ _ _ h
                refine ⟨b1, ?_⟩
                simp only [List.length_append, List.length_cons, List.length_nil] at b2 ⊢
                omega
    · intro lv st l lv' st' h
      rcases l with _ | ⟨e, rest⟩
      · simp only [rangeSeq, Except.ok.injEq, Prod.mk.injEq] at h
        obtain ⟨_, rfl⟩ := h
        exact ⟨fun _ hx => hx, Nat.le_refl _⟩
      · simp only [rangeSeq] at h
        cases hr : rangeImpl s f lv st (some e) with
        | error err => simp [hr] at h
        | ok r =>
          obtain ⟨lv1, st1⟩ := r
          obtain ⟨a1, a2⟩ := ih1 _ _ _ _ _ hr
          simp only [hr] at h
          obtain ⟨b1, b2⟩ := ih3 _ _ _ _ _ h
          exact ⟨fun x hx => b1 x (a1 x hx), by omega⟩

theorem range_total (s : Store) (hflat : AliasFlat s) : ∀ f,
    (∀ lv st o, need s st.merged ≤ f → rangeImpl s f lv st o ≠ .error .fuel) ∧
    (∀ cur outer st ps, ps.length + 1 + need s st.merged ≤ f → rangePairs s f cur outer st ps ≠ .error .fuel) ∧
    (∀ lv st l, l.length + 1 + need s st.merged ≤ f → rangeSeq s f lv st l ≠ .error .fuel) ∧
    (∀ ps, ps.length + 1 ≤ f → explicitKeys s f ps ≠ .error .fuel) := by
  intro f
  induction f with
  | zero =>
    refine ⟨?_, ?_, ?_, ?_⟩
    · intro lv st o h; have := need_pos s st.merged; omega
    · intro cur outer st ps h; omega
    · intro lv st l h; omega
    · intro ps h; omega
  | succ f ih =>
    obtain ⟨ih1, ih2, ih3, ih4⟩ := ih
    refine ⟨?_, ?_, ?_, ?_⟩
    · intro lv st o hf
      cases o with
      | none => simp [rangeImpl]
      | some i =>
        simp only [rangeImpl]
        split
        · simp
        · next hc =>
          have hc' : i ∉ st.merged := by simpa using hc
          cases hs : s[i]? with
          | none => simp
          | some n =>
            have hi := lt_of_getElem? hs
            have hnc := need_cons s hi hc'
            have hcont := content_le hs
            simp only []
            cases hk : n.kind <;> simp only []
            case sequence =>
              exact ih3 _ _ _ (by simp only []; omega)
            case mapping =>
              cases hp : pairsOf n.content with
              | none => simp
              | some ps =>
                have hlen := pairsOf_length _ _ hp
                simp only []
                cases he : explicitKeys s f ps with
                | error e =>
                  simp only []
                  intro h; cases h
                  exact ih4 ps (by omega) he
                | ok ks =>
                  simp only []
                  cases hr : rangePairs s f ks lv { merged := i :: st.merged, out := st.out } ps with
                  | error e =>
                    simp only []
                    intro h; cases h
                    exact ih2 _ _ _ _ (by simp only []; omega) hr
                  | ok r => simp
            case alias =>
              exact ih1 _ _ _ (by simp only []; omega)
            all_goals simp
    · intro cur outer st ps hf
      rcases ps with _ | ⟨⟨k, v⟩, rest⟩
      · simp [rangePairs]
      · simp only [List.length_cons] at hf
        have hpos := need_pos s st.merged
        simp only [rangePairs]
        cases hs : s[k]? with
        | none => simp
        | some kn =>
          simp only []
          split
          · cases hr : rangeImpl s f (cur :: outer) st (some v) with
            | error e =>
              simp only []
              intro h; cases h
              exact ih1 _ _ _ (by omega) hr
            | ok r =>
              obtain ⟨lv1, st1⟩ := r
              have hm := need_mono s ((range_inv s f).1 _ _ _ _ _ hr).1
              cases lv1 with
              | nil => exact ih2 _ _ _ _ (by omega)
              | cons c1 o1 => exact ih2 _ _ _ _ (by omega)
          · obtain ⟨f', rfl⟩ : ∃ f', f = f' + 1 := ⟨f - 1, by omega⟩
            cases hck : canonicalKey s (f' + 1 + 1) k with
            | error e =>
              simp only []
              intro h; cases h
              exact canonicalKey_total s hflat f' k hck
            | ok ck =>
              simp only []
              split
              · exact ih2 _ _ _ _ (by omega)
              · exact ih2 _ _ _ _ (by simp only []; omega)
    · intro lv st l hf
      rcases l with _ | ⟨e, rest⟩
      · simp [rangeSeq]
      · simp only [List.length_cons] at hf
        simp only [rangeSeq]
        cases hr : rangeImpl s f lv st (some e) with
        | error err =>
          simp only []
          intro h; cases h
          exact ih1 _ _ _ (by omega) hr
        | ok r =>
          obtain ⟨lv1, st1⟩ := r
          have hm := need_mono s ((range_inv s f).1 _ _ _ _ _ hr).1
          exact ih3 _ _ _ (by omega)
    · intro ps hf
      rcases ps with _ | ⟨⟨k, v⟩, rest⟩
      · simp [explicitKeys]
      · simp only [List.length_cons] at hf
        simp only [explicitKeys]
        cases hs : s[k]? with
        | none => simp
        | some kn =>
          simp only []
          split
          · exact ih4 _ (by omega)
          · obtain ⟨f', rfl⟩ : ∃ f', f = f' + 1 := ⟨f - 1, by omega⟩
            cases hck : canonicalKey s (f' + 1 + 1) k with
            | error e =>
              simp only []
              intro h; cases h
              exact canonicalKey_total s hflat f' k hck
            | ok ck => exact map_ne_error (ih4 _ (by omega))

theorem need_le_bound (s : Store) : need s [] ≤ bound s := by
  unfold need bound maxList
  rw [rem_nil]
  have h1 : s.length * (maxContent s + 2) ≤ s.length * ((s.length + 1) * maxContent s + 3) := by
    apply Nat.mul_le_mul_left
    have : maxContent s ≤ (s.length + 1) * maxContent s := Nat.le_mul_of_pos_left _ (by omega)
    omega
  rw [Nat.add_mul (s.length) 2]
  omega

theorem rangeMap_total (s : Store) (i : Nat) (h : AliasFlat s) : rangeMap s (bound s) i ≠ .error .fuel :=
  map_ne_error ((range_total s h (bound s)).1 _ _ _ (need_le_bound s))

/-- The pairs one `rangeMap` yields: at most one content list per store node. -/
theorem rangeMap_length (s : Store) (f i : Nat) (ps : List (String × Nat)) (h : rangeMap s f i = .ok ps) :
    ps.length ≤ s.length * maxContent s := by
  unfold rangeMap at h
  cases hr : rangeImpl s f [] { merged := [], out := [] } (some i) with
  | error e => simp [hr, Except.map] at h
  | ok r =>
    obtain ⟨lv, st⟩ := r
    simp only [hr, Except.map, Except.ok.injEq] at h
    subst h
    have := ((range_inv s f).1 _ _ _ _ _ hr).2
    simp only [List.length_nil, Nat.zero_add] at this
    have h0 : pot s [] = s.length * maxContent s := by unfold pot; rw [rem_nil]
    omega

/-- Fuel that suffices for `decode` when the `seen` set is `m`. -/
def dneed (s : Store) (m : List Nat) : Nat := rem s m * (maxList s + 2) + 1

theorem dneed_cons (s : Store) {m : List Nat} {i : Nat} (hi : i < s.length) (hm : i ∉ m) :
    dneed s (i :: m) + maxList s + 2 ≤ dneed s m := by
  have := Nat.mul_le_mul_right (maxList s + 2) (rem_cons_lt s hi hm)
  rw [Nat.add_mul, Nat.one_mul] at this
  unfold dneed; omega

theorem maxContent_le_maxList (s : Store) : maxContent s ≤ maxList s :=
  Nat.le_mul_of_pos_left _ (by omega)

theorem len_mul_le_maxList (s : Store) : s.length * maxContent s ≤ maxList s :=
  Nat.mul_le_mul_right _ (by omega)

theorem decode_total_aux (s : Store) (hflat : AliasFlat s) : ∀ f,
    (∀ seen o, dneed s seen ≤ f → decode s f seen o ≠ .error .fuel) ∧
    (∀ seen l, l.length + 1 + dneed s seen ≤ f → decodeList s f seen l ≠ .error .fuel) ∧
    (∀ seen ps acc, ps.length + 1 + dneed s seen ≤ f → decodePairs s f seen ps acc ≠ .error .fuel) := by
  intro f
  induction f with
  | zero =>
    refine ⟨?_, ?_, ?_⟩
    · intro seen o h; unfold dneed at h; omega
    · intro seen l h; omega
    · intro seen ps acc h; omega
  | succ f ih =>
    obtain ⟨ih1, ih2, ih3⟩ := ih
    refine ⟨?_, ?_, ?_⟩
    · intro seen o hf
      cases o with
      | none => simp [decode]
      | some i =>
        simp only [decode]
        split
        · simp
        · next hc =>
          have hc' : i ∉ seen := by simpa using hc
          cases hs : s[i]? with
          | none => simp
          | some n =>
            have hi := lt_of_getElem? hs
            have hnc := dneed_cons s hi hc'
            have hcont := content_le hs
            have hml := maxContent_le_maxList s
            simp only []
            cases hk : n.kind <;> simp only []
            case scalar => split <;> simp
            case sequence => exact map_ne_error (ih2 _ _ (by omega))
            case mapping =>
              cases hr : rangeMap s (bound s) i with
              | error e =>
                simp only []
                intro h; cases h
                exact rangeMap_total s i hflat hr
              | ok ps =>
                have := rangeMap_length s _ _ _ hr
                have := len_mul_le_maxList s
                exact map_ne_error (ih3 _ _ _ (by omega))
            case alias => exact ih1 _ _ (by omega)
            case document =>
              split
              · simp
              · exact ih1 _ _ (by omega)
              · simp
            case other => simp
    · intro seen l hf
      rcases l with _ | ⟨c, rest⟩
      · simp [decodeList]
      · simp only [List.length_cons] at hf
        simp only [decodeList]
        cases hr : decode s f seen (some c) with
        | error e =>
          simp only []
          intro h; cases h
          exact ih1 _ _ (by omega) hr
        | ok v => exact map_ne_error (ih2 _ _ (by omega))
    · intro seen ps acc hf
      rcases ps with _ | ⟨⟨k, v⟩, rest⟩
      · simp [decodePairs]
      · simp only [List.length_cons] at hf
        simp only [decodePairs]
        cases hr : decode s f seen (some v) with
        | error e =>
          simp only []
          intro h; cases h
          exact ih1 _ _ (by omega) hr
        | ok x => exact ih3 _ _ _ (by omega)

theorem dneed_le_bound (s : Store) : dneed s [] ≤ bound s := by
  unfold dneed bound
  rw [rem_nil, Nat.add_mul (s.length) 2]
  have h1 : s.length * (maxList s + 2) ≤ s.length * (maxList s + 3) := Nat.mul_le_mul_left _ (by omega)
  omega

theorem decode_total (s : Store) (root : Nat) (h : AliasFlat s) : decodeYAML s root ≠ .error .fuel :=
  (decode_total_aux s h (bound s)).1 _ _ (dneed_le_bound s)

/-! ### The two counterexamples behind the changes to the statements / the bound -/

instance instDecidableEqExcept {ε α : Type} [DecidableEq ε] [DecidableEq α] : DecidableEq (Except ε α)
  | .ok a, .ok b => if h : a = b then isTrue (h ▸ rfl) else isFalse (fun h' => h (by cases h'; rfl))
  | .error a, .error b => if h : a = b then isTrue (h ▸ rfl) else isFalse (fun h' => h (by cases h'; rfl))
  | .ok _, .error _ => isFalse (fun h => by cases h)
  | .error _, .ok _ => isFalse (fun h => by cases h)

/-- Decidable test for "ran out of fuel" (`Val` has no `DecidableEq`). -/
def isFuel {α : Type} : Except Err α → Bool
  | .error .fuel => true
  | _ => false

theorem isFuel_iff {α : Type} (x : Except Err α) : isFuel x = true ↔ x = .error .fuel := by
  unfold isFuel; split <;> simp_all

/-- `{ *a : v }` where the key node `*a` is an alias whose target is itself (hand-built; not producible by
    yaml.v3).  `canonicalMapKey` recurses forever in Go; the model runs out of any fuel. -/
def aliasLoopStore : Store :=
  [ { kind := .mapping, isMerge := false, content := [1, 2] },
    { kind := .alias, isMerge := false, aliasTo := some 1 },
    { kind := .scalar, isMerge := false, decoded := some (.str "v"), keyStr := some "v" } ]

theorem aliasLoop_counterexample :
    rangeMap aliasLoopStore (bound aliasLoopStore) 0 = .error .fuel ∧
    decodeYAML aliasLoopStore 0 = .error .fuel ∧ ¬ AliasFlat aliasLoopStore := by
  refine ⟨by decide, (isFuel_iff _).mp (by decide), fun h => ?_⟩
  exact h 1 _ 1 _ rfl rfl rfl rfl rfl

/-- `d` nested mappings `{<<: [m₀ … m_{k-1}], k: <next>}` sharing one sequence of `k` sources with `c`
    distinct keys each: every level's yielded list has `k·c + 1` pairs although no content list is longer
    than `max k (2c)`. -/
def wideMergeStore (k c d : Nat) : Store :=
  let scalar (isMerge : Bool) (str : String) : NodeRec :=
    { kind := .scalar, isMerge := isMerge, keyStr := some str, decoded := some (.str str) }
  let base := 4 + k + k * c
  [scalar true "<<",
   { kind := .sequence, isMerge := false, content := (List.range k).map (· + 4) },
   scalar false "k", scalar false "v"]
  ++ (List.range k).map (fun j =>
        { kind := .mapping, isMerge := false, content := ((List.range c).map fun x => [4 + k + j * c + x, 3]).flatten })
  ++ (List.range (k * c)).map (fun x => scalar false (String.ofList (List.replicate (x + 1) 'a')))
  ++ (List.range d).map (fun j =>
        { kind := .mapping, isMerge := false, content := [0, 1, 2, if j + 1 < d then base + j + 1 else 3] })

/-- With the bound the model first used, `(|store|+2)·(maxContent+3)`, decoding this 53-node acyclic,
    alias-free document ran out of fuel (and it does not with the corrected `bound`). -/
theorem oldBound_counterexample :
    let s := wideMergeStore 6 3 25
    decode s ((s.length + 2) * (maxContent s + 3)) [] (some 28) = .error .fuel ∧
    decodeYAML s 28 ≠ .error .fuel := by
  intro s
  have h : isFuel (decode s ((s.length + 2) * (maxContent s + 3)) [] (some 28)) = true ∧
      isFuel (decodeYAML s 28) = false := by decide +kernel
  exact ⟨(isFuel_iff _).mp h.1, fun he => by rw [(isFuel_iff _).mpr he] at h; exact absurd h.2 (by decide)⟩

end GoPipeline.Yaml
