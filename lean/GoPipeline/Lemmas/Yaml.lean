/-
  C07 / C08 — lemmas about the YAML graph decoding model (`Model/Yaml.lean`).
-/
import GoPipeline.Model.Yaml
namespace GoPipeline.Yaml
open GoPipeline

/-! ## Part 1: direct unfoldings -/

theorem cycle_detected (s : Store) (f : Nat) (seen : List Nat) (i : Nat) (h : i ∈ seen) :
    decode s (f + 1) seen (some i) = .error .recursion := by
  simp [decode, h]

theorem alias_is_copy (s : Store) (f : Nat) (seen : List Nat) (i t : Nat) (n : NodeRec)
    (hn : s[i]? = some n) (hk : n.kind = .alias) (ht : n.aliasTo = some t) (hi : i ∉ seen) :
    decode s (f + 2) seen (some i) = decode s (f + 1) (i :: seen) (some t) := by
  rw [decode]
  simp [hi, hn, hk, ht]

theorem merged_skipped (s : Store) (f : Nat) (levels : List (List String)) (st : RangeSt) (i : Nat)
    (h : i ∈ st.merged) : rangeImpl s (f + 1) levels st (some i) = .ok (levels, st) := by
  simp [rangeImpl, h]

theorem bad_key (s : Store) (f : Nat) (i : Nat) (n : NodeRec) (hn : s[i]? = some n)
    (h : (n.kind = .scalar ∧ n.keyStr = none) ∨ (n.kind ≠ .scalar ∧ n.kind ≠ .alias)) :
    ∃ e, canonicalKey s (f + 1) i = .error e := by
  rcases h with ⟨hk, hs⟩ | ⟨h1, h2⟩
  · exact ⟨.other, by simp [canonicalKey, hn, hk, hs]⟩
  · refine ⟨.other, ?_⟩
    simp only [canonicalKey, hn]

theorem explicit_beats_merged (have_ : List String) (out src : List (String × Nat)) (k : String)
    (hk : k ∈ have_) : ∀ p ∈ (mergeInto have_ out src).2, p ∈ out ∨ p.1 ≠ k := by
  induction src generalizing have_ out with
  | nil => intro p hp; exact .inl hp
  | cons a r ih =>
    obtain ⟨k', v⟩ := a
    intro p hp
    simp only [mergeInto] at hp
    split at hp
    · exact ih have_ out hk p hp
    · next hc =>
      rcases ih (k' :: have_) (out ++ [(k', v)]) (List.mem_cons_of_mem _ hk) p hp with h | h
      · rcases List.mem_append.mp h with h | h
        · exact .inl h
        · right
          simp only [List.mem_singleton] at h
          subst h
          intro he
          simp only at he
          subst he
          exact hc (by simpa using hk)
      · exact .inr h

theorem earlier_beats_later (have_ : List String) (out src : List (String × Nat)) :
    out <+: (mergeInto have_ out src).2 ∧ ∀ k ∈ have_, k ∈ (mergeInto have_ out src).1 := by
  induction src generalizing have_ out with
  | nil => exact ⟨List.prefix_refl _, fun _ h => h⟩
  | cons a r ih =>
    obtain ⟨k', v⟩ := a
    simp only [mergeInto]
    split
    · exact ih have_ out
    · obtain ⟨h1, h2⟩ := ih (k' :: have_) (out ++ [(k', v)])
      exact ⟨(List.prefix_append _ _).trans h1, fun k hk => h2 k (List.mem_cons_of_mem _ hk)⟩

/-! ### `decodePairs` and key order -/

theorem aset_keys (acc : List (String × Val)) (k : String) (x : Val) :
    (OMap.aset acc k x).map (·.1) =
      if k ∈ acc.map (·.1) then acc.map (·.1) else acc.map (·.1) ++ [k] := by
  unfold OMap.aset
  have hl : (acc.lookup k).isSome = true ↔ k ∈ acc.map (·.1) := by
    induction acc with
    | nil => simp
    | cons p r ih =>
      obtain ⟨a, b⟩ := p
      simp only [List.lookup, List.map_cons, List.mem_cons]
      by_cases hab : k = a
      · subst hab; simp
      · have : (k == a) = false := by simpa using hab
        simp [this, ih, hab]
  by_cases hm : k ∈ acc.map (·.1)
  · rw [if_pos (hl.mpr hm), if_pos hm, List.map_map]
    apply List.map_congr_left
    intro p _
    simp only [Function.comp]
    split
    · next h => simpa using (by simpa using h : p.1 = k).symm
    · rfl
  · rw [if_neg (fun h => hm (hl.mp h)), if_neg hm]
    simp

theorem decodePairs_keys_gen (s : Store) (f : Nat) (seen : List Nat) (ps : List (String × Nat))
    (acc0 acc : List (String × Val)) (hnd : (acc0.map (·.1)).eraseDups = acc0.map (·.1))
    (h : decodePairs s f seen ps acc0 = .ok acc) :
    acc.map (·.1) = (acc0.map (·.1) ++ ps.map (·.1)).eraseDups := by
  induction f generalizing ps acc0 with
  | zero => simp [decodePairs] at h
  | succ f ih =>
    cases ps with
    | nil =>
      simp only [decodePairs, Except.ok.injEq] at h
      subst h
      simp [hnd]
    | cons p rest =>
      obtain ⟨k, v⟩ := p
      simp only [decodePairs] at h
      split at h
      · simp at h
      · next x _ =>
        have hk := aset_keys acc0 k x
        by_cases hm : k ∈ acc0.map (·.1)
        · rw [if_pos hm] at hk
          have := ih rest (OMap.aset acc0 k x) (by rw [hk]; exact hnd) h
          rw [this, hk, List.eraseDups_append, List.eraseDups_append]
          congr 2
          simp only [List.map_cons, List.removeAll, List.filter_cons]
          simp [hm]
        · rw [if_neg hm] at hk
          have hnd' : (acc0.map (·.1) ++ [k]).eraseDups = acc0.map (·.1) ++ [k] := by
            rw [List.eraseDups_append, hnd]
            congr 1
            simp only [List.removeAll, List.filter_cons, List.filter_nil]
            simp [hm, List.eraseDups_cons]
          have := ih rest (OMap.aset acc0 k x) (by rw [hk]; exact hnd') h
          rw [this, hk]
          simp

theorem decoded_key_order (s : Store) (f : Nat) (seen : List Nat) (ps : List (String × Nat))
    (acc : List (String × Val)) (h : decodePairs s f seen ps [] = .ok acc) :
    acc.map (·.1) = (ps.map (·.1)).eraseDups := by
  simpa using decodePairs_keys_gen s f seen ps [] acc (by simp) h

/-! ## Part 2: the merge walk never reports `recursion` -/

theorem canonicalKey_no_recursion (s : Store) : ∀ f i, canonicalKey s f i ≠ .error .recursion := by
  intro f
  induction f with
  | zero => intro i; simp [canonicalKey]
  | succ f ih =>
    intro i
    unfold canonicalKey
    repeat' split
    all_goals first | exact ih _ | simp

theorem map_ne_error {α β : Type} {g : α → β} {x : Except Err α} {e : Err} (h : x ≠ .error e) :
    x.map g ≠ .error e := by
  cases x <;> simp_all [Except.map]

theorem range_no_recursion (s : Store) : ∀ f,
    (∀ lv st o, rangeImpl s f lv st o ≠ .error .recursion) ∧
    (∀ cur outer st ps, rangePairs s f cur outer st ps ≠ .error .recursion) ∧
    (∀ lv st l, rangeSeq s f lv st l ≠ .error .recursion) ∧
    (∀ ps, explicitKeys s f ps ≠ .error .recursion) := by
  intro f
  induction f with
  | zero => simp [rangeImpl, rangePairs, rangeSeq, explicitKeys]
  | succ f ih =>
    obtain ⟨ih1, ih2, ih3, ih4⟩ := ih
    refine ⟨?_, ?_, ?_, ?_⟩
    · intro lv st o
      cases o <;> simp only [rangeImpl]
      · simp
      repeat' split
      all_goals first
        | exact ih1 _ _ _
        | exact ih3 _ _ _
        | (intro h; cases h; first | exact ih4 _ ‹_› | exact ih2 _ _ _ _ ‹_›)
        | simp
    · intro cur outer st ps
      rcases ps with _ | ⟨⟨k, v⟩, rest⟩ <;> simp only [rangePairs]
      · simp
      repeat' split
      all_goals first
        | exact ih2 _ _ _ _
        | (intro h; cases h;
           first | exact ih1 _ _ _ ‹_› | exact canonicalKey_no_recursion s _ _ ‹_›)
        | simp
    · intro lv st l
      rcases l with _ | ⟨e, rest⟩ <;> simp only [rangeSeq]
      · simp
      repeat' split
      all_goals first
        | exact ih3 _ _ _
        | (intro h; cases h; exact ih1 _ _ _ ‹_›)
        | simp
    · intro ps
      rcases ps with _ | ⟨⟨k, v⟩, rest⟩ <;> simp only [explicitKeys]
      · simp
      repeat' split
      all_goals first
        | exact ih4 _
        | exact map_ne_error (ih4 _)
        | (intro h; cases h; exact canonicalKey_no_recursion s _ _ ‹_›)
        | simp

theorem rangeMap_no_recursion (s : Store) (f : Nat) (i : Nat) : rangeMap s f i ≠ .error .recursion :=
  map_ne_error ((range_no_recursion s f).1 _ _ _)

/-! ## Part 3: fuel sufficiency (bounded recursion)

  Two facts about the model as first written made the unconditional statements false:

  * `canonicalKey` follows alias → alias chains with no cycle detection (as `canonicalMapKey` does in Go);
    on a hand-built graph with an alias key node that is its own target it runs out of any fuel
    (`aliasLoop_counterexample`).  yaml.v3 never builds such graphs: `Alias` always points at the
    anchored node, and an alias node cannot carry an anchor.  This is the hypothesis `AliasFlat`.
  * `decodePairs` consumes one unit of fuel per yielded pair and the yielded list of a mapping with
    merges is not bounded by one content list; `bound` was enlarged accordingly in the model
    (`oldBound_counterexample`).
-/

/-- yaml.v3 invariant: the target of an alias node is never an alias node. -/
def AliasFlat (s : Store) : Prop :=
  ∀ (i : Nat) (n : NodeRec) (t : Nat) (m : NodeRec),
    s[i]? = some n → n.kind = .alias → n.aliasTo = some t → s[t]? = some m → m.kind ≠ .alias

theorem canonicalKey_total (s : Store) (h : AliasFlat s) (f i : Nat) :
    canonicalKey s (f + 2) i ≠ .error .fuel := by
  rw [canonicalKey]
  cases hs : s[i]? with
  | none => simp
  | some n =>
    simp only []
    cases hk : n.kind <;> simp only []
    case scalar => split <;> simp
    case alias =>
      cases ha : n.aliasTo with
      | none => simp
      | some t =>
        simp only []
        rw [canonicalKey]
        cases ht : s[t]? with
        | none => simp
        | some m =>
          have := h i n t m hs hk ha ht
          simp only []
          cases hm : m.kind <;> simp only []
          case scalar => split <;> simp
          case alias => exact absurd hm this
          all_goals simp
    all_goals simp

/-- Number of store nodes not yet in the set `m`. -/
def rem (s : Store) (m : List Nat) : Nat := ((List.range s.length).filter (fun x => !m.contains x)).length

theorem rem_nil (s : Store) : rem s [] = s.length := by
  unfold rem
  rw [List.filter_eq_self.mpr (by simp)]
  simp

theorem filter_length_mono {α : Type} (p q : α → Bool) (l : List α)
    (hpq : ∀ x, p x = true → q x = true) : (l.filter p).length ≤ (l.filter q).length := by
  induction l with
  | nil => simp
  | cons b r ih =>
    simp only [List.filter_cons]
    cases hpb : p b
    · cases hqb : q b <;> simp <;> omega
    · simp [hpq b hpb]; omega

theorem rem_mono (s : Store) {m m' : List Nat} (h : ∀ x ∈ m, x ∈ m') : rem s m' ≤ rem s m := by
  unfold rem
  apply filter_length_mono
  intro x hx
  simp only [Bool.not_eq_true', List.contains_eq_mem, decide_eq_false_iff_not] at hx ⊢
  exact fun hm => hx (h x hm)

theorem filter_length_lt {α : Type} (p q : α → Bool) (l : List α) (a : α) (ha : a ∈ l)
    (hpq : ∀ x, p x = true → q x = true) (hq : q a = true) (hp : p a = false) :
    (l.filter p).length + 1 ≤ (l.filter q).length := by
  induction l with
  | nil => cases ha
  | cons b r ih =>
    rcases List.mem_cons.mp ha with rfl | ha'
    · have : (r.filter p).length ≤ (r.filter q).length := filter_length_mono p q r hpq
      simp only [List.filter_cons, hq, hp]
      simp
      omega
    · have := ih ha'
      simp only [List.filter_cons]
      cases hpb : p b
      · cases hqb : q b <;> simp <;> omega
      · simp [hpq b hpb]; omega

theorem rem_cons_lt (s : Store) {m : List Nat} {i : Nat} (hi : i < s.length) (hm : i ∉ m) :
    rem s (i :: m) + 1 ≤ rem s m := by
  unfold rem
  apply filter_length_lt _ _ _ i (List.mem_range.mpr hi)
  · intro x hx
    simp only [Bool.not_eq_true', List.contains_eq_mem, decide_eq_false_iff_not, List.mem_cons, not_or] at hx ⊢
    exact hx.2
  · simpa using hm
  · simp

theorem lt_of_getElem? {s : Store} {i : Nat} {n : NodeRec} (h : s[i]? = some n) : i < s.length := by
  rcases List.getElem?_eq_some_iff.mp h with ⟨hl, _⟩
  exact hl

theorem foldl_max_ge (l : List NodeRec) (init : Nat) :
    init ≤ l.foldl (fun m n => max m n.content.length) init ∧
    ∀ n ∈ l, n.content.length ≤ l.foldl (fun m n => max m n.content.length) init := by
  induction l generalizing init with
  | nil => simp
  | cons a r ih =>
    simp only [List.foldl_cons, List.mem_cons, forall_eq_or_imp]
    obtain ⟨h1, h2⟩ := ih (max init a.content.length)
    refine ⟨by omega, by omega, h2⟩

theorem content_le {s : Store} {i : Nat} {n : NodeRec} (h : s[i]? = some n) :
    n.content.length ≤ maxContent s :=
  (foldl_max_ge s 0).2 n (List.mem_of_getElem? h)

theorem pairsOf_length : ∀ (l : List Nat) (ps : List (Nat × Nat)), pairsOf l = some ps → 2 * ps.length = l.length
  | [], ps, h => by simp [pairsOf] at h; subst h; rfl
  | [_], ps, h => by simp [pairsOf] at h
  | k :: v :: r, ps, h => by
    simp only [pairsOf, Option.map_eq_some_iff] at h
    obtain ⟨ps', hps', rfl⟩ := h
    have := pairsOf_length r ps' hps'
    simp only [List.length_cons]
    omega

/-- Output budget: every node still outside `merged` may contribute one content list of pairs. -/
def pot (s : Store) (m : List Nat) : Nat := rem s m * maxContent s

theorem pot_mono (s : Store) {m m' : List Nat} (h : ∀ x ∈ m, x ∈ m') : pot s m' ≤ pot s m :=
  Nat.mul_le_mul_right _ (rem_mono s h)

theorem pot_cons (s : Store) {m : List Nat} {i : Nat} (hi : i < s.length) (hm : i ∉ m) :
    pot s (i :: m) + maxContent s ≤ pot s m := by
  have := Nat.mul_le_mul_right (maxContent s) (rem_cons_lt s hi hm)
  rw [Nat.add_mul, Nat.one_mul] at this
  exact this

/-- Fuel that suffices for `rangeImpl` when the `merged` set is `m`. -/
def need (s : Store) (m : List Nat) : Nat := rem s m * (maxContent s + 2) + 1

theorem need_pos (s : Store) (m : List Nat) : 1 ≤ need s m := by unfold need; omega

theorem need_mono (s : Store) {m m' : List Nat} (h : ∀ x ∈ m, x ∈ m') : need s m' ≤ need s m := by
  have := Nat.mul_le_mul_right (maxContent s + 2) (rem_mono s h)
  unfold need; omega

theorem need_cons (s : Store) {m : List Nat} {i : Nat} (hi : i < s.length) (hm : i ∉ m) :
    need s (i :: m) + maxContent s + 2 ≤ need s m := by
  have := Nat.mul_le_mul_right (maxContent s + 2) (rem_cons_lt s hi hm)
  rw [Nat.add_mul, Nat.one_mul] at this
  unfold need; omega

/-- What a successful walk does to the state: `merged` only grows, and the number of yielded pairs is paid
    for by the nodes that entered `merged`. -/
theorem range_inv (s : Store) : ∀ f,
    (∀ lv st o lv' st', rangeImpl s f lv st o = .ok (lv', st') →
      (∀ x ∈ st.merged, x ∈ st'.merged) ∧ st'.out.length + pot s st'.merged ≤ st.out.length + pot s st.merged) ∧
    (∀ cur outer st ps cur' outer' st', rangePairs s f cur outer st ps = .ok (cur', outer', st') →
      (∀ x ∈ st.merged, x ∈ st'.merged) ∧
      st'.out.length + pot s st'.merged ≤ st.out.length + pot s st.merged + ps.length) ∧
    (∀ lv st l lv' st', rangeSeq s f lv st l = .ok (lv', st') →
      (∀ x ∈ st.merged, x ∈ st'.merged) ∧ st'.out.length + pot s st'.merged ≤ st.out.length + pot s st.merged) := by
  intro f
  induction f with
  | zero => simp [rangeImpl, rangePairs, rangeSeq]
  | succ f ih =>
    obtain ⟨ih1, ih2, ih3⟩ := ih
    refine ⟨?_, ?_, ?_⟩
    · intro lv st o lv' st' h
      cases o with
      | none =>
        simp only [rangeImpl, Except.ok.injEq, Prod.mk.injEq] at h
        obtain ⟨_, rfl⟩ := h
        exact ⟨fun _ hx => hx, Nat.le_refl _⟩
      | some i =>
        simp only [rangeImpl] at h
        split at h
        · simp only [Except.ok.injEq, Prod.mk.injEq] at h
          obtain ⟨_, rfl⟩ := h
          exact ⟨fun _ hx => hx, Nat.le_refl _⟩
        · next hc =>
          have hc' : i ∉ st.merged := by simpa using hc
          cases hs : s[i]? with
          | none => simp [hs] at h
          | some n =>
            have hi := lt_of_getElem? hs
            have hpc := pot_cons s hi hc'
            have hcont := content_le hs
            simp only [hs] at h
            cases hk : n.kind <;> simp only [hk] at h <;> try (simp at h; done)
            · -- sequence
              obtain ⟨h1, h2⟩ := ih3 _ _ _ _ _ h
              exact ⟨fun x hx => h1 x (List.mem_cons_of_mem _ hx), by simp only [] at h2; omega⟩
            · -- mapping
              cases hp : pairsOf n.content with
              | none => simp [hp] at h
              | some ps =>
                have hlen := pairsOf_length _ _ hp
                simp only [hp] at h
                cases he : explicitKeys s f ps with
                | error e => simp [he] at h
                | ok ks =>
                  simp only [he] at h
                  cases hr : rangePairs s f ks lv { merged := i :: st.merged, out := st.out } ps with
                  | error e => simp [hr] at h
                  | ok r =>
                    obtain ⟨c', o', st''⟩ := r
                    simp only [hr, Except.ok.injEq, Prod.mk.injEq] at h
                    obtain ⟨_, rfl⟩ := h
                    obtain ⟨h1, h2⟩ := ih2 _ _ _ _ _ _ _ hr
                    exact ⟨fun x hx => h1 x (List.mem_cons_of_mem _ hx), by simp only [] at h2; omega⟩
            · -- alias
              obtain ⟨h1, h2⟩ := ih1 _ _ _ _ _ h
              exact ⟨fun x hx => h1 x (List.mem_cons_of_mem _ hx), by simp only [] at h2; omega⟩
    · intro cur outer st ps cur' outer' st' h
      rcases ps with _ | ⟨⟨k, v⟩, rest⟩
      · simp only [rangePairs, Except.ok.injEq, Prod.mk.injEq] at h
        obtain ⟨_, _, rfl⟩ := h
        exact ⟨fun _ hx => hx, by simp⟩
      · simp only [rangePairs] at h
        cases hs : s[k]? with
        | none => simp [hs] at h
        | some kn =>
          simp only [hs] at h
          split at h
          · cases hr : rangeImpl s f (cur :: outer) st (some v) with
            | error e => simp [hr] at h
            | ok r =>
              obtain ⟨lv1, st1⟩ := r
              obtain ⟨a1, a2⟩ := ih1 _ _ _ _ _ hr
              simp only [hr] at h
              cases lv1 with
              | nil =>
                obtain ⟨b1, b2⟩ := ih2 _ _ _ _ _ _ _ h
                exact ⟨fun x hx => b1 x (a1 x hx), by simp only [List.length_cons]; omega⟩
              | cons c1 o1 =>
                obtain ⟨b1, b2⟩ := ih2 _ _ _ _ _ _ _ h
                exact ⟨fun x hx => b1 x (a1 x hx), by simp only [List.length_cons]; omega⟩
          · cases hck : canonicalKey s (f + 1) k with
            | error e => simp [hck] at h
            | ok ck =>
              simp only [hck] at h
              split at h
              · obtain ⟨b1, b2⟩ := ih2 _ _ _ _ _ _ _ h
                exact ⟨b1, by simp only [List.length_cons]; omega⟩
              · obtain ⟨b1, b2⟩ := ih2 _ _ _ _ _ _ _ h
                refine ⟨b1, ?_⟩
                simp only [List.length_append, List.length_cons, List.length_nil] at b2 ⊢
                omega
    · intro lv st l lv' st' h
      rcases l with _ | ⟨e, rest⟩
      · simp only [rangeSeq, Except.ok.injEq, Prod.mk.injEq] at h
        obtain ⟨_, rfl⟩ := h
        exact ⟨fun _ hx => hx, Nat.le_refl _⟩
      · simp only [rangeSeq] at h
        cases hr : rangeImpl s f lv st (some e) with
        | error err => simp [hr] at h
        | ok r =>
          obtain ⟨lv1, st1⟩ := r
          obtain ⟨a1, a2⟩ := ih1 _ _ _ _ _ hr
          simp only [hr] at h
          obtain ⟨b1, b2⟩ := ih3 _ _ _ _ _ h
          exact ⟨fun x hx => b1 x (a1 x hx), by omega⟩

theorem range_total (s : Store) (hflat : AliasFlat s) : ∀ f,
    (∀ lv st o, need s st.merged ≤ f → rangeImpl s f lv st o ≠ .error .fuel) ∧
    (∀ cur outer st ps, ps.length + 1 + need s st.merged ≤ f → rangePairs s f cur outer st ps ≠ .error .fuel) ∧
    (∀ lv st l, l.length + 1 + need s st.merged ≤ f → rangeSeq s f lv st l ≠ .error .fuel) ∧
    (∀ ps, ps.length + 1 ≤ f → explicitKeys s f ps ≠ .error .fuel) := by
  intro f
  induction f with
  | zero =>
    refine ⟨?_, ?_, ?_, ?_⟩
    · intro lv st o h; have := need_pos s st.merged; omega
    · intro cur outer st ps h; omega
    · intro lv st l h; omega
    · intro ps h; omega
  | succ f ih =>
    obtain ⟨ih1, ih2, ih3, ih4⟩ := ih
    refine ⟨?_, ?_, ?_, ?_⟩
    · intro lv st o hf
      cases o with
      | none => simp [rangeImpl]
      | some i =>
        simp only [rangeImpl]
        split
        · simp
        · next hc =>
          have hc' : i ∉ st.merged := by simpa using hc
          cases hs : s[i]? with
          | none => simp
          | some n =>
            have hi := lt_of_getElem? hs
            have hnc := need_cons s hi hc'
            have hcont := content_le hs
            simp only []
            cases hk : n.kind <;> simp only []
            case sequence =>
              exact ih3 _ _ _ (by simp only []; omega)
            case mapping =>
              cases hp : pairsOf n.content with
              | none => simp
              | some ps =>
                have hlen := pairsOf_length _ _ hp
                simp only []
                cases he : explicitKeys s f ps with
                | error e =>
                  simp only []
                  intro h; cases h
                  exact ih4 ps (by omega) he
                | ok ks =>
                  simp only []
                  cases hr : rangePairs s f ks lv { merged := i :: st.merged, out := st.out } ps with
                  | error e =>
                    simp only []
                    intro h; cases h
                    exact ih2 _ _ _ _ (by simp only []; omega) hr
                  | ok r => simp
            case alias =>
              exact ih1 _ _ _ (by simp only []; omega)
            all_goals simp
    · intro cur outer st ps hf
      rcases ps with _ | ⟨⟨k, v⟩, rest⟩
      · simp [rangePairs]
      · simp only [List.length_cons] at hf
        have hpos := need_pos s st.merged
        simp only [rangePairs]
        cases hs : s[k]? with
        | none => simp
        | some kn =>
          simp only []
          split
          · cases hr : rangeImpl s f (cur :: outer) st (some v) with
            | error e =>
              simp only []
              intro h; cases h
              exact ih1 _ _ _ (by omega) hr
            | ok r =>
              obtain ⟨lv1, st1⟩ := r
              have hm := need_mono s ((range_inv s f).1 _ _ _ _ _ hr).1
              cases lv1 with
              | nil => exact ih2 _ _ _ _ (by omega)
              | cons c1 o1 => exact ih2 _ _ _ _ (by omega)
          · obtain ⟨f', rfl⟩ : ∃ f', f = f' + 1 := ⟨f - 1, by omega⟩
            cases hck : canonicalKey s (f' + 1 + 1) k with
            | error e =>
              simp only []
              intro h; cases h
              exact canonicalKey_total s hflat f' k hck
            | ok ck =>
              simp only []
              split
              · exact ih2 _ _ _ _ (by omega)
              · exact ih2 _ _ _ _ (by simp only []; omega)
    · intro lv st l hf
      rcases l with _ | ⟨e, rest⟩
      · simp [rangeSeq]
      · simp only [List.length_cons] at hf
        simp only [rangeSeq]
        cases hr : rangeImpl s f lv st (some e) with
        | error err =>
          simp only []
          intro h; cases h
          exact ih1 _ _ _ (by omega) hr
        | ok r =>
          obtain ⟨lv1, st1⟩ := r
          have hm := need_mono s ((range_inv s f).1 _ _ _ _ _ hr).1
          exact ih3 _ _ _ (by omega)
    · intro ps hf
      rcases ps with _ | ⟨⟨k, v⟩, rest⟩
      · simp [explicitKeys]
      · simp only [List.length_cons] at hf
        simp only [explicitKeys]
        cases hs : s[k]? with
        | none => simp
        | some kn =>
          simp only []
          split
          · exact ih4 _ (by omega)
          · obtain ⟨f', rfl⟩ : ∃ f', f = f' + 1 := ⟨f - 1, by omega⟩
            cases hck : canonicalKey s (f' + 1 + 1) k with
            | error e =>
              simp only []
              intro h; cases h
              exact canonicalKey_total s hflat f' k hck
            | ok ck => exact map_ne_error (ih4 _ (by omega))

theorem need_le_bound (s : Store) : need s [] ≤ bound s := by
  unfold need bound maxList
  rw [rem_nil]
  have h1 : s.length * (maxContent s + 2) ≤ s.length * ((s.length + 1) * maxContent s + 3) := by
    apply Nat.mul_le_mul_left
    have : maxContent s ≤ (s.length + 1) * maxContent s := Nat.le_mul_of_pos_left _ (by omega)
    omega
  rw [Nat.add_mul (s.length) 2]
  omega

theorem rangeMap_total (s : Store) (i : Nat) (h : AliasFlat s) : rangeMap s (bound s) i ≠ .error .fuel :=
  map_ne_error ((range_total s h (bound s)).1 _ _ _ (need_le_bound s))

/-- The pairs one `rangeMap` yields: at most one content list per store node. -/
theorem rangeMap_length (s : Store) (f i : Nat) (ps : List (String × Nat)) (h : rangeMap s f i = .ok ps) :
    ps.length ≤ s.length * maxContent s := by
  unfold rangeMap at h
  cases hr : rangeImpl s f [] { merged := [], out := [] } (some i) with
  | error e => simp [hr, Except.map] at h
  | ok r =>
    obtain ⟨lv, st⟩ := r
    simp only [hr, Except.map, Except.ok.injEq] at h
    subst h
    have := ((range_inv s f).1 _ _ _ _ _ hr).2
    simp only [List.length_nil, Nat.zero_add] at this
    have h0 : pot s [] = s.length * maxContent s := by unfold pot; rw [rem_nil]
    omega

/-- Fuel that suffices for `decode` when the `seen` set is `m`. -/
def dneed (s : Store) (m : List Nat) : Nat := rem s m * (maxList s + 2) + 1

theorem dneed_cons (s : Store) {m : List Nat} {i : Nat} (hi : i < s.length) (hm : i ∉ m) :
    dneed s (i :: m) + maxList s + 2 ≤ dneed s m := by
  have := Nat.mul_le_mul_right (maxList s + 2) (rem_cons_lt s hi hm)
  rw [Nat.add_mul, Nat.one_mul] at this
  unfold dneed; omega

theorem maxContent_le_maxList (s : Store) : maxContent s ≤ maxList s :=
  Nat.le_mul_of_pos_left _ (by omega)

theorem len_mul_le_maxList (s : Store) : s.length * maxContent s ≤ maxList s :=
  Nat.mul_le_mul_right _ (by omega)

theorem decode_total_aux (s : Store) (hflat : AliasFlat s) : ∀ f,
    (∀ seen o, dneed s seen ≤ f → decode s f seen o ≠ .error .fuel) ∧
    (∀ seen l, l.length + 1 + dneed s seen ≤ f → decodeList s f seen l ≠ .error .fuel) ∧
    (∀ seen ps acc, ps.length + 1 + dneed s seen ≤ f → decodePairs s f seen ps acc ≠ .error .fuel) := by
  intro f
  induction f with
  | zero =>
    refine ⟨?_, ?_, ?_⟩
    · intro seen o h; unfold dneed at h; omega
    · intro seen l h; omega
    · intro seen ps acc h; omega
  | succ f ih =>
    obtain ⟨ih1, ih2, ih3⟩ := ih
    refine ⟨?_, ?_, ?_⟩
    · intro seen o hf
      cases o with
      | none => simp [decode]
      | some i =>
        simp only [decode]
        split
        · simp
        · next hc =>
          have hc' : i ∉ seen := by simpa using hc
          cases hs : s[i]? with
          | none => simp
          | some n =>
            have hi := lt_of_getElem? hs
            have hnc := dneed_cons s hi hc'
            have hcont := content_le hs
            have hml := maxContent_le_maxList s
            simp only []
            cases hk : n.kind <;> simp only []
            case scalar => split <;> simp
            case sequence => exact map_ne_error (ih2 _ _ (by omega))
            case mapping =>
              cases hr : rangeMap s (bound s) i with
              | error e =>
                simp only []
                intro h; cases h
                exact rangeMap_total s i hflat hr
              | ok ps =>
                have := rangeMap_length s _ _ _ hr
                have := len_mul_le_maxList s
                exact map_ne_error (ih3 _ _ _ (by omega))
            case alias => exact ih1 _ _ (by omega)
            case document =>
              split
              · simp
              · exact ih1 _ _ (by omega)
              · simp
            case other => simp
    · intro seen l hf
      rcases l with _ | ⟨c, rest⟩
      · simp [decodeList]
      · simp only [List.length_cons] at hf
        simp only [decodeList]
        cases hr : decode s f seen (some c) with
        | error e =>
          simp only []
          intro h; cases h
          exact ih1 _ _ (by omega) hr
        | ok v => exact map_ne_error (ih2 _ _ (by omega))
    · intro seen ps acc hf
      rcases ps with _ | ⟨⟨k, v⟩, rest⟩
      · simp [decodePairs]
      · simp only [List.length_cons] at hf
        simp only [decodePairs]
        cases hr : decode s f seen (some v) with
        | error e =>
          simp only []
          intro h; cases h
          exact ih1 _ _ (by omega) hr
        | ok x => exact ih3 _ _ _ (by omega)

theorem dneed_le_bound (s : Store) : dneed s [] ≤ bound s := by
  unfold dneed bound
  rw [rem_nil, Nat.add_mul (s.length) 2]
  have h1 : s.length * (maxList s + 2) ≤ s.length * (maxList s + 3) := Nat.mul_le_mul_left _ (by omega)
  omega

theorem decode_total (s : Store) (root : Nat) (h : AliasFlat s) : decodeYAML s root ≠ .error .fuel :=
  (decode_total_aux s h (bound s)).1 _ _ (dneed_le_bound s)

/-! ### The two counterexamples behind the changes to the statements / the bound -/

instance instDecidableEqExcept {ε α : Type} [DecidableEq ε] [DecidableEq α] : DecidableEq (Except ε α)
  | .ok a, .ok b => if h : a = b then isTrue (h ▸ rfl) else isFalse (fun h' => h (by cases h'; rfl))
  | .error a, .error b => if h : a = b then isTrue (h ▸ rfl) else isFalse (fun h' => h (by cases h'; rfl))
  | .ok _, .error _ => isFalse (fun h => by cases h)
  | .error _, .ok _ => isFalse (fun h => by cases h)

/-- Decidable test for "ran out of fuel" (`Val` has no `DecidableEq`). -/
def isFuel {α : Type} : Except Err α → Bool
  | .error .fuel => true
  | _ => false

theorem isFuel_iff {α : Type} (x : Except Err α) : isFuel x = true ↔ x = .error .fuel := by
  unfold isFuel; split <;> simp_all

/-- `{ *a : v }` where the key node `*a` is an alias whose target is itself (hand-built; not producible by
    yaml.v3).  `canonicalMapKey` recurses forever in Go; the model runs out of any fuel. -/
def aliasLoopStore : Store :=
  [ { kind := .mapping, isMerge := false, content := [1, 2] },
    { kind := .alias, isMerge := false, aliasTo := some 1 },
    { kind := .scalar, isMerge := false, decoded := some (.str "v"), keyStr := some "v" } ]

theorem aliasLoop_counterexample :
    rangeMap aliasLoopStore (bound aliasLoopStore) 0 = .error .fuel ∧
    decodeYAML aliasLoopStore 0 = .error .fuel ∧ ¬ AliasFlat aliasLoopStore := by
  refine ⟨by decide, (isFuel_iff _).mp (by decide), fun h => ?_⟩
  exact h 1 _ 1 _ rfl rfl rfl rfl rfl

/-- `d` nested mappings `{<<: [m₀ … m_{k-1}], k: <next>}` sharing one sequence of `k` sources with `c`
    distinct keys each: every level's yielded list has `k·c + 1` pairs although no content list is longer
    than `max k (2c)`. -/
def wideMergeStore (k c d : Nat) : Store :=
  let scalar (isMerge : Bool) (str : String) : NodeRec :=
    { kind := .scalar, isMerge := isMerge, keyStr := some str, decoded := some (.str str) }
  let base := 4 + k + k * c
  [scalar true "<<",
   { kind := .sequence, isMerge := false, content := (List.range k).map (· + 4) },
   scalar false "k", scalar false "v"]
  ++ (List.range k).map (fun j =>
        { kind := .mapping, isMerge := false, content := ((List.range c).map fun x => [4 + k + j * c + x, 3]).flatten })
  ++ (List.range (k * c)).map (fun x => scalar false (String.ofList (List.replicate (x + 1) 'a')))
  ++ (List.range d).map (fun j =>
        { kind := .mapping, isMerge := false, content := [0, 1, 2, if j + 1 < d then base + j + 1 else 3] })

/-- With the bound the model first used, `(|store|+2)·(maxContent+3)`, decoding this 53-node acyclic,
    alias-free document ran out of fuel (and it does not with the corrected `bound`). -/
theorem oldBound_counterexample :
    let s := wideMergeStore 6 3 25
    decode s ((s.length + 2) * (maxContent s + 3)) [] (some 28) = .error .fuel ∧
    decodeYAML s 28 ≠ .error .fuel := by
  intro s
  have h : isFuel (decode s ((s.length + 2) * (maxContent s + 3)) [] (some 28)) = true ∧
      isFuel (decodeYAML s 28) = false := by decide +kernel
  exact ⟨(isFuel_iff _).mp h.1, fun he => by rw [(isFuel_iff _).mpr he] at h; exact absurd h.2 (by decide)⟩

/-! ## Part 4: the merge walk computes the specified content

  ### 4a. `fresh`: the pairs a source contributes to a mapping that already has the keys `U` -/

abbrev keysOf (l : List (String × Nat)) : List String := l.map (·.1)

/-- The pairs of `l` whose key is neither in `U` nor occurred earlier in `l`, in order. -/
def fresh (U : List String) : List (String × Nat) → List (String × Nat)
  | [] => []
  | (k, v) :: r => if U.contains k then fresh U r else (k, v) :: fresh (k :: U) r

theorem mergeInto_eq (U : List String) (out l : List (String × Nat)) :
    mergeInto U out l = ((keysOf (fresh U l)).reverse ++ U, out ++ fresh U l) := by
  induction l generalizing U out with
  | nil => simp [mergeInto, fresh]
  | cons a r ih =>
    obtain ⟨k, v⟩ := a
    simp only [mergeInto, fresh]
    split
    · exact ih U out
    · rw [ih]; simp

theorem fresh_congr {U U' : List String} (h : ∀ k, k ∈ U ↔ k ∈ U') (l : List (String × Nat)) :
    fresh U l = fresh U' l := by
  induction l generalizing U U' with
  | nil => rfl
  | cons a r ih =>
    obtain ⟨k, v⟩ := a
    simp only [fresh, List.contains_eq_mem, decide_eq_true_eq]
    by_cases hk : k ∈ U
    · rw [if_pos hk, if_pos ((h k).mp hk)]; exact ih h
    · rw [if_neg hk, if_neg (fun h' => hk ((h k).mpr h'))]
      congr 1
      apply ih
      intro x
      simp only [List.mem_cons]
      rw [h x]

theorem fresh_append (U : List String) (a b : List (String × Nat)) :
    fresh U (a ++ b) = fresh U a ++ fresh ((keysOf (fresh U a)).reverse ++ U) b := by
  induction a generalizing U with
  | nil => simp [fresh]
  | cons p r ih =>
    obtain ⟨k, v⟩ := p
    simp only [List.cons_append, fresh]
    split
    · exact ih U
    · rw [ih]; simp

theorem mem_keys_fresh {U : List String} {l : List (String × Nat)} {k : String} :
    k ∈ keysOf (fresh U l) ↔ k ∈ keysOf l ∧ k ∉ U := by
  induction l generalizing U with
  | nil => simp [fresh]
  | cons p r ih =>
    obtain ⟨k', v⟩ := p
    simp only [fresh, List.contains_eq_mem, decide_eq_true_eq]
    by_cases hk : k' ∈ U
    · rw [if_pos hk]
      simp only [ih, List.map_cons, List.mem_cons]
      constructor
      · rintro ⟨h1, h2⟩; exact ⟨.inr h1, h2⟩
      · rintro ⟨h1 | h1, h2⟩
        · subst h1; exact absurd hk h2
        · exact ⟨h1, h2⟩
    · rw [if_neg hk]
      simp only [List.map_cons, List.mem_cons, ih]
      constructor
      · rintro (h1 | ⟨h1, h2⟩)
        · subst h1; exact ⟨.inl rfl, hk⟩
        · exact ⟨.inr h1, fun h => h2 (.inr h)⟩
      · rintro ⟨h1 | h1, h2⟩
        · exact .inl h1
        · by_cases hkk : k = k'
          · exact .inl hkk
          · exact .inr ⟨h1, fun h => h.elim hkk h2⟩

theorem fresh_eq_nil {U : List String} {l : List (String × Nat)} (h : ∀ k ∈ keysOf l, k ∈ U) :
    fresh U l = [] := by
  induction l with
  | nil => rfl
  | cons p r ih =>
    obtain ⟨k, v⟩ := p
    simp only [fresh, List.contains_eq_mem, decide_eq_true_eq]
    rw [if_pos (h k (by simp))]
    exact ih fun x hx => h x (by simp only [List.map_cons, List.mem_cons]; exact .inr hx)

theorem fresh_fresh (A B : List String) (l : List (String × Nat)) :
    fresh B (fresh A l) = fresh (A ++ B) l := by
  induction l generalizing A B with
  | nil => rfl
  | cons p r ih =>
    obtain ⟨k, v⟩ := p
    simp only [fresh, List.contains_eq_mem, decide_eq_true_eq, List.mem_append]
    by_cases hA : k ∈ A
    · rw [if_pos hA, if_pos (.inl hA)]; exact ih A B
    · rw [if_neg hA]
      simp only [fresh, List.contains_eq_mem, decide_eq_true_eq]
      by_cases hB : k ∈ B
      · rw [if_pos hB, if_pos (.inr hB), ih]
        apply fresh_congr
        intro x
        simp only [List.cons_append, List.mem_cons, List.mem_append]
        constructor
        · rintro (h | h | h)
          · subst h; exact .inr hB
          · exact .inl h
          · exact .inr h
        · rintro (h | h)
          · exact .inr (.inl h)
          · exact .inr (.inr h)
      · rw [if_neg hB, if_neg (fun h => h.elim hA hB), ih]
        congr 1
        apply fresh_congr
        intro x
        simp only [List.cons_append, List.mem_cons, List.mem_append]
        constructor
        · rintro (h | h | h | h)
          · exact .inl h
          · exact .inr (.inl h)
          · exact .inl h
          · exact .inr (.inr h)
        · rintro (h | h | h)
          · exact .inl h
          · exact .inr (.inl h)
          · exact .inr (.inr (.inr h))

/-! ### 4b. Callback chains up to what can be observed: the unions of their suffixes -/

/-- `lv'` arises from `lv` by adding the keys `K` to every suffix union (and nothing else). -/
def SU (lv lv' : List (List String)) (K : List String) : Prop :=
  lv'.length = lv.length ∧
  ∀ i, i < lv.length → ∀ k, k ∈ (lv'.drop i).flatten ↔ (k ∈ (lv.drop i).flatten ∨ k ∈ K)

theorem SU.refl (lv : List (List String)) : SU lv lv [] := ⟨rfl, fun _ _ _ => by simp⟩

theorem SU.trans {a b c : List (List String)} {K1 K2 : List String} (h1 : SU a b K1) (h2 : SU b c K2) :
    SU a c (K1 ++ K2) := by
  refine ⟨h2.1.trans h1.1, fun i hi k => ?_⟩
  rw [h2.2 i (h1.1 ▸ hi) k, h1.2 i hi k, List.mem_append, or_assoc]

theorem SU.congr {a b : List (List String)} {K K' : List String} (h : SU a b K) (hk : ∀ k, k ∈ K ↔ k ∈ K') :
    SU a b K' := ⟨h.1, fun i hi k => by rw [h.2 i hi k, hk k]⟩

theorem SU.flatten {a b : List (List String)} {K : List String} (h : SU a b K) (hne : a ≠ []) (k : String) :
    k ∈ b.flatten ↔ (k ∈ a.flatten ∨ k ∈ K) := by
  have := h.2 0 (List.length_pos_iff.mpr hne) k
  simpa using this

theorem SU.tail {c c' : List String} {o o' : List (List String)} {K : List String}
    (h : SU (c :: o) (c' :: o') K) : SU o o' K := by
  refine ⟨by simpa using h.1, fun i hi k => ?_⟩
  have := h.2 (i + 1) (by simp only [List.length_cons]; omega) k
  simpa using this

theorem yieldChain_spec (lv : List (List String)) (k : String) :
    ((yieldChain lv k).2 = true ↔ k ∉ lv.flatten) ∧
    SU lv (yieldChain lv k).1 (if (yieldChain lv k).2 then [k] else []) := by
  induction lv with
  | nil => simp [yieldChain, SU]
  | cons ks outer ih =>
    obtain ⟨ih1, ih2⟩ := ih
    simp only [yieldChain, List.contains_eq_mem, decide_eq_true_eq]
    by_cases hk : k ∈ ks
    · rw [if_pos hk]
      refine ⟨by simp [hk], ?_⟩
      simpa using SU.refl (ks :: outer)
    · rw [if_neg hk]
      simp only [List.flatten_cons, List.mem_append, hk, false_or]
      refine ⟨ih1, ?_⟩
      refine ⟨by simpa using ih2.1, fun i hi x => ?_⟩
      cases i with
      | zero =>
        simp only [List.drop_zero, List.flatten_cons, List.mem_append, List.mem_cons]
        by_cases hb : (yieldChain outer k).2 = true
        · rw [if_pos hb] at ih2 ⊢
          cases outer with
          | nil => simp [yieldChain]; exact or_comm
          | cons o1 o2 =>
            have := ih2.flatten (by simp) x
            rw [this]; simp only [List.flatten_cons, List.mem_append, List.mem_singleton]; grind
        · rw [if_neg hb] at ih2 ⊢
          have hkin : k ∈ outer.flatten := by
            by_cases h' : k ∈ outer.flatten
            · exact h'
            · exact absurd (ih1.mpr h') hb
          cases outer with
          | nil => simp at hkin
          | cons o1 o2 =>
            have := ih2.flatten (by simp) x
            rw [this]
            simp only [List.flatten_cons, List.mem_append, List.not_mem_nil, or_false]
            constructor
            · rintro ((h | h) | h)
              · subst h
                simp only [List.flatten_cons, List.mem_append] at hkin
                exact .inr hkin
              · exact .inl h
              · exact .inr h
            · rintro (h | h)
              · exact .inl (.inr h)
              · exact .inr h
      | succ i =>
        have := ih2.2 i (by simp only [List.length_cons] at hi; omega) x
        simpa using this

/-! ### 4c. `den`: the content a merge value denotes, with one fuel that drops at every node

  Same rules as `specContent`/`specSources`/`specMergeAll`, arranged like the walk (node by node). -/

abbrev Pairs := List (String × Nat)

def seqD (d : Option Nat → Except Err Pairs) : List Nat → Except Err Pairs
  | [] => .ok []
  | e :: r =>
    match d (some e) with
    | .error err => .error err
    | .ok a =>
      match seqD d r with
      | .error err => .error err
      | .ok b => .ok (a ++ b)

/-- The pairs a mapping has *after* the position reached, given the keys `have_` it has or will have. -/
def pairsD (s : Store) (d : Option Nat → Except Err Pairs) (g : Nat) : List String → List (Nat × Nat) → Except Err Pairs
  | _, [] => .ok []
  | have_, (k, v) :: rest =>
    match s[k]? with
    | none => .error .other
    | some kn =>
      if kn.isMerge then
        match d (some v) with
        | .error e => .error e
        | .ok c =>
          match pairsD s d g ((keysOf (fresh have_ c)).reverse ++ have_) rest with
          | .error e => .error e
          | .ok r => .ok (fresh have_ c ++ r)
      else
        match canonicalKey s g k with
        | .error e => .error e
        | .ok ck =>
          match pairsD s d g have_ rest with
          | .error e => .error e
          | .ok r => .ok ((ck, v) :: r)

def den (s : Store) : Nat → Option Nat → Except Err Pairs
  | 0, _ => .error .fuel
  | _ + 1, none => .ok []
  | f + 1, some i =>
    match s[i]? with
    | none => .error .other
    | some n =>
      match n.kind with
      | .mapping =>
        match pairsOf n.content with
        | none => .error .other
        | some ps =>
          match explicitKeys s (f + 1) ps with
          | .error e => .error e
          | .ok ks => pairsD s (den s f) (f + 1) ks ps
      | .sequence => seqD (den s f) n.content
      | .alias => den s f n.aliasTo
      | _ => .error .other

/-! Fuel monotonicity -/

theorem canonicalKey_mono (s : Store) : ∀ f f' i, canonicalKey s f i ≠ .error .fuel → f ≤ f' →
    canonicalKey s f' i = canonicalKey s f i := by
  intro f
  induction f with
  | zero => intro f' i h; simp [canonicalKey] at h
  | succ f ih =>
    intro f' i h hle
    obtain ⟨f'', rfl⟩ : ∃ f'', f' = f'' + 1 := ⟨f' - 1, by omega⟩
    simp only [canonicalKey] at h ⊢
    cases hs : s[i]? with
    | none => rfl
    | some n =>
      simp only [hs] at h ⊢
      cases hk : n.kind <;> simp only [hk] at h ⊢
      cases ha : n.aliasTo with
      | none => rfl
      | some t =>
        simp only [ha] at h ⊢
        exact ih f'' t h (by omega)

theorem canonicalKey_agree {s : Store} {g F i : Nat} {ck : String} (h : canonicalKey s g i = .ok ck) :
    canonicalKey s F i = .error .fuel ∨ canonicalKey s F i = .ok ck := by
  by_cases hF : canonicalKey s F i = .error .fuel
  · exact .inl hF
  · right
    have h1 := canonicalKey_mono s F (max F g) i hF (Nat.le_max_left _ _)
    have h2 := canonicalKey_mono s g (max F g) i (by rw [h]; simp) (Nat.le_max_right _ _)
    rw [← h1, h2, h]

theorem canonicalKey_ok_mono {s : Store} {g g' i : Nat} {ck : String} (h : canonicalKey s g i = .ok ck)
    (hle : g ≤ g') : canonicalKey s g' i = .ok ck := by
  rw [canonicalKey_mono s g g' i (by rw [h]; simp) hle, h]

theorem map_ne_fuel_inv {α β : Type} {g : α → β} {x : Except Err α} (h : x.map g ≠ .error .fuel) :
    x ≠ .error .fuel := by
  intro hx; subst hx; exact h rfl

theorem explicitKeys_mono (s : Store) : ∀ f f' ps, explicitKeys s f ps ≠ .error .fuel → f ≤ f' →
    explicitKeys s f' ps = explicitKeys s f ps := by
  intro f
  induction f with
  | zero => intro f' ps h; simp [explicitKeys] at h
  | succ f ih =>
    intro f' ps h hle
    obtain ⟨f'', rfl⟩ : ∃ f'', f' = f'' + 1 := ⟨f' - 1, by omega⟩
    rcases ps with _ | ⟨⟨k, v⟩, rest⟩
    · simp [explicitKeys]
    · simp only [explicitKeys] at h ⊢
      cases hs : s[k]? with
      | none => rfl
      | some kn =>
        simp only [hs] at h ⊢
        cases hm : kn.isMerge <;> simp only [hm, Bool.false_eq_true, ↓reduceIte] at h ⊢
        case true => exact ih f'' rest h (by omega)
        case false =>
          cases hck : canonicalKey s (f + 1) k with
          | error e =>
            simp only [hck] at h
            have := canonicalKey_mono s (f + 1) (f'' + 1) k (by rw [hck]; intro h'; cases h'; exact h rfl) hle
            rw [this, hck]
          | ok ck =>
            simp only [hck] at h
            rw [canonicalKey_ok_mono hck hle]
            simp only []
            rw [ih f'' rest (map_ne_fuel_inv h) (by omega)]

theorem explicitKeys_agree {s : Store} {g F : Nat} {ps : List (Nat × Nat)} {ks : List String}
    (h : explicitKeys s g ps = .ok ks) :
    explicitKeys s F ps = .error .fuel ∨ explicitKeys s F ps = .ok ks := by
  by_cases hF : explicitKeys s F ps = .error .fuel
  · exact .inl hF
  · right
    have h1 := explicitKeys_mono s F (max F g) ps hF (Nat.le_max_left _ _)
    have h2 := explicitKeys_mono s g (max F g) ps (by rw [h]; simp) (Nat.le_max_right _ _)
    rw [← h1, h2, h]

theorem seqD_mono {d d' : Option Nat → Except Err Pairs} (hd : ∀ o c, d o = .ok c → d' o = .ok c) :
    ∀ l c, seqD d l = .ok c → seqD d' l = .ok c := by
  intro l
  induction l with
  | nil => intro c h; simpa [seqD] using h
  | cons e r ih =>
    intro c h
    simp only [seqD] at h ⊢
    cases h1 : d (some e) with
    | error err => simp [h1] at h
    | ok a =>
      simp only [h1] at h
      rw [hd _ _ h1]
      cases h2 : seqD d r with
      | error err => simp [h2] at h
      | ok b =>
        simp only [h2] at h
        rw [ih b h2]
        exact h

theorem pairsD_mono {s : Store} {d d' : Option Nat → Except Err Pairs} {g g' : Nat}
    (hd : ∀ o c, d o = .ok c → d' o = .ok c) (hg : g ≤ g') :
    ∀ ps have_ c, pairsD s d g have_ ps = .ok c → pairsD s d' g' have_ ps = .ok c := by
  intro ps
  induction ps with
  | nil => intro have_ c h; simpa [pairsD] using h
  | cons p rest ih =>
    obtain ⟨k, v⟩ := p
    intro have_ c h
    simp only [pairsD] at h ⊢
    cases hs : s[k]? with
    | none => simp [hs] at h
    | some kn =>
      simp only [hs] at h ⊢
      cases hm : kn.isMerge <;> simp only [hm, Bool.false_eq_true, ↓reduceIte] at h ⊢
      case true =>
        cases h1 : d (some v) with
        | error e => simp [h1] at h
        | ok a =>
          simp only [h1] at h
          rw [hd _ _ h1]
          simp only []
          cases h2 : pairsD s d g ((keysOf (fresh have_ a)).reverse ++ have_) rest with
          | error e => simp [h2] at h
          | ok b =>
            simp only [h2] at h
            rw [ih _ _ h2]
            exact h
      case false =>
        cases h1 : canonicalKey s g k with
        | error e => simp [h1] at h
        | ok ck =>
          simp only [h1] at h
          rw [canonicalKey_ok_mono h1 hg]
          simp only []
          cases h2 : pairsD s d g have_ rest with
          | error e => simp [h2] at h
          | ok b =>
            simp only [h2] at h
            rw [ih _ _ h2]
            exact h

theorem den_mono (s : Store) : ∀ h h' o c, den s h o = .ok c → h ≤ h' → den s h' o = .ok c := by
  intro h
  induction h with
  | zero => intro h' o c hd; simp [den] at hd
  | succ h ih =>
    intro h' o c hd hle
    obtain ⟨h'', rfl⟩ : ∃ h'', h' = h'' + 1 := ⟨h' - 1, by omega⟩
    cases o with
    | none => simpa [den] using hd
    | some i =>
      simp only [den] at hd ⊢
      cases hs : s[i]? with
      | none => simp [hs] at hd
      | some n =>
        simp only [hs] at hd ⊢
        cases hk : n.kind <;> simp only [hk] at hd ⊢ <;> try (simp at hd; done)
        · exact seqD_mono (fun o c hc => ih h'' o c hc (by omega)) _ _ hd
        · cases hp : pairsOf n.content with
          | none => simp [hp] at hd
          | some ps =>
            simp only [hp] at hd ⊢
            cases he : explicitKeys s (h + 1) ps with
            | error e => simp [he] at hd
            | ok ks =>
              simp only [he] at hd
              rw [explicitKeys_mono s (h + 1) (h'' + 1) ps (by rw [he]; simp) hle, he]
              exact pairsD_mono (fun o c hc => ih h'' o c hc (by omega)) hle _ _ _ hd
        · exact ih h'' _ _ hd (by omega)

theorem den_functional {s : Store} {h1 h2 : Nat} {o : Option Nat} {c1 c2 : Pairs}
    (a : den s h1 o = .ok c1) (b : den s h2 o = .ok c2) : c1 = c2 := by
  have a' := den_mono s h1 (max h1 h2) o c1 a (Nat.le_max_left _ _)
  have b' := den_mono s h2 (max h1 h2) o c2 b (Nat.le_max_right _ _)
  rw [a'] at b'
  exact Except.ok.inj b'

theorem den_exists_min {s : Store} {o : Option Nat} : ∀ h c, den s h o = .ok c →
    ∃ h0, h0 ≤ h ∧ den s h0 o = .ok c ∧ ∀ h', h' < h0 → ∀ c', den s h' o ≠ .ok c' := by
  intro h
  induction h using Nat.strongRecOn with
  | _ h ih =>
    intro c hd
    by_cases hex : ∃ h', h' < h ∧ ∃ c', den s h' o = .ok c'
    · obtain ⟨h', hlt, c', hd'⟩ := hex
      have := den_functional hd' hd
      subst this
      obtain ⟨h0, h0le, h0d, h0min⟩ := ih h' hlt _ hd'
      exact ⟨h0, by omega, h0d, h0min⟩
    · exact ⟨h, Nat.le_refl _, hd, fun h' hlt c' hc => hex ⟨h', hlt, c', hc⟩⟩

/-! ### 4d. The specification is `den` -/

theorem mergeInto_append (U : List String) (out a b : Pairs) :
    mergeInto U out (a ++ b) = mergeInto (mergeInto U out a).1 (mergeInto U out a).2 b := by
  induction a generalizing U out with
  | nil => rfl
  | cons p r ih =>
    obtain ⟨k, v⟩ := p
    simp only [List.cons_append, mergeInto]
    split
    · exact ih U out
    · exact ih _ _

theorem specMergeAll_append (s : Store) : ∀ (a : List Nat) g have_ out b r,
    specMergeAll s g have_ out (a ++ b) = .ok r →
    ∃ mid g2, g2 ≤ g ∧ specMergeAll s g have_ out a = .ok mid ∧ specMergeAll s g2 mid.1 mid.2 b = .ok r := by
  intro a
  induction a with
  | nil =>
    intro g have_ out b r h
    cases g with
    | zero => simp [specMergeAll] at h
    | succ g => exact ⟨(have_, out), g + 1, Nat.le_refl _, by simp [specMergeAll], h⟩
  | cons src a' ih =>
    intro g have_ out b r h
    cases g with
    | zero => simp [specMergeAll] at h
    | succ g =>
      simp only [List.cons_append, specMergeAll] at h ⊢
      cases hc : specContent s g src with
      | error e => simp [hc] at h
      | ok ps =>
        simp only [hc] at h ⊢
        obtain ⟨mid, g2, hle, h1, h2⟩ := ih g _ _ b r h
        exact ⟨mid, g2, by omega, h1, h2⟩

/-- Sources and their contents, given `den` for the contents of mappings with less fuel. -/
theorem specSources_den (s : Store) (G : Nat)
    (HA : ∀ g, g < G → ∀ i ps, specContent s g i = .ok ps → ∃ h, den s h (some i) = .ok ps) : ∀ g1,
    (∀ v srcs, specSources s g1 v = .ok srcs → ∀ g', g' ≤ G → ∀ have_ out r,
      specMergeAll s g' have_ out srcs = .ok r → ∃ h c, den s h v = .ok c ∧ mergeInto have_ out c = r) ∧
    (∀ l srcs, specSourcesList s g1 l = .ok srcs → ∀ g', g' ≤ G → ∀ have_ out r,
      specMergeAll s g' have_ out srcs = .ok r →
      ∃ h c, seqD (den s h) l = .ok c ∧ mergeInto have_ out c = r) := by
  intro g1
  induction g1 with
  | zero => simp [specSources, specSourcesList]
  | succ g1 ih =>
    obtain ⟨ih1, ih2⟩ := ih
    have hnil : ∀ g' have_ out r, specMergeAll s g' have_ out [] = .ok r → r = (have_, out) := by
      intro g' have_ out r h
      cases g' with
      | zero => simp [specMergeAll] at h
      | succ g' => simpa [specMergeAll] using h.symm
    refine ⟨?_, ?_⟩
    · intro v srcs hsrc g' hg' have_ out r hm
      cases v with
      | none =>
        simp only [specSources, Except.ok.injEq] at hsrc
        subst hsrc
        exact ⟨1, [], by simp [den], by rw [hnil _ _ _ _ hm]; rfl⟩
      | some i =>
        simp only [specSources] at hsrc
        cases hs : s[i]? with
        | none => simp [hs] at hsrc
        | some n =>
          simp only [hs] at hsrc
          cases hk : n.kind <;> simp only [hk] at hsrc <;> try (simp at hsrc; done)
          · -- sequence
            obtain ⟨h, c, hd, hmi⟩ := ih2 _ _ hsrc g' hg' have_ out r hm
            exact ⟨h + 1, c, by simp only [den, hs, hk]; exact hd, hmi⟩
          · -- mapping
            simp only [Except.ok.injEq] at hsrc
            subst hsrc
            cases g' with
            | zero => simp [specMergeAll] at hm
            | succ g' =>
              simp only [specMergeAll] at hm
              cases hc : specContent s g' i with
              | error e => simp [hc] at hm
              | ok ps =>
                simp only [hc] at hm
                obtain ⟨h, hd⟩ := HA g' (by omega) i ps hc
                exact ⟨h, ps, hd, (hnil _ _ _ _ hm).symm⟩
          · -- alias
            obtain ⟨h, c, hd, hmi⟩ := ih1 _ _ hsrc g' hg' have_ out r hm
            exact ⟨h + 1, c, by simp only [den, hs, hk]; exact hd, hmi⟩
    · intro l srcs hsrc g' hg' have_ out r hm
      cases l with
      | nil =>
        simp only [specSourcesList, Except.ok.injEq] at hsrc
        subst hsrc
        exact ⟨0, [], by simp [seqD], by rw [hnil _ _ _ _ hm]; rfl⟩
      | cons e rest =>
        simp only [specSourcesList] at hsrc
        cases he : specSources s g1 (some e) with
        | error err => simp [he] at hsrc
        | ok a =>
          simp only [he] at hsrc
          cases hr : specSourcesList s g1 rest with
          | error err => simp [hr, Except.map] at hsrc
          | ok b =>
            simp only [hr, Except.map, Except.ok.injEq] at hsrc
            subst hsrc
            obtain ⟨mid, g2, hle, hm1, hm2⟩ := specMergeAll_append s a g' have_ out b r hm
            obtain ⟨h1, c1, hd1, hmi1⟩ := ih1 _ _ he g' hg' have_ out mid hm1
            obtain ⟨h2, c2, hd2, hmi2⟩ := ih2 _ _ hr g2 (by omega) mid.1 mid.2 r hm2
            refine ⟨max h1 h2, c1 ++ c2, ?_, ?_⟩
            · simp only [seqD]
              rw [den_mono s h1 _ _ _ hd1 (Nat.le_max_left _ _)]
              simp only []
              rw [seqD_mono (fun o c hc => den_mono s h2 (max h1 h2) o c hc (Nat.le_max_right _ _)) _ _ hd2]
            · rw [mergeInto_append, hmi1, hmi2]

theorem specPairs_den (s : Store) (G : Nat)
    (HA : ∀ g, g < G → ∀ i ps, specContent s g i = .ok ps → ∃ h, den s h (some i) = .ok ps) :
    ∀ (ps : List (Nat × Nat)) f, f ≤ G + 1 → ∀ have_ out r, specPairs s f have_ out ps = .ok r →
      ∃ h Δ, pairsD s (den s h) (h + 1) have_ ps = .ok Δ ∧ r.2 = out ++ Δ := by
  intro ps
  induction ps with
  | nil =>
    intro f hf have_ out r h
    cases f with
    | zero => simp [specPairs] at h
    | succ f =>
      simp only [specPairs, Except.ok.injEq] at h
      subst h
      exact ⟨0, [], by simp [pairsD], by simp⟩
  | cons p rest ih =>
    obtain ⟨k, v⟩ := p
    intro f hf have_ out r h
    cases f with
    | zero => simp [specPairs] at h
    | succ f =>
      simp only [specPairs] at h
      cases hs : s[k]? with
      | none => simp [hs] at h
      | some kn =>
        simp only [hs] at h
        cases hm : kn.isMerge <;> simp only [hm, Bool.false_eq_true, ↓reduceIte] at h
        case true =>
          cases hsrc : specSources s (f + 1) (some v) with
          | error e => simp [hsrc] at h
          | ok srcs =>
            simp only [hsrc] at h
            cases hma : specMergeAll s f have_ out srcs with
            | error e => simp [hma] at h
            | ok mid =>
              obtain ⟨have', out'⟩ := mid
              simp only [hma] at h
              obtain ⟨h1, c, hd, hmi⟩ :=
                (specSources_den s G HA (f + 1)).1 _ _ hsrc f (by omega) have_ out _ hma
              rw [mergeInto_eq] at hmi
              simp only [Prod.mk.injEq] at hmi
              obtain ⟨hh, ho⟩ := hmi
              obtain ⟨h2, Δ, hp, hr⟩ := ih f (by omega) _ _ _ h
              refine ⟨max h1 h2, fresh have_ c ++ Δ, ?_, ?_⟩
              · simp only [pairsD, hs, hm, ↓reduceIte]
                rw [den_mono s h1 _ _ _ hd (Nat.le_max_left _ _)]
                simp only []
                rw [hh]
                rw [pairsD_mono (fun o c hc => den_mono s h2 (max h1 h2) o c hc (Nat.le_max_right _ _))
                  (by omega : h2 + 1 ≤ max h1 h2 + 1) _ _ _ hp]
              · rw [hr, ← ho, List.append_assoc]
        case false =>
          cases hck : canonicalKey s (f + 1) k with
          | error e => simp [hck] at h
          | ok ck =>
            simp only [hck] at h
            obtain ⟨h2, Δ, hp, hr⟩ := ih f (by omega) _ _ _ h
            refine ⟨max f h2, (ck, v) :: Δ, ?_, ?_⟩
            · simp only [pairsD, hs, hm, Bool.false_eq_true, ↓reduceIte]
              rw [canonicalKey_ok_mono hck (by omega : f + 1 ≤ max f h2 + 1)]
              simp only []
              rw [pairsD_mono (fun o c hc => den_mono s h2 (max f h2) o c hc (Nat.le_max_right _ _))
                (by omega : h2 + 1 ≤ max f h2 + 1) _ _ _ hp]
            · rw [hr]; simp

theorem specContent_den (s : Store) : ∀ g i ps, specContent s g i = .ok ps → ∃ h, den s h (some i) = .ok ps := by
  intro g
  induction g using Nat.strongRecOn with
  | _ g ih =>
    intro i ps h
    cases g with
    | zero => simp [specContent] at h
    | succ f =>
      simp only [specContent] at h
      cases hs : s[i]? with
      | none => simp [hs] at h
      | some n =>
        simp only [hs] at h
        cases hk : n.kind <;> simp only [hk] at h <;> try (simp at h; done)
        cases hp : pairsOf n.content with
        | none => simp [hp] at h
        | some pr =>
          simp only [hp] at h
          cases he : explicitKeys s (f + 1) pr with
          | error e => simp [he] at h
          | ok ks =>
            simp only [he] at h
            cases hsp : specPairs s f ks [] pr with
            | error e => simp [hsp, Except.map] at h
            | ok r =>
              simp only [hsp, Except.map, Except.ok.injEq] at h
              obtain ⟨h2, Δ, hpd, hr⟩ := specPairs_den s f (fun g hg => ih g (by omega)) pr f (by omega) _ _ _ hsp
              simp only [List.nil_append] at hr
              refine ⟨max f h2 + 1, ?_⟩
              simp only [den, hs, hk, hp]
              rw [explicitKeys_mono s (f + 1) (max f h2 + 1) pr (by rw [he]; simp) (by omega), he]
              simp only []
              rw [pairsD_mono (fun o c hc => den_mono s h2 (max f h2) o c hc (Nat.le_max_right _ _))
                (by omega : h2 + 1 ≤ max f h2 + 1) _ _ _ hpd, ← hr, h]

/-! ### 4e. The walk against `den`

  `Cov`: every node already in `merged` whose content can be unfolded within the budget contributes
  nothing new under the current chain (all its keys are in the union of the chain) — this is why the
  `merged` short-cut is invisible.  Nodes whose walk is still in progress are in `merged` too; for
  them the statement is vacuous because the budget is below their minimal unfolding height. -/

abbrev Chain := List (List String)

def Covd (s : Store) (j : Nat) (S : List String) : Prop :=
  ∀ h c, den s h (some j) = .ok c → ∀ k ∈ keysOf c, k ∈ S

def Cov (s : Store) (m : List Nat) (S : List String) (hb : Nat) : Prop :=
  ∀ j ∈ m, ∀ h, h ≤ hb → ∀ c, den s h (some j) = .ok c → ∀ k ∈ keysOf c, k ∈ S

structure PostC (lv : Chain) (st : RangeSt) (c : Pairs) (lv' : Chain) (st' : RangeSt) : Prop where
  out : st'.out = st.out ++ fresh lv.flatten c
  su : SU lv lv' (keysOf (fresh lv.flatten c))
  mono : ∀ x ∈ st.merged, x ∈ st'.merged

structure Post (s : Store) (lv : Chain) (st : RangeSt) (c : Pairs) (lv' : Chain) (st' : RangeSt) : Prop
    extends PostC lv st c lv' st' where
  cov : ∀ j ∈ st'.merged, j ∉ st.merged → Covd s j lv'.flatten

def Good (s : Store) (r : Except Err (Chain × RangeSt)) (lv : Chain) (st : RangeSt) (c : Pairs) : Prop :=
  r = .error .fuel ∨ ∃ lv' st', r = .ok (lv', st') ∧ Post s lv st c lv' st'

def CH (s : Store) (hb : Nat) : Prop :=
  ∀ o c, den s hb o = .ok c → ∀ F lv st, lv ≠ [] → Cov s st.merged lv.flatten hb →
    Good s (rangeImpl s F lv st o) lv st c

theorem SU.ne_nil {a b : Chain} {K : List String} (h : SU a b K) (hne : a ≠ []) : b ≠ [] := by
  intro hb
  subst hb
  have := h.1
  simp only [List.length_nil] at this
  exact hne (List.length_eq_zero_iff.mp this.symm)

theorem PostC.of_covered {lv : Chain} {st : RangeSt} {c : Pairs} (h : ∀ k ∈ keysOf c, k ∈ lv.flatten) :
    PostC lv st c lv st := by
  have := fresh_eq_nil h
  exact ⟨by rw [this]; simp, by rw [this]; exact SU.refl lv, fun _ hx => hx⟩

theorem PostC.trans {lv lv1 lv2 : Chain} {st st1 st2 : RangeSt} {c1 c2 : Pairs} (hne : lv ≠ [])
    (h1 : PostC lv st c1 lv1 st1) (h2 : PostC lv1 st1 c2 lv2 st2) : PostC lv st (c1 ++ c2) lv2 st2 := by
  have hc : fresh lv1.flatten c2 = fresh ((keysOf (fresh lv.flatten c1)).reverse ++ lv.flatten) c2 := by
    apply fresh_congr
    intro k
    rw [h1.su.flatten hne k]
    simp only [List.mem_append, List.mem_reverse]
    exact or_comm
  refine ⟨?_, ?_, fun x hx => h2.mono x (h1.mono x hx)⟩
  · rw [h2.out, h1.out, fresh_append, hc, List.append_assoc]
  · have := h1.su.trans h2.su
    rw [hc] at this
    rw [fresh_append]
    simpa [keysOf] using this

theorem keys_sub_of_su {lv lv' : Chain} {c : Pairs} (hne : lv ≠ [])
    (h : SU lv lv' (keysOf (fresh lv.flatten c))) : ∀ k ∈ keysOf c, k ∈ lv'.flatten := by
  intro k hk
  rw [h.flatten hne k]
  by_cases hin : k ∈ lv.flatten
  · exact .inl hin
  · exact .inr (mem_keys_fresh.mpr ⟨hk, hin⟩)

theorem Cov.after {s : Store} {lv lv' : Chain} {st st' : RangeSt} {c : Pairs} {hb : Nat} (hne : lv ≠ [])
    (hc : Cov s st.merged lv.flatten hb) (hp : Post s lv st c lv' st') : Cov s st'.merged lv'.flatten hb := by
  intro j hj h hle c' hd k hk
  by_cases hold : j ∈ st.merged
  · exact (hp.su.flatten hne k).mpr (.inl (hc j hold h hle c' hd k hk))
  · exact hp.cov j hj hold h c' hd k hk

theorem Cov.mono {s : Store} {m : List Nat} {S S' : List String} {hb hb' : Nat}
    (hc : Cov s m S hb) (hS : ∀ k ∈ S, k ∈ S') (hle : hb' ≤ hb) : Cov s m S' hb' :=
  fun j hj h hh c hd k hk => hS k (hc j hj h (by omega) c hd k hk)

/-- Entering a fresh node `v`: what the walk of its body achieves from the state with `v` marked is what
    the walk of `v` achieves. -/
theorem Post.enter {s : Store} {lv lv' : Chain} {st st' : RangeSt} {c : Pairs} {v : Nat} {h : Nat}
    (hne : lv ≠ []) (hd : den s h (some v) = .ok c)
    (hp : Post s lv { merged := v :: st.merged, out := st.out } c lv' st') : Post s lv st c lv' st' := by
  refine ⟨⟨hp.out, hp.su, fun x hx => hp.mono x (List.mem_cons_of_mem _ hx)⟩, fun j hj hnot => ?_⟩
  by_cases hjv : j = v
  · subst hjv
    intro h' c' hd' k hk
    have := den_functional hd' hd
    subst this
    exact keys_sub_of_su hne hp.su k hk
  · exact hp.cov j hj (by simp only [List.mem_cons, not_or]; exact ⟨hjv, hnot⟩)

theorem Post.yield {s : Store} (lv : Chain) (st : RangeSt) (ck : String) (v : Nat) :
    Post s lv st [(ck, v)] (yieldChain lv ck).1
      (if (yieldChain lv ck).2 then { st with out := st.out ++ [(ck, v)] } else st) := by
  obtain ⟨h1, h2⟩ := yieldChain_spec lv ck
  by_cases hb : (yieldChain lv ck).2 = true
  · have hnin := h1.mp hb
    have hf : fresh lv.flatten [(ck, v)] = [(ck, v)] := by simp [fresh, hnin]
    rw [if_pos hb] at h2 ⊢
    refine ⟨⟨by rw [hf], by rw [hf]; exact h2, fun _ hx => hx⟩, fun j hj hn => absurd hj hn⟩
  · have hin : ck ∈ lv.flatten := by
      by_cases h' : ck ∈ lv.flatten
      · exact h'
      · exact absurd (h1.mpr h') hb
    have hf : fresh lv.flatten [(ck, v)] = [] := by simp [fresh, hin]
    rw [if_neg hb] at h2 ⊢
    refine ⟨⟨by rw [hf]; simp, by rw [hf]; exact h2, fun _ hx => hx⟩, fun j hj hn => absurd hj hn⟩

theorem seq_loop {s : Store} {hb : Nat} (hCH : CH s hb) : ∀ l c, seqD (den s hb) l = .ok c →
    ∀ F lv st, lv ≠ [] → Cov s st.merged lv.flatten hb → Good s (rangeSeq s F lv st l) lv st c := by
  intro l
  induction l with
  | nil =>
    intro c hc F lv st hne hcov
    simp only [seqD, Except.ok.injEq] at hc
    subst hc
    cases F with
    | zero => exact .inl (by simp [rangeSeq])
    | succ F =>
      refine .inr ⟨lv, st, by simp [rangeSeq], ⟨PostC.of_covered (by simp), fun j hj hn => absurd hj hn⟩⟩
  | cons e rest ih =>
    intro c hc F lv st hne hcov
    simp only [seqD] at hc
    cases h1 : den s hb (some e) with
    | error err => simp [h1] at hc
    | ok a =>
      simp only [h1] at hc
      cases h2 : seqD (den s hb) rest with
      | error err => simp [h2] at hc
      | ok b =>
        simp only [h2, Except.ok.injEq] at hc
        subst hc
        cases F with
        | zero => exact .inl (by simp [rangeSeq])
        | succ F =>
          simp only [rangeSeq]
          rcases hCH _ _ h1 F lv st hne hcov with hf | ⟨lv1, st1, hr, hp1⟩
          · left; rw [hf]
          · rw [hr]
            simp only []
            have hne1 := hp1.su.ne_nil hne
            rcases ih b h2 F lv1 st1 hne1 (hcov.after hne hp1) with hf | ⟨lv2, st2, hr2, hp2⟩
            · exact .inl hf
            · refine .inr ⟨lv2, st2, hr2, ⟨PostC.trans hne hp1.toPostC hp2.toPostC, fun j hj hn => ?_⟩⟩
              by_cases hj1 : j ∈ st1.merged
              · intro h c' hd k hk
                exact (hp2.su.flatten hne1 k).mpr (.inl (hp1.cov j hj1 hn h c' hd k hk))
              · exact hp2.cov j hj hj1

theorem PostC.lower {cur cur1 have_ : List String} {outer outer1 : Chain} {st st1 : RangeSt} {c : Pairs}
    (h : PostC (cur :: outer) st c (cur1 :: outer1) st1)
    (hI3 : ∀ k, (k ∈ cur ∨ k ∈ outer.flatten) ↔ (k ∈ have_ ∨ k ∈ outer.flatten)) :
    PostC outer st (fresh have_ c) outer1 st1 := by
  have hc : fresh (cur :: outer).flatten c = fresh outer.flatten (fresh have_ c) := by
    rw [fresh_fresh]
    apply fresh_congr
    intro k
    simpa using hI3 k
  refine ⟨by rw [h.out, hc], ?_, h.mono⟩
  have := h.su
  rw [hc] at this
  exact this.tail

/-- Pass 2 over the pairs of a nested mapping (enclosing chain `outer` non-empty). -/
theorem pairs_loop {s : Store} {hb g : Nat} (hCH : CH s hb) : ∀ ps have_ Δ,
    pairsD s (den s hb) g have_ ps = .ok Δ →
    ∀ F cur outer st ksr, outer ≠ [] → explicitKeys s F ps = .ok ksr →
    (∀ k, (k ∈ cur ∨ k ∈ outer.flatten) ↔ (k ∈ have_ ∨ k ∈ outer.flatten)) →
    (∀ k ∈ cur, k ∈ outer.flatten ∨ k ∈ ksr) →
    Cov s st.merged (cur :: outer).flatten hb →
    rangePairs s F cur outer st ps = .error .fuel ∨
    ∃ cur' outer' st', rangePairs s F cur outer st ps = .ok (cur', outer', st') ∧
      PostC outer st Δ outer' st' ∧ (∀ k ∈ cur, k ∈ outer'.flatten) ∧
      (∀ j ∈ st'.merged, j ∉ st.merged → Covd s j outer'.flatten) := by
  intro ps
  induction ps with
  | nil =>
    intro have_ Δ hΔ F cur outer st ksr hne hek hI3 hI4 hcov
    simp only [pairsD, Except.ok.injEq] at hΔ
    subst hΔ
    cases F with
    | zero => simp [explicitKeys] at hek
    | succ F =>
      simp only [explicitKeys, Except.ok.injEq] at hek
      subst hek
      refine .inr ⟨cur, outer, st, by simp [rangePairs], PostC.of_covered (by simp), ?_,
        fun j hj hn => absurd hj hn⟩
      intro k hk
      rcases hI4 k hk with h | h
      · exact h
      · cases h
  | cons p rest ih =>
    obtain ⟨k, v⟩ := p
    intro have_ Δ hΔ F cur outer st ksr hne hek hI3 hI4 hcov
    cases F with
    | zero => simp [explicitKeys] at hek
    | succ F =>
      simp only [pairsD] at hΔ
      simp only [explicitKeys] at hek
      simp only [rangePairs]
      cases hs : s[k]? with
      | none => simp [hs] at hΔ
      | some kn =>
        simp only [hs] at hΔ hek ⊢
        cases hm : kn.isMerge <;> simp only [hm, Bool.false_eq_true, ↓reduceIte] at hΔ hek ⊢
        case true =>
          cases h1 : den s hb (some v) with
          | error e => simp [h1] at hΔ
          | ok c =>
            simp only [h1] at hΔ
            cases h2 : pairsD s (den s hb) g ((keysOf (fresh have_ c)).reverse ++ have_) rest with
            | error e => simp [h2] at hΔ
            | ok r =>
              simp only [h2, Except.ok.injEq] at hΔ
              subst hΔ
              rcases hCH _ _ h1 F (cur :: outer) st (by simp) hcov with hf | ⟨lv1, st1, hr, hp1⟩
              · left; rw [hf]
              · rw [hr]
                cases lv1 with
                | nil => have := hp1.su.1; simp at this
                | cons cur1 outer1 =>
                  simp only []
                  have hlow := hp1.toPostC.lower hI3
                  have hne1 : outer1 ≠ [] := hlow.su.ne_nil hne
                  have hcov1 := hcov.after (by simp) hp1
                  have f0 : ∀ x, (x ∈ cur1 ∨ x ∈ outer1.flatten) ↔
                      ((x ∈ cur ∨ x ∈ outer.flatten) ∨ x ∈ keysOf (fresh (cur :: outer).flatten c)) := by
                    intro x
                    have := hp1.su.flatten (by simp) x
                    simpa using this
                  have hc : fresh (cur :: outer).flatten c = fresh outer.flatten (fresh have_ c) := by
                    rw [fresh_fresh]
                    apply fresh_congr
                    intro x
                    simpa using hI3 x
                  rw [hc] at f0
                  have f1 : ∀ x, x ∈ outer1.flatten ↔
                      (x ∈ outer.flatten ∨ x ∈ keysOf (fresh outer.flatten (fresh have_ c))) :=
                    fun x => hlow.su.flatten hne x
                  have fK : ∀ x, x ∈ keysOf (fresh outer.flatten (fresh have_ c)) ↔
                      (x ∈ keysOf (fresh have_ c) ∧ x ∉ outer.flatten) := fun x => mem_keys_fresh
                  have hI3' : ∀ x, (x ∈ cur1 ∨ x ∈ outer1.flatten) ↔
                      (x ∈ (keysOf (fresh have_ c)).reverse ++ have_ ∨ x ∈ outer1.flatten) := by
                    intro x
                    have a := f0 x; have b := f1 x; have c' := fK x; have d := hI3 x
                    simp only [List.mem_append, List.mem_reverse]
                    grind
                  have hI4' : ∀ x ∈ cur1, x ∈ outer1.flatten ∨ x ∈ ksr := by
                    intro x hx
                    have a := (f0 x).mp (.inl hx); have b := f1 x; have d := hI4 x
                    grind
                  rcases ih _ _ h2 F cur1 outer1 st1 ksr hne1 hek hI3' hI4' hcov1 with
                    hf | ⟨cur', outer', st', hr2, hp2, hco, hcv⟩
                  · exact .inl hf
                  · have hsub : ∀ x ∈ outer1.flatten, x ∈ outer'.flatten :=
                      fun x hx => (hp2.su.flatten hne1 x).mpr (.inl hx)
                    refine .inr ⟨cur', outer', st', hr2, PostC.trans hne hlow hp2, ?_, ?_⟩
                    · intro x hx
                      rcases (f0 x).mpr (.inl (.inl hx)) with a | a
                      · exact hco x a
                      · exact hsub x a
                    · intro j hj hn
                      by_cases hj1 : j ∈ st1.merged
                      · intro h c' hd x hx
                        have := hp1.cov j hj1 hn h c' hd x hx
                        simp only [List.flatten_cons, List.mem_append] at this
                        rcases this with this | this
                        · exact hco x this
                        · exact hsub x this
                      · exact hcv j hj hj1
        case false =>
          cases h1 : canonicalKey s g k with
          | error e => simp [h1] at hΔ
          | ok ck =>
            simp only [h1] at hΔ
            cases h2 : pairsD s (den s hb) g have_ rest with
            | error e => simp [h2] at hΔ
            | ok r =>
              simp only [h2, Except.ok.injEq] at hΔ
              subst hΔ
              cases hck : canonicalKey s (F + 1) k with
              | error e => simp [hck] at hek
              | ok ck' =>
                have : ck' = ck := by
                  rcases canonicalKey_agree (F := F + 1) h1 with h | h
                  · rw [hck] at h; cases h
                  · rw [hck] at h; exact Except.ok.inj h
                subst this
                simp only [hck] at hek ⊢
                cases hek' : explicitKeys s F rest with
                | error e => simp [hek', Except.map] at hek
                | ok ksr' =>
                  simp only [hek', Except.map, Except.ok.injEq] at hek
                  subst hek
                  have hy := Post.yield (s := s) outer st ck' v
                  cases hyc : yieldChain outer ck' with
                  | mk outer1 b =>
                    rw [hyc] at hy
                    simp only at hy
                    have hne1 : outer1 ≠ [] := hy.su.ne_nil hne
                    have hsub1 : ∀ x ∈ outer.flatten, x ∈ outer1.flatten :=
                      fun x hx => (hy.su.flatten hne x).mpr (.inl hx)
                    have hck1 : ck' ∈ outer1.flatten := keys_sub_of_su hne hy.su ck' (by simp)
                    have hI3' : ∀ x, (x ∈ cur ∨ x ∈ outer1.flatten) ↔ (x ∈ have_ ∨ x ∈ outer1.flatten) := by
                      intro x
                      have a := hy.su.flatten hne x; have d := hI3 x
                      grind
                    have hI4' : ∀ x ∈ cur, x ∈ outer1.flatten ∨ x ∈ ksr' := by
                      intro x hx
                      rcases hI4 x hx with h | h
                      · exact .inl (hsub1 x h)
                      · rcases List.mem_cons.mp h with h | h
                        · subst h; exact .inl hck1
                        · exact .inr h
                    have hcov1 : Cov s st.merged (cur :: outer1).flatten hb := by
                      refine hcov.mono ?_ (Nat.le_refl _)
                      intro x hx
                      simp only [List.flatten_cons, List.mem_append] at hx ⊢
                      exact hx.imp id (hsub1 x)
                    cases b with
                    | false =>
                      simp only [Bool.false_eq_true, ↓reduceIte] at hy ⊢
                      rcases ih _ _ h2 F cur outer1 st ksr' hne1 hek' hI3' hI4' hcov1 with
                        hf | ⟨cur', outer', st', hr2, hp2, hco, hcv⟩
                      · exact .inl hf
                      · exact .inr ⟨cur', outer', st', hr2, PostC.trans hne hy.toPostC hp2, hco, hcv⟩
                    | true =>
                      simp only [↓reduceIte] at hy ⊢
                      rcases ih _ _ h2 F cur outer1 { st with out := st.out ++ [(ck', v)] } ksr' hne1 hek'
                        hI3' hI4' hcov1 with hf | ⟨cur', outer', st', hr2, hp2, hco, hcv⟩
                      · exact .inl hf
                      · exact .inr ⟨cur', outer', st', hr2, PostC.trans hne hy.toPostC hp2, hco, hcv⟩

/-- Pass 2 over the pairs of the mapping being ranged (empty enclosing chain: explicit pairs are all yielded). -/
theorem top_loop {s : Store} {hb g : Nat} (hCH : CH s hb) : ∀ ps have_ Δ,
    pairsD s (den s hb) g have_ ps = .ok Δ →
    ∀ F cur st, (∀ k, k ∈ cur ↔ k ∈ have_) → Cov s st.merged cur hb →
    rangePairs s F cur [] st ps = .error .fuel ∨
    ∃ cur' st', rangePairs s F cur [] st ps = .ok (cur', [], st') ∧ st'.out = st.out ++ Δ := by
  intro ps
  induction ps with
  | nil =>
    intro have_ Δ hΔ F cur st hI3 hcov
    simp only [pairsD, Except.ok.injEq] at hΔ
    subst hΔ
    cases F with
    | zero => exact .inl (by simp [rangePairs])
    | succ F => exact .inr ⟨cur, st, by simp [rangePairs], by simp⟩
  | cons p rest ih =>
    obtain ⟨k, v⟩ := p
    intro have_ Δ hΔ F cur st hI3 hcov
    cases F with
    | zero => exact .inl (by simp [rangePairs])
    | succ F =>
      simp only [pairsD] at hΔ
      simp only [rangePairs]
      cases hs : s[k]? with
      | none => simp [hs] at hΔ
      | some kn =>
        simp only [hs] at hΔ ⊢
        cases hm : kn.isMerge <;> simp only [hm, Bool.false_eq_true, ↓reduceIte] at hΔ ⊢
        case true =>
          cases h1 : den s hb (some v) with
          | error e => simp [h1] at hΔ
          | ok c =>
            simp only [h1] at hΔ
            cases h2 : pairsD s (den s hb) g ((keysOf (fresh have_ c)).reverse ++ have_) rest with
            | error e => simp [h2] at hΔ
            | ok r =>
              simp only [h2, Except.ok.injEq] at hΔ
              subst hΔ
              have hcov0 : Cov s st.merged [cur].flatten hb := hcov.mono (by simp) (Nat.le_refl _)
              rcases hCH _ _ h1 F [cur] st (by simp) hcov0 with hf | ⟨lv1, st1, hr, hp1⟩
              · left; rw [hf]
              · rw [hr]
                have hc : fresh [cur].flatten c = fresh have_ c := by
                  apply fresh_congr
                  intro x
                  simpa using hI3 x
                cases lv1 with
                | nil => have := hp1.su.1; simp at this
                | cons cur1 outer1 =>
                  have hl := hp1.su.1
                  simp only [List.length_cons, List.length_nil, Nat.zero_add, Nat.add_eq_right,
                    List.length_eq_zero_iff] at hl
                  subst hl
                  simp only []
                  have hI3' : ∀ x, x ∈ cur1 ↔ x ∈ (keysOf (fresh have_ c)).reverse ++ have_ := by
                    intro x
                    have a := hp1.su.flatten (by simp) x
                    rw [hc] at a
                    have d := hI3 x
                    simp only [List.flatten_cons, List.flatten_nil, List.append_nil] at a
                    simp only [List.mem_append, List.mem_reverse]
                    grind
                  have hcov1 : Cov s st1.merged cur1 hb :=
                    (hcov0.after (by simp) hp1).mono (by simp) (Nat.le_refl _)
                  rcases ih _ _ h2 F cur1 st1 hI3' hcov1 with hf | ⟨cur', st', hr2, ho⟩
                  · exact .inl hf
                  · refine .inr ⟨cur', st', hr2, ?_⟩
                    rw [ho, hp1.out, hc, List.append_assoc]
        case false =>
          cases h1 : canonicalKey s g k with
          | error e => simp [h1] at hΔ
          | ok ck =>
            simp only [h1] at hΔ
            cases h2 : pairsD s (den s hb) g have_ rest with
            | error e => simp [h2] at hΔ
            | ok r =>
              simp only [h2, Except.ok.injEq] at hΔ
              subst hΔ
              rcases canonicalKey_agree (F := F + 1) h1 with hf | hok
              · left; rw [hf]
              · rw [hok]
                simp only [yieldChain]
                rcases ih _ _ h2 F cur { st with out := st.out ++ [(ck, v)] } hI3 hcov with
                  hf | ⟨cur', st', hr2, ho⟩
                · exact .inl hf
                · exact .inr ⟨cur', st', hr2, by rw [ho]; simp⟩

def Main (s : Store) (h : Nat) : Prop :=
  ∀ v c, den s h (some v) = .ok c → (∀ h', h' < h → ∀ c', den s h' (some v) ≠ .ok c') →
    ∀ F lv st, lv ≠ [] → Cov s st.merged lv.flatten h → Good s (rangeImpl s F lv st (some v)) lv st c

theorem CH_of_Main {s : Store} {hb : Nat} (hM : ∀ h, h ≤ hb → Main s h) : CH s hb := by
  intro o c hd F lv st hne hcov
  cases o with
  | none =>
    cases hb with
    | zero => simp [den] at hd
    | succ hb =>
      simp only [den, Except.ok.injEq] at hd
      subst hd
      cases F with
      | zero => exact .inl (by simp [rangeImpl])
      | succ F =>
        exact .inr ⟨lv, st, by simp [rangeImpl], ⟨PostC.of_covered (by simp), fun j hj hn => absurd hj hn⟩⟩
  | some v =>
    obtain ⟨h0, hle, hd0, hmin⟩ := den_exists_min hb c hd
    exact hM h0 hle v c hd0 hmin F lv st hne (hcov.mono (fun _ h => h) hle)

theorem main_all (s : Store) : ∀ h, Main s h := by
  intro h
  induction h using Nat.strongRecOn with
  | _ h ih =>
    cases h with
    | zero => intro v c hd; simp [den] at hd
    | succ hb =>
      have hCH : CH s hb := CH_of_Main (fun h hle => ih h (by omega))
      intro v c hd hmin F lv st hne hcov
      have hd0 := hd
      cases F with
      | zero => exact .inl (by simp [rangeImpl])
      | succ F =>
        simp only [rangeImpl]
        by_cases hin : v ∈ st.merged
        · rw [if_pos (by simpa using hin)]
          exact .inr ⟨lv, st, rfl, ⟨PostC.of_covered (hcov v hin (hb + 1) (Nat.le_refl _) c hd),
            fun j hj hn => absurd hj hn⟩⟩
        · rw [if_neg (by simpa using hin)]
          have hcov1 : Cov s (v :: st.merged) lv.flatten hb := by
            intro j hj h hle c' hd' k hk
            rcases List.mem_cons.mp hj with rfl | hj
            · exact absurd hd' (hmin h (by omega) c')
            · exact hcov j hj h (by omega) c' hd' k hk
          simp only [den] at hd
          cases hs : s[v]? with
          | none => simp [hs] at hd
          | some n =>
            simp only [hs] at hd ⊢
            cases hk : n.kind <;> simp only [hk] at hd ⊢ <;> try (simp at hd; done)
            · -- sequence
              rcases seq_loop hCH _ _ hd F lv { merged := v :: st.merged, out := st.out } hne hcov1 with
                hf | ⟨lv', st', hr, hp⟩
              · exact .inl hf
              · exact .inr ⟨lv', st', hr, Post.enter hne hd0 hp⟩
            · -- mapping
              cases hp : pairsOf n.content with
              | none => simp [hp] at hd
              | some ps =>
                simp only [hp] at hd ⊢
                cases he : explicitKeys s (hb + 1) ps with
                | error e => simp [he] at hd
                | ok ks =>
                  simp only [he] at hd
                  rcases explicitKeys_agree (F := F) he with hf | hok
                  · left; rw [hf]
                  · rw [hok]
                    simp only []
                    have hcov2 : Cov s (v :: st.merged) (ks :: lv).flatten hb :=
                      hcov1.mono (fun x hx => by simp only [List.flatten_cons, List.mem_append]; exact .inr hx)
                        (Nat.le_refl _)
                    rcases pairs_loop hCH ps ks c hd F ks lv { merged := v :: st.merged, out := st.out } ks hne hok
                      (fun _ => Iff.rfl) (fun k hk => .inr hk) hcov2 with hf | ⟨cur', outer', st', hr, hp2, _, hcv⟩
                    · left; rw [hf]
                    · rw [hr]
                      exact .inr ⟨outer', st', rfl, Post.enter hne hd0 ⟨hp2, hcv⟩⟩
            · -- alias
              rcases hCH _ _ hd F lv { merged := v :: st.merged, out := st.out } hne hcov1 with
                hf | ⟨lv', st', hr, hp⟩
              · exact .inl hf
              · exact .inr ⟨lv', st', hr, Post.enter hne hd0 hp⟩

/-- Ranging a mapping yields its `den`otation, unless the fuel runs out. -/
theorem rangeMap_den (s : Store) (h i F : Nat) (n : NodeRec) (c : Pairs) (hs : s[i]? = some n)
    (hk : n.kind = .mapping) (hd : den s h (some i) = .ok c) :
    rangeMap s F i = .error .fuel ∨ rangeMap s F i = .ok c := by
  obtain ⟨h0, _, hd0, hmin⟩ := den_exists_min h c hd
  cases h0 with
  | zero => simp [den] at hd0
  | succ hb =>
    have hCH : CH s hb := CH_of_Main (fun h _ => main_all s h)
    unfold rangeMap
    cases F with
    | zero => exact .inl (by simp [rangeImpl, Except.map])
    | succ F =>
      simp only [rangeImpl, List.contains_nil, Bool.false_eq_true, ↓reduceIte, hs, hk]
      simp only [den, hs, hk] at hd0
      cases hp : pairsOf n.content with
      | none => simp [hp] at hd0
      | some ps =>
        simp only [hp] at hd0 ⊢
        cases he : explicitKeys s (hb + 1) ps with
        | error e => simp [he] at hd0
        | ok ks =>
          simp only [he] at hd0
          rcases explicitKeys_agree (F := F) he with hf | hok
          · left; rw [hf]; rfl
          · rw [hok]
            simp only []
            have hcov : Cov s [i] ks hb := by
              intro j hj h' hle c' hd' k hk'
              simp only [List.mem_singleton] at hj
              subst hj
              exact absurd hd' (hmin h' (by omega) c')
            rcases top_loop hCH ps ks c hd0 F ks { merged := [i], out := [] } (fun _ => Iff.rfl) hcov with
              hf | ⟨cur', st', hr, ho⟩
            · left; rw [hf]; rfl
            · right; rw [hr]; simp [Except.map, ho]

/-! ### 4f. Enough fuel, from the specification alone

  `rangeMap_total` needs `AliasFlat` because some key somewhere in the store may be an alias cycle.
  When the specification unfolds, every key the walk looks at has a terminating alias chain; such a
  chain has no repeated node, so `|store| + 1` units of fuel suffice for it. -/

theorem canonicalKey_short_aux (s : Store) : ∀ g i ck (vis : List Nat), canonicalKey s g i = .ok ck →
    (∀ g', g' < g → ∀ ck', canonicalKey s g' i ≠ .ok ck') →
    (∀ x ∈ vis, ∀ g' ck', canonicalKey s g' x = .ok ck' → g < g') →
    canonicalKey s (rem s vis + 1) i = .ok ck := by
  intro g
  induction g with
  | zero => intro i ck vis h; simp [canonicalKey] at h
  | succ g ih =>
    intro i ck vis h hmin hvis
    have hnv : i ∉ vis := fun hin => Nat.lt_irrefl _ (hvis i hin _ _ h)
    simp only [canonicalKey] at h ⊢
    cases hs : s[i]? with
    | none => simp [hs] at h
    | some n =>
      have hi := lt_of_getElem? hs
      simp only [hs] at h ⊢
      cases hk : n.kind <;> simp only [hk] at h ⊢ <;> try (simp at h; done)
      · exact h
      · cases ha : n.aliasTo with
        | none => simp [ha] at h
        | some t =>
          simp only [ha] at h ⊢
          have hstep : ∀ f, canonicalKey s (f + 1) i = canonicalKey s f t := by
            intro f; simp [canonicalKey, hs, hk, ha]
          have hmin' : ∀ g', g' < g → ∀ ck', canonicalKey s g' t ≠ .ok ck' := by
            intro g' hlt ck' hc
            exact hmin (g' + 1) (by omega) ck' (by rw [hstep]; exact hc)
          have hvis' : ∀ x ∈ i :: vis, ∀ g' ck', canonicalKey s g' x = .ok ck' → g < g' := by
            intro x hx g' ck' hc
            rcases List.mem_cons.mp hx with rfl | hx
            · cases g' with
              | zero => simp [canonicalKey] at hc
              | succ g' =>
                rw [hstep] at hc
                by_cases hlt : g' < g
                · exact absurd hc (hmin' g' hlt ck')
                · omega
            · have := hvis x hx g' ck' hc; omega
          have := ih t ck (i :: vis) h hmin' hvis'
          have hr := rem_cons_lt s hi hnv
          exact canonicalKey_ok_mono this (by omega)

theorem canonicalKey_short {s : Store} {g i : Nat} {ck : String} (h : canonicalKey s g i = .ok ck) :
    ∀ F, s.length + 1 ≤ F → canonicalKey s F i = .ok ck := by
  have hex : ∀ g, ∀ ck, canonicalKey s g i = .ok ck →
      ∃ g0, canonicalKey s g0 i = .ok ck ∧ ∀ g', g' < g0 → ∀ ck', canonicalKey s g' i ≠ .ok ck' := by
    intro g
    induction g using Nat.strongRecOn with
    | _ g ih =>
      intro ck hc
      by_cases hex : ∃ g', g' < g ∧ ∃ ck', canonicalKey s g' i = .ok ck'
      · obtain ⟨g', hlt, ck', hc'⟩ := hex
        have : ck' = ck := by
          have := canonicalKey_ok_mono hc' (Nat.le_of_lt hlt)
          rw [hc] at this
          exact (Except.ok.inj this).symm
        subst this
        exact ih g' hlt _ hc'
      · exact ⟨g, hc, fun g' hlt ck' hc' => hex ⟨g', hlt, ck', hc'⟩⟩
  obtain ⟨g0, h0, hmin⟩ := hex g ck h
  intro F hF
  have := canonicalKey_short_aux s g0 i ck [] h0 hmin (fun x hx => by cases hx)
  rw [rem_nil] at this
  exact canonicalKey_ok_mono this hF

theorem explicitKeys_total {s : Store} : ∀ (ps : List (Nat × Nat)) g ks, explicitKeys s g ps = .ok ks →
    ∀ F, ps.length + s.length + 2 ≤ F → explicitKeys s F ps ≠ .error .fuel := by
  intro ps
  induction ps with
  | nil =>
    intro g ks _ F hF
    obtain ⟨F', rfl⟩ : ∃ F', F = F' + 1 := ⟨F - 1, by omega⟩
    simp [explicitKeys]
  | cons p rest ih =>
    obtain ⟨k, v⟩ := p
    intro g ks h F hF
    simp only [List.length_cons] at hF
    obtain ⟨F', rfl⟩ : ∃ F', F = F' + 1 := ⟨F - 1, by omega⟩
    cases g with
    | zero => simp [explicitKeys] at h
    | succ g =>
      simp only [explicitKeys] at h ⊢
      cases hs : s[k]? with
      | none => simp
      | some kn =>
        simp only [hs] at h ⊢
        cases hm : kn.isMerge <;> simp only [hm, Bool.false_eq_true, ↓reduceIte] at h ⊢
        case true => exact ih g ks h F' (by omega)
        case false =>
          cases hck : canonicalKey s (g + 1) k with
          | error e => simp [hck] at h
          | ok ck =>
            simp only [hck] at h
            rw [canonicalKey_short hck (F' + 1) (by omega)]
            simp only []
            cases hr : explicitKeys s g rest with
            | error e => simp [hr, Except.map] at h
            | ok ks' => exact map_ne_error (ih g ks' hr F' (by omega))

/-- Fuel for the walk of something the specification can unfold. -/
def need2 (s : Store) (m : List Nat) : Nat := need s m + s.length + 1

def TH (s : Store) (hb : Nat) : Prop :=
  ∀ o c, den s hb o = .ok c → ∀ F lv st, need2 s st.merged ≤ F → rangeImpl s F lv st o ≠ .error .fuel

theorem seq_total {s : Store} {hb : Nat} (hT : TH s hb) : ∀ l c, seqD (den s hb) l = .ok c →
    ∀ F lv st, l.length + 1 + need2 s st.merged ≤ F → rangeSeq s F lv st l ≠ .error .fuel := by
  intro l
  induction l with
  | nil =>
    intro c _ F lv st hF
    obtain ⟨F', rfl⟩ : ∃ F', F = F' + 1 := ⟨F - 1, by omega⟩
    simp [rangeSeq]
  | cons e rest ih =>
    intro c hc F lv st hF
    simp only [List.length_cons] at hF
    obtain ⟨F', rfl⟩ : ∃ F', F = F' + 1 := ⟨F - 1, by omega⟩
    simp only [seqD] at hc
    cases h1 : den s hb (some e) with
    | error err => simp [h1] at hc
    | ok a =>
      simp only [h1] at hc
      cases h2 : seqD (den s hb) rest with
      | error err => simp [h2] at hc
      | ok b =>
        simp only [rangeSeq]
        cases hr : rangeImpl s F' lv st (some e) with
        | error err =>
          simp only []
          intro h; cases h
          exact hT _ _ h1 F' lv st (by omega) hr
        | ok r =>
          obtain ⟨lv1, st1⟩ := r
          have hm := need_mono s ((range_inv s F').1 _ _ _ _ _ hr).1
          exact ih b h2 F' lv1 st1 (by unfold need2 at hF ⊢; omega)

theorem pairs_total {s : Store} {hb g : Nat} (hT : TH s hb) : ∀ ps have_ Δ,
    pairsD s (den s hb) g have_ ps = .ok Δ →
    ∀ F cur outer st, ps.length + 1 + need2 s st.merged ≤ F →
    rangePairs s F cur outer st ps ≠ .error .fuel := by
  intro ps
  induction ps with
  | nil =>
    intro have_ Δ _ F cur outer st hF
    obtain ⟨F', rfl⟩ : ∃ F', F = F' + 1 := ⟨F - 1, by omega⟩
    simp [rangePairs]
  | cons p rest ih =>
    obtain ⟨k, v⟩ := p
    intro have_ Δ hΔ F cur outer st hF
    simp only [List.length_cons] at hF
    obtain ⟨F', rfl⟩ : ∃ F', F = F' + 1 := ⟨F - 1, by omega⟩
    simp only [pairsD] at hΔ
    simp only [rangePairs]
    cases hs : s[k]? with
    | none => simp
    | some kn =>
      simp only [hs] at hΔ ⊢
      cases hm : kn.isMerge <;> simp only [hm, Bool.false_eq_true, ↓reduceIte] at hΔ ⊢
      case true =>
        cases h1 : den s hb (some v) with
        | error e => simp [h1] at hΔ
        | ok c =>
          simp only [h1] at hΔ
          cases h2 : pairsD s (den s hb) g ((keysOf (fresh have_ c)).reverse ++ have_) rest with
          | error e => simp [h2] at hΔ
          | ok r =>
            cases hr : rangeImpl s F' (cur :: outer) st (some v) with
            | error e =>
              simp only []
              intro h; cases h
              exact hT _ _ h1 F' _ st (by omega) hr
            | ok res =>
              obtain ⟨lv1, st1⟩ := res
              have hmn := need_mono s ((range_inv s F').1 _ _ _ _ _ hr).1
              cases lv1 with
              | nil => exact ih _ _ h2 F' _ _ st1 (by unfold need2 at hF ⊢; omega)
              | cons c1 o1 => exact ih _ _ h2 F' _ _ st1 (by unfold need2 at hF ⊢; omega)
      case false =>
        cases h1 : canonicalKey s g k with
        | error e => simp [h1] at hΔ
        | ok ck =>
          simp only [h1] at hΔ
          cases h2 : pairsD s (den s hb) g have_ rest with
          | error e => simp [h2] at hΔ
          | ok r =>
            rw [canonicalKey_short h1 (F' + 1) (by unfold need2 at hF; omega)]
            simp only []
            split
            · exact ih _ _ h2 F' _ _ st (by omega)
            · exact ih _ _ h2 F' _ _ { st with out := st.out ++ [(ck, v)] } (by simp only []; omega)

theorem den_total (s : Store) : ∀ h, TH s h := by
  intro h
  induction h with
  | zero => intro o c hd; simp [den] at hd
  | succ hb ih =>
    intro o c hd F lv st hF
    have hpos := need_pos s st.merged
    obtain ⟨F', rfl⟩ : ∃ F', F = F' + 1 := ⟨F - 1, by unfold need2 at hF; omega⟩
    cases o with
    | none => simp [rangeImpl]
    | some v =>
      simp only [rangeImpl]
      split
      · simp
      · next hc =>
        have hc' : v ∉ st.merged := by simpa using hc
        simp only [den] at hd
        cases hs : s[v]? with
        | none => simp
        | some n =>
          have hi := lt_of_getElem? hs
          have hnc := need_cons s hi hc'
          have hcont := content_le hs
          simp only [hs] at hd ⊢
          cases hk : n.kind <;> simp only [hk] at hd ⊢ <;> try (simp; done)
          · -- sequence
            exact seq_total ih _ _ hd F' lv _ (by unfold need2 at hF ⊢; simp only []; omega)
          · -- mapping
            cases hp : pairsOf n.content with
            | none => simp
            | some ps =>
              have hlen := pairsOf_length _ _ hp
              simp only [hp] at hd ⊢
              cases he : explicitKeys s (hb + 1) ps with
              | error e => simp [he] at hd
              | ok ks =>
                simp only [he] at hd
                cases he' : explicitKeys s F' ps with
                | error e =>
                  simp only []
                  intro h; cases h
                  exact explicitKeys_total ps _ _ he F' (by unfold need2 at hF; omega) he'
                | ok ks' =>
                  have : ks' = ks := by
                    rcases explicitKeys_agree (F := F') he with h | h
                    · rw [he'] at h; cases h
                    · rw [he'] at h; exact Except.ok.inj h
                  subst this
                  simp only []
                  cases hr : rangePairs s F' ks' lv { merged := v :: st.merged, out := st.out } ps with
                  | error e =>
                    simp only []
                    intro h; cases h
                    exact pairs_total ih ps ks' c hd F' ks' lv _ (by unfold need2 at hF ⊢; simp only []; omega) hr
                  | ok r => simp
          · -- alias
            exact ih _ _ hd F' lv _ (by unfold need2 at hF ⊢; simp only []; omega)

theorem need2_le_bound (s : Store) : need2 s [] ≤ bound s := by
  unfold need2 need bound maxList
  rw [rem_nil]
  have h1 : s.length * (maxContent s + 2) + s.length ≤ s.length * ((s.length + 1) * maxContent s + 3) := by
    have : maxContent s ≤ (s.length + 1) * maxContent s := Nat.le_mul_of_pos_left _ (by omega)
    calc s.length * (maxContent s + 2) + s.length = s.length * (maxContent s + 3) := by
            rw [Nat.mul_add, Nat.mul_add]; omega
      _ ≤ _ := Nat.mul_le_mul_left _ (by omega)
  rw [Nat.add_mul (s.length) 2]
  omega

theorem merge_is_spec (s : Store) (f : Nat) (i : Nat) (ps : List (String × Nat))
    (h : specContent s f i = .ok ps) : rangeMap s (bound s) i = .ok ps := by
  obtain ⟨hh, hd⟩ := specContent_den s f i ps h
  cases f with
  | zero => simp [specContent] at h
  | succ f =>
    simp only [specContent] at h
    cases hs : s[i]? with
    | none => simp [hs] at h
    | some n =>
      simp only [hs] at h
      cases hk : n.kind <;> simp only [hk] at h <;> try (simp at h; done)
      rcases rangeMap_den s hh i (bound s) n ps hs hk hd with hf | hok
      · exfalso
        unfold rangeMap at hf
        have := den_total s hh _ _ hd (bound s) [] { merged := [], out := [] } (need2_le_bound s)
        cases hr : rangeImpl s (bound s) [] { merged := [], out := [] } (some i) with
        | error e => rw [hr] at hf this; simp only [Except.map] at hf; cases hf; exact this rfl
        | ok r => rw [hr] at hf; simp [Except.map] at hf
      · exact hok

end GoPipeline.Yaml
