/-
  C04 / C12 (scope) — lemmas about the interpolation model (`Model/Interp.lean`).

  Architecture: every walker is characterised twice,
    * `*_eq`    : for a transformer that never fails (`pureTf E g`) the walker returns the
                  specification `map* g`, under collision freedom of ordered-map keys;
    * `*_error` : if the walker fails with `e`, one of the strings it hands to the transformer
                  (`strings*`) fails with `e`  (the "all strings succeed ⇒ call succeeds" direction
                  is the contrapositive).
  `Val` and `Step` are nested inductives; their lemmas are `mutual` blocks of structurally recursive
  theorems mirroring the mutual definitions.

  Collision freedom.  `keysNoCollide g ks := (ks.map g).Nodup` (Model) is NOT sufficient for ordered
  maps: with `g a = b`, `g b = c` and `{a: x, b: y}` the images `b, c` are distinct, but the walk
  renames `a → b` *while the original entry `b` has not been visited yet*; `Replace` removes that
  entry, the range never visits it, and the result is `{b: x}` instead of `{b: x, c: y}`
  (`#eval` at the end of this file).  The hypothesis used here is `keysFresh`: images are pairwise
  distinct and a key that is renamed is renamed to a string that is not a key of the same map.
  For Go maps (`umap`) no hypothesis on the keys is needed: model and specification both build the
  result by the same later-wins insertion.
-/
import GoPipeline.Model.Interp
namespace GoPipeline.Interp
open GoPipeline GoPipeline.Pipe

/-- A transformer that never fails: `g` is "the single-pass expansion of a string". -/
def pureTf (E : Type) (g : String → String) : String → Except E String := fun s => .ok (g s)

variable {E : Type}

/-! ## Collision freedom, corrected -/

/-- Images pairwise distinct, and a renamed key is fresh for the mapping it lives in. -/
def keysFresh (g : String → String) (ks : List String) : Prop :=
  (ks.map g).Nodup ∧ ∀ k ∈ ks, g k = k ∨ g k ∉ ks

mutual
  def NoCollideVal' (g : String → String) : Val → Prop
    | .seq xs => NoCollideList' g xs
    | .omap kvs => keysFresh g (kvs.map (·.1)) ∧ NoCollideKVs' g kvs
    | .umap kvs => NoCollideKVs' g kvs
    | _ => True
  def NoCollideList' (g : String → String) : List Val → Prop
    | [] => True
    | x :: r => NoCollideVal' g x ∧ NoCollideList' g r
  def NoCollideKVs' (g : String → String) : List (String × Val) → Prop
    | [] => True
    | (_, v) :: r => NoCollideVal' g v ∧ NoCollideKVs' g r
end

def NoCollideUMapV' (g : String → String) : UMap Val → Prop
  | none => True
  | some kvs => NoCollideKVs' g kvs

def NoCollideAdj' (g : String → String) (a : Adjustment) : Prop := NoCollideVal' g a.skip ∧ NoCollideUMapV' g a.rem

def NoCollideMatrix' (g : String → String) (m : Matrix) : Prop :=
  (∀ l, m.adjustments = some l → ∀ a, some a ∈ l → NoCollideAdj' g a) ∧ NoCollideUMapV' g m.rem

def NoCollideCommand' (g : String → String) (c : CommandStep) : Prop :=
  (∀ l, c.plugins = some l → ∀ p, some p ∈ l → NoCollideVal' g p.config) ∧
  (∀ m, c.matrix = some m → NoCollideMatrix' g m) ∧
  (∀ k, c.cache = some k → NoCollideUMapV' g k.rem) ∧
  NoCollideUMapV' g c.rem

mutual
  def NoCollideStep' (g : String → String) : Step → Prop
    | .command c => NoCollideCommand' g c
    | .wait _ c => NoCollideUMapV' g c
    | .input _ c => NoCollideUMapV' g c
    | .trigger c => NoCollideUMapV' g c
    | .group _ _ ss r => (match ss with | none => True | some l => NoCollideSteps' g l) ∧ NoCollideUMapV' g r
    | .unknown v => NoCollideVal' g v
  def NoCollideSteps' (g : String → String) : List Step → Prop
    | [] => True
    | s :: r => NoCollideStep' g s ∧ NoCollideSteps' g r
end

theorem keysFresh_tail {g : String → String} {k : String} {ks : List String} (h : keysFresh g (k :: ks)) :
    keysFresh g ks := by
  refine ⟨(List.nodup_cons.mp h.1).2, fun k' hk' => ?_⟩
  rcases h.2 k' (List.mem_cons_of_mem _ hk') with h' | h'
  · exact .inl h'
  · exact .inr fun hm => h' (List.mem_cons_of_mem _ hm)

/-! ## `Except` plumbing -/

theorem map_eq_error {α β : Type} {f : α → β} {x : Except E α} {e : E} (h : x.map f = .error e) :
    x = .error e := by
  cases x <;> simp_all [Except.map]

theorem map_eq_ok {α β : Type} {f : α → β} {x : Except E α} {b : β} (h : x.map f = .ok b) :
    ∃ a, x = .ok a ∧ f a = b := by
  cases x <;> simp_all [Except.map]

theorem ok_of_no_error {α : Type} {x : Except E α} (h : ∀ e, x ≠ .error e) : ∃ a, x = .ok a := by
  cases x with
  | error e => exact absurd rfl (h e)
  | ok a => exact ⟨a, rfl⟩

/-- Later-wins insertion of a list of entries into a Go map. -/
abbrev umapFold {α : Type} (acc l : List (String × α)) : List (String × α) :=
  l.foldl (fun acc p => umapInsert p.1 p.2 acc) acc

theorem dropKey_of_not_mem {α : Type} {k : String} {l : List (String × α)} (h : k ∉ l.map (·.1)) :
    dropKey k l = l := by
  unfold dropKey
  apply List.filter_eq_self.mpr
  intro p hp
  have : p.1 ≠ k := fun he => h (he ▸ List.mem_map_of_mem hp)
  simpa using this

theorem mapValKVs_keys (g : String → String) (kvs : List (String × Val)) :
    (mapValKVs g kvs).map (·.1) = (kvs.map (·.1)).map g := by
  induction kvs with
  | nil => simp [mapValKVs]
  | cons p r ih => obtain ⟨k, v⟩ := p; simp [mapValKVs, ih]

/-! ## Untyped values, pure transformer -/

mutual
  theorem interpVal_eq (g : String → String) : (v : Val) → NoCollideVal' g v →
      interpVal (pureTf E g) v = .ok (mapVal g v)
    | .null, _ => by simp [interpVal, mapVal]
    | .bool _, _ => by simp [interpVal, mapVal]
    | .int _, _ => by simp [interpVal, mapVal]
    | .float _, _ => by simp [interpVal, mapVal]
    | .time _, _ => by simp [interpVal, mapVal]
    | .str s, _ => by simp [interpVal, mapVal, pureTf, Except.map]
    | .seq xs, h => by
      have h' : NoCollideList' g xs := by simpa [NoCollideVal'] using h
      simp [interpVal, mapVal, interpSeq_eq g xs h', Except.map]
    | .omap kvs, h => by
      have h' : keysFresh g (kvs.map (·.1)) ∧ NoCollideKVs' g kvs := by simpa [NoCollideVal'] using h
      have := interpOMap_eq g kvs [] [] h'.1 h'.2 (by simp) (by simp)
      simp [interpVal, mapVal, this, Except.map]
    | .umap kvs, h => by
      have h' : NoCollideKVs' g kvs := by simpa [NoCollideVal'] using h
      simp [interpVal, mapVal, interpUMap_eq g kvs [] h', Except.map, umapOf]

  theorem interpSeq_eq (g : String → String) : (xs : List Val) → NoCollideList' g xs →
      interpSeq (pureTf E g) xs = .ok (mapValList g xs)
    | [], _ => by simp [interpSeq, mapValList]
    | x :: r, h => by
      have h' : NoCollideVal' g x ∧ NoCollideList' g r := by simpa [NoCollideList'] using h
      simp [interpSeq, mapValList, interpVal_eq g x h'.1, interpSeq_eq g r h'.2]

  theorem interpOMap_eq (g : String → String) : (rest : List (String × Val)) →
      (done : List (String × Val)) → (dead : List String) →
      keysFresh g (rest.map (·.1)) → NoCollideKVs' g rest →
      (∀ k ∈ rest.map (·.1), k ∉ dead) → (∀ k ∈ rest.map (·.1), g k ∉ done.map (·.1)) →
      interpOMap (pureTf E g) done dead rest = .ok (done ++ mapValKVs g rest)
    | [], done, dead, _, _, _, _ => by simp [interpOMap, mapValKVs]
    | (k, v) :: rest, done, dead, hf, hn, hdead, hdone => by
      have hn' : NoCollideVal' g v ∧ NoCollideKVs' g rest := by simpa [NoCollideKVs'] using hn
      have hk : dead.contains k = false := by
        have := hdead k (by simp)
        simpa using this
      have hft := keysFresh_tail hf
      have hnd : g k ∉ (rest.map (·.1)).map g ∧ ((rest.map (·.1)).map g).Nodup := by
        simpa using hf.1
      -- the new `done` list never contains the image of a later key
      have hdone' : ∀ k₂ ∈ rest.map (·.1), g k₂ ∉ (done ++ [(g k, mapVal g v)]).map (·.1) := by
        intro k₂ hk₂
        have h1 := hdone k₂ (by simp only [List.map_cons, List.mem_cons]; exact .inr hk₂)
        have h2 : g k₂ ≠ g k := fun he => hnd.1 (he ▸ List.mem_map_of_mem hk₂)
        simp only [List.map_append, List.map_cons, List.map_nil, List.mem_append, List.mem_singleton, not_or]
        exact ⟨h1, h2⟩
      unfold interpOMap
      simp only [hk, Bool.false_eq_true, if_false, pureTf]
      rw [interpVal_eq g v hn'.1]
      simp only
      by_cases hgk : g k = k
      · have hb : (g k == k) = true := by simpa using hgk
        simp only [hb, if_true]
        have := interpOMap_eq g rest (done ++ [(g k, mapVal g v)]) dead hft hn'.2
          (fun k₂ hk₂ => hdead k₂ (by simp only [List.map_cons, List.mem_cons]; exact .inr hk₂)) hdone'
        rw [this]
        simp [mapValKVs]
      · have hb : (g k == k) = false := by simpa using hgk
        simp only [hb, Bool.false_eq_true, if_false]
        have hfresh : g k ∉ rest.map (·.1) := by
          rcases hf.2 k (by simp) with h' | h'
          · exact absurd h' hgk
          · exact fun hm => h' (by simp only [List.map_cons, List.mem_cons]; exact .inr hm)
        rw [dropKey_of_not_mem (hdone k (by simp))]
        have := interpOMap_eq g rest (done ++ [(g k, mapVal g v)]) (g k :: dead) hft hn'.2
          (fun k₂ hk₂ => by
            have h1 := hdead k₂ (by simp only [List.map_cons, List.mem_cons]; exact .inr hk₂)
            have h2 : k₂ ≠ g k := fun he => hfresh (he ▸ hk₂)
            simp only [List.mem_cons, not_or]
            exact ⟨h2, h1⟩) hdone'
        rw [this]
        simp [mapValKVs]

  theorem interpUMap_eq (g : String → String) : (kvs : List (String × Val)) → (acc : List (String × Val)) →
      NoCollideKVs' g kvs →
      interpUMap (pureTf E g) acc kvs = .ok (umapFold acc (mapValKVs g kvs))
    | [], acc, _ => by simp [interpUMap, mapValKVs]
    | (k, v) :: rest, acc, h => by
      have h' : NoCollideVal' g v ∧ NoCollideKVs' g rest := by simpa [NoCollideKVs'] using h
      have := interpUMap_eq g rest (umapInsert (g k) (mapVal g v) acc) h'.2
      unfold interpUMap
      simp only [pureTf]
      rw [interpVal_eq g v h'.1]
      simp only
      rw [this]
      simp [mapValKVs]
end

/-! ## Untyped values, arbitrary transformer: where an error comes from -/

mutual
  theorem interpVal_error (tf : String → Except E String) (e : E) : (v : Val) →
      interpVal tf v = .error e → ∃ x ∈ stringsVal v, tf x = .error e
    | .null, h => by simp [interpVal] at h
    | .bool _, h => by simp [interpVal] at h
    | .int _, h => by simp [interpVal] at h
    | .float _, h => by simp [interpVal] at h
    | .time _, h => by simp [interpVal] at h
    | .str s, h => by
      rw [interpVal] at h
      exact ⟨s, by simp [stringsVal], map_eq_error h⟩
    | .seq xs, h => by
      rw [interpVal] at h
      simpa [stringsVal] using interpSeq_error tf e xs (map_eq_error h)
    | .omap kvs, h => by
      rw [interpVal] at h
      simpa [stringsVal] using interpOMap_error tf e kvs [] [] (map_eq_error h)
    | .umap kvs, h => by
      rw [interpVal] at h
      simpa [stringsVal] using interpUMap_error tf e kvs [] (map_eq_error h)

  theorem interpSeq_error (tf : String → Except E String) (e : E) : (xs : List Val) →
      interpSeq tf xs = .error e → ∃ x ∈ stringsList xs, tf x = .error e
    | [], h => by simp [interpSeq] at h
    | x :: r, h => by
      rw [interpSeq] at h
      cases hx : interpVal tf x with
      | error e' =>
        simp only [hx, Except.error.injEq] at h; subst h
        obtain ⟨y, hy, hye⟩ := interpVal_error tf e' x hx
        exact ⟨y, by simp [stringsList, hy], hye⟩
      | ok x' =>
        simp only [hx] at h
        cases hr : interpSeq tf r with
        | error e' =>
          simp only [hr, Except.error.injEq] at h; subst h
          obtain ⟨y, hy, hye⟩ := interpSeq_error tf e' r hr
          exact ⟨y, by simp [stringsList, hy], hye⟩
        | ok r' => simp [hr] at h

  theorem interpOMap_error (tf : String → Except E String) (e : E) : (rest : List (String × Val)) →
      (done : List (String × Val)) → (dead : List String) →
      interpOMap tf done dead rest = .error e → ∃ x ∈ stringsKVs rest, tf x = .error e
    | [], _, _, h => by simp [interpOMap] at h
    | (k, v) :: rest, done, dead, h => by
      rw [interpOMap] at h
      split at h
      · obtain ⟨y, hy, hye⟩ := interpOMap_error tf e rest done dead h
        exact ⟨y, by simp [stringsKVs, hy], hye⟩
      · cases hk : tf k with
        | error e' =>
          simp only [hk, Except.error.injEq] at h; subst h
          exact ⟨k, by simp [stringsKVs], hk⟩
        | ok k' =>
          simp only [hk] at h
          cases hv : interpVal tf v with
          | error e' =>
            simp only [hv, Except.error.injEq] at h; subst h
            obtain ⟨y, hy, hye⟩ := interpVal_error tf e' v hv
            exact ⟨y, by simp [stringsKVs, hy], hye⟩
          | ok v' =>
            simp only [hv] at h
            split at h
            · obtain ⟨y, hy, hye⟩ := interpOMap_error tf e rest _ _ h
              exact ⟨y, by simp [stringsKVs, hy], hye⟩
            · obtain ⟨y, hy, hye⟩ := interpOMap_error tf e rest _ _ h
              exact ⟨y, by simp [stringsKVs, hy], hye⟩

  theorem interpUMap_error (tf : String → Except E String) (e : E) : (kvs : List (String × Val)) →
      (acc : List (String × Val)) →
      interpUMap tf acc kvs = .error e → ∃ x ∈ stringsKVs kvs, tf x = .error e
    | [], _, h => by simp [interpUMap] at h
    | (k, v) :: rest, acc, h => by
      rw [interpUMap] at h
      cases hk : tf k with
      | error e' =>
        simp only [hk, Except.error.injEq] at h; subst h
        exact ⟨k, by simp [stringsKVs], hk⟩
      | ok k' =>
        simp only [hk] at h
        cases hv : interpVal tf v with
        | error e' =>
          simp only [hv, Except.error.injEq] at h; subst h
          obtain ⟨y, hy, hye⟩ := interpVal_error tf e' v hv
          exact ⟨y, by simp [stringsKVs, hy], hye⟩
        | ok v' =>
          simp only [hv] at h
          obtain ⟨y, hy, hye⟩ := interpUMap_error tf e rest _ h
          exact ⟨y, by simp [stringsKVs, hy], hye⟩
end

/-! ## Typed helpers: Go maps and slices of strings -/

theorem interpUMapV_eq (g : String → String) (m : UMap Val) (h : NoCollideUMapV' g m) :
    interpUMapV (pureTf E g) m = .ok (mapUMapV g m) := by
  cases m with
  | none => rfl
  | some kvs => simp [interpUMapV, mapUMapV, interpUMap_eq g kvs [] h, Except.map, umapOf]

theorem interpUMapV_error (tf : String → Except E String) (e : E) (m : UMap Val)
    (h : interpUMapV tf m = .error e) : ∃ x ∈ stringsUMapV m, tf x = .error e := by
  cases m with
  | none => simp [interpUMapV] at h
  | some kvs => exact interpUMap_error tf e kvs [] (map_eq_error h)

theorem interpStrs_eq (g : String → String) (l : List String) :
    interpStrs (pureTf E g) l = .ok (l.map g) := by
  induction l with
  | nil => rfl
  | cons s r ih => simp [interpStrs, ih, pureTf]

theorem interpStrs_error (tf : String → Except E String) (e : E) (l : List String)
    (h : interpStrs tf l = .error e) : ∃ x ∈ l, tf x = .error e := by
  induction l with
  | nil => simp [interpStrs] at h
  | cons s r ih =>
    rw [interpStrs] at h
    cases hs : tf s with
    | error e' =>
      simp only [hs, Except.error.injEq] at h; subst h
      exact ⟨s, by simp, hs⟩
    | ok s' =>
      simp only [hs] at h
      cases hr : interpStrs tf r with
      | error e' =>
        simp only [hr, Except.error.injEq] at h; subst h
        obtain ⟨y, hy, hye⟩ := ih hr
        exact ⟨y, by simp [hy], hye⟩
      | ok r' => simp [hr] at h

theorem interpUMapSAux_eq (g : String → String) (kvs acc : List (String × String)) :
    interpUMapSAux (pureTf E g) acc kvs = .ok (umapFold acc (kvs.map fun (k, v) => (g k, g v))) := by
  induction kvs generalizing acc with
  | nil => rfl
  | cons p r ih => obtain ⟨k, v⟩ := p; simp [interpUMapSAux, ih, pureTf]

theorem interpUMapSAux_error (tf : String → Except E String) (e : E) (kvs acc : List (String × String))
    (h : interpUMapSAux tf acc kvs = .error e) : ∃ x ∈ kvs.flatMap (fun (k, v) => [k, v]), tf x = .error e := by
  induction kvs generalizing acc with
  | nil => simp [interpUMapSAux] at h
  | cons p r ih =>
    obtain ⟨k, v⟩ := p
    rw [interpUMapSAux] at h
    cases hk : tf k with
    | error e' =>
      simp only [hk, Except.error.injEq] at h; subst h
      exact ⟨k, by simp, hk⟩
    | ok k' =>
      simp only [hk] at h
      cases hv : tf v with
      | error e' =>
        simp only [hv, Except.error.injEq] at h; subst h
        exact ⟨v, by simp, hv⟩
      | ok v' =>
        simp only [hv] at h
        obtain ⟨y, hy, hye⟩ := ih _ h
        exact ⟨y, by rw [List.flatMap_cons]; exact List.mem_append_right _ hy, hye⟩

theorem interpUMapS_eq (g : String → String) (m : UMap String) :
    interpUMapS (pureTf E g) m = .ok (mapUMapS g m) := by
  cases m with
  | none => rfl
  | some kvs => simp [interpUMapS, mapUMapS, interpUMapSAux_eq, Except.map, umapOf]

theorem interpUMapS_error (tf : String → Except E String) (e : E) (m : UMap String)
    (h : interpUMapS tf m = .error e) : ∃ x ∈ stringsUMapS m, tf x = .error e := by
  cases m with
  | none => simp [interpUMapS] at h
  | some kvs => exact interpUMapSAux_error tf e kvs [] (map_eq_error h)

theorem interpValuesSAux_eq (g : String → String) (kvs : List (String × String)) :
    interpValuesSAux (pureTf E g) kvs = .ok (kvs.map fun (k, v) => (k, g v)) := by
  induction kvs with
  | nil => rfl
  | cons p r ih => obtain ⟨k, v⟩ := p; simp [interpValuesSAux, ih, pureTf]

theorem interpValuesSAux_error (tf : String → Except E String) (e : E) (kvs : List (String × String))
    (h : interpValuesSAux tf kvs = .error e) : ∃ x ∈ kvs.map (·.2), tf x = .error e := by
  induction kvs with
  | nil => simp [interpValuesSAux] at h
  | cons p r ih =>
    obtain ⟨k, v⟩ := p
    rw [interpValuesSAux] at h
    cases hv : tf v with
    | error e' =>
      simp only [hv, Except.error.injEq] at h; subst h
      exact ⟨v, by simp, hv⟩
    | ok v' =>
      simp only [hv] at h
      cases hr : interpValuesSAux tf r with
      | error e' =>
        simp only [hr, Except.error.injEq] at h; subst h
        obtain ⟨y, hy, hye⟩ := ih hr
        exact ⟨y, by simp only [List.map_cons, List.mem_cons]; exact .inr hy, hye⟩
      | ok r' => simp [hr] at h

theorem interpValuesSAux_keys (tf : String → Except E String) (kvs r : List (String × String))
    (h : interpValuesSAux tf kvs = .ok r) : r.map (·.1) = kvs.map (·.1) := by
  induction kvs generalizing r with
  | nil => simp [interpValuesSAux] at h; subst h; rfl
  | cons p t ih =>
    obtain ⟨k, v⟩ := p
    rw [interpValuesSAux] at h
    cases hv : tf v with
    | error e' => simp [hv] at h
    | ok v' =>
      simp only [hv] at h
      cases hr : interpValuesSAux tf t with
      | error e' => simp [hr] at h
      | ok r' =>
        simp only [hr, Except.ok.injEq] at h; subst h
        simp [ih r' hr]

theorem interpValuesS_eq (g : String → String) (m : UMap String) :
    interpValuesS (pureTf E g) m = .ok (mapValuesS g m) := by
  cases m with
  | none => rfl
  | some kvs => simp [interpValuesS, mapValuesS, interpValuesSAux_eq, Except.map]

theorem interpValuesS_error (tf : String → Except E String) (e : E) (m : UMap String)
    (h : interpValuesS tf m = .error e) :
    ∃ x ∈ (match m with | none => [] | some kvs => kvs.map (fun (p : String × String) => p.2)), tf x = .error e := by
  cases m with
  | none => simp [interpValuesS] at h
  | some kvs => exact interpValuesSAux_error tf e kvs (map_eq_error h)

theorem interpValuesS_keys (tf : String → Except E String) (m m' : UMap String)
    (h : interpValuesS tf m = .ok m') : m'.map (·.map (·.1)) = m.map (·.map (·.1)) := by
  cases m with
  | none => simp [interpValuesS] at h; subst h; rfl
  | some kvs =>
    obtain ⟨r, hr, rfl⟩ := map_eq_ok h
    simp [interpValuesSAux_keys tf kvs r hr]

theorem interpSetupAux_eq (g : String → String) (kvs acc : List (String × Option (List String))) :
    interpSetupAux (pureTf E g) acc kvs =
      .ok (umapFold acc (kvs.map fun (k, v) => (g k, v.map (·.map g)))) := by
  induction kvs generalizing acc with
  | nil => rfl
  | cons p r ih =>
    obtain ⟨k, v⟩ := p
    cases v with
    | none => simp [interpSetupAux, ih, pureTf]
    | some l => simp [interpSetupAux, ih, pureTf, interpStrs_eq, Except.map]

theorem interpSetupAux_error (tf : String → Except E String) (e : E)
    (kvs acc : List (String × Option (List String))) (h : interpSetupAux tf acc kvs = .error e) :
    ∃ x ∈ kvs.flatMap (fun (k, v) => k :: v.getD []), tf x = .error e := by
  induction kvs generalizing acc with
  | nil => simp [interpSetupAux] at h
  | cons p r ih =>
    obtain ⟨k, v⟩ := p
    unfold interpSetupAux at h
    cases hk : tf k with
    | error e' =>
      simp only [hk, Except.error.injEq] at h; subst h
      exact ⟨k, by simp, hk⟩
    | ok k' =>
      simp only [hk] at h
      cases v with
      | none =>
        simp only at h
        obtain ⟨y, hy, hye⟩ := ih _ h
        exact ⟨y, by rw [List.flatMap_cons]; exact List.mem_append_right _ hy, hye⟩
      | some l =>
        simp only at h
        cases hl : interpStrs tf l with
        | error e' =>
          simp only [hl, Except.map, Except.error.injEq] at h; subst h
          obtain ⟨y, hy, hye⟩ := interpStrs_error tf e' l hl
          exact ⟨y, by simp [hy], hye⟩
        | ok l' =>
          simp only [hl, Except.map] at h
          obtain ⟨y, hy, hye⟩ := ih _ h
          exact ⟨y, by rw [List.flatMap_cons]; exact List.mem_append_right _ hy, hye⟩

theorem interpSetup_eq (g : String → String) (m : UMap (Option (List String))) :
    interpSetup (pureTf E g) m =
      .ok (m.map fun kvs => umapOf (kvs.map fun (k, v) => (g k, v.map (·.map g)))) := by
  cases m with
  | none => rfl
  | some kvs => simp [interpSetup, interpSetupAux_eq, Except.map, umapOf]

theorem interpSetup_error (tf : String → Except E String) (e : E) (m : UMap (Option (List String)))
    (h : interpSetup tf m = .error e) :
    ∃ x ∈ (match m with | none => [] | some kvs => kvs.flatMap fun (k, v) => k :: v.getD [] : List String), tf x = .error e := by
  cases m with
  | none => simp [interpSetup] at h
  | some kvs => exact interpSetupAux_error tf e kvs [] (map_eq_error h)

theorem optStrs_eq (g : String → String) (o : Option (List String)) :
    (match o with | none => .ok none | some l => (interpStrs (pureTf E g) l).map some : Except E (Option (List String)))
      = .ok (o.map (·.map g)) := by
  cases o with
  | none => rfl
  | some l => simp [interpStrs_eq, Except.map]

theorem optStrs_error (tf : String → Except E String) (e : E) (o : Option (List String))
    (h : (match o with | none => .ok none | some l => (interpStrs tf l).map some : Except E (Option (List String)))
      = .error e) : ∃ x ∈ o.getD [], tf x = .error e := by
  cases o with
  | none => simp at h
  | some l => exact interpStrs_error tf e l (map_eq_error h)

/-! ## `optM` -/

theorem optM_eq {α : Type} (f : α → Except E α) (f' : α → α) (o : Option α)
    (h : ∀ a, o = some a → f a = .ok (f' a)) : optM f o = .ok (o.map f') := by
  cases o with
  | none => rfl
  | some a => simp [optM, h a rfl, Except.map]

theorem optM_error {α : Type} (f : α → Except E α) (o : Option α) (e : E) (h : optM f o = .error e) :
    ∃ a, o = some a ∧ f a = .error e := by
  cases o with
  | none => simp [optM] at h
  | some a => exact ⟨a, rfl, map_eq_error h⟩

theorem optM_ok {α : Type} (f : α → Except E α) (o o' : Option α) (h : optM f o = .ok o') :
    (o = none ∧ o' = none) ∨ ∃ a a', o = some a ∧ o' = some a' ∧ f a = .ok a' := by
  cases o with
  | none => simp [optM] at h; exact .inl ⟨rfl, h.symm⟩
  | some a =>
    obtain ⟨a', ha, rfl⟩ := map_eq_ok h
    exact .inr ⟨a, a', rfl, rfl, ha⟩

/-! ## Plugins -/

theorem interpPlugin_eq (g : String → String) (p : Plugin) (h : NoCollideVal' g p.config) :
    interpPlugin (pureTf E g) p = .ok (mapPlugin g p) := by
  simp [interpPlugin, interpVal_eq g p.config h, mapPlugin, pureTf]

theorem interpPlugin_error (tf : String → Except E String) (e : E) (p : Plugin)
    (h : interpPlugin tf p = .error e) : ∃ x ∈ p.source :: stringsVal p.config, tf x = .error e := by
  unfold interpPlugin at h
  cases hs : tf p.source with
  | error e' =>
    simp only [hs, Except.error.injEq] at h; subst h
    exact ⟨_, by simp, hs⟩
  | ok s' =>
    simp only [hs] at h
    cases hc : interpVal tf p.config with
    | error e' =>
      simp only [hc, Except.error.injEq] at h; subst h
      obtain ⟨y, hy, hye⟩ := interpVal_error tf e' _ hc
      exact ⟨y, by simp [hy], hye⟩
    | ok c' => simp [hc] at h

theorem interpPlugins_eq (g : String → String) (l : List (Option Plugin))
    (h : ∀ p, some p ∈ l → NoCollideVal' g p.config) :
    interpPlugins (pureTf E g) l = .ok (l.map (·.map (mapPlugin g))) := by
  induction l with
  | nil => rfl
  | cons o r ih =>
    have ih' := ih (fun p hp => h p (List.mem_cons_of_mem _ hp))
    cases o with
    | none => simp [interpPlugins, ih', Except.map]
    | some p => simp [interpPlugins, ih', interpPlugin_eq g p (h p (by simp))]

theorem interpPlugins_error (tf : String → Except E String) (e : E) (l : List (Option Plugin))
    (h : interpPlugins tf l = .error e) : ∃ x ∈ stringsPlugins (some l), tf x = .error e := by
  induction l with
  | nil => simp [interpPlugins] at h
  | cons o r ih =>
    cases o with
    | none =>
      rw [interpPlugins] at h
      obtain ⟨y, hy, hye⟩ := ih (map_eq_error h)
      exact ⟨y, by simpa [stringsPlugins] using hy, hye⟩
    | some p =>
      rw [interpPlugins] at h
      cases hp : interpPlugin tf p with
      | error e' =>
        simp only [hp, Except.error.injEq] at h; subst h
        obtain ⟨y, hy, hye⟩ := interpPlugin_error tf e' p hp
        exact ⟨y, by simp only [stringsPlugins, List.flatMap_cons]; exact List.mem_append_left _ hy, hye⟩
      | ok p' =>
        simp only [hp] at h
        cases hr : interpPlugins tf r with
        | error e' =>
          simp only [hr, Except.error.injEq] at h; subst h
          obtain ⟨y, hy, hye⟩ := ih hr
          exact ⟨y, by simp only [stringsPlugins, List.flatMap_cons] at hy ⊢; exact List.mem_append_right _ hy, hye⟩
        | ok r' => simp [hr] at h

/-! ## Matrix adjustments, matrix, cache -/

theorem interpAdjustment_eq (g : String → String) (a : Adjustment) (h : NoCollideAdj' g a) :
    interpAdjustment (pureTf E g) a = .ok (mapAdjustment g a) := by
  simp [interpAdjustment, interpUMapS_eq, interpVal_eq g a.skip h.1, interpUMapV_eq g a.rem h.2, mapAdjustment]

theorem interpAdjustment_error (tf : String → Except E String) (e : E) (a : Adjustment)
    (h : interpAdjustment tf a = .error e) : ∃ x ∈ stringsAdj a, tf x = .error e := by
  unfold interpAdjustment at h
  cases hw : interpUMapS tf a.with_ with
  | error e' =>
    simp only [hw, Except.error.injEq] at h; subst h
    obtain ⟨y, hy, hye⟩ := interpUMapS_error tf e' _ hw
    exact ⟨y, by simp [stringsAdj, hy], hye⟩
  | ok w =>
    simp only [hw] at h
    cases hs : interpVal tf a.skip with
    | error e' =>
      simp only [hs, Except.error.injEq] at h; subst h
      obtain ⟨y, hy, hye⟩ := interpVal_error tf e' _ hs
      exact ⟨y, by simp [stringsAdj, hy], hye⟩
    | ok s =>
      simp only [hs] at h
      cases hr : interpUMapV tf a.rem with
      | error e' =>
        simp only [hr, Except.error.injEq] at h; subst h
        obtain ⟨y, hy, hye⟩ := interpUMapV_error tf e' _ hr
        exact ⟨y, by simp [stringsAdj, hy], hye⟩
      | ok r => simp [hr] at h

theorem interpAdjustments_eq (g : String → String) (l : List (Option Adjustment))
    (h : ∀ a, some a ∈ l → NoCollideAdj' g a) :
    interpAdjustments (pureTf E g) l = .ok (l.map (·.map (mapAdjustment g))) := by
  induction l with
  | nil => rfl
  | cons o r ih =>
    have ih' := ih (fun a ha => h a (List.mem_cons_of_mem _ ha))
    cases o with
    | none => simp [interpAdjustments, ih', Except.map]
    | some a => simp [interpAdjustments, ih', interpAdjustment_eq g a (h a (by simp))]

theorem interpAdjustments_error (tf : String → Except E String) (e : E) (l : List (Option Adjustment))
    (h : interpAdjustments tf l = .error e) :
    ∃ x ∈ l.flatMap (fun | none => [] | some a => stringsAdj a), tf x = .error e := by
  induction l with
  | nil => simp [interpAdjustments] at h
  | cons o r ih =>
    cases o with
    | none =>
      rw [interpAdjustments] at h
      obtain ⟨y, hy, hye⟩ := ih (map_eq_error h)
      exact ⟨y, by simpa using hy, hye⟩
    | some a =>
      rw [interpAdjustments] at h
      cases ha : interpAdjustment tf a with
      | error e' =>
        simp only [ha, Except.error.injEq] at h; subst h
        obtain ⟨y, hy, hye⟩ := interpAdjustment_error tf e' a ha
        exact ⟨y, by simp only [List.flatMap_cons]; exact List.mem_append_left _ hy, hye⟩
      | ok a' =>
        simp only [ha] at h
        cases hr : interpAdjustments tf r with
        | error e' =>
          simp only [hr, Except.error.injEq] at h; subst h
          obtain ⟨y, hy, hye⟩ := ih hr
          exact ⟨y, by simp only [List.flatMap_cons]; exact List.mem_append_right _ hy, hye⟩
        | ok r' => simp [hr] at h

theorem interpMatrix_eq (g : String → String) (m : Matrix) (h : NoCollideMatrix' g m) :
    interpMatrix .env (pureTf E g) m = .ok (mapMatrix g m) := by
  simp only [interpMatrix, interpSetup_eq, interpUMapV_eq g m.rem h.2, mapMatrix]
  cases hl : m.adjustments with
  | none => rfl
  | some l => simp [interpAdjustments_eq g l (h.1 l hl), Except.map]

theorem interpMatrix_error (tf : String → Except E String) (e : E) (m : Matrix)
    (h : interpMatrix .env tf m = .error e) : ∃ x ∈ stringsMatrix m, tf x = .error e := by
  simp only [interpMatrix] at h
  cases hs : interpSetup tf m.setup with
  | error e' =>
    simp only [hs, Except.error.injEq] at h; subst h
    obtain ⟨y, hy, hye⟩ := interpSetup_error tf e' _ hs
    exact ⟨y, List.mem_append_left _ (List.mem_append_left _ hy), hye⟩
  | ok s =>
    simp only [hs] at h
    have hrem : ∀ e', interpUMapV tf m.rem = .error e' → ∃ x ∈ stringsMatrix m, tf x = .error e' := by
      intro e' hr
      obtain ⟨y, hy, hye⟩ := interpUMapV_error tf e' _ hr
      exact ⟨y, List.mem_append_right _ hy, hye⟩
    cases hl : m.adjustments with
    | none =>
      simp only [hl] at h
      cases hr : interpUMapV tf m.rem with
      | error e' => simp only [hr, Except.error.injEq] at h; subst h; exact hrem _ hr
      | ok r => simp [hr] at h
    | some l =>
      simp only [hl] at h
      cases ha : interpAdjustments tf l with
      | error e' =>
        simp only [ha, Except.map, Except.error.injEq] at h; subst h
        obtain ⟨y, hy, hye⟩ := interpAdjustments_error tf e' l ha
        refine ⟨y, List.mem_append_left _ (List.mem_append_right _ ?_), hye⟩
        rw [hl]; exact hy
      | ok l' =>
        simp only [ha, Except.map] at h
        cases hr : interpUMapV tf m.rem with
        | error e' => simp only [hr, Except.error.injEq] at h; subst h; exact hrem _ hr
        | ok r => simp [hr] at h

theorem interpCache_eq (g : String → String) (c : Cache) (h : NoCollideUMapV' g c.rem) :
    interpCache (pureTf E g) c = .ok (mapCache g c) := by
  simp only [interpCache, pureTf, interpUMapV_eq g c.rem h, mapCache]
  cases c.paths with
  | none => rfl
  | some l => simp [interpStrs_eq, Except.map]

theorem interpCache_error (tf : String → Except E String) (e : E) (c : Cache)
    (h : interpCache tf c = .error e) : ∃ x ∈ stringsCache c, tf x = .error e := by
  unfold interpCache at h
  cases hn : tf c.name with
  | error e' =>
    simp only [hn, Except.error.injEq] at h; subst h
    exact ⟨_, by simp [stringsCache], hn⟩
  | ok n =>
    simp only [hn] at h
    have hrest : ∀ (p : Option (List String)),
        ((match tf c.size with
          | .error e => .error e
          | .ok s =>
            match interpUMapV tf c.rem with
            | .error e => .error e
            | .ok r => .ok { c with name := n, paths := p, size := s, rem := r }) : Except E Cache) = .error e →
        ∃ x ∈ stringsCache c, tf x = .error e := by
      intro p h
      cases hs : tf c.size with
      | error e' =>
        simp only [hs, Except.error.injEq] at h; subst h
        exact ⟨_, by simp [stringsCache], hs⟩
      | ok s =>
        simp only [hs] at h
        cases hr : interpUMapV tf c.rem with
        | error e' =>
          simp only [hr, Except.error.injEq] at h; subst h
          obtain ⟨y, hy, hye⟩ := interpUMapV_error tf e' _ hr
          exact ⟨y, by simp [stringsCache, hy], hye⟩
        | ok r => simp [hr] at h
    cases hp : c.paths with
    | none =>
      simp only [hp] at h
      exact hrest _ h
    | some l =>
      simp only [hp] at h
      cases hl : interpStrs tf l with
      | error e' =>
        simp only [hl, Except.map, Except.error.injEq] at h; subst h
        obtain ⟨y, hy, hye⟩ := interpStrs_error tf e' l hl
        exact ⟨y, by simp [stringsCache, hp, hy], hye⟩
      | ok l' =>
        simp only [hl, Except.map] at h
        exact hrest _ h

/-! ## `(*CommandStep).interpolate` -/

/-- Flat form of the env branch. -/
theorem interpCommand_env_def (tf : String → Except E String) (c : CommandStep) :
    interpCommand .env tf c =
      match tf c.command with
      | .error e => .error e
      | .ok command =>
      match tf c.label with
      | .error e => .error e
      | .ok label =>
      match optM (interpPlugins tf) c.plugins with
      | .error e => .error e
      | .ok plugins =>
      match tf c.key with
      | .error e => .error e
      | .ok key =>
      match interpUMapS tf c.env with
      | .error e => .error e
      | .ok env =>
      match optM (interpMatrix .env tf) c.matrix with
      | .error e => .error e
      | .ok matrix =>
      match optM (interpCache tf) c.cache with
      | .error e => .error e
      | .ok cache =>
      match interpUMapV tf c.rem with
      | .error e => .error e
      | .ok rem => .ok { c with command := command, label := label, plugins := plugins, key := key,
                                env := env, matrix := matrix, cache := cache, rem := rem } := by
  unfold interpCommand
  cases tf c.command <;> try rfl
  cases tf c.label <;> try rfl
  cases optM (interpPlugins tf) c.plugins <;> try rfl
  simp only
  cases tf c.key <;> try rfl
  cases interpUMapS tf c.env <;> try rfl
  cases optM (interpMatrix .env tf) c.matrix <;> try rfl
  cases optM (interpCache tf) c.cache <;> try rfl

/-- Flat form of the matrix branch. -/
theorem interpCommand_matrix_def (tf : String → Except E String) (c : CommandStep) :
    interpCommand .matrix tf c =
      match tf c.command with
      | .error e => .error e
      | .ok command =>
      match tf c.label with
      | .error e => .error e
      | .ok label =>
      match optM (interpPlugins tf) c.plugins with
      | .error e => .error e
      | .ok plugins =>
      match interpValuesS tf c.env with
      | .error e => .error e
      | .ok env =>
      match interpUMapV tf c.rem with
      | .error e => .error e
      | .ok rem => .ok { c with command := command, label := label, plugins := plugins, env := env, rem := rem } := by
  unfold interpCommand
  cases tf c.command <;> try rfl
  cases tf c.label <;> try rfl
  cases optM (interpPlugins tf) c.plugins <;> try rfl
  simp only
  cases interpValuesS tf c.env <;> try rfl

theorem optM_interpPlugins_eq (g : String → String) (c : CommandStep)
    (h : ∀ l, c.plugins = some l → ∀ p, some p ∈ l → NoCollideVal' g p.config) :
    optM (interpPlugins (pureTf E g)) c.plugins = .ok (c.plugins.map (·.map (·.map (mapPlugin g)))) :=
  optM_eq _ _ _ (fun l hl => interpPlugins_eq g l (h l hl))

theorem interpCommand_env_eq (g : String → String) (c : CommandStep) (h : NoCollideCommand' g c) :
    interpCommand .env (pureTf E g) c = .ok (mapCommandEnv g c) := by
  have hm : optM (interpMatrix .env (pureTf E g)) c.matrix = .ok (c.matrix.map (mapMatrix g)) :=
    optM_eq _ _ _ (fun m hm => interpMatrix_eq g m (h.2.1 m hm))
  have hc : optM (interpCache (pureTf E g)) c.cache = .ok (c.cache.map (mapCache g)) :=
    optM_eq _ _ _ (fun k hk => interpCache_eq g k (h.2.2.1 k hk))
  rw [interpCommand_env_def]
  simp only [pureTf, optM_interpPlugins_eq g c h.1, interpUMapS_eq, hm, hc, interpUMapV_eq g c.rem h.2.2.2,
    mapCommandEnv]

theorem interpCommand_matrix_eq (g : String → String) (c : CommandStep) (h : NoCollideCommand' g c) :
    interpCommand .matrix (pureTf E g) c = .ok (mapCommandMatrix g c) := by
  rw [interpCommand_matrix_def]
  simp only [pureTf, optM_interpPlugins_eq g c h.1, interpValuesS_eq, interpUMapV_eq g c.rem h.2.2.2,
    mapCommandMatrix]

theorem optM_interpPlugins_error (tf : String → Except E String) (e : E) (o : Option (List (Option Plugin)))
    (h : optM (interpPlugins tf) o = .error e) : ∃ x ∈ stringsPlugins o, tf x = .error e := by
  obtain ⟨l, rfl, hl⟩ := optM_error _ _ _ h
  exact interpPlugins_error tf e l hl

theorem interpCommand_error (kind : TfKind) (tf : String → Except E String) (e : E) (c : CommandStep)
    (h : interpCommand kind tf c = .error e) : ∃ x ∈ stringsCommand kind c, tf x = .error e := by
  have hrem : ∀ e', interpUMapV tf c.rem = .error e' → ∃ x ∈ stringsCommand kind c, tf x = .error e' := by
    intro e' hr
    obtain ⟨y, hy, hye⟩ := interpUMapV_error tf e' _ hr
    exact ⟨y, by simp [stringsCommand, hy], hye⟩
  cases kind with
  | env =>
    rw [interpCommand_env_def] at h
    cases h1 : tf c.command with
    | error e' =>
      simp only [h1, Except.error.injEq] at h; subst h
      exact ⟨_, by simp [stringsCommand], h1⟩
    | ok a1 =>
    simp only [h1] at h
    cases h2 : tf c.label with
    | error e' =>
      simp only [h2, Except.error.injEq] at h; subst h
      exact ⟨_, by simp [stringsCommand], h2⟩
    | ok a2 =>
    simp only [h2] at h
    cases h3 : optM (interpPlugins tf) c.plugins with
    | error e' =>
      simp only [h3, Except.error.injEq] at h; subst h
      obtain ⟨y, hy, hye⟩ := optM_interpPlugins_error tf e' _ h3
      exact ⟨y, by simp [stringsCommand, hy], hye⟩
    | ok a3 =>
    simp only [h3] at h
    cases h4 : tf c.key with
    | error e' =>
      simp only [h4, Except.error.injEq] at h; subst h
      exact ⟨_, by simp [stringsCommand], h4⟩
    | ok a4 =>
    simp only [h4] at h
    cases h5 : interpUMapS tf c.env with
    | error e' =>
      simp only [h5, Except.error.injEq] at h; subst h
      obtain ⟨y, hy, hye⟩ := interpUMapS_error tf e' _ h5
      exact ⟨y, by simp [stringsCommand, hy], hye⟩
    | ok a5 =>
    simp only [h5] at h
    cases h6 : optM (interpMatrix .env tf) c.matrix with
    | error e' =>
      simp only [h6, Except.error.injEq] at h; subst h
      obtain ⟨m, hm, hme⟩ := optM_error _ _ _ h6
      obtain ⟨y, hy, hye⟩ := interpMatrix_error tf e' m hme
      exact ⟨y, by simp [stringsCommand, hm, hy], hye⟩
    | ok a6 =>
    simp only [h6] at h
    cases h7 : optM (interpCache tf) c.cache with
    | error e' =>
      simp only [h7, Except.error.injEq] at h; subst h
      obtain ⟨k, hk, hke⟩ := optM_error _ _ _ h7
      obtain ⟨y, hy, hye⟩ := interpCache_error tf e' k hke
      exact ⟨y, by simp [stringsCommand, hk, hy], hye⟩
    | ok a7 =>
    simp only [h7] at h
    cases h8 : interpUMapV tf c.rem with
    | error e' => simp only [h8, Except.error.injEq] at h; subst h; exact hrem _ h8
    | ok a8 => simp [h8] at h
  | matrix =>
    rw [interpCommand_matrix_def] at h
    cases h1 : tf c.command with
    | error e' =>
      simp only [h1, Except.error.injEq] at h; subst h
      exact ⟨_, by simp [stringsCommand], h1⟩
    | ok a1 =>
    simp only [h1] at h
    cases h2 : tf c.label with
    | error e' =>
      simp only [h2, Except.error.injEq] at h; subst h
      exact ⟨_, by simp [stringsCommand], h2⟩
    | ok a2 =>
    simp only [h2] at h
    cases h3 : optM (interpPlugins tf) c.plugins with
    | error e' =>
      simp only [h3, Except.error.injEq] at h; subst h
      obtain ⟨y, hy, hye⟩ := optM_interpPlugins_error tf e' _ h3
      exact ⟨y, by simp [stringsCommand, hy], hye⟩
    | ok a3 =>
    simp only [h3] at h
    cases h5 : interpValuesS tf c.env with
    | error e' =>
      simp only [h5, Except.error.injEq] at h; subst h
      obtain ⟨y, hy, hye⟩ := interpValuesS_error tf e' _ h5
      refine ⟨y, ?_, hye⟩
      simp only [stringsCommand, List.mem_cons, List.mem_append]
      exact .inl (.inr hy)
    | ok a5 =>
    simp only [h5] at h
    cases h8 : interpUMapV tf c.rem with
    | error e' => simp only [h8, Except.error.injEq] at h; subst h; exact hrem _ h8
    | ok a8 => simp [h8] at h

theorem interpCommand_signature (kind : TfKind) (tf : String → Except E String) (c c' : CommandStep)
    (h : interpCommand kind tf c = .ok c') : c'.signature = c.signature := by
  cases kind with
  | env =>
    rw [interpCommand_env_def] at h
    repeat' split at h
    all_goals first | (cases h; rfl) | cases h
  | matrix =>
    rw [interpCommand_matrix_def] at h
    repeat' split at h
    all_goals first | (cases h; rfl) | cases h

theorem interpCommand_matrix_scope (tf : String → Except E String) (c c' : CommandStep)
    (h : interpCommand .matrix tf c = .ok c') :
    c'.key = c.key ∧ c'.matrix = c.matrix ∧ c'.signature = c.signature ∧ c'.cache = c.cache ∧
    c'.env.map (·.map (·.1)) = c.env.map (·.map (·.1)) := by
  rw [interpCommand_matrix_def] at h
  cases h1 : tf c.command with
  | error e' => simp [h1] at h
  | ok a1 =>
  simp only [h1] at h
  cases h2 : tf c.label with
  | error e' => simp [h2] at h
  | ok a2 =>
  simp only [h2] at h
  cases h3 : optM (interpPlugins tf) c.plugins with
  | error e' => simp [h3] at h
  | ok a3 =>
  simp only [h3] at h
  cases h5 : interpValuesS tf c.env with
  | error e' => simp [h5] at h
  | ok a5 =>
  simp only [h5] at h
  cases h8 : interpUMapV tf c.rem with
  | error e' => simp [h8] at h
  | ok a8 =>
    simp only [h8, Except.ok.injEq] at h; subst h
    exact ⟨rfl, rfl, rfl, rfl, interpValuesS_keys tf _ _ h5⟩

/-! ## Steps -/

/-! Equation lemmas (the equation compiler fails to generate them for `interpStep`). -/

theorem interpStep_command (kind : TfKind) (tf : String → Except E String) (c : CommandStep) :
    interpStep kind tf (.command c) = (interpCommand kind tf c).map .command := rfl
theorem interpStep_wait (kind : TfKind) (tf : String → Except E String) (s : String) (c : UMap Val) :
    interpStep kind tf (.wait s c) = (interpUMapV tf c).map (.wait s) := rfl
theorem interpStep_input (kind : TfKind) (tf : String → Except E String) (s : String) (c : UMap Val) :
    interpStep kind tf (.input s c) = (interpUMapV tf c).map (.input s) := rfl
theorem interpStep_trigger (kind : TfKind) (tf : String → Except E String) (c : UMap Val) :
    interpStep kind tf (.trigger c) = (interpUMapV tf c).map .trigger := rfl
theorem interpStep_unknown (kind : TfKind) (tf : String → Except E String) (v : Val) :
    interpStep kind tf (.unknown v) = (interpVal tf v).map .unknown := rfl
theorem interpStep_group_none (kind : TfKind) (tf : String → Except E String) (k : String) (g : Option String)
    (r : UMap Val) :
    interpStep kind tf (.group k g none r) =
      match tf k with
      | .error e => .error e
      | .ok k' =>
        match optM tf g with
        | .error e => .error e
        | .ok g' =>
          match interpUMapV tf r with
          | .error e => .error e
          | .ok r' => .ok (.group k' g' none r') := rfl
theorem interpStep_group_some (kind : TfKind) (tf : String → Except E String) (k : String) (g : Option String)
    (l : List Step) (r : UMap Val) :
    interpStep kind tf (.group k g (some l) r) =
      match tf k with
      | .error e => .error e
      | .ok k' =>
        match optM tf g with
        | .error e => .error e
        | .ok g' =>
          match interpSteps kind tf l with
          | .error e => .error e
          | .ok l' =>
            match interpUMapV tf r with
            | .error e => .error e
            | .ok r' => .ok (.group k' g' (some l') r') := by
  show ((match tf k with
      | .error e => .error e
      | .ok k' =>
        match optM tf g with
        | .error e => .error e
        | .ok g' =>
          match (interpSteps kind tf l).map some with
          | .error e => .error e
          | .ok ss' =>
            match interpUMapV tf r with
            | .error e => .error e
            | .ok r' => .ok (.group k' g' ss' r')) : Except E Step) = _
  cases interpSteps kind tf l <;> rfl
theorem interpSteps_nil (kind : TfKind) (tf : String → Except E String) :
    interpSteps kind tf [] = .ok [] := rfl
theorem interpSteps_cons (kind : TfKind) (tf : String → Except E String) (s : Step) (r : List Step) :
    interpSteps kind tf (s :: r) =
      match interpStep kind tf s with
      | .error e => .error e
      | .ok s' =>
        match interpSteps kind tf r with
        | .error e => .error e
        | .ok r' => .ok (s' :: r') := rfl

mutual
  theorem interpStep_eq (kind : TfKind) (g : String → String) : (s : Step) → NoCollideStep' g s →
      interpStep kind (pureTf E g) s = .ok (mapStep g kind s)
    | .command c, h => by
      have h' : NoCollideCommand' g c := h
      rw [interpStep_command]
      cases kind with
      | env => rw [interpCommand_env_eq g c h']; rfl
      | matrix => rw [interpCommand_matrix_eq g c h']; rfl
    | .wait s c, h => by
      have h' : NoCollideUMapV' g c := h
      rw [interpStep_wait, interpUMapV_eq g c h']; rfl
    | .input s c, h => by
      have h' : NoCollideUMapV' g c := h
      rw [interpStep_input, interpUMapV_eq g c h']; rfl
    | .trigger c, h => by
      have h' : NoCollideUMapV' g c := h
      rw [interpStep_trigger, interpUMapV_eq g c h']; rfl
    | .group k gr none r, h => by
      have h' : True ∧ NoCollideUMapV' g r := h
      have hg : optM (pureTf E g) gr = .ok (gr.map g) := optM_eq _ _ _ (fun _ _ => rfl)
      rw [interpStep_group_none]
      simp only [hg, interpUMapV_eq g r h'.2, pureTf]
      rfl
    | .group k gr (some l) r, h => by
      have h' : NoCollideSteps' g l ∧ NoCollideUMapV' g r := h
      have hg : optM (pureTf E g) gr = .ok (gr.map g) := optM_eq _ _ _ (fun _ _ => rfl)
      rw [interpStep_group_some]
      simp only [hg, interpUMapV_eq g r h'.2, interpSteps_eq kind g l h'.1, pureTf]
      rfl
    | .unknown v, h => by
      have h' : NoCollideVal' g v := h
      rw [interpStep_unknown, interpVal_eq g v h']; rfl

  theorem interpSteps_eq (kind : TfKind) (g : String → String) : (l : List Step) → NoCollideSteps' g l →
      interpSteps kind (pureTf E g) l = .ok (mapSteps g kind l)
    | [], _ => rfl
    | s :: r, h => by
      have h' : NoCollideStep' g s ∧ NoCollideSteps' g r := h
      rw [interpSteps_cons]
      simp only [interpStep_eq kind g s h'.1, interpSteps_eq kind g r h'.2]
      rfl
end

theorem interpPipelineRest_eq (g : String → String) (p : Pipeline)
    (hs : ∀ l, p.steps = some l → NoCollideSteps' g l) (hr : NoCollideUMapV' g p.rem) :
    interpPipelineRest (pureTf E g) p = .ok (mapPipelineRest g p) := by
  have h1 : optM (interpSteps .env (pureTf E g)) p.steps = .ok (p.steps.map (mapSteps g .env)) :=
    optM_eq _ _ _ (fun l hl => interpSteps_eq .env g l (hs l hl))
  simp only [interpPipelineRest, h1, interpUMapV_eq g p.rem hr, mapPipelineRest]

/-! ## Structure: step kinds are preserved -/

theorem interpStep_tag (kind : TfKind) (tf : String → Except E String) (s s' : Step)
    (h : interpStep kind tf s = .ok s') : stepTag s' = stepTag s := by
  cases s with
  | command c => rw [interpStep_command] at h; obtain ⟨_, _, rfl⟩ := map_eq_ok h; rfl
  | wait x c => rw [interpStep_wait] at h; obtain ⟨_, _, rfl⟩ := map_eq_ok h; rfl
  | input x c => rw [interpStep_input] at h; obtain ⟨_, _, rfl⟩ := map_eq_ok h; rfl
  | trigger c => rw [interpStep_trigger] at h; obtain ⟨_, _, rfl⟩ := map_eq_ok h; rfl
  | unknown v => rw [interpStep_unknown] at h; obtain ⟨_, _, rfl⟩ := map_eq_ok h; rfl
  | group k g ss r =>
    cases ss with
    | none =>
      rw [interpStep_group_none] at h
      repeat' split at h
      all_goals first | (cases h; rfl) | cases h
    | some l =>
      rw [interpStep_group_some] at h
      repeat' split at h
      all_goals first | (cases h; rfl) | cases h

theorem interpSteps_tags (kind : TfKind) (tf : String → Except E String) (l l' : List Step)
    (h : interpSteps kind tf l = .ok l') : l'.map stepTag = l.map stepTag := by
  induction l generalizing l' with
  | nil => rw [interpSteps_nil] at h; cases h; rfl
  | cons s r ih =>
    rw [interpSteps_cons] at h
    cases hs : interpStep kind tf s with
    | error e => simp [hs] at h
    | ok s' =>
      simp only [hs] at h
      cases hr : interpSteps kind tf r with
      | error e => simp [hr] at h
      | ok r' =>
        simp only [hr, Except.ok.injEq] at h; subst h
        simp [interpStep_tag kind tf s s' hs, ih r' hr]

/-! ## Errors at step level -/

theorem stringsStep_group (kind : TfKind) (k : String) (g : Option String) (ss : Option (List Step)) (r : UMap Val) :
    stringsStep kind (.group k g ss r) =
      k :: (g.toList ++ (match ss with | none => [] | some l => stringsSteps kind l) ++ stringsUMapV r) := by
  cases ss <;> rfl

theorem stringsSteps_cons (kind : TfKind) (s : Step) (r : List Step) :
    stringsSteps kind (s :: r) = stringsStep kind s ++ stringsSteps kind r := rfl

mutual
  theorem interpStep_error (kind : TfKind) (tf : String → Except E String) : (s : Step) → (e : E) →
      interpStep kind tf s = .error e → ∃ x ∈ stringsStep kind s, tf x = .error e
    | .command c, e, h => by
      rw [interpStep_command] at h
      exact interpCommand_error kind tf e c (map_eq_error h)
    | .wait _ c, e, h => by
      rw [interpStep_wait] at h
      exact interpUMapV_error tf e c (map_eq_error h)
    | .input _ c, e, h => by
      rw [interpStep_input] at h
      exact interpUMapV_error tf e c (map_eq_error h)
    | .trigger c, e, h => by
      rw [interpStep_trigger] at h
      exact interpUMapV_error tf e c (map_eq_error h)
    | .unknown v, e, h => by
      rw [interpStep_unknown] at h
      exact interpVal_error tf e v (map_eq_error h)
    | .group k g none r, e, h => by
      rw [interpStep_group_none] at h
      rw [stringsStep_group]
      cases h1 : tf k with
      | error e' =>
        simp only [h1, Except.error.injEq] at h; subst h
        exact ⟨k, by simp, h1⟩
      | ok k' =>
      simp only [h1] at h
      cases h2 : optM tf g with
      | error e' =>
        simp only [h2, Except.error.injEq] at h; subst h
        obtain ⟨a, rfl, ha⟩ := optM_error _ _ _ h2
        exact ⟨a, by simp, ha⟩
      | ok g' =>
      simp only [h2] at h
      cases h4 : interpUMapV tf r with
      | error e' =>
        simp only [h4, Except.error.injEq] at h; subst h
        obtain ⟨y, hy, hye⟩ := interpUMapV_error tf e' _ h4
        exact ⟨y, by simp [hy], hye⟩
      | ok r' => simp [h4] at h
    | .group k g (some l) r, e, h => by
      rw [interpStep_group_some] at h
      rw [stringsStep_group]
      cases h1 : tf k with
      | error e' =>
        simp only [h1, Except.error.injEq] at h; subst h
        exact ⟨k, by simp, h1⟩
      | ok k' =>
      simp only [h1] at h
      cases h2 : optM tf g with
      | error e' =>
        simp only [h2, Except.error.injEq] at h; subst h
        obtain ⟨a, rfl, ha⟩ := optM_error _ _ _ h2
        exact ⟨a, by simp, ha⟩
      | ok g' =>
      simp only [h2] at h
      cases h3 : interpSteps kind tf l with
      | error e' =>
        simp only [h3, Except.error.injEq] at h; subst h
        obtain ⟨y, hy, hye⟩ := interpSteps_error kind tf l e' h3
        exact ⟨y, by simp [hy], hye⟩
      | ok l' =>
      simp only [h3] at h
      cases h4 : interpUMapV tf r with
      | error e' =>
        simp only [h4, Except.error.injEq] at h; subst h
        obtain ⟨y, hy, hye⟩ := interpUMapV_error tf e' _ h4
        exact ⟨y, by simp [hy], hye⟩
      | ok r' => simp [h4] at h

  theorem interpSteps_error (kind : TfKind) (tf : String → Except E String) : (l : List Step) → (e : E) →
      interpSteps kind tf l = .error e → ∃ x ∈ stringsSteps kind l, tf x = .error e
    | [], e, h => by rw [interpSteps_nil] at h; cases h
    | s :: r, e, h => by
      rw [interpSteps_cons] at h
      rw [stringsSteps_cons]
      cases hs : interpStep kind tf s with
      | error e' =>
        simp only [hs, Except.error.injEq] at h; subst h
        obtain ⟨y, hy, hye⟩ := interpStep_error kind tf s e' hs
        exact ⟨y, List.mem_append_left _ hy, hye⟩
      | ok s' =>
        simp only [hs] at h
        cases hr : interpSteps kind tf r with
        | error e' =>
          simp only [hr, Except.error.injEq] at h; subst h
          obtain ⟨y, hy, hye⟩ := interpSteps_error kind tf r e' hr
          exact ⟨y, List.mem_append_right _ hy, hye⟩
        | ok r' => simp [hr] at h
end

/-- If every string handed to the transformer expands, the call succeeds (contrapositive of
    `interpStep_error`). -/
theorem interpStep_ok (kind : TfKind) (tf : String → Except E String) (s : Step)
    (h : ∀ x ∈ stringsStep kind s, ∃ y, tf x = .ok y) : ∃ s', interpStep kind tf s = .ok s' := by
  apply ok_of_no_error
  intro e he
  obtain ⟨x, hx, hxe⟩ := interpStep_error kind tf s e he
  obtain ⟨y, hy⟩ := h x hx
  rw [hy] at hxe
  cases hxe

/-! ## The counterexample to plain image-distinctness (see the header) -/

/-- `a ↦ b`, `b ↦ c`: images of the keys `a, b` are distinct, yet the entry `b` is lost. -/
def cexG : String → String := fun s => if s = "a" then "b" else if s = "b" then "c" else s
def cexV : Val := .omap [("a", .str "x"), ("b", .str "y")]

/-- info: Except.ok (GoPipeline.Val.omap [("b", GoPipeline.Val.str "x")]) -/
#guard_msgs in
#eval interpVal (pureTf Unit cexG) cexV

/-- info: GoPipeline.Val.omap [("b", GoPipeline.Val.str "x"), ("c", GoPipeline.Val.str "y")] -/
#guard_msgs in
#eval mapVal cexG cexV

end GoPipeline.Interp
